/-
C10 — switch and fork conditions evaluate exactly as written in the configuration.
Property theorems only; helper lemmas are in KVerif/Lemmas/Switch*.lean.
-/
import KVerif.Lemmas.SwitchChk
import KVerif.Gen.Consts
import KVerif.Model.Layout
namespace KVerif.Switch

/-- **eval_compile** (full).  For every key-match list `es` in which every operator has at least one
operand, whose leaves are in the ranges the opcode constructors assert, nested no deeper than the
evaluator's 8-slot stack allows and with end indices that fit the 12-bit field, and for every state
`env` of the layout, the evaluator run on the compiled opcodes returns — without a crash — exactly
the truth value the configuration text denotes. -/
theorem eval_compile (es : List BExpr) (env : Env)
    (hne : BExpr.NEList es) (hr : BExpr.InRangeList es)
    (hd : BExpr.depthList es ≤ MAX_BOOL_EXPR_DEPTH) (he : BExpr.EndsOKList 0 es) :
    evalOps (compileListAt 0 es) env = .ok (denTop env es) := by
  cases es with
  | nil => simp [evalOps, compileListAt, run, fuelFor, initSt, finish, denTop]
  | cons e r =>
    have hlay := layL_compile env (e :: r) [] [] hr (by simpa using he)
    simp only [List.nil_append, List.append_nil, List.length_nil] at hlay
    have hlen : (compileListAt 0 (e :: r)).length = BExpr.sizeList (e :: r) := compileListAt_length 0 _
    have hwf : (Cfg.go 0 (e :: r) .or [] true).WF (fetchRaw (compileListAt 0 (e :: r)) env) env :=
      ⟨by simp, hlay, hne, by simpa using hd, trivial, trivial, trivial⟩
    have := run_cfg (fetchRaw (compileListAt 0 (e :: r)) env) env (compileListAt 0 (e :: r)).length
      (fuelFor (compileListAt 0 (e :: r)).length) (Cfg.go 0 (e :: r) .or [] true) hwf
      (by simp [Cfg.final, endOf, hlen]) (by simp [Cfg.meas, fuelFor])
    simp only [Cfg.toSt, Nat.zero_add, stackOf, ← hlen] at this
    simp only [evalOps, initSt]
    rw [this]
    simp [Cfg.val, K, gval, denTop]

/-- **eval_parsed** (full).  Whatever opcode array the parser's compiler accepts for a key-match list
(its own length and depth checks are the only ones relied on), evaluating it gives the denotation. -/
theorem eval_parsed (es : List BExpr) (ops : List Nat) (env : Env)
    (hc : compileTop es = .ok ops) (hne : BExpr.NEList es) (hr : BExpr.InRangeList es) :
    evalOps ops env = .ok (denTop env es) := by
  obtain ⟨h1, h2, h3⟩ := compileTop_ok es ops hc
  subst h1
  exact eval_compile es env hne hr h2 h3

/-- **eval_no_crash**: in particular the depth `assert!`, the `expect` on two-word opcodes and the
`unreachable!` arms are never reached on parser output. -/
theorem eval_no_crash (es : List BExpr) (ops : List Nat) (env : Env)
    (hc : compileTop es = .ok ops) (hne : BExpr.NEList es) (hr : BExpr.InRangeList es) :
    ∃ b, evalOps ops env = .ok b := ⟨_, eval_parsed es ops env hc hne hr⟩

/-- Specification of case iteration: indices of the cases that fire, top to bottom; `break` stops,
`fallthrough` continues. -/
def specFiring (env : Env) : Nat → List (List BExpr × BrkFt) → List Nat
  | _, [] => []
  | i, (es, bf) :: rest =>
    if denTop env es then
      match bf with
      | .brk => [i]
      | .ft => i :: specFiring env (i + 1) rest
    else specFiring env (i + 1) rest

/-- **cases_spec** (full): `SwitchActions::next` run over parser-compiled cases yields exactly the
cases whose written condition is true, in order, stopping after the first firing `break`. -/
theorem cases_spec (env : Env) (cases : List (List BExpr × BrkFt)) (i : Nat)
    (h : ∀ c ∈ cases, BExpr.NEList c.1 ∧ BExpr.InRangeList c.1 ∧
      BExpr.depthList c.1 ≤ MAX_BOOL_EXPR_DEPTH ∧ BExpr.EndsOKList 0 c.1) :
    firing (fun ops => evalOps ops env) i (cases.map fun c => (compileListAt 0 c.1, c.2)) =
      .ok (specFiring env i cases) := by
  induction cases generalizing i with
  | nil => rfl
  | cons c rest ih =>
    obtain ⟨es, bf⟩ := c
    obtain ⟨h1, h2, h3, h4⟩ := h (es, bf) (by simp)
    have ihr := fun j => ih j (fun c hc => h c (by simp [hc]))
    simp only [List.map_cons, firing, specFiring, eval_compile es env h1 h2 h3 h4]
    cases hden : denTop env es <;> cases bf <;> simp [ihr]

/-- **fires_iff** (full): case `k` fires iff its condition is true and no earlier case with a true
condition is a `break`. -/
theorem fires_iff (env : Env) (cases : List (List BExpr × BrkFt)) (i k : Nat) :
    k ∈ specFiring env i cases ↔
      ∃ j, k = i + j ∧ ∃ c, cases[j]? = some c ∧ denTop env c.1 = true ∧
        ∀ j' < j, ∀ c', cases[j']? = some c' → denTop env c'.1 = true → c'.2 = .ft := by
  induction cases generalizing i with
  | nil => simp [specFiring]
  | cons c rest ih =>
    obtain ⟨es, bf⟩ := c
    simp only [specFiring]
    constructor
    · intro hk
      by_cases hd : denTop env es = true
      · simp only [hd, if_true] at hk
        cases bf with
        | brk =>
          simp only [List.mem_singleton] at hk
          exact ⟨0, by omega, (es, .brk), by simp, hd, by intro j' hj'; omega⟩
        | ft =>
          simp only [List.mem_cons] at hk
          rcases hk with hk | hk
          · exact ⟨0, by omega, (es, .ft), by simp, hd, by intro j' hj'; omega⟩
          · obtain ⟨j, hj, c, hc, hdc, hall⟩ := (ih (i + 1)).mp hk
            refine ⟨j + 1, by omega, c, by simpa using hc, hdc, ?_⟩
            intro j' hj' c' hc' hd'
            cases j' with
            | zero => simp at hc'; subst hc'; rfl
            | succ j'' => exact hall j'' (by omega) c' (by simpa using hc') hd'
      · simp only [hd] at hk
        obtain ⟨j, hj, c, hc, hdc, hall⟩ := (ih (i + 1)).mp hk
        refine ⟨j + 1, by omega, c, by simpa using hc, hdc, ?_⟩
        intro j' hj' c' hc' hd'
        cases j' with
        | zero => simp at hc'; subst hc'; exact absurd hd' hd
        | succ j'' => exact hall j'' (by omega) c' (by simpa using hc') hd'
    · rintro ⟨j, hj, c, hc, hdc, hall⟩
      cases j with
      | zero =>
        simp at hc; subst hc
        simp only [hdc, if_true]
        cases bf <;> simp [hj]
      | succ j' =>
        have h0 := hall 0 (by omega) (es, bf) (by simp)
        have hrest : k ∈ specFiring env (i + 1) rest :=
          (ih (i + 1)).mpr ⟨j', by omega, c, by simpa using hc, hdc,
            fun j'' hj'' c' hc' hd' => hall (j'' + 1) (by omega) c' (by simpa using hc') hd'⟩
        by_cases hd : denTop env es = true
        · have := h0 hd
          simp only at this; subst this
          simp [hd, hrest]
        · simp [hd, hrest]

/-- The thresholds a `key-timing` test really compares with (lossy compression), for all 65 536
values, by arithmetic. -/
theorem eff_threshold_bounds (t : Nat) (ht : t < 65536) :
    effTicks t ≤ t ∧ (t ≤ 255 → effTicks t = t) ∧ (t ≤ 2303 → t ≤ effTicks t + 7) ∧
      t ≤ effTicks t + 127 := by
  unfold effTicks lossyCompress lossyDecompress
  split
  · simp_all
  · split
    · split <;> (try split) <;> omega
    · split <;> (try split) <;> omega

/-- **fork_spec** (full): fork takes its right branch iff one of its trigger keys is among the
active key codes (`fork` is modelled in `Model.Layout`; this is the decision it takes). -/
def forkRight (active : List Nat) (triggers : List Nat) : Bool := active.any (triggers.contains ·)

theorem fork_spec (active triggers : List Nat) :
    forkRight active triggers = true ↔ ∃ k, k ∈ active ∧ k ∈ triggers := by
  simp [forkRight, List.any_eq_true]

/-- **consts_from_source**: the constants the model uses are the ones in the source tree now
(`KVerif.Gen.Consts` is regenerated from /repo on every run). -/
theorem consts_from_source :
    KEY_MAX = Gen.KEY_MAX ∧ MAX_OPCODE_LEN = Gen.SW_MAX_OPCODE_LEN ∧
    MAX_BOOL_EXPR_DEPTH = Gen.SW_MAX_BOOL_EXPR_DEPTH ∧ OR_VAL = Gen.SW_OR_VAL ∧
    AND_VAL = Gen.SW_AND_VAL ∧ NOT_VAL = Gen.SW_NOT_VAL ∧ INPUT_VAL = Gen.SW_INPUT_VAL ∧
    HISTORICAL_INPUT_VAL = Gen.SW_HISTORICAL_INPUT_VAL ∧ LAYER_VAL = Gen.SW_LAYER_VAL ∧
    BASE_LAYER_VAL = Gen.SW_BASE_LAYER_VAL ∧ TICKS_SINCE_VAL_GT = Gen.SW_TICKS_SINCE_VAL_GT ∧
    TICKS_SINCE_VAL_LT = Gen.SW_TICKS_SINCE_VAL_LT ∧
    HISTORICAL_KEYCODE_VAL = Gen.SW_HISTORICAL_KEYCODE_VAL ∧ Gen.SW_OP_MASK = 0xF000 ∧
    Gen.SW_MAX_KEY_RECENCY = 7 ∧ Gen.ACTION_QUEUE_LEN = 8 ∧ Gen.MAX_LAYERS = 60000 ∧
    Gen.lossyArmsAsModelled = true := by decide

/-! ### The pinned code was wrong (kept as documentation of the repaired defect) -/

/-- `((not (or a)) b)` with nothing active: the pinned evaluator says `false`, the text says `true`. -/
def witnessExpr : List BExpr :=
  [.node .not [.node .or [.leaf (.key 4)]], .leaf (.key 5)]
def witnessEnv : Env :=
  { activeKeys := [], activeCoords := [], histKeys := [], histCoords := [], layers := [], defaultLayer := 0 }

theorem pinned_counterexample :
    evalOpsPinned (compileListAt 0 witnessExpr) witnessEnv = .ok false ∧
      denTop witnessEnv witnessExpr = true ∧
      evalOps (compileListAt 0 witnessExpr) witnessEnv = .ok true := ⟨rfl, rfl, rfl⟩

/-! ### Non-vacuity: a deep, non-trivial expression meets every hypothesis -/

def sampleExpr : List BExpr :=
  [.node .and [.leaf (.key 30), .node .not [.node .or [.leaf (.ticksLt 0 300), .leaf (.input 1 7)]],
     .node .or [.node .and [.node .not [.node .or [.node .and [.node .not [.leaf (.layer 2)]]]]]]],
   .leaf (.baseLayer 1)]

example : BExpr.NEList sampleExpr := by
  simp [sampleExpr, BExpr.NEList, BExpr.NE]
example : BExpr.InRangeList sampleExpr := by
  simp [sampleExpr, BExpr.InRangeList, BExpr.InRange, Leaf.InRange, KEY_MAX]
example : BExpr.depthList sampleExpr = 8 := by
  simp [sampleExpr, BExpr.depthList, BExpr.depth]
example : BExpr.EndsOKList 0 sampleExpr := by
  simp [sampleExpr, BExpr.EndsOKList, BExpr.EndsOK, BExpr.sizeList, BExpr.size, Leaf.width,
    MAX_OPCODE_LEN]
example : ∃ ops, compileTop sampleExpr = .ok ops := by
  simp [compileTop, sampleExpr, compileChkList, compileChk, MAX_OPCODE_LEN, MAX_BOOL_EXPR_DEPTH,
    Leaf.encode]

end KVerif.Switch


/-! ## Layout level: where `fork` and `switch` get their operands, and what is done with the result

`Model/Layout.lean` transcribes `Layout::do_action`; the theorems below are about that transcription
(tied to the code by the layout-level correspondence cases of this check and of C01/C04/LALL). -/
namespace KVerif.L
open KVerif.Switch (BExpr BrkFt denTop compileListAt evalOps MAX_BOOL_EXPR_DEPTH)

/-- **fork_reads_active_keys** (full): the test the `Fork` arm makes is "some trigger key is among
the key codes the layout currently reports" — `Layout::keycodes`, i.e. every key state, whether a
physical key, a one-shot, a virtual key or a running macro put it there. -/
theorem fork_reads_active_keys (s : Layout) (triggers : List KeyCode) :
    forkHit s triggers = true ↔ ∃ kc, kc ∈ s.keycodes ∧ kc ∈ triggers := by
  unfold forkHit Layout.keycodes
  simp only [List.any_eq_true, List.mem_filterMap]
  constructor
  · rintro ⟨st, hst, h⟩
    cases st <;> simp_all [St.keycode] <;> exact ⟨_, ⟨_, hst, rfl⟩, h⟩
  · rintro ⟨kc, ⟨st, hst, hk⟩, ht⟩
    refine ⟨st, hst, ?_⟩
    cases st <;> simp_all [St.keycode]

/-- **fork_takes_right_iff** (full): `fork` performs its right action iff a trigger key is active,
its left action otherwise — and nothing else (the only other effect is that the fork becomes the
action `rpt` repeats). -/
theorem fork_takes_right_iff (fuel : Nat) (s : Layout) (l r : Action) (triggers : List KeyCode)
    (coord : Coord) (delay : Nat) (os : Bool) (ls : List Nat) :
    dispatch (fuel + 1) s (.fork l r triggers) coord delay os ls =
      (match doAction fuel s (if (∃ kc, kc ∈ s.keycodes ∧ kc ∈ triggers) then r else l) coord delay false ls with
       | .error c => .error c
       | .ok (s', cu) => .ok ({ s' with rptAction := some (.fork l r triggers) }, cu)) := by
  have h := fork_reads_active_keys s triggers
  by_cases hh : forkHit s triggers = true
  · have : ∃ kc, kc ∈ s.keycodes ∧ kc ∈ triggers := h.mp hh
    simp only [dispatch, hh, this, if_true]
    rfl
  · have : ¬ ∃ kc, kc ∈ s.keycodes ∧ kc ∈ triggers := fun e => hh (h.mpr e)
    simp only [dispatch, hh, this, if_false]
    rfl

/-- **switch_reads_state** (full): the operands `switch` evaluates its conditions on are the
layout's own state at that moment: active keys = `Layout::keycodes`, active inputs = the coordinates
of the states, the two 8-deep histories, the active layers in lookup order and the base layer. -/
theorem switch_reads_state (s : Layout) (order : List Nat) :
    (switchEnv s order).activeKeys = s.keycodes ∧
    (switchEnv s order).activeCoords = s.states.filterMap St.coord ∧
    (switchEnv s order).histKeys = s.histKeys ∧ (switchEnv s order).histCoords = s.histInputs ∧
    (switchEnv s order).layers = order ∧ (switchEnv s order).defaultLayer = s.defaultLayer % 65536 :=
  ⟨rfl, rfl, rfl, rfl, rfl, rfl⟩

/-- the actions of the cases that fire, top to bottom; `break` stops -/
def specActions (env : Switch.Env) : List (List BExpr × Action × Bool) → List Action
  | [] => []
  | (es, a, brk) :: rest =>
    if denTop env es then (if brk then [a] else a :: specActions env rest) else specActions env rest

/-- **switch_actions_spec** (full): run over parser-compiled cases, the case iterator the `Switch`
arm drains yields exactly the actions of the cases whose written condition is true of the state, in
order, up to and including the first firing `break`. -/
theorem switch_actions_spec (env : Switch.Env) (cases : List (List BExpr × Action × Bool))
    (h : ∀ c ∈ cases, BExpr.NEList c.1 ∧ BExpr.InRangeList c.1 ∧
      BExpr.depthList c.1 ≤ MAX_BOOL_EXPR_DEPTH ∧ BExpr.EndsOKList 0 c.1) :
    switchActions (fun ops => evalOps ops env) (cases.map fun c => (compileListAt 0 c.1, c.2)) =
      .ok (specActions env cases) := by
  induction cases with
  | nil => rfl
  | cons c rest ih =>
    obtain ⟨es, a, brk⟩ := c
    obtain ⟨h1, h2, h3, h4⟩ := h (es, a, brk) (by simp)
    have ihr := ih (fun c hc => h c (by simp [hc]))
    simp only [List.map_cons, switchActions, specActions, Switch.eval_compile es env h1 h2 h3 h4]
    cases hden : denTop env es <;> cases brk <;> simp [ihr]

/-- pushing actions onto the 8-slot action queue, in order (the oldest entry is dropped when full) -/
def queueAll (coord : Coord) (aq : List (Coord × Nat × Action)) (acs : List Action) : List (Coord × Nat × Action) :=
  acs.foldl (fun aq a => (pushBackWrap ACTION_QUEUE_LEN aq (coord, 0, a)).1) aq

/-- **switch_queues_firing_actions** (full): the `Switch` arm hands every firing case's action, in
order, to the action queue (8 slots, the oldest is dropped when more are pushed), evaluated on the
state at that moment; it changes nothing else. -/
theorem switch_queues_firing_actions (fuel : Nat) (s : Layout) (order : List Nat)
    (cases : List (List BExpr × Action × Bool)) (coord : Coord) (delay : Nat) (os : Bool) (ls : List Nat)
    (ho : s.transOrder = .ok order)
    (h : ∀ c ∈ cases, BExpr.NEList c.1 ∧ BExpr.InRangeList c.1 ∧
      BExpr.depthList c.1 ≤ MAX_BOOL_EXPR_DEPTH ∧ BExpr.EndsOKList 0 c.1) :
    dispatch (fuel + 1) s (.switch (cases.map fun c => (compileListAt 0 c.1, c.2))) coord delay os ls =
      .ok ({ s with actionQueue := queueAll coord s.actionQueue (specActions (switchEnv s order) cases) }, .noEvent) := by
  simp only [dispatch, ho, switch_actions_spec (switchEnv s order) cases h, queueAll]

example (s : Layout) : forkHit { s with states := [.fakeKey 42] } [42, 54] = true := by simp [forkHit]
example (s : Layout) : forkHit { s with states := [.layerModifier 1 (0, 3)] } [42, 54] = false := by simp [forkHit]

end KVerif.L
