/-
C07, tie to the source (G3 of DESIGN.md): the kanata-level model's idle predicate and blocking decision
are the conjunction of EXACTLY the conjuncts that the current text of `Kanata::is_idle` and
`Kanata::can_block_update_idle_waiting` contains.  `Gen/IdleFields.lean` is rewritten from
src/kanata/mod.rs at the start of every check, so these theorems are re-checked against what the code
says now: a conjunct removed from the source, added to it, or rewritten makes one of them fail (or the
generated file stop elaborating), and the C07 check then searches for a history on which the blocking
loop and the always-ticking loop differ.
-/
import KVerif.Lemmas.IdleInterp
namespace KVerif.C07src
open KVerif.K KVerif.L KVerif.Gen.Idle

/-- **isIdle_interprets_source** (full): for every model state, the model's `isIdle` answers true iff
every conjunct found in the source of `Kanata::is_idle` holds of that state (conjuncts about components
outside this model are constantly true there).  Stated as an iff over membership, so a mere
re-ordering of the conjuncts in the source does not break it. -/
theorem isIdle_interprets_source (k : KState) :
    isIdle k = true ↔ ∀ t ∈ isIdleSrc, evalIdleTag k t = true := by
  simp only [isIdleSrc, List.mem_cons, List.not_mem_nil, or_false, forall_eq_or_imp, forall_eq,
    evalIdleTag, isIdle, isIdleBase, pressedKeysMeansNotIdle, Bool.and_eq_true, and_true, true_and]
  apply Iff.of_eq
  ac_rfl

/-- **idle_source_covers_model** (full): every conjunct that concerns a component of the model occurs
in the source - none has been dropped from `is_idle`. -/
theorem idle_source_covers_model : ∀ t : IdleTag, t.modelled = true → t ∈ isIdleSrc := by
  intro t h
  cases t <;> first | decide | exact absurd h (by decide)

/-- no conjunct occurs twice, and the one `let` in front is the definition the model uses -/
theorem idle_source_shape : isIdleSrc.Nodup ∧ isIdleLets = [.pressedKeysDef] := by decide

/-- **canBlock_interprets_source** (full): the decision `can_block_update_idle_waiting` returns is the
conjunction of exactly the conjuncts in its source; the statements in front of the returned expression
are the six the model transcribes (the last two concern chords v2 and the dynamic-macro recorder, which are outside this model), in that order; and the call leaves the layout alone. -/
theorem canBlock_interprets_source (k : KState) (ms : Nat) :
    ((canBlockUpdateIdleWaiting k ms).2 = true ↔ ∀ t ∈ canBlockSrc, evalBlockTag k t = true) ∧
    canBlockLets = [.cbLetIsIdle, .cbLetCounting, .cbUpdateTicksSinceIdle, .cbLetPassed, .cbLetChordsV2, .cbLetRecording] ∧
    (canBlockUpdateIdleWaiting k ms).1.layout = k.layout := by
  refine ⟨?_, by decide, (canBlock_layout k ms).1⟩
  rw [canBlock_decision]
  simp only [canBlockSrc, List.mem_cons, List.not_mem_nil, or_false, forall_eq_or_imp, forall_eq,
    evalBlockTag, Bool.and_eq_true, and_true]
  constructor
  · intro h; simp_all
  · intro h; simp_all

/-- a key held down, everything at rest (the state of Props/C07.lean's first example) -/
def heldKey : KState :=
  { layout := { cfg := { layers := [[]], srcKeys := [] }, states := [.normalKey 30 (0, 30) 0] },
    customs := [], keyOutputs := [[]], prevKeys := [30],
    mods := { codes := [42, 54, 56, 100, 29, 97, 125, 126], lsft := 42, rsft := 54 } }

/-- non-vacuity: that state satisfies every conjunct of the source, so the model says idle and the
decision is "block"; with an on-idle action waiting the same state is not idle, through the conjunct
about key states, and with a queued event any state is not idle, through the conjunct that says so -/
example : (∀ t ∈ isIdleSrc, evalIdleTag heldKey t = true) ∧ isIdle heldKey = true ∧
    (canBlockUpdateIdleWaiting heldKey 1).2 = true ∧
    evalIdleTag { heldKey with liveReloadRequested := true } .noSeqCustomOrCountedKeyState = false := by
  refine ⟨by decide, by decide, by decide, by decide⟩

example (k : KState) (q : Queued) (h : k.layout.queue = [q]) : isIdle k = false := by
  cases hi : isIdle k
  · rfl
  · have := (isIdle_interprets_source k).1 hi .queueEmpty (by decide)
    simp [evalIdleTag, h] at this

end KVerif.C07src
