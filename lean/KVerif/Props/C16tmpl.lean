/-
C16 — configuration abstractions are transparent: the three template theorems of `Props/C16.lean`
that were partial (`cond_loop_is_spec_partial`, `template_rewrite_neutral_partial`,
`expand_is_subst_partial`), at full strength.  Property theorems only; the lemmas are in
`Lemmas/CfgTreeHeadOnly.lean`, `Lemmas/CfgTreeCondFull.lean`, `Lemmas/CfgTreeAbstract.lean`,
`Lemmas/CfgTreeExpandFull.lean`; the model is `Model/CfgTree.lean` (it follows deftemplate.rs after
819344a and 589d367: `deftemplate` items are removed before the expansion loop runs, so a call
inside a template body is expanded when the body has been instantiated; parameters are substituted
in one simultaneous pass; the expanded list is built in one pass).

The unconditional statements `condLoop (size+1) ts = condSpec ts` and
`(∃ F, expandLoop F T ts = .ok r) ↔ (∃ f, expandSpec f T ts = .ok r)` are FALSE (counterexamples
below): an evaluation step may make an enclosing list start with a keyword, and the loops then treat
that list as a form on a later iteration.  They hold, in both directions, under a decidable
syntactic discipline: *keywords occur only as the first element of a list*.
-/
import KVerif.Lemmas.CfgTreeCondFull
import KVerif.Lemmas.CfgTreeAbstract
import KVerif.Lemmas.CfgTreeExpandCtx
namespace KVerif.CfgTree

/-! ## (3) the conditional loop computes the denotation -/

/-- **cond_loop_is_spec** (full, under `khList`).  For EVERY forest `ts` (any nesting, conditionals
inside lists, inside each other, in either branch) in which `if-equal`, `if-not-equal`, `if-in-list`
and `if-not-in-list` occur only as the first element of a list (`khList`, decidable), the loop
`while evaluate_conditionals(..)? {}` run for `size + 1` iterations
* returns `r` exactly when the denotation `condSpec` (`if_equal_spec` in `Props/C16.lean` says what
  it is on the four forms) is `r`;
* fails only with a diagnostic (never by exhausting the iterations — the fuel of the model is never
  the reason), and then the denotation fails as well;
* fails whenever the denotation fails.
The diagnostics themselves may differ (`cond_error_order_counterexample`): the loop finds malformed
forms level by level, the denotation depth first. -/
theorem cond_loop_is_spec (ts : List Tree) (hk : khList ts = true) :
    (∀ r, condLoop (sizeList ts + 1) ts = .ok r ↔ condSpec ts = .ok r) ∧
    (∀ e, condLoop (sizeList ts + 1) ts = .error e →
      (∃ w, e = .rej w) ∧ ∃ e', condSpec ts = .error e') ∧
    (∀ e', condSpec ts = .error e' → ∃ w, condLoop (sizeList ts + 1) ts = .error (.rej w)) := by
  have key := condLoop_spec (sizeList ts + 1) ts (Nat.lt_succ_self _) hk
  cases hc : condLoop (sizeList ts + 1) ts with
  | ok r0 =>
    rw [hc] at key
    simp only at key
    refine ⟨fun r => ?_, fun e h => (by cases h), fun e' h => ?_⟩
    · constructor
      · intro h; cases h; exact key
      · intro h; rw [key] at h; cases h; rfl
    · rw [key] at h; cases h
  | error e0 =>
    rw [hc] at key
    simp only at key
    obtain ⟨⟨w, rfl⟩, e1, h1⟩ := key
    refine ⟨fun r => ?_, fun e h => ?_, fun e' _ => ⟨w, rfl⟩⟩
    · constructor
      · intro h; cases h
      · intro h; rw [h1] at h; cases h
    · cases h; exact ⟨⟨w, rfl⟩, e1, h1⟩

/-- an instance: conditionals nested in lists and in each other, a malformed one in the branch that
is not taken, `if-in-list` looking through a nested list -/
example :
    let ts := [Tree.list [.atom "macro".toList,
        .list [.atom sIfEqual, .atom "x".toList, .atom "y".toList, .list [.atom sIfEqual]],
        .list [.atom sIfNotEqual, .atom "x".toList, .atom "y".toList, .atom "k".toList,
          .list [.atom sIfInList, .atom "m".toList, .list [.atom "n".toList, .list [.atom "m".toList]],
            .atom "j".toList]]]]
    khList ts = true ∧
    condLoop (sizeList ts + 1) ts = .ok [.list [.atom "macro".toList, .atom "k".toList, .atom "j".toList]] := by
  refine ⟨by decide, ?_⟩
  exact ((cond_loop_is_spec _ (by decide)).1 _).mpr (by decide)

/-- **cond_loop_head_counterexample**: the hypothesis of `cond_loop_is_spec` is needed.  In
`((if-equal a a if-equal) b b x)` the first sweep turns the outer list into `(if-equal b b x)`,
which the second sweep evaluates to `x`; the one-traversal denotation keeps `(if-equal b b x)`.
kanata: `(deftemplate f () ((if-equal a a if-equal) b b x))`, `(t! f)` yields `x`. -/
theorem cond_loop_head_counterexample :
    let ts := [Tree.list [.list [.atom sIfEqual, .atom "a".toList, .atom "a".toList, .atom sIfEqual],
      .atom "b".toList, .atom "b".toList, .atom "x".toList]]
    khList ts = false ∧
    condLoop (sizeList ts + 1) ts = .ok [.atom "x".toList] ∧
    condSpec ts = .ok [.list [.atom sIfEqual, .atom "b".toList, .atom "b".toList, .atom "x".toList]] := by
  decide

/-- **cond_error_order_counterexample**: with two malformed conditionals the loop and the
denotation both fail, but not with the same diagnostic, so the agreement on failures in
`cond_loop_is_spec` cannot be an equation.  `(if-equal a a (if-equal))  (if-equal (x) y)`: the
denotation reaches the inner `(if-equal)` first, the loop reports the second form in its first
sweep. -/
theorem cond_error_order_counterexample :
    let ts := [Tree.list [.atom sIfEqual, .atom "a".toList, .atom "a".toList, .list [.atom sIfEqual]],
      .list [.atom sIfEqual, .list [.atom "x".toList], .atom "y".toList]]
    khList ts = true ∧
    condSpec ts = rej "expects a string comparand as the first parameter" ∧
    condLoop (sizeList ts + 1) ts = rej "comparands must be strings" := by
  decide

/-! ## (1) `expand` is substitution -/

/-- **expand_is_subst** (full, under `headSafe`).  `headSafe T ts` (decidable): in every list of
the configuration `ts` and of every template body of `T`, the atoms `template-expand`, `t!` and
`concat` occur only as the first element (`concat` not even there), and they are not items directly
in a template body.  Then, for ALL such tables and configurations — calls at any nesting depth,
arguments containing further calls, templates calling templates, conditionals — the loop of `expand`
ends with `r` for some amount of stack/iterations exactly when substituting instantiated bodies for
calls, everywhere and recursively (`expandSpec`), ends with `r`; and `r` contains no unexpanded call.
Consequently the loop yields no result (a diagnostic of the call or of an expansion limit — in this
model: no amount of fuel suffices) exactly when the substitution semantics yields none. -/
theorem expand_is_subst (T : List Template) (ts : List Tree) (h : headSafe T ts = true) :
    (∀ r, (∃ F, expandLoop F T ts = .ok r) ↔ (∃ f, expandSpec f T ts = .ok r)) ∧
    (∀ F r, expandLoop F T ts = .ok r → nfList r = true) ∧
    ((∀ F r, expandLoop F T ts ≠ .ok r) ↔ (∀ f r, expandSpec f T ts ≠ .ok r)) := by
  refine ⟨expandLoop_iff_spec T ts h, expandLoop_result_nf T ts h, ?_⟩
  constructor
  · intro hl f r hf
    obtain ⟨F, hF⟩ := (expandLoop_iff_spec T ts h r).mpr ⟨f, hf⟩
    exact hl F r hF
  · intro hs F r hF
    obtain ⟨f, hf⟩ := (expandLoop_iff_spec T ts h r).mp ⟨F, hF⟩
    exact hs f r hf

/-- **instantiate_is_subst**: what a call with the right number of arguments is replaced by —
the body with all parameters substituted at once, `concat` lists joined, then the conditional loop.
Under the discipline there is no `concat` to join; if moreover the conditional keywords are in head
position in the substituted body, the loop is the denotation `condSpec` (`cond_loop_is_spec`). -/
theorem instantiate_is_subst (T : List Template) (hd : Tree) (name : Str) (args : List Tree)
    (tpl : Template) (hT : findTemplate name T = some tpl) (hlen : args.length = tpl.params.length) :
    let body := substList tpl.params args tpl.content
    instantiate T (hd :: .atom name :: args) =
      condLoop (sizeList (concatList body) + 1) (concatList body) ∧
    (tmplSafe T = true → hoTree xBadH xBadT (.list (hd :: .atom name :: args)) = true →
      concatList body = body ∧
      (khList body = true → ∀ r,
        instantiate T (hd :: .atom name :: args) = .ok r ↔ condSpec body = .ok r)) := by
  intro body
  have h0 : instantiate T (hd :: .atom name :: args) =
      condLoop (sizeList (concatList body) + 1) (concatList body) := by
    simp only [instantiate, hT, hlen, ne_eq, not_true_eq_false, if_false, body]
  refine ⟨h0, fun hs hl => ?_⟩
  have hb : xho body = true := by
    rw [hoTree_list] at hl
    simp only [Bool.and_eq_true, List.tail_cons, hoList, freeTop] at hl
    have hmem := tmplSafe_mem T tpl hs (findTemplate_mem name T tpl hT)
    exact (substList_ho tpl.params args hl.2.2.2 hl.1.2.2 tpl.content hmem.1).1
  have hc := concatList_id_xho body hb
  refine ⟨hc, fun hk r => ?_⟩
  rw [h0, hc]
  exact (cond_loop_is_spec body hk).1 r

/-- **expand_call_is_body** (full, under `headSafe`): the statement of `expand_is_subst` for one
call.  In a configuration `fc[(kwd name a₁…aₙ)]` — the call at any depth, not inside the arguments
of another call; the arguments may contain calls — with `n` the number of parameters, if the
instantiated body (`instantiate_is_subst`) is `B`, then `expand` takes the configuration to `r`
exactly when it takes the configuration with `B` spliced in place of the call to `r`. -/
theorem expand_call_is_body (T : List Template) (l B : List Tree) (fc : FCtx) (hfc : fc.Plain)
    (hh : isExpandHead l = true) (hi : instantiate T l = .ok B)
    (hs : headSafe T (fc.fill [.list l]) = true) (r : List Tree) :
    headSafe T (fc.fill B) = true ∧
    ((∃ F, expandLoop F T (fc.fill [.list l]) = .ok r) ↔ (∃ F, expandLoop F T (fc.fill B) = .ok r)) := by
  have hs' := hs
  simp only [headSafe, Bool.and_eq_true] at hs'
  have hl : hoTree xBadH xBadT (.list l) = true := by
    have := xho_of_fill fc [.list l] hs'.2
    simp only [xho, hoList, Bool.and_true] at this
    exact this
  obtain ⟨b1, b2⟩ := instantiate_xho T l B hs'.1 hl hi
  have hsB : headSafe T (fc.fill B) = true := by
    simp only [headSafe, Bool.and_eq_true]
    exact ⟨hs'.1, xho_fill fc [.list l] B hs'.2 b1 b2⟩
  refine ⟨hsB, ?_⟩
  rw [expandLoop_iff_spec T _ hs r, expandLoop_iff_spec T _ hsB r]
  exact Expands.fill_call hh hi fc hfc r

section example_expand
/-- `(deftemplate k (x) (macro $x (t! d $x)))  (deftemplate d (y) (if-equal $y a A) (if-not-equal $y a $y))` -/
private def exT2 : List Template :=
  [{ name := "d".toList, params := ["y".toList],
     content := [.list [.atom sIfEqual, .atom "$y".toList, .atom "a".toList, .atom "A".toList],
                 .list [.atom sIfNotEqual, .atom "$y".toList, .atom "a".toList, .atom "$y".toList]] },
   { name := "k".toList, params := ["x".toList],
     content := [.list [.atom "macro".toList, .atom "$x".toList,
       .list [.atom sTBang, .atom "d".toList, .atom "$x".toList]]] }]
/-- `(deflayer l0 (t! k a) ((t! k b) c))`: calls at two depths, one at the head of a list, a
template calling a template -/
private def exCfg : List Tree :=
  [.list [.atom "deflayer".toList, .atom "l0".toList,
    .list [.atom sTBang, .atom "k".toList, .atom "a".toList],
    .list [.list [.atom sTBang, .atom "k".toList, .atom "b".toList], .atom "c".toList]]]

/-- the hypothesis of `expand_is_subst` holds for it, and the loop computes the substitution result -/
example : headSafe exT2 exCfg = true ∧
    ∃ F, expandLoop F exT2 exCfg = .ok [.list [.atom "deflayer".toList, .atom "l0".toList,
      .list [.atom "macro".toList, .atom "a".toList, .atom "A".toList],
      .list [.list [.atom "macro".toList, .atom "b".toList, .atom "b".toList], .atom "c".toList]]] :=
  ⟨by decide, ((expand_is_subst exT2 exCfg (by decide)).1 _).mpr ⟨8, by decide⟩⟩
end example_expand

/-- **expand_head_counterexample**: the hypothesis of `expand_is_subst` is needed, and without it
`expand` is not even compositional.  kanata:
`(deftemplate f () t!) (deftemplate m (x) $x) (deftemplate g () (z))`.  In `((t! f) m a)` the inner
call expands to the atom `t!`, so the enclosing list becomes `(t! m a)`.  On its own `expand` leaves
it that way (the enclosing level saw no call, its loop stops), and so does the substitution
semantics; next to a sibling call `(t! g)`, which forces another iteration of the enclosing level,
`expand` takes `(t! m a)` for a call and replaces it by `a`. -/
theorem expand_head_counterexample :
    let T : List Template := [Template.mk "f".toList [] [.atom sTBang],
      Template.mk "m".toList ["x".toList] [.atom "$x".toList],
      Template.mk "g".toList [] [.list [.atom "z".toList]]]
    let item := Tree.list [.list [.atom sTBang, .atom "f".toList], .atom "m".toList, .atom "a".toList]
    let sib := Tree.list [.atom sTBang, .atom "g".toList]
    headSafe T [item] = false ∧
    expandLoop 5 T [item] = .ok [.list [.atom sTBang, .atom "m".toList, .atom "a".toList]] ∧
    expandSpec 5 T [item] = .ok [.list [.atom sTBang, .atom "m".toList, .atom "a".toList]] ∧
    expandLoop 5 T [item, sib] = .ok [.atom "a".toList, .list [.atom "z".toList]] ∧
    expandSpec 5 T [item, sib] =
      .ok [.list [.atom sTBang, .atom "m".toList, .atom "a".toList], .list [.atom "z".toList]] := by
  decide

/-! ## (2) abstracting subexpressions into a template -/

/-- **template_call_is_item** (full; any number of parameters, any number of occurrences of each,
anywhere in the item; no hypothesis on what the arguments contain).  Let `pats` be the items
`items` with arbitrary subexpression occurrences `args[i]` replaced by `$params[i]`, the kept atoms
not being parameter references (`absList`: the parameter names are fresh), the parameter names
distinct.  Then the call `(kwd name args…)` of the template `(deftemplate name (params…) pats…)`
instantiates to exactly `items` with `concat` lists and conditional forms evaluated.  In particular
an argument may contain `$q` for another parameter `q`, template calls, anything: parameters are
substituted simultaneously, so the old hypothesis "parameter names do not occur in argument values"
is not needed (`sequential_subst_counterexample` shows what it was needed for). -/
theorem template_call_is_item (T : List Template) (name kwd : Str) (params : List Str)
    (args pats items : List Tree)
    (hT : findTemplate name T = some { name := name, params := params, content := pats })
    (hnd : params.Nodup) (hlen : args.length = params.length)
    (habs : absList params args pats items) :
    instantiate T (.atom kwd :: .atom name :: args) =
      condLoop (sizeList (concatList items) + 1) (concatList items) := by
  simp only [instantiate, hT, hlen, ne_eq, not_true_eq_false, if_false,
    substList_abs params args hnd pats items habs]

/-- **template_rewrite_neutral** (full).  With the notation of `template_call_is_item`, for items
without `concat` lists in which the conditional keywords occur only in head position:
the call yields `r` exactly when the denotation of the items' own conditionals is `r`; if the items
contain no conditional form at all the call yields the items themselves — whatever else they
contain (other template calls, `$`-atoms, nested lists) — and then, anywhere in a configuration
that is not inside the arguments of another call, the configuration with the call and the
configuration with the items written out expand to the same thing. -/
theorem template_rewrite_neutral (T : List Template) (name kwd : Str) (params : List Str)
    (args pats items : List Tree)
    (hT : findTemplate name T = some { name := name, params := params, content := pats })
    (hnd : params.Nodup) (hlen : args.length = params.length)
    (habs : absList params args pats items) (hnc : noConcatList items = true)
    (hk : khList items = true) :
    (∀ r, instantiate T (.atom kwd :: .atom name :: args) = .ok r ↔ condSpec items = .ok r) ∧
    (nfcList items = true →
      instantiate T (.atom kwd :: .atom name :: args) = .ok items ∧
      ∀ (fc : FCtx), fc.Plain → isExpandHead [.atom kwd] = true → ∀ r,
        (Expands T (fc.fill [.list (.atom kwd :: .atom name :: args)]) r ↔
          Expands T (fc.fill items) r)) := by
  have h0 := template_call_is_item T name kwd params args pats items hT hnd hlen habs
  rw [concatList_id items hnc] at h0
  refine ⟨fun r => ?_, fun hn => ?_⟩
  · rw [h0]; exact (cond_loop_is_spec items hk).1 r
  · have h1 : instantiate T (.atom kwd :: .atom name :: args) = .ok items := by
      rw [h0]; exact condLoop_nfc _ items hn
    refine ⟨h1, fun fc hfc hkw r => ?_⟩
    have hh : isExpandHead (.atom kwd :: .atom name :: args) = true := by
      rw [isExpandHead_cons (.atom kwd) _ []]; exact hkw
    exact Expands.fill_call hh h1 fc hfc r

/-- **template_rewrite_neutral_loop** (full, under `headSafe`): the same for the real loop of
`expand`.  For items without `concat` lists and conditional forms, abstracted as in
`template_call_is_item`, and a configuration `fc[call]` that keeps the keywords in head position:
`expand` takes the configuration with the call and the configuration with the items written out to
the same result (and fails on one exactly when it fails on the other). -/
theorem template_rewrite_neutral_loop (T : List Template) (name kwd : Str) (params : List Str)
    (args pats items : List Tree)
    (hT : findTemplate name T = some { name := name, params := params, content := pats })
    (hnd : params.Nodup) (hlen : args.length = params.length)
    (habs : absList params args pats items) (hnc : noConcatList items = true)
    (hk : khList items = true) (hn : nfcList items = true)
    (fc : FCtx) (hfc : fc.Plain) (hkw : isExpandHead [.atom kwd] = true)
    (hs : headSafe T (fc.fill [.list (.atom kwd :: .atom name :: args)]) = true) (r : List Tree) :
    (∃ F, expandLoop F T (fc.fill [.list (.atom kwd :: .atom name :: args)]) = .ok r) ↔
      (∃ F, expandLoop F T (fc.fill items) = .ok r) := by
  have h1 := ((template_rewrite_neutral T name kwd params args pats items hT hnd hlen habs hnc hk).2 hn).1
  have hh : isExpandHead (.atom kwd :: .atom name :: args) = true := by
    rw [isExpandHead_cons (.atom kwd) _ []]; exact hkw
  exact (expand_call_is_body T _ items fc hfc hh h1 hs r).2

section example_rewrite
/-- `(deftemplate m (x y) (macro $x 10 $y $x) $y)` -/
private def rwPats : List Tree :=
  [.list [.atom "macro".toList, .atom "$x".toList, .atom "10".toList, .atom "$y".toList,
    .atom "$x".toList], .atom "$y".toList]
private def rwT : List Template :=
  [{ name := "m".toList, params := ["x".toList, "y".toList], content := rwPats }]
/-- the arguments: `$y` (a parameter-looking atom!) and a list containing another call -/
private def rwArgs : List Tree :=
  [.atom "$y".toList, .list [.atom sTBang, .atom "k".toList, .atom "b".toList]]
private def rwItems : List Tree :=
  [.list [.atom "macro".toList, .atom "$y".toList, .atom "10".toList,
    .list [.atom sTBang, .atom "k".toList, .atom "b".toList], .atom "$y".toList],
   .list [.atom sTBang, .atom "k".toList, .atom "b".toList]]

/-- the hypotheses of `template_rewrite_neutral` are met by a rewrite with two parameters, one of
them used twice, an argument that looks like the other parameter and an argument containing a call -/
example : instantiate rwT (.atom sTBang :: .atom "m".toList :: rwArgs) = .ok rwItems := by
  refine ((template_rewrite_neutral rwT "m".toList sTBang ["x".toList, "y".toList] rwArgs rwPats rwItems
    (by decide) (by decide) (by decide) ?_ (by decide) (by decide)).2 (by decide)).1
  simp only [absList, absTree, rwArgs, rwItems, rwPats, and_true]
  refine ⟨⟨.inl (by decide), .inr ⟨0, "x".toList, by decide, by decide, by decide⟩,
    .inl (by decide), .inr ⟨1, "y".toList, by decide, by decide, by decide⟩,
    .inr ⟨0, "x".toList, by decide, by decide, by decide⟩⟩,
    .inr ⟨1, "y".toList, by decide, by decide, by decide⟩⟩
end example_rewrite

/-- **sequential_subst_counterexample** (why "parameter names do not occur in argument values" is
no longer a hypothesis, and what the seeded change C16d breaks).  `(deftemplate f (x y) ($x $y))`,
`(t! f $y a)`: substituting all parameters at once — what the code and the model do — gives
`($y a)`; substituting them one after the other gives `(a a)`. -/
theorem sequential_subst_counterexample :
    let body := [Tree.list [.atom "$x".toList, .atom "$y".toList]]
    let args := [Tree.atom "$y".toList, .atom "a".toList]
    substList ["x".toList, "y".toList] args body = [.list [.atom "$y".toList, .atom "a".toList]] ∧
    substSeq ["x".toList, "y".toList] args body = [.list [.atom "a".toList, .atom "a".toList]] := by
  decide

/-- **template_rewrite_cond_counterexample**: the hypotheses on the items are needed for literal
neutrality.  Abstracting `k` out of `(if-equal a a k)` and calling the template gives `k`, not the
item: conditionals (and likewise `concat` lists: `(concat a k)` gives the atom `ak`) are evaluated
when a template is instantiated and nowhere else. -/
theorem template_rewrite_cond_counterexample :
    let T : List Template := [
      Template.mk "m".toList ["x".toList]
        [.list [.atom sIfEqual, .atom "a".toList, .atom "a".toList, .atom "$x".toList]],
      Template.mk "c".toList ["x".toList]
        [.list [.atom sConcat, .atom "a".toList, .atom "$x".toList]]]
    instantiate T [.atom sTBang, .atom "m".toList, .atom "k".toList] = .ok [.atom "k".toList] ∧
    instantiate T [.atom sTBang, .atom "c".toList, .atom "k".toList] = .ok [.atom "ak".toList] := by
  decide

end KVerif.CfgTree
