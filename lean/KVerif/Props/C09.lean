/-
C09 — input chords fire for exactly the pressed key set, in any press order (chords v1: `defchords`;
chords v2 is in Props/C09V2.lean).
Property theorems only; helper lemmas are in Lemmas/Chord.lean, ChordDecomp.lean, ChordTick.lean,
ChordLayout.lean. Everything is about the model functions of Model/Layout.lean (`handleChord`,
`chordFold`, `chordRetain`, `decomposeChord`, `tickWt`, `tickMain`, `waitingIntoTap`, `dequeue`),
for ALL waiting states, tables, queues and action queues — no bound on sizes, timeouts or masks.

Vocabulary (Lemmas/Chord.lean), relative to a pending chord `w` of group `g`:
  `skipped w s`     the event arrived more than the timeout after the first key (`delay − since > timeout`)
  `chordPress w g s` a press of a key of the group inside the window   — a *participant*
  `stops w g s`     the release of a key of the group, or the press of any other key, inside the window
  `scanPre / scanRest`  the queue before / from the first stop event
  `participants`    the participating presses before the first stop event
  `chordActive`     OR of the first key's mask and the participants' masks
-/
import KVerif.Lemmas.ChordLayout
namespace KVerif.C09
open KVerif.L

/-! ### Sample objects for the non-vacuity examples: keys a b c d (masks 1 2 4 8), chords (a) (a b) (a b c) -/
def sampleG : ChordsGroup :=
  { coords := [((0, 30), 1), ((0, 48), 2), ((0, 46), 4), ((0, 32), 8)],
    chords := [(1, .keyCode 2), (3, .keyCode 3), (7, .keyCode 4)], timeout := 50 }
def sampleW : Waiting :=
  { coord := (0, 30), timeout := 49, delay := 1, ticks := 1, hold := .noOp, tap := .noOp, timeoutAction := .noOp,
    config := .chord sampleG, layerStack := [0], prevQueueLen := 255 }
def sampleW2 : Waiting := { sampleW with timeout := 50, ticks := 0 }
def sampleQ : List Queued := [⟨.press (0, 48), 1⟩, ⟨.press (0, 46), 1⟩]
def sampleQ1 : List Queued := [⟨.press (0, 48), 1⟩]
def sampleQstop : List Queued := [⟨.press (0, 48), 1⟩, ⟨.press (0, 33), 1⟩, ⟨.press (0, 32), 1⟩]

/-! ## 1. What `handle_chord` computes, for every queue -/

/-- **handle_chord_characterisation** (full).  The queue scan (`try_fold`) and the final `retain` of
`handle_chord` collapse to: split the queue at the first stop event; the active mask is the OR of the
first key and the participating presses before it; if nothing stopped the scan and time is left the
chord fires only if it is unambiguous, else the decision waits; otherwise (stop event or timeout)
the chord defined for exactly the active set fires, or the set is decomposed.  Whenever a decision
is taken, exactly the participating presses leave the queue (reported, in queue order, after the
first key, as the pressed queue) and everything else stays in its original order. -/
theorem handle_chord_characterisation (w : Waiting) (g : ChordsGroup) (q : List Queued) (aq : ActionQueue) :
    handleChord w g q aq =
      if fastPath w q then (w, q, aq, none) else
      if (scanRest w g q).isEmpty && !(w.timeout - w.delay == 0) then
        match g.getChordIfUnambiguous (chordActive w g q) with
        | some a => ({ w with prevQueueLen := q.length % 256 }, keptQueue w g q, aq, some (.tap, a, pressedQueue w g q))
        | none => ({ w with prevQueueLen := q.length % 256 }, q, aq, none)
      else
        match g.getChord (chordActive w g q) with
        | some a => (moveTo { w with prevQueueLen := q.length % 256 } (releasedBy g (scanRest w g q)), keptQueue w g q, aq,
                     some (.tap, a, pressedQueue w g q))
        | none => ({ w with prevQueueLen := q.length % 256 }, keptQueue w g q,
                   decomposeChord { w with prevQueueLen := q.length % 256 } g q aq,
                   some (.noOp, .noOp, pressedQueue w g q)) :=
  handleChord_closed w g q aq

example : (scanRest sampleW sampleG sampleQ).isEmpty = true ∧ fastPath sampleW sampleQ = false := by
  decide

/-- **kept_queue_order** (full).  What stays in the queue is a subsequence of the queue (original
order), and it contains every event that is not a participating press — in particular every press or
release of a key outside the group, and every event from the first stop event on. -/
theorem kept_queue_order (w : Waiting) (g : ChordsGroup) (q : List Queued) :
    (keptQueue w g q).Sublist q ∧ (q.filter (fun s => !chordPress w g s)).Sublist (keptQueue w g q) ∧
    ∃ pre, keptQueue w g q = pre ++ scanRest w g q := by
  refine ⟨?_, ?_, ⟨_, rfl⟩⟩
  · conv => rhs; rw [← scan_append w g q]
    exact List.Sublist.append List.filter_sublist (List.Sublist.refl _)
  · conv => lhs; rw [← scan_append w g q]
    rw [List.filter_append]
    exact List.Sublist.append (List.Sublist.refl _) List.filter_sublist

/-! ## 2. Order independence -/

/-- **chord_v1_order_independent** (full).  Take any queue without a stop event (the other keys of
the chord, pressed within the window; events outside the window and releases of foreign keys may be
mixed in) and ANY permutation of it.  Both orders have the same participants up to order and the same
active mask — the OR of the first key's mask and the participants' masks — and `handle_chord` takes
the same decision (nothing yet / tap with the same action / decomposition) on both. -/
theorem chord_v1_order_independent (w : Waiting) (g : ChordsGroup) (q1 q2 : List Queued) (aq : ActionQueue)
    (hp : q1.Perm q2) (hb : Benign w g q1) :
    Benign w g q2 ∧
    (participants w g q1).Perm (participants w g q2) ∧
    chordActive w g q1 = (g.getKeys w.coord).getD 0 ||| orMasks ((q1.filter (chordPress w g)).map (maskOf g)) ∧
    chordActive w g q2 = chordActive w g q1 ∧
    (handleChord w g q2 aq).2.2.2.map (fun r => (r.1, r.2.1)) = (handleChord w g q1 aq).2.2.2.map (fun r => (r.1, r.2.1)) := by
  have hb2 : Benign w g q2 := fun s hs => hb s (hp.mem_iff.mpr hs)
  have hpp : (participants w g q1).Perm (participants w g q2) := by
    rw [(benign_participants hb).1, (benign_participants hb2).1]
    exact hp.filter _
  have ha : chordActive w g q2 = chordActive w g q1 := by
    unfold chordActive
    exact (accMask_perm g hpp _).symm
  refine ⟨hb2, hpp, ?_, ha, ?_⟩
  · unfold chordActive
    rw [accMask_eq, (benign_participants hb).1]
  · rw [handleChord_closed, handleChord_closed]
    have hf : fastPath w q2 = fastPath w q1 := by simp only [fastPath, hp.length_eq]
    rw [hf, (benign_scan hb).2, (benign_scan hb2).2, ha]
    by_cases h1 : fastPath w q1 = true
    · simp only [h1, if_true, Option.map_none]
    · simp only [h1, Bool.false_eq_true, if_false]
      split
      · cases g.getChordIfUnambiguous (chordActive w g q1) <;> rfl
      · cases g.getChord (chordActive w g q1) <;> rfl

example : sampleQ.Perm sampleQ.reverse ∧ Benign sampleW sampleG sampleQ :=
  ⟨(List.reverse_perm _).symm, by unfold Benign; decide⟩

/-- **chord_v1_fires_exact_set** (full).  If the pressed set (first key plus participants, in
whatever order they were queued) is exactly the key set `C` of a defined chord with action `a`, and
no defined chord is a strict superset of `C` (or the timeout has expired), `handle_chord` answers
Tap with that chord's action on the first scan; exactly the participating presses are removed from
the queue and returned, in queue order, behind the first key; all other events stay, in order. -/
theorem chord_v1_fires_exact_set (w : Waiting) (g : ChordsGroup) (q : List Queued) (aq : ActionQueue)
    (hb : Benign w g q) (C : Nat) (a : Action) (hC : chordActive w g q = C) (hdef : g.getChord C = some a)
    (hnd : (g.chords.map (·.1)).Nodup) (hns : ¬ hasSuperset g.chords C ∨ w.timeout - w.delay = 0)
    (hnf : fastPath w q = false) :
    handleChord w g q aq =
      ({ w with prevQueueLen := q.length % 256 }, q.filter (fun s => !chordPress w g s), aq,
       some (.tap, a, (w.coord :: (q.filter (chordPress w g)).map (·.ev.coord)).take QUEUE_SIZE)) := by
  rw [handleChord_closed]
  simp only [hnf, Bool.false_eq_true, if_false, (benign_scan hb).2, List.isEmpty_nil, Bool.true_and, hC,
    pressedQueue, (benign_participants hb).1, (benign_participants hb).2, releasedBy, moveTo]
  by_cases ht : w.timeout - w.delay = 0
  · simp [ht, hdef]
  · have : (w.timeout - w.delay == 0) = false := by simpa using ht
    rcases hns with hns | hns
    · simp only [this, Bool.not_false, if_true, unambiguous_eq_getChord g C hns hnd, hdef]
    · exact absurd hns ht

example : sampleG.getChord (chordActive sampleW sampleG sampleQ) = some (.keyCode 4) ∧
    ¬ hasSuperset sampleG.chords 7 := by
  refine ⟨rfl, ?_⟩
  rintro ⟨e, he, h1, h2⟩
  simp only [sampleG, List.mem_cons, List.mem_nil_iff, or_false] at he
  rcases he with rfl | rfl | rfl <;> simp_all

/-! ## 3. Ambiguity and the timeout -/

def ageN : Nat → List Queued → List Queued
  | 0, q => q
  | n + 1, q => ageN n (ageQ q)

/-- `n` ticks of a pending chord whose queue only ages; stops at the first tick with a decision.
Returns the number of ticks consumed. -/
def chordTicks (aq : ActionQueue) : Nat → Waiting → List Queued →
    Except Crash (Nat × Waiting × List Queued × ActionQueue × Option (WAct × Option (List Coord)))
  | 0, w, q => .ok (0, w, q, aq, none)
  | n + 1, w, q =>
    match tickWt w (ageQ q) aq with
    | .error c => .error c
    | .ok (w', q', aq', some r) => .ok (1, w', q', aq', some r)
    | .ok (w', q', _, none) =>
      match chordTicks aq n w' q' with
      | .error c => .error c
      | .ok (k, r) => .ok (k + 1, r)

/-- **chord_timeout_exact** (full).  All other keys of a chord are queued (any order), the pressed
set `A` has a defined strict superset, and nothing else happens.  Then for every timeout the
decision is taken on exactly the tick on which the countdown reaches the first key's queueing delay
— tick `T − d` after the waiting state was created, i.e. `T` ticks after the first key was pressed —
and on no earlier tick: the chord defined for exactly `A` fires (Tap, with the pressed queue = first
key, then the others in queue order), or, if `A` is not a defined chord, it is decomposed. -/
theorem chord_timeout_exact (g : ChordsGroup) (aq : ActionQueue) : ∀ (k : Nat) (w : Waiting) (q : List Queued),
    w.config = .chord g → w.delay ≤ U16_MAX → w.timeout = w.delay + k + 1 → AllPress w g q →
    hasSuperset g.chords (chordActive w g q) →
    (∀ n, n ≤ k → ∃ w', chordTicks aq n w q = .ok (n, w', ageN n q, aq, none) ∧ w'.timeout = w.timeout - n) ∧
    (∀ n, k < n → ∃ w' aq', chordTicks aq n w q =
        .ok (k + 1, w', [], aq', some (if (g.getChord (chordActive w g q)).isSome then .tap else .noOp,
                                        some ((w.coord :: q.map (·.ev.coord)).take QUEUE_SIZE))) ∧
      w'.tap = (g.getChord (chordActive w g q)).getD .noOp ∧ w'.coord = w.coord ∧
      ((g.getChord (chordActive w g q)).isSome → aq' = aq)) := by
  intro k
  induction k with
  | zero =>
    intro w q hc hd ht hb hs
    refine ⟨?_, ?_⟩
    · intro n hn
      have : n = 0 := by omega
      subst this
      exact ⟨w, rfl, by omega⟩
    · intro n hn
      obtain ⟨m, rfl⟩ : ∃ m, n = m + 1 := ⟨n - 1, by omega⟩
      have hstep := chord_decide_step w g hc q aq hb hd (by omega) (by omega)
      cases hg : g.getChord (chordActive w g q) with
      | some a =>
        rw [hg] at hstep
        simp only [chordTicks, hstep]
        exact ⟨{ ticked w with prevQueueLen := q.length % 256, tap := a }, aq, rfl, rfl, rfl, fun _ => rfl⟩
      | none =>
        rw [hg] at hstep
        simp only [chordTicks, hstep]
        exact ⟨{ ticked w with prevQueueLen := q.length % 256, tap := .noOp }, _, rfl, rfl, rfl, fun h => by cases h⟩
  | succ k ih =>
    intro w q hc hd ht hb hs
    obtain ⟨p, hstep⟩ := chord_wait_step w g hc q aq (allPress_benign hb) hd (by omega) hs
    have h1 : 1 ≤ w.timeout := by omega
    have hb' : AllPress { ticked w with prevQueueLen := p } g (ageQ q) := allPress_age hb hd h1
    have ha' : chordActive { ticked w with prevQueueLen := p } g (ageQ q) = chordActive w g q :=
      chordActive_age (allPress_benign hb) hd h1
    obtain ⟨i1, i2⟩ := ih { ticked w with prevQueueLen := p } (ageQ q) hc hd
      (by show w.timeout - 1 = w.delay + k + 1; omega) hb' (ha' ▸ hs)
    refine ⟨?_, ?_⟩
    · intro n hn
      cases n with
      | zero => exact ⟨w, rfl, by omega⟩
      | succ m =>
        obtain ⟨w2, g1, g2⟩ := i1 m (by omega)
        refine ⟨w2, by simp only [chordTicks, hstep, g1]; rfl, ?_⟩
        have : ({ ticked w with prevQueueLen := p } : Waiting).timeout = w.timeout - 1 := rfl
        omega
    · intro n hn
      obtain ⟨m, rfl⟩ : ∃ m, n = m + 1 := ⟨n - 1, by omega⟩
      obtain ⟨w2, aq2, g1, g2, g3, g4⟩ := i2 m (by omega)
      rw [ha', ageQ_coords] at g1
      rw [ha'] at g2 g4
      exact ⟨w2, aq2, by simp only [chordTicks, hstep, g1]; rfl, g2, g3, g4⟩

example : AllPress sampleW2 sampleG sampleQ1 ∧ hasSuperset sampleG.chords (chordActive sampleW2 sampleG sampleQ1) ∧
    sampleW2.timeout = sampleW2.delay + 48 + 1 :=
  ⟨by unfold AllPress; decide, ⟨(7, .keyCode 4), by simp [sampleG], by decide, by decide⟩, by decide⟩

/-- **chord_stop_event_decides** (full).  As soon as a scan sees a stop event inside the window — a
key of the group is released, or ANY other key is pressed — the decision is taken on that scan
(never "wait"); the stop event itself and everything behind it remain in the queue, in order, to be
processed by the following ticks (`C05.buffered_events_replayed_in_order`). -/
theorem chord_stop_event_decides (w : Waiting) (g : ChordsGroup) (q : List Queued) (aq : ActionQueue)
    (hnf : fastPath w q = false) (s : Queued) (post : List Queued) (hr : scanRest w g q = s :: post) :
    ∃ w' aq' r a, handleChord w g q aq =
        (w', (scanPre w g q).filter (fun x => !chordPress w g x) ++ s :: post, aq', some (r, a, pressedQueue w g q)) ∧
      (r = .tap ∧ g.getChord (chordActive w g q) = some a ∧ aq' = aq ∨
       r = .noOp ∧ g.getChord (chordActive w g q) = none) := by
  rw [handleChord_closed]
  simp only [hnf, Bool.false_eq_true, if_false, hr, List.isEmpty_cons, Bool.false_and, keptQueue]
  cases hg : g.getChord (chordActive w g q) with
  | some a => exact ⟨_, _, _, _, rfl, Or.inl ⟨rfl, rfl, rfl⟩⟩
  | none => exact ⟨_, _, _, _, rfl, Or.inr ⟨rfl, rfl⟩⟩

example : scanRest sampleW sampleG sampleQstop = [⟨.press (0, 33), 1⟩, ⟨.press (0, 32), 1⟩] := by decide

/-! ## 4. Decomposition -/

/-- **decompose_covers** (full).  When the pressed set is not a defined chord, the action queue
receives, in order, the entries of THE greedy decomposition of the press order:
* `keys` — the first key's mask, then the masks of the participating presses that add a new key, in
  queue (= press) order (a subsequence of the participants' masks);
* the pushed entries are disjoint runs of consecutive pressed keys in increasing order (`Covers`):
  each run is a defined chord with its table action (nothing is invented) and is the LONGEST defined
  run starting at its first key; a key outside every run starts no defined run at all — in
  particular it has no defined singleton: such keys, and only such keys, are dropped by the code;
* `Covers` has exactly one solution, so this is a specification, not a restatement of the loop;
* the loop's fuel (`keys.length`) is enough (`segs_fuel_enough`);
* capacity: one entry per run, at most `keys.length`; as long as the action queue has room for them
  (8 slots) nothing is lost and the entries are appended in order. -/
theorem decompose_covers (w : Waiting) (g : ChordsGroup) (q : List Queued) (aq : ActionQueue) :
    let start := (g.getKeys w.coord).getD 0
    let keys := start :: newMasks g start (participants w g q)
    let dflt := (releasedBy g (scanRest w g q)).getD w.coord
    let L := segs g keys keys.length 0
    let entries := L.map (entryOf w g dflt q keys (min (w.delay + w.ticks) U16_MAX))
    (newMasks g start (participants w g q)).Sublist ((participants w g q).map (maskOf g)) ∧
    decomposeChord w g q aq = pushAll aq entries ∧
    Covers g keys 0 L ∧ (∀ L', Covers g keys 0 L' → L' = L) ∧
    L.length ≤ keys.length ∧
    (aq.length + L.length ≤ ACTION_QUEUE_LEN → decomposeChord w g q aq = aq ++ entries) := by
  intro start keys dflt L entries
  have hd : decomposeChord w g q aq = pushAll aq entries := by
    unfold decomposeChord
    simp only [decomposeFold_closed]
    rw [decomposeLoop_eq]
    rfl
  have hc : Covers g keys 0 L := segs_covers g keys keys.length 0 (by omega)
  refine ⟨newMasks_sublist g _ _, hd, hc, fun L' h => Covers_unique g keys L' L 0 h hc, ?_, ?_⟩
  · have := segs_length g keys keys.length 0
    omega
  · intro h
    rw [hd, pushAll_fits aq entries (by simp only [entries, List.length_map]; exact h)]

/-- **decompose_keeps_defined_singletons** (full).  No pressed key that has a defined singleton (or
starts any defined run) is swallowed: it lies inside one of the queued runs. -/
theorem decompose_keeps_defined_singletons (g : ChordsGroup) (keys : List Nat) (j : Nat) (hj : j < keys.length)
    (a : Action) (hs : g.getChord keys[j] = some a) :
    ∃ seg ∈ segs g keys keys.length 0, seg.1 ≤ j ∧ j < seg.2.1 := by
  rcases Covers_total g keys _ 0 (segs_covers g keys keys.length 0 (by omega)) j (Nat.zero_le _) hj with h | h
  · exact h
  · have := h (j + 1) (by omega) (by omega)
    rw [orSeg_single keys j hj, hs] at this
    cases this

example : segs sampleG [1, 2, 4, 8] 4 0 = [(0, 3, .keyCode 4)] ∧ Undef sampleG [1, 2, 4, 8] 3 := by
  refine ⟨rfl, ?_⟩
  intro e h1 h2
  have : e = 4 := by simp at h2; omega
  subst this; rfl

/-! ## 5. Layout level: the chord fires once; held while any participant is held; released with them -/

/-- **chord_fires_once** (full).  One tick of the layout with a chord pending does exactly one of:
(a) nothing but the countdown (state otherwise untouched, nothing output, nothing dequeued);
(b) the waiting state is consumed and ONE table action `a`, defined for exactly the active key set,
    is performed: once at the chord's coordinate (the first key's, or the released key's) and then
    repeated by `chordRepeat` on the pressed queue (first key + participants) — for the simple kinds
    (key, key list, one-shot, layer) so that it stays active while any participant is held; the
    participating presses are removed from the queue WITHOUT being dequeued, so no participant's
    own action is performed;
(c) no chord is defined for the active set: the waiting state is dropped, the participating presses
    leave the queue and the decomposition (`decompose_covers`) is appended to the action queue.
Since the waiting state is gone after (b)/(c), a chord cannot fire twice. -/
theorem chord_fires_once (s : Layout) (w : Waiting) (g : ChordsGroup) (hw : s.waiting = some w)
    (hc : w.config = .chord g) (s' : Layout) (cu : CustomEv) (h : tickMain s = .ok (s', cu)) :
    (∃ p, s' = { s with waiting := some { ticked w with prevQueueLen := p } } ∧ cu = .noEvent) ∨
    (∃ a c s1 s2, (chordActive (ticked w) g s.queue, a) ∈ g.chords ∧
      (c = w.coord ∨ releasedBy g (scanRest (ticked w) g s.queue) = some c) ∧
      doAction FUEL { s with waiting := none, queue := keptQueue (ticked w) g s.queue } a c
        (min (w.delay + min (w.ticks + 1) U16_MAX) U16_MAX) false w.layerStack = .ok (s1, cu) ∧
      chordRepeat a (pressedQueue (ticked w) g s.queue) (min (w.delay + min (w.ticks + 1) U16_MAX) U16_MAX) w.layerStack s1 = .ok s2 ∧
      s' = tapPost s2) ∨
    (g.getChord (chordActive (ticked w) g s.queue) = none ∧ cu = .noEvent ∧
      s' = { s with waiting := none, queue := keptQueue (ticked w) g s.queue,
                    actionQueue := decomposeChord { ticked w with prevQueueLen := s.queue.length % 256 } g s.queue s.actionQueue }) := by
  unfold tickMain at h
  simp only [hw] at h
  -- the tap case, shared by the early and the final decision
  have tapCase : ∀ (a : Action) (c : Coord),
      (chordActive (ticked w) g s.queue, a) ∈ g.chords →
      (c = w.coord ∨ releasedBy g (scanRest (ticked w) g s.queue) = some c) →
      waitingIntoTap { s with waiting := some { ticked w with prevQueueLen := s.queue.length % 256, coord := c, tap := a },
                              queue := keptQueue (ticked w) g s.queue, actionQueue := s.actionQueue }
        (some (pressedQueue (ticked w) g s.queue)) none = .ok (s', cu) →
      ∃ a c s1 s2, (chordActive (ticked w) g s.queue, a) ∈ g.chords ∧
        (c = w.coord ∨ releasedBy g (scanRest (ticked w) g s.queue) = some c) ∧
        doAction FUEL { s with waiting := none, queue := keptQueue (ticked w) g s.queue } a c
          (min (w.delay + min (w.ticks + 1) U16_MAX) U16_MAX) false w.layerStack = .ok (s1, cu) ∧
        chordRepeat a (pressedQueue (ticked w) g s.queue) (min (w.delay + min (w.ticks + 1) U16_MAX) U16_MAX) w.layerStack s1 = .ok s2 ∧
        s' = tapPost s2 := by
    intro a c hmem hcoord hh
    obtain ⟨s1, s2, h1, h2, h3⟩ := waitingIntoTap_chord _
      { ticked w with prevQueueLen := s.queue.length % 256, coord := c, tap := a } g rfl hc _ s' cu hh
    exact ⟨a, c, s1, s2, hmem, hcoord, h1, h2, h3⟩
  rcases tickWt_chord_cases w g hc s.queue s.actionQueue with ⟨p, e⟩ | ⟨a, hg, e⟩ | ⟨a, hg, hr, e⟩ | ⟨a, c, hg, hr, e⟩ | ⟨hg, e⟩
  · left
    simp only [e, applyWaitingAction] at h
    injection h with h; injection h with h1 h2
    exact ⟨p, h1.symm, h2.symm⟩
  · right; left
    simp only [e, applyWaitingAction] at h
    exact tapCase a w.coord (unambiguous_mem g _ a hg) (Or.inl rfl) h
  · right; left
    simp only [e, applyWaitingAction] at h
    exact tapCase a w.coord (getChord_mem g _ a hg) (Or.inl rfl) h
  · right; left
    simp only [e, applyWaitingAction] at h
    exact tapCase a c (getChord_mem g _ a hg) (Or.inr hr) h
  · right; right
    simp only [e, applyWaitingAction] at h
    injection h with h; injection h with h1 h2
    exact ⟨hg, h2.symm, h1.symm⟩

/-- **chord_key_held_at_every_participant** (full, plain-key chord actions).  When the chord's action
is a key, `waiting_into_tap` presses that key once per participating coordinate and changes
`states` in no other way: every state afterwards is an old one or the chord's key at a
participant's coordinate; with room in `states` (64) the key is present at EVERY participant's
coordinate. -/
theorem chord_key_held_at_every_participant (s : Layout) (w : Waiting) (kc : KeyCode) (pq : List Coord)
    (hw : s.waiting = some w) (ht : w.tap = .keyCode kc) :
    ∃ s', waitingIntoTap s (some pq) none = .ok (s', .noEvent) ∧
      (∀ st ∈ s'.states, st ∈ s.states ∨ ∃ c ∈ w.coord :: pq, st = .normalKey kc c 0) ∧
      (s.states.length + (w.coord :: pq).length ≤ STATES_CAP → ∀ c ∈ w.coord :: pq, St.normalKey kc c 0 ∈ s'.states) := by
  obtain ⟨s', e, hs⟩ := keyCode_chord_tap s w kc pq hw ht
  refine ⟨s', e, ?_, ?_⟩
  · intro st h; rw [hs] at h; exact pushAllKeys_new kc _ _ st h
  · intro hl c hc; rw [hs]; exact pushAllKeys_all kc _ _ hl c hc

/-- releasing the coordinates `cs` one after the other (as `dequeue` does for each release event
while no one-shot key is active) -/
def releaseAll (cs : List Coord) (sts : List St) : List St :=
  cs.foldl (fun sts c => (releaseStates true c sts .noEvent).1) sts

/-- **chord_v1_release_bound** (full).  (1) Processing the release of coordinate `c` (no one-shot key
active) removes every state at `c` and adds nothing.  (2) So after the releases of any list of
coordinates — in any order — no state at any of them is left: a chord's output, which sits only at
participants' coordinates (`chord_key_held_at_every_participant`), is gone no later than the release
of the last participant.  (3) Conversely the chord's key at a participant that is still held
survives the releases of the others: the chord stays active while any participant is held. -/
theorem chord_v1_release_bound :
    (∀ (f : Nat) (s : Layout) (c : Coord) (since : Nat), s.oneshot.keys = [] →
      ∃ s' cu, dequeue (f + 1) s ⟨.release c, since⟩ = .ok (s', cu) ∧
        s'.states = (releaseStates true c s.states .noEvent).1 ∧
        ∀ st ∈ s'.states, st ∈ s.states ∧ st.coord ≠ some c) ∧
    (∀ (cs : List Coord) (sts : List St), ∀ st ∈ releaseAll cs sts, st ∈ sts ∧ ∀ c ∈ cs, st.coord ≠ some c) ∧
    (∀ (cs : List Coord) (sts : List St) (kc : KeyCode) (c : Coord), c ∉ cs → St.normalKey kc c 0 ∈ sts →
      St.normalKey kc c 0 ∈ releaseAll cs sts) := by
  refine ⟨?_, ?_, ?_⟩
  · intro f s c since ho
    obtain ⟨cu, e⟩ := dequeue_release f s c since ho
    exact ⟨_, cu, e, rfl, (releaseStates_spec true c s.states .noEvent).1⟩
  · intro cs
    induction cs with
    | nil => intro sts st h; exact ⟨h, fun c hc => by cases hc⟩
    | cons c0 cs ih =>
      intro sts st h
      obtain ⟨h1, h2⟩ := ih _ st h
      obtain ⟨h3, h4⟩ := (releaseStates_spec true c0 sts .noEvent).1 st h1
      refine ⟨h3, ?_⟩
      intro c hc
      rcases List.mem_cons.mp hc with rfl | hc'
      · exact h4
      · exact h2 c hc'
  · intro cs
    induction cs with
    | nil => intro sts kc c _ h; exact h
    | cons c0 cs ih =>
      intro sts kc c hc h
      have hne : c ≠ c0 := fun e => hc (by simp [e])
      apply ih _ kc c (fun hm => hc (List.mem_cons_of_mem _ hm))
      exact (releaseStates_spec true c0 sts .noEvent).2 _ h (by simp [St.coord, hne]) rfl

end KVerif.C09
