/-
C06 on the mixed fragment: one-shot keys next to TAP-HOLD keys (home-row mods next to a one-shot
shift).  Property theorems only; helper lemmas are in Lemmas/OneShotMix*.lean.

Fragment (`CfgM`): everything of the C06 fragment — plain keys, output chords, layer-while-held,
transparent / unmapped positions, one-shot of the first three in all four end variants — plus tap-hold
keys of all five variants (default, press, release, release-keys, except-keys; any hold timeout and
tap-hold interval) whose tap, hold and timeout actions are a key, an output chord or layer-while-held.
`MInv s down` is the invariant of that fragment (`mix_init_inv`: a fresh layout has it,
`mix_no_state_stranded`: every run keeps it), so a hypothesis `MInv s down` reads "for every state the
layout can reach".  No statement bounds a timeout, a delay, a queue content or a history length.

What the model (= the code) does, in one paragraph: `tick_osh` runs on EVERY tick, before the
waiting state is looked at, so the one-shot countdown goes on while a tap-hold key is undecided; the
press of the tap-hold key only creates the waiting state; `handle_press(Other coord)` is called by the
arm of the RESOLVED action (`do_action` from `waiting_into_hold/tap/timeout`).  Hence the one-shot
applies to the resolved action iff the tap-hold is resolved strictly before the one-shot's countdown
runs out, counted from the one-shot's activation — not iff the tap-hold key was *pressed* in time
(`next_key_pressed_in_time_counterexample`).
-/
import KVerif.Lemmas.OneShotMixTick
import KVerif.Props.C06
namespace KVerif.C06
open KVerif.L

/-! ## (3) never lingers on the mixed fragment -/

/-- a freshly created layout satisfies the invariant -/
theorem mix_init_inv (cfg : LCfg) (hc : CfgM cfg) (tv2 dfl qth : Bool) (osd : Nat) :
    MInv { cfg := cfg, transV2 := tv2, delegateToFirstLayer := dfl, quickTapHoldTimeout := qth,
           oneshot := { pauseInputProcessingDelay := osd } } [] :=
  ⟨rfl, rfl, rfl, rfl, (fun _ h => by cases h), rfl, hc, Nat.zero_le _, fun _ => ⟨rfl, rfl⟩, trivial,
   (fun _ h => by cases h), (fun _ h => by cases h)⟩

/-- **mix_no_state_stranded** (full, on the mixed fragment).  For every configuration of the fragment
and every history of presses, releases and ticks — any order and timing, any number of one-shot keys
stacked, tap-hold keys pressed while one-shot keys are active and the other way round — in which an
event never arrives while 32 are pending: after every step `extra_waiting` is empty (nothing is taken
from the queue while a tap-hold key is undecided), the undecided tap-hold key, if any, is physically
down or its release is queued, and every key or layer state belongs to a coordinate that is
physically down, or whose release is deferred in `released_keys` while a one-shot key is active, or
whose release is still in the input queue. -/
theorem mix_no_state_stranded : ∀ (ins : List In) (s : Layout) (down : List Coord), MInv s down →
    ∀ s' down', run s down ins = some (.ok (s', down')) → MInv s' down' := by
  intro ins
  induction ins with
  | nil =>
    intro s down h s' down' hr
    simp only [run] at hr
    injection hr with hr; injection hr with hr; injection hr with h1 h2
    subst h1; subst h2; exact h
  | cons i rest ih =>
    intro s down h s' down' hr
    simp only [run] at hr
    split at hr
    · cases hr
    · rename_i hov
      cases i with
      | ev e =>
        have hq : s.queue.length < QUEUE_SIZE := by
          simp only [overflows, decide_eq_true_eq] at hov; omega
        obtain ⟨s1, e1, i1, _⟩ := h.input e hq
        simp only [stepIn, e1] at hr
        exact ih s1 _ i1 s' down' hr
      | tick =>
        simp only [stepIn] at hr
        cases ht : tick s with
        | error c => simp only [ht] at hr; cases hr
        | ok r =>
          obtain ⟨s1, cu⟩ := r
          simp only [ht] at hr
          exact ih s1 _ (h.step s1 cu ht).1 s' down' hr

/-- **mix_nothing_lingers**: once every key is physically up, the input queue has drained and no
one-shot key is active, the layout holds no state at all — no key code, no layer — and nothing is
waiting: a tap-hold key cannot be pending with its key up and no release queued. -/
theorem mix_nothing_lingers {s : Layout} (h : MInv s []) (hq : s.queue = []) (hk : s.oneshot.keys = []) :
    s.states = [] ∧ s.keycodes = [] ∧ s.currentLayer = s.defaultLayer ∧ s.waiting = none ∧
    s.extraWaiting = [] := by
  have hs : s.states = [] := by
    apply List.eq_nil_iff_forall_not_mem.mpr
    intro st hst
    have hok := h.states st hst
    have hco : ∃ c, st.coord = some c := by
      cases st <;> simp only [C04.StOK] at hok <;> first | exact ⟨_, rfl⟩ | exact absurd hok id
    obtain ⟨c, hc⟩ := hco
    rcases h.owned st hst c hc with g | g | ⟨x, hx, _⟩
    · cases g
    · rw [(h.idle hk).1] at g; cases g
    · rw [hq] at hx; cases hx
  refine ⟨hs, by simp [Layout.keycodes, hs], by simp [Layout.currentLayer, hs], ?_, h.extra⟩
  cases hw : s.waiting with
  | none => rfl
  | some w =>
    rcases (h.wok w hw).2 with g | ⟨x, hx, _⟩
    · cases g
    · rw [hq] at hx; cases hx

/-! ## (1) the one-shot survives a pending tap-hold key and applies to the resolved action -/

/-- **taphold_press_does_not_end_oneshot** (full).  Nothing pending, and the oldest event is the
press of a tap-hold key (any variant, not a quick re-tap inside its tap-hold interval): taking it from
the queue creates the waiting state — countdown `T` (`T − n` with `quick-tap-hold-timeout`), the three
actions, the key's coordinate — and does nothing else: no state is added, and the `OneShotState` is
untouched (no `handle_press(Other)`), whatever one-shot keys are active and whatever their variant. -/
theorem taphold_press_does_not_end_oneshot {s : Layout} {down : List Coord} (h : MInv s down)
    (hw : s.waiting = none) (c : Coord) (n : Nat) (order : List Nat) (ho : s.transOrder = .ok order)
    (T : Nat) (hold tap to : Action) (cfg : HTConfig) (iv : Nat) (ls : List Nat)
    (hr : s.resolveCoord c order = .ok (.holdTap T hold tap to cfg iv, ls))
    (hnq : iv = 0 ∨ c ≠ s.lptCoord ∨ s.lptTapHoldTimeout = 0) (hls : ls.length ≤ MAX_ACTIVE_LAYERS) :
    ∃ s1, dequeue FUEL s ⟨.press c, n⟩ = .ok (s1, .noEvent) ∧
      s1.waiting = some { coord := c, timeout := if s.quickTapHoldTimeout then T - n else T,
                          delay := if s.quickTapHoldTimeout then 0 else n, ticks := 0, hold := hold, tap := tap,
                          timeoutAction := to, config := .holdTap cfg, layerStack := ls, prevQueueLen := 255 } ∧
      s1.oneshot = s.oneshot ∧ s1.queue = s.queue ∧
      s1.states = s.states.filter (fun st => !st.clearOnNextAction) := by
  have hfa : FragM (.holdTap T hold tap to cfg iv) :=
    Quiesce.resolve_pred FragM trivial trivial s c h.cfg.1 h.cfg.2 _ _ _ hr
  simp only [FragM] at hfa
  obtain ⟨p1, p2, p3, p4⟩ := prelude_spec s c
  have hwp : (prelude s c).waiting = none := p1.waiting.trans hw
  have hqk : (prelude s c).quickTapHoldTimeout = s.quickTapHoldTimeout := by unfold prelude; split <;> rfl
  obtain ⟨w, e1, _, _, _, _, _, _, _, e9, e10, e11, _, _⟩ :=
    Quiesce.armHoldTapWait_spec (prelude s c) c n T hold tap to cfg iv ls hwp
  refine ⟨armHoldTapWait (prelude s c) c n T hold tap to cfg iv ls, ?_, ?_, e11.trans p2, e9.trans p3, e10.trans p4⟩
  · rw [FUEL_5]
    simp only [dequeue, h.tde, bind, Except.bind, ho, doAction, hr]
    rw [Quiesce.dispatch_holdTap 3995 (prelude s c) T hold tap to cfg iv c n ls hfa.2.1,
      if_pos (prelude_quick s c iv hnq), if_neg (by omega)]
  · rw [armHoldTapWait_exact _ _ _ _ _ _ _ _ _ _ hwp, hqk]

/-- the tap-hold key stays pending through the whole history: after every prefix something is waiting -/
def StaysPending (s : Layout) (down : List Coord) (ins : List In) : Prop :=
  ∀ pre post, ins = pre ++ post → ∀ sp dp, run s down pre = some (.ok (sp, dp)) → sp.waiting ≠ none

theorem StaysPending.tail {s s1 : Layout} {down : List Coord} {i : In} {rest : List In}
    (h : StaysPending s down (i :: rest)) (hov : overflows s i = false) (e : stepIn s i = .ok s1) :
    StaysPending s1 (downAfter down i) rest := by
  intro pre post hp sp dp hr
  refine h (i :: pre) post (by rw [hp]; rfl) sp dp ?_
  simp only [run, hov, Bool.false_eq_true, if_false, e]
  exact hr

/-- **oneshot_counts_down_while_taphold_pending** (full).  One-shot keys active (any variant), no
release requested, a tap-hold key pending.  Whatever arrives meanwhile (events are only queued), as
long as the tap-hold key stays undecided and fewer than `countdown` ticks pass: no state changes — the
one-shot key or layer stays in effect —, the active / deferred / remembered one-shot keys are
untouched, no input pause is started, and the two countdowns (one-shot, tap-hold) go down together,
one per tick.  For every countdown value and every history. -/
theorem oneshot_counts_down_while_taphold_pending : ∀ (ins : List In) (s : Layout) (down : List Coord)
    (w : Waiting), MInv s down → s.waiting = some w → s.oneshot.keys ≠ [] →
    s.oneshot.releaseOnNextTick = false → ticksOf ins + 1 ≤ s.oneshot.timeout → StaysPending s down ins →
    ∀ s' down', run s down ins = some (.ok (s', down')) →
      MInv s' down' ∧ s'.states = s.states ∧ SameKeys s.oneshot s'.oneshot ∧
      s'.oneshot.timeout = s.oneshot.timeout - ticksOf ins ∧
      s'.oneshot.pauseInputProcessingTicks = s.oneshot.pauseInputProcessingTicks ∧
      s'.queue.map (·.ev) = s.queue.map (·.ev) ++ eventsOf ins ∧
      ∃ w', s'.waiting = some w' ∧ w'.coord = w.coord ∧ w'.hold = w.hold ∧ w'.tap = w.tap ∧
        w'.timeoutAction = w.timeoutAction ∧ w'.config = w.config ∧ w'.timeout = w.timeout - ticksOf ins := by
  intro ins
  induction ins with
  | nil =>
    intro s down w h hw _ _ _ _ s' down' hr
    simp only [run] at hr
    injection hr with hr; injection hr with hr; injection hr with h1 h2
    subst h1; subst h2
    exact ⟨h, rfl, SameKeys.refl _, by simp [ticksOf], rfl, by simp [eventsOf], w, hw, rfl, rfl, rfl, rfl, rfl,
      by simp [ticksOf]⟩
  | cons i rest ih =>
    intro s down w h hw hk hr hn hU s' down' hrun
    simp only [run] at hrun
    split at hrun
    · cases hrun
    · rename_i hov
      have hov' : overflows s i = false := by simpa using hov
      cases i with
      | ev e =>
        have hq : s.queue.length < QUEUE_SIZE := by
          simp only [overflows, decide_eq_true_eq] at hov; omega
        obtain ⟨s1, e1, i1, q1, st1, o1, w1⟩ := h.input e hq
        have hstep : stepIn s (.ev e) = .ok s1 := by simp only [stepIn, e1]
        simp only [hstep] at hrun
        obtain ⟨r1, r2, r3, r4, r5, r6, w', r7⟩ := ih s1 _ w i1 (w1.trans hw) (o1 ▸ hk) (o1 ▸ hr)
          (by rw [o1]; simpa [ticksOf] using hn) (hU.tail hov' hstep) s' down' hrun
        rw [o1] at r3 r4 r5
        exact ⟨r1, r2.trans st1, r3, by simpa [ticksOf] using r4, r5, by rw [r6, q1]; simp [eventsOf], w',
          by simpa [ticksOf] using r7⟩
      | tick =>
        simp only [ticksOf] at hn
        obtain ⟨s1, e1, i1, q1, w1, st1, o1⟩ := pre_osh_waits h hk hr (by omega)
        have hw1 : s1.waiting = some w := w1.trans hw
        obtain ⟨et, i2⟩ := pending_tick_core h w e1 i1 hw1
        have hstep : stepIn s .tick = .ok (pendingResult s1 w) := by simp only [stepIn, et]
        simp only [hstep] at hrun
        cases hd : (C05.htStep w s1.queue).2 with
        | some a =>
          exfalso
          have hnone := (resolution_spec i1 w hw1 a hd).1
          refine hU [.tick] rest rfl (pendingResult s1 w) down ?_ hnone
          simp only [run, hov', Bool.false_eq_true, if_false, hstep, downAfter]
        | none =>
          have hc := C05.htStep_counted w s1.queue
          have hp := pendingResult_none hd
          have w2 : (pendingResult s1 w).waiting = some (C05.htStep w s1.queue).1 := by rw [hp]
          have st2 : (pendingResult s1 w).states = s.states := by rw [hp]; exact st1
          have o2 : (pendingResult s1 w).oneshot = { s.oneshot with timeout := s.oneshot.timeout - 1 } := by
            rw [hp]; exact o1
          have q2 : (pendingResult s1 w).queue = age s.queue := by rw [hp]; exact q1
          obtain ⟨r1, r2, r3, r4, r5, r6, w', r7, r8, r9, r10, r11, r12, r13⟩ :=
            ih (pendingResult s1 w) down _ i2 w2 (by rw [o2]; exact hk) (by rw [o2]; exact hr)
              (by rw [o2]; show ticksOf rest + 1 ≤ s.oneshot.timeout - 1; omega) (hU.tail hov' hstep) s' down' hrun
          rw [o2] at r3 r4 r5
          refine ⟨r1, r2.trans st2, ⟨r3.keys, r3.released, r3.others, r3.endConfig, r3.request, r3.delay⟩, ?_, r5, ?_,
            w', r7, r8.trans hc.coord, r9.trans hc.hold, r10.trans hc.tap, r11.trans hc.timeoutAction,
            r12.trans hc.config, ?_⟩
          · simp only [ticksOf]
            have : s'.oneshot.timeout = s.oneshot.timeout - 1 - ticksOf rest := r4
            omega
          · rw [r6, q2, age_map_ev]; simp [eventsOf]
          · simp only [ticksOf]; rw [r13, hc.timeout]; omega

/-- **oneshot_applies_to_resolved_taphold_action** (full): the resolution tick.  One-shot keys
active, no release requested, countdown `t ≥ 2` (so `tick_osh` does not fire on this tick), a tap-hold
key pending, and on this tick it decides `a` (tap, hold or timeout — C05 says which and when:
`release_decides`, `timeout_exactly_at_T`, the early triggers).  Then the tick performs that one
action: every earlier state stays (the one-shot key or layer is in effect for it; only output-chord
keys flagged clear-on-next-action go), states are added at the key's coordinate only, and the
`OneShotState` changes by exactly the `handle_press(Other coord)` of the resolved action's arm:
press variants — countdown `min(d, t − 1)`, input pause `d` (`d` = rapid-event delay);
release variants — the coordinate is remembered in `other_pressed_keys`, countdown `t − 1`, and the
input pause is the tap-hold's own (`d` after hold and tap, none after timeout). -/
theorem oneshot_applies_to_resolved_taphold_action {s : Layout} {down : List Coord} (h : MInv s down)
    (w : Waiting) (hw : s.waiting = some w) (hk : s.oneshot.keys ≠ []) (hr : s.oneshot.releaseOnNextTick = false)
    (h2 : 2 ≤ s.oneshot.timeout) (a : WAct) (hd : (C05.htStep w (age s.queue)).2 = some a) :
    ∃ s1, tick s = .ok (s1, .noEvent) ∧ MInv s1 down ∧ s1.waiting = none ∧ s1.queue = age s.queue ∧
      Adds w.coord s s1 ∧
      (isPressEnd s.oneshot.endConfig = true →
        s1.oneshot = { s.oneshot with
          timeout := min s.oneshot.pauseInputProcessingDelay (s.oneshot.timeout - 1),
          pauseInputProcessingTicks := s.oneshot.pauseInputProcessingDelay }) ∧
      (isPressEnd s.oneshot.endConfig = false →
        s1.oneshot = { s.oneshot with
          timeout := s.oneshot.timeout - 1,
          otherPressedKeys := (pushBackWrap ONE_SHOT_MAX_ACTIVE s.oneshot.otherPressedKeys w.coord).1,
          pauseInputProcessingTicks :=
            if a = .timeout then s.oneshot.pauseInputProcessingTicks else s.oneshot.pauseInputProcessingDelay } ∧
        w.coord ∈ s1.oneshot.otherPressedKeys) := by
  obtain ⟨s1, e1, i1, q1, w1, st1, o1⟩ := pre_osh_waits h hk hr h2
  have hw1 : s1.waiting = some w := w1.trans hw
  obtain ⟨et, i2⟩ := pending_tick_core h w e1 i1 hw1
  have hd1 : (C05.htStep w s1.queue).2 = some a := by rw [q1]; exact hd
  have ha : a ≠ .noOp := fun h0 => C05.htStep_ne_noOp w s1.queue (h0 ▸ hd1)
  obtain ⟨r1, r2, r3, r4⟩ := resolution_spec i1 w hw1 a hd1
  have hk1 : s1.oneshot.keys ≠ [] := by rw [o1]; exact hk
  refine ⟨_, et, i2, r1, r2.trans q1, (Adds.of_states (c := w.coord) st1).trans r3, fun he => ?_, fun he => ?_⟩
  · rw [r4, resolvedOsh_pressEnd _ _ a ha hk1 i1.ignore (by rw [o1]; exact he), o1]
  · have e := resolvedOsh_releaseEnd ({ s.oneshot with timeout := s.oneshot.timeout - 1 }) w.coord a ha hk h.ignore he
    refine ⟨by rw [r4, o1]; exact e, ?_⟩
    rw [r4, o1, e]
    exact mem_pushBackWrap_new _ (by decide) _ _

/-- **oneshot_survives_pending_taphold** (full): the timeline, for every one-shot countdown `t`, every
tap-hold timing and every rapid-event delay `d`.  Start: the state right after the tap-hold key's
press was taken (`taphold_press_does_not_end_oneshot`), one-shot countdown `t`.  If the tap-hold key
stays undecided during a history containing `j − 1` ticks and decides `a` on tick `j`, with `j < t`
(`ticksOf ins + 2 ≤ t`): up to then no state changed; tick `j` performs the resolved action with all
one-shot states still there, and sets — press variants — the countdown to `min(d, t − j)` and the input
pause to `d`, so that (`second_key_never_modified_mix`) the one-shot states are released
`max(min(d, t − j), 1)` ticks after tick `j`, before any later event is taken; release variants — the
coordinate joins `other_pressed_keys`, countdown `t − j`, and the one-shot ends on the tick after that
key's release is taken (`release_of_resolved_key_ends_oneshot`). -/
theorem oneshot_survives_pending_taphold (ins : List In) (s : Layout) (down : List Coord) (w : Waiting)
    (h : MInv s down) (hw : s.waiting = some w) (hk : s.oneshot.keys ≠ [])
    (hr : s.oneshot.releaseOnNextTick = false) (hn : ticksOf ins + 2 ≤ s.oneshot.timeout)
    (hU : StaysPending s down ins) (s' : Layout) (down' : List Coord)
    (hrun : run s down ins = some (.ok (s', down'))) (w' : Waiting) (hw' : s'.waiting = some w') (a : WAct)
    (hd : (C05.htStep w' (age s'.queue)).2 = some a) :
    s'.states = s.states ∧ w'.coord = w.coord ∧ w'.timeout = w.timeout - ticksOf ins ∧
    ∃ s1, tick s' = .ok (s1, .noEvent) ∧ MInv s1 down' ∧ s1.waiting = none ∧ Adds w.coord s s1 ∧
      s1.oneshot.keys = s.oneshot.keys ∧ s1.oneshot.releasedKeys = s.oneshot.releasedKeys ∧
      s1.oneshot.releaseOnNextTick = false ∧
      (isPressEnd s.oneshot.endConfig = true →
        s1.oneshot.timeout = min s.oneshot.pauseInputProcessingDelay (s.oneshot.timeout - (ticksOf ins + 1)) ∧
        s1.oneshot.pauseInputProcessingTicks = s.oneshot.pauseInputProcessingDelay) ∧
      (isPressEnd s.oneshot.endConfig = false →
        s1.oneshot.timeout = s.oneshot.timeout - (ticksOf ins + 1) ∧
        s1.oneshot.otherPressedKeys = (pushBackWrap ONE_SHOT_MAX_ACTIVE s.oneshot.otherPressedKeys w.coord).1 ∧
        w.coord ∈ s1.oneshot.otherPressedKeys) := by
  obtain ⟨r1, r2, r3, r4, r5, r6, w'', r7, r8, _, _, _, _, r13⟩ :=
    oneshot_counts_down_while_taphold_pending ins s down w h hw hk hr (by omega) hU s' down' hrun
  have : w'' = w' := by rw [hw'] at r7; injection r7 with r7; exact r7.symm
  subst this
  obtain ⟨s1, e1, i1, w1, q1, ad, hp, hrl⟩ := oneshot_applies_to_resolved_taphold_action r1 w'' hw'
    (by rw [r3.keys]; exact hk) (by rw [r3.request]; exact hr) (by omega) a hd
  rw [r8] at ad hrl
  rw [r3.endConfig] at hp hrl
  refine ⟨r2, r8, r13, s1, e1, i1, w1, (Adds.of_states (c := w.coord) r2).trans ad, ?_, ?_, ?_, fun he => ?_, fun he => ?_⟩
  · cases hE : isPressEnd s.oneshot.endConfig
    · rw [(hrl hE).1]; exact r3.keys
    · rw [hp hE]; exact r3.keys
  · cases hE : isPressEnd s.oneshot.endConfig
    · rw [(hrl hE).1]; exact r3.released
    · rw [hp hE]; exact r3.released
  · cases hE : isPressEnd s.oneshot.endConfig
    · rw [(hrl hE).1]; exact r3.request.trans hr
    · rw [hp hE]; exact r3.request.trans hr
  · rw [hp he]
    refine ⟨?_, r3.delay⟩
    show min s'.oneshot.pauseInputProcessingDelay (s'.oneshot.timeout - 1) = _
    rw [r3.delay, r4]; congr 1
  · obtain ⟨g1, g2⟩ := hrl he
    refine ⟨?_, ?_, g2⟩
    · rw [g1]; show s'.oneshot.timeout - 1 = _; rw [r4]; omega
    · rw [g1]; show (pushBackWrap ONE_SHOT_MAX_ACTIVE s'.oneshot.otherPressedKeys w.coord).1 = _; rw [r3.others]

/-- **release_of_resolved_key_ends_oneshot** (full).  Release variants, nothing pending, one-shot
keys active: when the release of a key that is not an active one-shot key is taken from the queue, it
is applied normally and the release of the one-shot keys is requested iff that key is in
`other_pressed_keys` — where the resolved tap-hold key was put (`oneshot_survives_pending_taphold`).
The request is served at the start of the next tick (`m_tick_fires`), before anything else is taken. -/
theorem release_of_resolved_key_ends_oneshot {s : Layout} {down : List Coord} (h : MInv s down)
    (hk : s.oneshot.keys ≠ []) (he : isPressEnd s.oneshot.endConfig = false) (c : Coord) (n : Nat)
    (hc : s.oneshot.keys.contains c = false) :
    dequeue FUEL s ⟨.release c, n⟩ =
      .ok ({ s with
          oneshot := { s.oneshot with
            releaseOnNextTick := s.oneshot.releaseOnNextTick || s.oneshot.otherPressedKeys.contains c },
          states := s.states.filter (fun st => st.coord != some c) }, .noEvent) := by
  rw [dequeue_release_calm h.states c n, handleRelease_other _ c hk hc]
  simp only [afterRelease, if_true, he, Bool.not_false, Bool.true_and]

/-! ## (2) the one-shot expires while the tap-hold key is still pending -/

/-- **late_taphold_resolution_is_not_modified** (full).  No one-shot key active, a tap-hold key
pending that decides `a` on this tick: the action is performed on a layout that holds no deferred
one-shot state (`MInv`: nothing is deferred when no one-shot key is active); states are added at the
key's coordinate only, and the `OneShotState` is not touched beyond the tap-hold's own input pause. -/
theorem late_taphold_resolution_is_not_modified {s : Layout} {down : List Coord} (h : MInv s down)
    (w : Waiting) (hw : s.waiting = some w) (hk : s.oneshot.keys = []) (a : WAct)
    (hd : (C05.htStep w (age s.queue)).2 = some a) :
    ∃ s1, tick s = .ok (s1, .noEvent) ∧ MInv s1 down ∧ s1.waiting = none ∧ Adds w.coord s s1 ∧
      s1.oneshot = { s.oneshot with pauseInputProcessingTicks :=
        if a = .hold ∨ a = .tap then s.oneshot.pauseInputProcessingDelay else s.oneshot.pauseInputProcessingTicks } ∧
      s1.oneshot.keys = [] ∧ s1.oneshot.releasedKeys = [] := by
  obtain ⟨i0, t4, tw, t2, t3, _⟩ := h.pre
  have e1 : tickOneshot (tickPre s) = .ok (tickPre s, .noEvent) := tickOneshot_inactive (t2 ▸ hk)
  have hw1 : (tickPre s).waiting = some w := tw.trans hw
  obtain ⟨et, i2⟩ := pending_tick_core h w e1 i0 hw1
  have hd1 : (C05.htStep w (tickPre s).queue).2 = some a := by rw [t4]; exact hd
  obtain ⟨r1, r2, r3, r4⟩ := resolution_spec i0 w hw1 a hd1
  have e := resolvedOsh_inactive s.oneshot w.coord a hk
  have r4' : (pendingResult (tickPre s) w).oneshot = resolvedOsh s.oneshot w.coord a := by rw [r4, t2]
  refine ⟨_, et, i2, r1, (Adds.of_states (c := w.coord) t3).trans r3, r4'.trans e, ?_, ?_⟩
  · rw [r4', e]; exact hk
  · rw [r4', e]; exact (h.idle hk).1

/-- **oneshot_expires_while_taphold_pending** (full), for every countdown `t ≥ 1`.  One-shot keys
active, no release requested, a tap-hold key pending.  If the tap-hold key stays undecided during a
history containing `t − 1` ticks, then no state has changed up to there, and on the next tick — exactly
the `t`-th — the second stage of `tick` applies every deferred release and clears the one-shot state
(`sr`: no state of a tapped one-shot key is left, no one-shot key is active) while the tap-hold key is
still pending, untouched; only then does the third stage look at it, on `sr`.  So whatever the
tap-hold key decides on that tick or on any later one is performed without the one-shot key or layer
(`late_taphold_resolution_is_not_modified`, or `resolved … sr` on this very tick): the later-resolved
action is not modified. -/
theorem oneshot_expires_while_taphold_pending (ins : List In) (s : Layout) (down : List Coord) (w : Waiting)
    (h : MInv s down) (hw : s.waiting = some w) (hk : s.oneshot.keys ≠ [])
    (hr : s.oneshot.releaseOnNextTick = false) (hn : ticksOf ins + 1 = s.oneshot.timeout)
    (hU : StaysPending s down ins) (s' : Layout) (down' : List Coord)
    (hrun : run s down ins = some (.ok (s', down'))) :
    s'.states = s.states ∧
    ∃ w', s'.waiting = some w' ∧ w'.coord = w.coord ∧ w'.timeout = w.timeout - ticksOf ins ∧
    ∃ sr, tickOneshot (tickPre s') = .ok (sr, .noEvent) ∧ MInv sr down' ∧
      sr.oneshot.keys = [] ∧ sr.oneshot.releasedKeys = [] ∧
      sr.states = dropCoords s.oneshot.releasedKeys s.states ∧
      (∀ st ∈ sr.states, ∀ k ∈ s.oneshot.releasedKeys, st.coord ≠ some k) ∧
      sr.waiting = some w' ∧
      tick s' = .ok (pendingResult sr w', .noEvent) ∧
      (∀ a, (C05.htStep w' sr.queue).2 = some a →
        Adds w.coord sr (pendingResult sr w') ∧ (pendingResult sr w').oneshot.keys = [] ∧
        (pendingResult sr w').oneshot.releasedKeys = []) := by
  obtain ⟨r1, r2, r3, r4, _, _, w', r7, r8, _, _, _, _, r13⟩ :=
    oneshot_counts_down_while_taphold_pending ins s down w h hw hk hr (by omega) hU s' down' hrun
  obtain ⟨sr, e1, i1, ho, hst, _, hwr, _, _⟩ := m_tick_fires r1 (by rw [r3.keys]; exact hk) (Or.inr (by omega))
  have hw1 : sr.waiting = some w' := hwr.trans r7
  obtain ⟨et, _⟩ := pending_tick_core r1 w' e1 i1 hw1
  have hst' : sr.states = dropCoords s.oneshot.releasedKeys s.states := by rw [hst, r3.released, r2]
  refine ⟨r2, w', r7, r8, r13, sr, e1, i1, by rw [ho]; rfl, by rw [ho]; rfl, hst', ?_, hw1, et, fun a hd => ?_⟩
  · intro st hst'' k hk'
    rw [hst'] at hst''
    exact (mem_dropCoords.mp hst'').2 k hk'
  · obtain ⟨_, _, g3, g4⟩ := resolution_spec i1 w' hw1 a hd
    have e := resolvedOsh_inactive sr.oneshot w'.coord a (by rw [ho]; rfl)
    rw [r8] at g3
    refine ⟨g3, ?_, ?_⟩
    · rw [g4, e, ho]; rfl
    · rw [g4, e, ho]; rfl

/-! ## (4) after the resolved action: exactly that action, nothing later -/

/-- nothing pending, one-shot keys active, countdown `m ≤` input pause: for `max m 1 − 1` ticks nothing
is taken from the queue and no state changes, whatever arrives -/
theorem m_no_pop_before_release : ∀ (ins : List In) (s : Layout) (down : List Coord) (m : Nat), MInv s down →
    s.waiting = none → s.oneshot.keys ≠ [] → s.oneshot.releaseOnNextTick = false → s.oneshot.timeout = m →
    m ≤ s.oneshot.pauseInputProcessingTicks → ticksOf ins + 1 ≤ max m 1 →
    ∀ s' down', run s down ins = some (.ok (s', down')) →
      MInv s' down' ∧ s'.waiting = none ∧ s'.states = s.states ∧ SameKeys s.oneshot s'.oneshot ∧
      s'.oneshot.timeout = m - ticksOf ins ∧
      s'.queue.map (·.ev) = s.queue.map (·.ev) ++ eventsOf ins := by
  intro ins
  induction ins with
  | nil =>
    intro s down m h hw _ _ hm _ _ s' down' hr
    simp only [run] at hr
    injection hr with hr; injection hr with hr; injection hr with h1 h2
    subst h1; subst h2
    exact ⟨h, hw, rfl, SameKeys.refl _, by simp [ticksOf, hm], by simp [eventsOf]⟩
  | cons i rest ih =>
    intro s down m h hw hk hr hm hp hn s' down' hrun
    simp only [run] at hrun
    split at hrun
    · cases hrun
    · rename_i hov
      cases i with
      | ev e =>
        have hq : s.queue.length < QUEUE_SIZE := by
          simp only [overflows, decide_eq_true_eq] at hov; omega
        obtain ⟨s1, e1, i1, q1, st1, o1, w1⟩ := h.input e hq
        simp only [stepIn, e1] at hrun
        obtain ⟨r1, r2, r3, r4, r5, r6⟩ := ih s1 _ m i1 (w1.trans hw) (o1 ▸ hk) (o1 ▸ hr) (o1 ▸ hm) (o1 ▸ hp)
          (by simpa [ticksOf] using hn) s' down' hrun
        rw [o1] at r4
        exact ⟨r1, r2, r3.trans st1, r4, by simpa [ticksOf] using r5, by rw [r6, q1]; simp [eventsOf]⟩
      | tick =>
        simp only [ticksOf] at hn
        have hm2 : 2 ≤ m := by omega
        obtain ⟨s1, e1, i1, w1, f1, f2, f3, f4, f5⟩ := m_tick_waits_paused h hw hk hr (by omega) (by omega)
        simp only [stepIn, e1] at hrun
        obtain ⟨r1, r2, r3, r4, r5, r6⟩ := ih s1 down (m - 1) i1 w1 (by rw [f3.keys]; exact hk)
          (by rw [f3.request]; exact hr) (by omega) (by omega) (by omega) s' down' hrun
        refine ⟨r1, r2, r3.trans f1, f3.trans r4, by simp only [ticksOf]; omega, ?_⟩
        rw [r6, f2, age_map_ev]
        simp [eventsOf]

/-- **second_key_never_modified_mix** (full): press variants, end to end, for every delay `d` and
every remaining countdown `t ≥ 2`.  One-shot keys active, a tap-hold key pending that decides `a` on
this tick: the tick performs the resolved action with every one-shot state in place (`s1`); from
there, whatever arrives, after exactly `max (min d (t − 1)) 1 − 1` further ticks nothing has been
taken from the queue, nothing is pending and no state has changed; on the next tick the one-shot
states are released first (`sr` holds no state of a tapped one-shot key, no one-shot key is active)
and only then is the next event — the second following key — taken and processed, on `sr`.  So the
one-shot applies to exactly the resolved tap-hold action. -/
theorem second_key_never_modified_mix {s : Layout} {down : List Coord} (h : MInv s down)
    (w : Waiting) (hw : s.waiting = some w) (hk : s.oneshot.keys ≠ []) (hr : s.oneshot.releaseOnNextTick = false)
    (h2 : 2 ≤ s.oneshot.timeout) (he : isPressEnd s.oneshot.endConfig = true) (a : WAct)
    (hd : (C05.htStep w (age s.queue)).2 = some a) :
    ∃ s1, tick s = .ok (s1, .noEvent) ∧ MInv s1 down ∧ s1.waiting = none ∧ Adds w.coord s s1 ∧
      s1.queue = age s.queue ∧
      ∀ (ins : List In) (s' : Layout) (down' : List Coord),
        ticksOf ins + 1 = max (min s.oneshot.pauseInputProcessingDelay (s.oneshot.timeout - 1)) 1 →
        run s1 down ins = some (.ok (s', down')) →
        s'.states = s1.states ∧ s'.waiting = none ∧
        s'.queue.map (·.ev) = s.queue.map (·.ev) ++ eventsOf ins ∧
        ∃ sr, tickOneshot (tickPre s') = .ok (sr, .noEvent) ∧ sr.oneshot.keys = [] ∧
          sr.states = dropCoords s.oneshot.releasedKeys s1.states ∧
          (∀ st ∈ sr.states, ∀ k ∈ s.oneshot.releasedKeys, st.coord ≠ some k) ∧
          (∀ s'' cu, tick s' = .ok (s'', cu) ↔ tickMain sr = .ok (s'', cu)) ∧
          (tickMain sr = match age s'.queue with
            | [] => .ok (sr, .noEvent)
            | q :: rest' => dequeue FUEL (sr.setQueue rest') q) := by
  obtain ⟨s1, e1, i1, w1, q1, ad, hp, _⟩ := oneshot_applies_to_resolved_taphold_action h w hw hk hr h2 a hd
  have ho := hp he
  refine ⟨s1, e1, i1, w1, ad, q1, ?_⟩
  intro ins s' down' hn hrun
  obtain ⟨r1, r2, r3, r4, r5, r6⟩ := m_no_pop_before_release ins s1 down
    (min s.oneshot.pauseInputProcessingDelay (s.oneshot.timeout - 1)) i1 w1 (by rw [ho]; exact hk)
    (by rw [ho]; exact hr) (by rw [ho]) (by rw [ho]; exact Nat.min_le_left _ _) (by omega) s' down' hrun
  obtain ⟨sr, k0, ki, ko, kst, kq, kw, kx, kiff⟩ := m_tick_fires r1 (by rw [r4.keys, ho]; exact hk)
    (Or.inr (by omega))
  have hrel : s'.oneshot.releasedKeys = s.oneshot.releasedKeys := by rw [r4.released, ho]
  have hst : sr.states = dropCoords s.oneshot.releasedKeys s1.states := by rw [kst, hrel, r3]
  refine ⟨r3, r2, by rw [r6, q1, age_map_ev], sr, k0, by rw [ko]; rfl, hst, ?_, kiff, ?_⟩
  · intro st hst' k hk'
    rw [hst] at hst'
    exact (mem_dropCoords.mp hst').2 k hk'
  · have hp0 : sr.oneshot.pauseInputProcessingTicks = 0 := by rw [ko]; rfl
    have hwn : sr.waiting = none := kw.trans r2
    cases hqq : age s'.queue with
    | nil => exact tickMain_empty hwn kx hp0 (kq.trans hqq)
    | cons q rest => exact tickMain_pops hwn kx hp0 q rest (kq.trans hqq)

/-! ## the boundary: pressed in time is not enough -/

/-- one-shot shift (press variant, 10 ticks) next to a tap-hold key `s` / left control (hold timeout 200) -/
def cxCfg : LCfg :=
  { layers := [[((0, 30), .oneShot (.keyCode 42) 10 .firstPress),
                ((0, 31), .holdTap 200 (.keyCode 29) (.keyCode 31) (.keyCode 29) .default 0)]],
    srcKeys := [(30, .keyCode 30), (31, .keyCode 31)] }

def cxInit : Layout := { cfg := cxCfg, oneshot := { pauseInputProcessingDelay := 5 } }

/-- tap the one-shot key, press the tap-hold key on the third tick (8 ticks of the one-shot are left),
release it `gap + 1` ticks later -/
def cxHist (gap : Nat) : List In :=
  [.ev (.press (0, 30)), .tick, .ev (.release (0, 30)), .tick, .ev (.press (0, 31)), .tick] ++
  List.replicate gap .tick ++ [.ev (.release (0, 31)), .tick]

def keysAfterRun (s : Layout) (ins : List In) : Option (List KeyCode) :=
  match run s [] ins with
  | some (.ok (s', _)) => some s'.keycodes
  | _ => none

theorem cxCfg_frag : CfgM cxCfg := by
  refine ⟨?_, ?_⟩
  · intro tbl ht e he
    simp only [cxCfg, List.mem_cons, List.mem_nil_iff, or_false] at ht
    subst ht
    simp only [List.mem_cons, List.mem_nil_iff, or_false] at he
    rcases he with rfl | rfl <;> simp [FragM, Simple]
  · intro e he
    simp only [cxCfg, List.mem_cons, List.mem_nil_iff, or_false] at he
    rcases he with rfl | rfl <;> simp [FragM]

/-- **next_key_pressed_in_time_counterexample** (witness on the executable model, a configuration of
the mixed fragment, reachable from the fresh layout).  The naive reading of C06 — "the one-shot stays
active until the first following key is PRESSED or its timeout elapses, whichever comes first" — is
false when the first following key is a tap-hold key: it is pressed while 8 of the one-shot's 10 ticks
are left, but `handle_press(Other)` only happens when it RESOLVES, and `tick_osh` keeps counting
meanwhile.  Released after 3 ticks, the tap comes out shifted (`[42, 31]`); released after 21 ticks
(still a tap: hold timeout 200), the one-shot has expired in between and the very next key comes out
unshifted (`[31]`), although it was pressed in time. -/
theorem next_key_pressed_in_time_counterexample :
    keysAfterRun cxInit (cxHist 2) = some [42, 31] ∧ keysAfterRun cxInit (cxHist 20) = some [31] ∧
    keysAfterRun cxInit [.ev (.press (0, 30)), .tick, .ev (.release (0, 30)), .tick, .ev (.press (0, 31)), .tick]
      = some [42] := by
  decide +kernel

/-! ## Non-vacuity -/

example : MInv cxInit [] := mix_init_inv cxCfg cxCfg_frag true false false 5

/-- the state right after the tap-hold key's press was taken, one-shot shift tapped before: the
hypotheses of the pending / resolution / expiry theorems are met -/
def samplePending : Layout :=
  { cfg := cxCfg, states := [.normalKey 42 (0, 30) 0],
    waiting := some { coord := (0, 31), timeout := 200, delay := 0, ticks := 0, hold := .keyCode 29,
                      tap := .keyCode 31, timeoutAction := .keyCode 29, config := .holdTap .default,
                      layerStack := [], prevQueueLen := 255 },
    oneshot := { keys := [(0, 30)], releasedKeys := [(0, 30)], timeout := 8, endConfig := .firstPress,
                 pauseInputProcessingDelay := 5 } }

example : MInv samplePending [(0, 31)] ∧ samplePending.oneshot.keys ≠ [] ∧
    samplePending.oneshot.releaseOnNextTick = false ∧ 2 ≤ samplePending.oneshot.timeout ∧
    isPressEnd samplePending.oneshot.endConfig = true ∧ (∃ w, samplePending.waiting = some w) := by
  refine ⟨⟨rfl, rfl, rfl, rfl, ?_, rfl, cxCfg_frag, by decide, ?_, trivial, ?_, ?_⟩, by simp [samplePending], rfl,
    by decide, rfl, ⟨_, rfl⟩⟩
  · intro st hst
    simp only [samplePending, List.mem_cons, List.mem_nil_iff, or_false] at hst
    subst hst; exact Or.inl rfl
  · intro hk; simp [samplePending] at hk
  · intro st hst c hc
    simp only [samplePending, List.mem_cons, List.mem_nil_iff, or_false] at hst
    subst hst
    simp only [St.coord] at hc
    injection hc with hc
    subst hc
    exact Or.inr (Or.inl (by simp [samplePending]))
  · intro w hw
    simp only [samplePending] at hw
    injection hw with hw
    subst hw
    exact ⟨⟨⟨_, rfl⟩, trivial, trivial, trivial⟩, Or.inl (by simp)⟩

def sampleWaiting : Waiting :=
  { coord := (0, 31), timeout := 200, delay := 0, ticks := 0, hold := .keyCode 29, tap := .keyCode 31,
    timeoutAction := .keyCode 29, config := .holdTap .default, layerStack := [], prevQueueLen := 255 }

/-- with the key's release queued the pending key decides "tap" on the next tick (the hypothesis
`hd` of the resolution theorems), and with an empty queue it stays undecided (`StaysPending`) -/
example : samplePending.waiting = some sampleWaiting ∧
    (C05.htStep sampleWaiting (age [⟨.release (0, 31), 0⟩])).2 = some .tap ∧
    (C05.htStep sampleWaiting (age [])).2 = none :=
  ⟨rfl, by decide, by decide⟩

/-- the tap-hold key resolves on the base layer of `cxInit` -/
example : cxInit.transOrder = .ok [0] ∧
    cxInit.resolveCoord (0, 31) [0] = .ok (.holdTap 200 (.keyCode 29) (.keyCode 31) (.keyCode 29) .default 0, []) :=
  ⟨rfl, rfl⟩

end KVerif.C06
