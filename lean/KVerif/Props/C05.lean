/-
C05 — tap-hold resolves every press to exactly one of tap / hold / timeout, on time.
Property theorems only; helper lemmas are in Lemmas/TapHold.lean.
-/
import KVerif.Lemmas.TapHold
namespace KVerif.C05
open KVerif.L

/-- `n` ticks with nothing in the queue; stops at the first tick on which the waiting state decides.
Returns the waiting state, how many ticks were consumed and the decision, if any. -/
def idleTicks (aq : ActionQueue) : Nat → Waiting → Except Crash (Waiting × Nat × Option WAct)
  | 0, w => .ok (w, 0, none)
  | n + 1, w =>
    match tickWt w [] aq with
    | .error c => .error c
    | .ok (w', _, _, some (a, _)) => .ok (w', 1, some a)
    | .ok (w', _, _, none) =>
      match idleTicks aq n w' with
      | .error c => .error c
      | .ok (w'', k, r) => .ok (w'', k + 1, r)

theorem idle_step (w : Waiting) (cfg : HTConfig) (hc : w.config = .holdTap cfg) (aq : ActionQueue)
    (hp : w.prevQueueLen = 255 ∨ w.prevQueueLen = 0) :
    ∃ w', tickWt w [] aq = .ok (w', [], aq,
        if w.timeout ≤ 1 ∧ skips cfg = false then some (.timeout, none) else none) ∧
      w'.timeout = w.timeout - 1 ∧ w'.config = w.config ∧ w'.prevQueueLen = 0 ∧
      w'.coord = w.coord ∧ w'.delay = w.delay := by
  rw [tickWt_holdTap w cfg hc]
  have hf := handleHoldTap_fields { w with timeout := w.timeout - 1, ticks := min (w.ticks + 1) U16_MAX } cfg []
  have hnp := handleHoldTap_noPress { w with timeout := w.timeout - 1, ticks := min (w.ticks + 1) U16_MAX } cfg []
    (fun x hx => by cases hx)
  simp only [List.length_nil, Nat.zero_mod, List.find?_nil] at hnp
  have key : (handleHoldTap { w with timeout := w.timeout - 1, ticks := min (w.ticks + 1) U16_MAX } cfg []).2 =
        (if w.timeout ≤ 1 ∧ skips cfg = false then some WAct.timeout else none) ∧
      (handleHoldTap { w with timeout := w.timeout - 1, ticks := min (w.ticks + 1) U16_MAX } cfg []).1.prevQueueLen = 0 := by
    rw [hnp]
    by_cases h1 : w.timeout ≤ 1
    · have h0 : w.timeout - 1 = 0 := by omega
      rcases hp with hp | hp <;> cases hs : skips cfg <;> simp [hp, h0, h1, hs]
    · have h0 : ¬ (w.timeout - 1 = 0) := by omega
      have h3 : 0 < w.timeout - 1 := by omega
      rcases hp with hp | hp <;> simp [hp, h0, h1, h3]
  refine ⟨_, ?_, hf.1, hf.2.1, key.2, hf.2.2.1, hf.2.2.2.1⟩
  congr 2
  rw [key.1]
  split <;> rfl

/-- **timeout_exactly_at_T** (full, all variants whose timeout applies).  With no other input and
the key still held, a tap-hold press with hold timeout `T ≥ 1` stays undecided for `T − 1` ticks and
chooses the timeout action (the hold action unless a separate one is configured) on exactly the
`T`-th tick after the press was processed — for every `T`, not a sampled one. -/
theorem timeout_exactly_at_T (cfg : HTConfig) (hk : skips cfg = false) (aq : ActionQueue) :
    ∀ (T : Nat) (w : Waiting), w.config = .holdTap cfg → w.timeout = T → 1 ≤ T →
      (w.prevQueueLen = 255 ∨ w.prevQueueLen = 0) →
      (∀ n, n < T → ∃ w', idleTicks aq n w = .ok (w', n, none) ∧ w'.timeout = T - n) ∧
      (∀ n, T ≤ n → ∃ w', idleTicks aq n w = .ok (w', T, some .timeout)) := by
  intro T
  induction T with
  | zero => intro w _ _ h; omega
  | succ T ih =>
    intro w hc ht _ hp
    obtain ⟨w1, e1, f1, f2, f3, _, _⟩ := idle_step w cfg hc aq hp
    by_cases hT : T = 0
    · subst hT
      have hle : w.timeout ≤ 1 := by omega
      simp only [hle, hk, and_self, if_true] at e1
      refine ⟨?_, ?_⟩
      · intro n hn
        have : n = 0 := by omega
        subst this
        exact ⟨w, rfl, by omega⟩
      · intro n hn
        obtain ⟨m, rfl⟩ : ∃ m, n = m + 1 := ⟨n - 1, by omega⟩
        exact ⟨w1, by simp only [idleTicks, e1]⟩
    · have hgt : ¬ (w.timeout ≤ 1 ∧ skips cfg = false) := by omega
      simp only [hgt, if_false] at e1
      obtain ⟨i1, i2⟩ := ih w1 (f2.trans hc) (by omega) (by omega) (Or.inr f3)
      refine ⟨?_, ?_⟩
      · intro n hn
        cases n with
        | zero => exact ⟨w, rfl, by omega⟩
        | succ m =>
          obtain ⟨w2, g1, g2⟩ := i1 m (by omega)
          exact ⟨w2, by simp only [idleTicks, e1, g1], by omega⟩
      · intro n hn
        obtain ⟨m, rfl⟩ : ∃ m, n = m + 1 := ⟨n - 1, by omega⟩
        obtain ⟨w2, g1⟩ := i2 m (by omega)
        exact ⟨w2, by simp only [idleTicks, e1, g1]⟩

/-- **release_decides** (full).  When the key's own release is what the waiting state sees (no
other key pressed meanwhile), the decision is taken on that tick: **tap iff the remaining countdown
exceeds the queue-latency compensation**, i.e. with `T'` the countdown before this tick, `d` the
ticks the press had waited in the queue and `σ` the ticks the release has waited:
tap ⇔ `T' − 1 > d ∸ σ`; otherwise the timeout action — never both, never neither. -/
theorem release_decides (w : Waiting) (cfg : HTConfig) (hc : w.config = .holdTap cfg) (aq : ActionQueue)
    (q : List Queued) (hnp : NoPress q) (r : Queued) (hr : q.find? (fun s => s.ev == .release w.coord) = some r)
    (hlen : q.length % 256 ≠ w.prevQueueLen) :
    ∃ w', tickWt w q aq = .ok (w', q, aq,
      some (if w.timeout - 1 > w.delay - r.since then WAct.tap else WAct.timeout, none)) := by
  rw [tickWt_holdTap w cfg hc]
  refine ⟨(handleHoldTap { w with timeout := w.timeout - 1, ticks := min (w.ticks + 1) U16_MAX } cfg q).1, ?_⟩
  congr 2
  rw [handleHoldTap_noPress _ cfg q hnp]
  have : ¬ ((q.length % 256 == w.prevQueueLen) = true) := by simpa using hlen
  simp only [this, Bool.false_and, Bool.false_eq_true, if_false, hr]
  split <;> rfl

/-- the closed form of the design: press processed at `t₀` after waiting `d` ticks, release seen
`j ≥ 1` ticks later after waiting `σ` ticks: tap ⇔ `j + (d ∸ σ) < T`. -/
theorem tap_iff_closed_form (T j d σ : Nat) (hj : 1 ≤ j) (hjT : j ≤ T) :
    ((T - (j - 1)) - 1 > d - σ) ↔ j + (d - σ) < T := by omega

/-- the three actions a tap-hold waiting state can resolve to -/
def outcomes (w : Waiting) : List Action := [w.hold, w.tap, w.timeoutAction]

theorem holdPrep_fields (s : Layout) (w : Waiting) :
    (holdPrep s w).waiting = s.waiting ∧ (holdPrep s w).queue = s.queue ∧
    (holdPrep s w).states = s.states ∧ (holdPrep s w).extraWaiting = s.extraWaiting := by
  unfold holdPrep; split <;> exact ⟨rfl, rfl, rfl, rfl⟩

theorem timeoutPrep_fields (s : Layout) (w : Waiting) :
    (timeoutPrep s w).waiting = s.waiting ∧ (timeoutPrep s w).queue = s.queue ∧
    (timeoutPrep s w).states = s.states ∧ (timeoutPrep s w).extraWaiting = s.extraWaiting := by
  unfold timeoutPrep; split <;> exact ⟨rfl, rfl, rfl, rfl⟩

/-- **exactly_one_of_tap_hold_timeout** (full).  One tick of the layout with a tap-hold key pending
either leaves everything but the countdown untouched (nothing is output, nothing is taken from the
queue), or consumes the waiting state and performs **exactly one** `do_action`, on one of the
key's tap / hold / timeout actions, at the key's own coordinate, with the layers that were active
when it was pressed — on a state that differs from the previous one only in bookkeeping counters.
Since the waiting state is gone afterwards, no press can resolve twice. -/
theorem exactly_one_of_tap_hold_timeout (s : Layout) (w : Waiting) (cfg : HTConfig)
    (hw : s.waiting = some w) (hc : w.config = .holdTap cfg) (s' : Layout) (cu : CustomEv)
    (h : tickMain s = .ok (s', cu)) :
    (∃ w', s' = { s with waiting := some w' } ∧ cu = .noEvent ∧ w'.config = w.config ∧
        w'.timeout = w.timeout - 1 ∧ w'.hold = w.hold ∧ w'.tap = w.tap ∧ w'.timeoutAction = w.timeoutAction) ∨
    (∃ a ∈ outcomes w, ∃ s0 s1 : Layout, ∃ fuel : Nat, 3999 ≤ fuel ∧
        s0.waiting = none ∧ s0.queue = s.queue ∧ s0.states = s.states ∧
        s0.extraWaiting = s.extraWaiting ∧
        doAction fuel s0 a w.coord (min (w.delay + min (w.ticks + 1) U16_MAX) U16_MAX) false w.layerStack = .ok (s1, cu) ∧
        (s' = s1 ∨ s' = tapPost s1)) := by
  unfold tickMain at h
  simp only [hw, tickWt_holdTap w cfg hc] at h
  have hf := handleHoldTap_fields { w with timeout := w.timeout - 1, ticks := min (w.ticks + 1) U16_MAX } cfg s.queue
  have hnn := handleHoldTap_ne_noOp { w with timeout := w.timeout - 1, ticks := min (w.ticks + 1) U16_MAX } cfg s.queue
  generalize handleHoldTap { w with timeout := w.timeout - 1, ticks := min (w.ticks + 1) U16_MAX } cfg s.queue = res at h hf hnn
  obtain ⟨w1, r⟩ := res
  obtain ⟨f1, f2, f3, f4, f5, f6, f7, f8, f9⟩ := hf
  simp only at f1 f2 f3 f4 f5 f6 f7 f8 f9
  have hwd : waitingDelay w1 = min (w.delay + min (w.ticks + 1) U16_MAX) U16_MAX := by
    simp only [waitingDelay, f2, hc, f4, f9]
  -- the state handed to applyWaitingAction, with its waiting state taken out
  generalize hS : ({ s with waiting := some w1, queue := s.queue, actionQueue := s.actionQueue } : Layout) = S at h
  have hSw : S.waiting = some w1 := by rw [← hS]
  have hSc : S.clearWaiting.waiting = none ∧ S.clearWaiting.queue = s.queue ∧
      S.clearWaiting.states = s.states ∧ S.clearWaiting.extraWaiting = s.extraWaiting := by
    rw [← hS]; exact ⟨rfl, rfl, rfl, rfl⟩
  cases r with
  | none =>
    left
    simp only [Option.map_none, applyWaitingAction] at h
    injection h with h; injection h with h1 h2
    refine ⟨w1, ?_, h2.symm, f2, f1, f5, f6, f7⟩
    rw [← h1, ← hS]
  | some a =>
    right
    simp only [Option.map_some, applyWaitingAction] at h
    cases a with
    | hold =>
      rw [FUEL_succ] at h
      simp only [waitingIntoHold, takeWaiting, hSw, Option.map_some] at h
      obtain ⟨p1, p2, p3, p4⟩ := holdPrep_fields S.clearWaiting w1
      refine ⟨w.hold, by simp [outcomes], holdPrep S.clearWaiting w1, s', 3999, Nat.le_refl _, p1.trans hSc.1,
        p2.trans hSc.2.1, p3.trans hSc.2.2.1, p4.trans hSc.2.2.2, ?_, Or.inl rfl⟩
      rw [← hwd, ← f5, ← f3, ← f8]; exact h
    | tap =>
      simp only [waitingIntoTap, takeWaiting, hSw, Option.map_some] at h
      split at h
      · cases h
      · rename_i s1 ret hd
        injection h with h; injection h with h1 h2
        refine ⟨w.tap, by simp [outcomes], S.clearWaiting, s1, FUEL, by decide, hSc.1, hSc.2.1, hSc.2.2.1, hSc.2.2.2, ?_, Or.inr h1.symm⟩
        rw [← hwd, ← f6, ← f3, ← f8, ← h2]; exact hd
    | timeout =>
      simp only [waitingIntoTimeout, takeWaiting, hSw, Option.map_some] at h
      obtain ⟨p1, p2, p3, p4⟩ := timeoutPrep_fields S.clearWaiting w1
      refine ⟨w.timeoutAction, by simp [outcomes], timeoutPrep S.clearWaiting w1, s', FUEL, by decide, p1.trans hSc.1,
        p2.trans hSc.2.1, p3.trans hSc.2.2.1, p4.trans hSc.2.2.2, ?_, Or.inl rfl⟩
      rw [← hwd, ← f7, ← f3, ← f8]; exact h
    | noOp =>
      -- `handle_hold_tap` never answers NoOp (that is the chord path); it would drop the waiting state
      exact absurd rfl hnn

/-! ### Early triggers of the press / release / keys variants -/

/-- **hold_on_other_key_press**: the press variant chooses hold as soon as any other press is queued. -/
theorem hold_on_other_key_press (q : List Queued) :
    earlyTrigger .holdOnOtherKeyPress q = (if ∃ x ∈ q, x.ev.isPress = true then some .hold else none, false) := by
  simp only [earlyTrigger, List.any_eq_true]

/-- **permissive_hold**: the release variant chooses hold exactly when some other key has been
pressed *and released* (in that order) while the decision is pending. -/
theorem permissive_hold (q : List Queued) :
    permissiveHoldHit q = true ↔
      ∃ pre x mid y post, q = pre ++ x :: mid ++ y :: post ∧ x.ev.isPress = true ∧ y.ev = .release x.ev.coord := by
  induction q with
  | nil => simp [permissiveHoldHit]
  | cons a rest ih =>
    simp only [permissiveHoldHit, Bool.or_eq_true, Bool.and_eq_true, List.any_eq_true]
    constructor
    · rintro (⟨hp, y, hy, hye⟩ | h)
      · obtain ⟨mid, post, rfl⟩ := List.append_of_mem hy
        exact ⟨[], a, mid, y, post, by simp, hp, by simpa using hye⟩
      · obtain ⟨pre, x, mid, y, post, rfl, hx, hy⟩ := ih.mp h
        exact ⟨a :: pre, x, mid, y, post, by simp, hx, hy⟩
    · rintro ⟨pre, x, mid, y, post, hq, hx, hy⟩
      cases pre with
      | nil =>
        simp only [List.nil_append, List.cons_append, List.cons.injEq] at hq
        obtain ⟨rfl, rfl⟩ := hq
        exact Or.inl ⟨hx, y, by simp, by simp [hy]⟩
      | cons p pre' =>
        simp only [List.cons_append, List.cons.injEq] at hq
        obtain ⟨rfl, rfl⟩ := hq
        exact Or.inr (ih.mpr ⟨pre', x, mid, y, post, by simp, hx, hy⟩)

/-- **release_keys_tap**: in the release-keys variant a queued press of a listed key, with no earlier
press that was already released, chooses tap. -/
theorem release_keys_tap (keys : List Nat) (pre : List Queued) (x : Queued) (post : List Queued)
    (hpre : NoPress pre) (hx : x.ev.isPress = true) (hk : keys.contains x.ev.coord.2 = true) :
    customRelease keys (pre ++ x :: post) = some .tap := by
  induction pre with
  | nil => simp only [List.nil_append, customRelease, hx, if_true, hk]
  | cons p ps ih =>
    have hp := hpre p (by simp)
    simp only [List.cons_append, customRelease, hp, Bool.false_eq_true, if_false]
    exact ih (fun y hy => hpre y (by simp [hy]))

/-- **except_keys**: in the except-keys variant the first queued press decides: a listed key gives
tap at once, any other key leaves the decision to the timeout/release rule; with no press queued
the timeout is not applied. -/
theorem except_keys_first_press (keys : List Nat) (pre : List Queued) (x : Queued) (post : List Queued)
    (hpre : NoPress pre) (hx : x.ev.isPress = true) :
    customExcept keys (pre ++ x :: post) =
      (if keys.contains x.ev.coord.2 then some .tap else none, false) := by
  induction pre with
  | nil => simp only [List.nil_append, customExcept, hx, if_true]; split <;> rfl
  | cons p ps ih =>
    have hp := hpre p (by simp)
    simp only [List.cons_append, customExcept, hp, Bool.false_eq_true, if_false]
    exact ih (fun y hy => hpre y (by simp [hy]))

/-! ### [t8:while-down] The early triggers see only what happened while the key was down -/

/-- the events the early triggers look at: everything queued before the key's own release -/
theorem whileDown_split (c : Coord) (pre : List Queued) (r : Queued) (post : List Queued)
    (hpre : ∀ x ∈ pre, (x.ev == .release c) = false) (hr : (r.ev == .release c) = true) :
    whileDown c (pre ++ r :: post) = pre := by
  induction pre with
  | nil => simp only [List.nil_append, whileDown, hr, if_true]
  | cons p ps ih =>
    have hp := hpre p (by simp)
    simp only [List.cons_append, whileDown, hp, Bool.false_eq_true, if_false]
    rw [ih (fun y hy => hpre y (by simp [hy]))]

/-- **released_key_decides_without_later_events** (full; the statement of the repair PENDING-1).  A
tap-hold key of ANY variant that has been released, with no other key pressed between its press and
its release (`pre`), resolves by the time comparison alone - tap iff the countdown exceeds the
latency compensation - whatever was queued after the release (`post`: the key's own next press, other
keys pressed and released, listed keys): the early triggers are triggers *while the key is
undecided and down*. -/
theorem released_key_decides_without_later_events (w : Waiting) (cfg : HTConfig)
    (pre : List Queued) (r : Queued) (post : List Queued) (hpre : NoPress pre)
    (hnr : ∀ x ∈ pre, (x.ev == .release w.coord) = false) (hr : r.ev = .release w.coord)
    (hlen : ¬ (((pre ++ r :: post).length % 256 == w.prevQueueLen && w.timeout > 0) = true)) :
    (handleHoldTap w cfg (pre ++ r :: post)).2 =
      some (if w.timeout > w.delay - r.since then WAct.tap else WAct.timeout) := by
  have hrr : (r.ev == .release w.coord) = true := by rw [hr]; simp
  have hfind : (pre ++ r :: post).find? (fun s => s.ev == .release w.coord) = some r := by
    rw [List.find?_append]
    have : pre.find? (fun s => s.ev == .release w.coord) = none := by
      rw [List.find?_eq_none]; intro x hx; simp [hnr x hx]
    rw [this]; simp [List.find?_cons, hrr]
  unfold handleHoldTap
  rw [if_neg hlen]
  simp only [whileDown_split w.coord pre r post hnr hrr, early_noPress cfg hpre,
    isCorrespondingRelease, hfind]
  by_cases h : w.timeout > w.delay - r.since <;> simp only [h, if_true, if_false]

/-- witness: key b (coordinate 48) one tick after it left the queue, where it had waited 80 ticks -/
def lateW : Waiting :=
  { coord := (0, 48), timeout := 199, delay := 80, ticks := 1, hold := .keyCode 42, tap := .keyCode 48,
    timeoutAction := .keyCode 42, config := .holdTap .holdOnOtherKeyPress, layerStack := [0], prevQueueLen := 255 }
/-- its own release, then another key tapped -/
def lateOther : List Queued := [⟨.release (0, 48), 60⟩, ⟨.press (0, 46), 40⟩, ⟨.release (0, 46), 20⟩]
/-- its own release, then the key itself tapped again -/
def lateOwn : List Queued := [⟨.release (0, 48), 60⟩, ⟨.press (0, 48), 40⟩, ⟨.release (0, 48), 20⟩]

/-- **late_press_made_a_tap_a_hold_counterexample** (the behaviour before the repair, pinned as
`handleHoldTapPinned`): `tap-hold-press`, hold timeout 200, resolved late with its own release
(waited 60 ticks) and a later press of another key in the queue.  The pinned code answers hold; the
repaired code answers tap.  The same witness with the key's OWN second press instead of another key
(remark R1), and for `tap-hold-release` with a later press+release (remark R3). -/
theorem late_press_made_a_tap_a_hold_counterexample :
    (handleHoldTapPinned lateW .holdOnOtherKeyPress lateOther).2 = some .hold ∧
    (handleHoldTap lateW .holdOnOtherKeyPress lateOther).2 = some .tap ∧
    (handleHoldTapPinned lateW .holdOnOtherKeyPress lateOwn).2 = some .hold ∧
    (handleHoldTap lateW .holdOnOtherKeyPress lateOwn).2 = some .tap ∧
    (handleHoldTapPinned lateW .permissiveHold lateOther).2 = some .hold ∧
    (handleHoldTap lateW .permissiveHold lateOther).2 = some .tap := by
  decide

example : NoPress ([] : List Queued) ∧ (⟨.release ((0, 30) : Coord), 1⟩ : Queued).ev = .release (0, 30) :=
  ⟨(fun _ h => by cases h), rfl⟩

/-! ### [t8:concurrent-overdue] `concurrent-tap-hold yes`: a key whose countdown ran out in the queue -/

/-- **concurrent_overdue_tap_is_hold_counterexample** (known finding, remark R4; the statement "tap
if the key is released before the hold timeout has elapsed" is FALSE of the code with
`concurrent-tap-hold yes`).  With the option on, a plain `tap-hold` press that waited `d ≥ T` ticks
in the queue behind another undecided tap-hold gets the countdown `T ∸ d = 0` and the compensation
`0`; its first `tick_wt` then answers the timeout (= hold) action WHATEVER is queued - in particular
when the key's own release has been waiting there for hundreds of ticks, i.e. the key was tapped for
a few milliseconds long ago.  Witness on the real code: `(defcfg concurrent-tap-hold yes)`,
a = `(tap-hold 0 300 a lctl)`, b = `(tap-hold 0 200 b lsft)`, `d:a t:10 d:b t:50 u:b t:400 u:a`:
b was down for 50 of its 200 ms and comes out as LShift (without the option: as b). -/
theorem concurrent_overdue_tap_is_hold_counterexample (s : Layout) (hq : s.quickTapHoldTimeout = true)
    (hw : s.waiting = none) (c : Coord) (d T : Nat) (hold tap to : Action) (iv : Nat) (ls : List Nat)
    (hd : T ≤ d) :
    ∃ w, (armHoldTapWait s c d T hold tap to .default iv ls).waiting = some w ∧ w.timeout = 0 ∧
      ∀ (q : List Queued) (aq : ActionQueue), ∃ w', tickWt w q aq = .ok (w', q, aq, some (.timeout, none)) := by
  have key : ∀ S : Layout, (updateCoord S c).waiting = S.waiting := by
    intro S; unfold updateCoord; split <;> rfl
  refine ⟨{ coord := c, timeout := T - d, delay := 0, ticks := 0, hold := hold, tap := tap,
            timeoutAction := to, config := .holdTap .default, layerStack := ls, prevQueueLen := 255 }, ?_, ?_, ?_⟩
  · unfold armHoldTapWait
    simp only [hw, hq, if_true]
    rw [key]
  · show T - d = 0
    omega
  · intro q aq
    have hX : (handleHoldTap
        { coord := c, timeout := T - d - 1, delay := 0, ticks := min (0 + 1) U16_MAX, hold := hold, tap := tap,
          timeoutAction := to, config := .holdTap .default, layerStack := ls, prevQueueLen := 255 }
        .default q).2 = some .timeout := by
      have h0 : T - d - 1 = 0 := by omega
      unfold handleHoldTap
      simp only [h0, Nat.lt_irrefl, gt_iff_lt, decide_false, Bool.and_false, Bool.false_eq_true, if_false,
        earlyTrigger, Nat.not_lt_zero, beq_self_eq_true, Bool.not_false, Bool.and_self, if_true]
      split <;> rfl
    rw [tickWt_holdTap _ .default rfl q aq]
    exact ⟨_, by rw [hX]; rfl⟩

example : (0 : Nat) + 200 ≤ 290 := by decide

/-! ### Keys pressed while the decision is pending -/

/-- **pending_events_are_buffered**: an event arriving while fewer than 32 are queued is appended to
the queue and nothing else happens — whatever is waiting. -/
theorem pending_events_are_buffered (s : Layout) (e : Ev) (hq : s.queue.length < QUEUE_SIZE) :
    ∃ s', s.event e = .ok s' ∧ s'.queue = s.queue ++ [⟨e, 0⟩] ∧ s'.states = s.states ∧
      s'.waiting = s.waiting ∧ s'.extraWaiting = s.extraWaiting := by
  unfold Layout.event
  rw [FUEL_succ]
  cases e <;> simp only [event, pushBackWrap, hq, if_true] <;> exact ⟨_, rfl, rfl, rfl, rfl, rfl⟩

/-- **buffered_events_replayed_in_order**: once nothing is waiting (and the rapid-event pause is
over) each tick takes exactly the oldest queued event and processes it. -/
theorem buffered_events_replayed_in_order (s : Layout) (h1 : s.waiting = none) (h2 : s.extraWaiting = [])
    (h3 : s.oneshot.pauseInputProcessingTicks = 0) (q : Queued) (rest : List Queued)
    (hq : s.queue = q :: rest) : tickMain s = dequeue FUEL (s.setQueue rest) q := by
  unfold tickMain
  simp only [h1, h2, List.isEmpty_nil, if_true, h3, Nat.lt_irrefl, if_false, hq]

/-- while another tap-hold is still waiting in `extra_waiting`, nothing is taken from the queue -/
theorem nothing_dequeued_while_extra_waiting (s : Layout) (h1 : s.waiting = none)
    (h2 : s.extraWaiting ≠ []) : tickMain s = .ok (s, .noEvent) := by
  unfold tickMain
  have : s.extraWaiting.isEmpty = false := by
    cases h : s.extraWaiting with
    | nil => exact absurd h h2
    | cons _ _ => rfl
  simp only [h1, this, Bool.false_eq_true, if_false]

/-! ### Non-vacuity -/

def sampleW : Waiting :=
  { coord := (0, 30), timeout := 200, delay := 1, ticks := 0, hold := .keyCode 42, tap := .keyCode 30,
    timeoutAction := .keyCode 42, config := .holdTap .permissiveHold, layerStack := [0], prevQueueLen := 255 }

example : sampleW.config = .holdTap .permissiveHold ∧ skips .permissiveHold = false ∧ sampleW.timeout = 200 ∧
    1 ≤ 200 ∧ (sampleW.prevQueueLen = 255 ∨ sampleW.prevQueueLen = 0) := ⟨rfl, rfl, rfl, by decide, Or.inl rfl⟩

end KVerif.C05
