/-
C18 — virtual keys obey press / release / tap / toggle and their timed forms.
-/
import KVerif.Model.Kanata
import KVerif.Lemmas.KanataDynQuiet
namespace KVerif.C18
open KVerif.L KVerif.K

/-! ### A virtual key is a physical key at a coordinate only kanata can operate -/

/-- **vkey_press_release_tap** (full): press / release / tap of a virtual key are exactly the layout
events a physical key at that coordinate would produce (tap = press then release, in that order). -/
theorem vkey_press_release_tap (l : Layout) (c : Coord) :
    fakeKeyAction l .press c = l.event (.press c) ∧
    fakeKeyAction l .release c = l.event (.release c) ∧
    fakeKeyAction l .tap c = (match l.event (.press c) with
      | .error e => .error e
      | .ok l' => l'.event (.release c)) := ⟨rfl, rfl, rfl⟩

/-- **vkey_toggle** (full): toggle releases if the key is held (some state carries its coordinate)
and presses otherwise. -/
theorem vkey_toggle (l : Layout) (c : Coord) :
    fakeKeyAction l .toggle c =
      if l.states.any (fun s => s.coord == some c) then l.event (.release c) else l.event (.press c) := rfl

/-- **vkey_toggle_alternates** (full, for settled states): once a toggle's event has been processed
— the key's state is in `states` after a press, gone after a release — the next toggle does the
opposite. -/
theorem vkey_toggle_alternates (l : Layout) (c : Coord) :
    ((∃ s ∈ l.states, s.coord = some c) → fakeKeyAction l .toggle c = l.event (.release c)) ∧
    ((∀ s ∈ l.states, s.coord ≠ some c) → fakeKeyAction l .toggle c = l.event (.press c)) := by
  constructor
  · rintro ⟨s, hs, hc⟩
    have : l.states.any (fun s => s.coord == some c) = true :=
      List.any_eq_true.mpr ⟨s, hs, by simp [hc]⟩
    simp [vkey_toggle, this]
  · intro h
    have : l.states.any (fun s => s.coord == some c) = false := by
      rw [List.any_eq_false]; intro s hs; simpa using h s hs
    simp [vkey_toggle, this]

/-- **vkey_same_from_any_source** (full): operated from a key (`on-press-fakekey`), from a key
release (`on-release-fakekey`), or when kanata goes idle (`on-idle-fakekey`), the layout receives
the result of the same function `fakeKeyAction` (a macro's custom item reaches `customPress` through
the same custom event; a TCP client calls `handle_fakekey_action` directly). -/
theorem vkey_same_from_any_source (k : KState) (c : Coord) (a : FkAction) (cur : List KeyCode) (l' : Layout)
    (h : fakeKeyAction k.layout a c = .ok l') :
    (∃ k', customPress k [.fakeKey c a] cur = .ok (k', cur) ∧ k'.layout = l' ∧ k'.out = k.out) ∧
    (∃ k', K.customRelease k [.fakeKeyOnRelease c a] = .ok k' ∧ k'.layout = l' ∧ k'.out = k.out) := by
  constructor
  · refine ⟨{ k with layout := l' }, ?_, rfl, rfl⟩
    simp only [customPress, customPress.go, h]
  · refine ⟨{ k with layout := l' }, ?_, rfl, rfl⟩
    simp only [K.customRelease, K.customRelease.go, h]

/-! ### hold-for-duration -/

/-- the countdown of one held virtual key, isolated: `n` calls of `tick_held_vkeys` on a single
entry; returns how many calls it took to release, if it was released -/
def countdown : Nat → Nat → Option Nat
  | 0, _ => none
  | n + 1, d => if d - 1 == 0 then some 1 else (countdown n (d - 1)).map (· + 1)

/-- **hold_for_duration_spec** (full, every duration): a virtual key held for duration `D ≥ 1` is
released by the `D`-th `tick_held_vkeys` after its most recent (re-)activation and not earlier —
the activation's own tick counts as the first. -/
theorem hold_for_duration_spec : ∀ (D n : Nat), 1 ≤ D →
    countdown n D = if D ≤ n then some D else none := by
  intro D
  induction D with
  | zero => intro n h; omega
  | succ D ih =>
    intro n _
    cases n with
    | zero => simp [countdown]
    | succ n =>
      by_cases hD : D = 0
      · subst hD; simp [countdown]
      · have := ih n (by omega)
        simp only [countdown, Nat.add_sub_cancel, this]
        have h0 : ¬ ((D == 0) = true) := by simpa using hD
        simp only [h0, if_false]
        by_cases hle : D ≤ n
        · simp [hle]
        · simp [hle]

/-- one `tick_held_vkeys` on a single pending entry does what `countdown` counts: the deadline drops
by one, and at zero the release event is handed to the layout and the entry removed -/
theorem tickHeldVkeys_single (k : KState) (c : Coord) (d : Nat) (h : k.vkeysPendingRelease = [(c, d)]) :
    tickHeldVkeys k =
      if d - 1 == 0 then
        (match k.layout.event (.release c) with
          | .error e => .error (.layout e)
          | .ok l => .ok { k with layout := l, vkeysPendingRelease := [] })
      else .ok { k with vkeysPendingRelease := [(c, d - 1)] } := by
  unfold tickHeldVkeys
  simp only [h, tickHeldVkeys.go]
  split
  · split <;> simp_all [tickHeldVkeys.go]
  · simp [tickHeldVkeys.go]

/-- **hold_for_duration_rearms** (full): activating a virtual key that is already held for a
duration restarts its countdown at the new duration and sends no second press. -/
theorem hold_for_duration_rearms (k : KState) (c : Coord) (d dur : Nat) (cur : List KeyCode)
    (h : k.vkeysPendingRelease = [(c, d)]) :
    customPress k [.fakeKeyHold c dur] cur =
      .ok ({ k with vkeysPendingRelease := [(c, dur)] }, cur) := by
  simp [customPress, customPress.go, h]

/-- **hold_for_duration_activates** (full): the first activation presses the key (one press event to
the layout) and starts the countdown. -/
theorem hold_for_duration_activates (k : KState) (c : Coord) (dur : Nat) (cur : List KeyCode) (l' : Layout)
    (h : k.vkeysPendingRelease = []) (he : k.layout.event (.press c) = .ok l') :
    customPress k [.fakeKeyHold c dur] cur =
      .ok ({ k with layout := l', vkeysPendingRelease := [(c, dur)] }, cur) := by
  simp [customPress, customPress.go, h, he]

/-- **hold_for_duration_after_release_counterexample** (known finding, KNOWN_FINDINGS.jsonl:
`rearmed-after-release`; reproduced on the real code, corpus/C18.txt).  The re-arm branch looks only
at the countdown table, not at the key: when the key has been released by another action since the
first activation (release-vkey, release-key, a TCP release) while its countdown is still running - no
key state, nothing queued - a new hold-for-duration activation sends NO press: the layout is left
exactly as it was, so the key is not held at all although "hold-for-duration keeps the key pressed
until the stated time has passed since its most recent activation".  (General in `k`; the concrete
witness below it is the state after `(hold-for-duration 50 v)`, then `release-vkey v` 10 ms later.) -/
theorem hold_for_duration_after_release_counterexample (k : KState) (c : Coord) (d dur : Nat) (cur : List KeyCode)
    (h : k.vkeysPendingRelease = [(c, d)]) (hs : k.layout.states = []) (hq : k.layout.queue = []) :
    ∃ k', customPress k [.fakeKeyHold c dur] cur = .ok (k', cur) ∧
      k'.layout.states = [] ∧ k'.layout.queue = [] ∧ k'.vkeysPendingRelease = [(c, dur)] :=
  ⟨_, hold_for_duration_rearms k c d dur cur h, hs, hq, rfl⟩

/-- the witness: virtual key (1,0) = `lmet`, released explicitly 10 ticks into its 50-tick hold (the
table still says 40 to go, no key state, empty queue); the next activation changes nothing but the table -/
example :
    let k : KState :=
      { layout := { cfg := { layers := [[((0, 30), .custom 0), ((1, 0), .keyCode 125)]], srcKeys := [(30, .keyCode 30)] } },
        customs := [[.fakeKeyHold (1, 0) 50]], keyOutputs := [], mods := default,
        vkeysPendingRelease := [((1, 0), 40)] }
    k.layout.states = [] ∧ k.layout.queue = [] ∧
    (match customPress k [.fakeKeyHold (1, 0) 50] [] with
      | .ok (k', _) => k'.layout.states = [] ∧ k'.layout.queue = [] ∧ k'.vkeysPendingRelease = [((1, 0), 50)]
      | .error _ => False) := by
  refine ⟨rfl, rfl, ?_⟩
  simp [customPress, customPress.go]

/-! ### on-idle -/

/-- **on_idle_not_before** (full): an on-idle action does not fire while the accumulated idle time
is below its duration; it stays registered. -/
theorem on_idle_not_before (k : KState) (w : OnIdle) (h : k.waitingForIdle = [w])
    (hlt : k.ticksSinceIdle < w.idle) : tickIdleTimeout k = .ok k := by
  unfold tickIdleTimeout
  have : ¬ (k.ticksSinceIdle ≥ w.idle) := by omega
  simp only [h, tickIdleTimeout.go, this, if_false, List.reverse_cons, List.reverse_nil, List.nil_append]
  congr
  cases k; simp_all

/-- **on_idle_fires_once** (full): once the accumulated idle time reaches the duration the action is
performed through `fakeKeyAction` and the registration is removed, so it cannot fire again. -/
theorem on_idle_fires_once (k : KState) (w : OnIdle) (h : k.waitingForIdle = [w])
    (hge : k.ticksSinceIdle ≥ w.idle) (l' : Layout) (he : fakeKeyAction k.layout w.action w.coord = .ok l') :
    tickIdleTimeout k = .ok { k with layout := l', waitingForIdle := [] } := by
  unfold tickIdleTimeout
  simp only [h, tickIdleTimeout.go, hge, if_true, he, List.reverse_nil]

/-- **idle_time_accumulates_only_while_idle** (full): the idle clock advances by the elapsed
milliseconds when kanata is idle and something waits for idleness, is reset when kanata is not idle,
and any input event resets it. -/
theorem idle_time_accumulates_only_while_idle (k : KState) (ms : Nat) :
    (isIdle k = false → (canBlockUpdateIdleWaiting k ms).1.ticksSinceIdle = 0) ∧
    (isIdle k = true → k.waitingForIdle ≠ [] →
      (canBlockUpdateIdleWaiting k ms).1.ticksSinceIdle = min (k.ticksSinceIdle + ms) 65535) ∧
    (∀ i k', handleInputEvent k i = .ok k' → match i with
      | .rep _ => True
      | _ => k'.ticksSinceIdle = 0) := by
  refine ⟨?_, ?_, ?_⟩
  · intro h; simp [canBlockUpdateIdleWaiting, h]
  · intro h hw
    have : k.waitingForIdle.isEmpty = false := by
      cases hk : k.waitingForIdle with
      | nil => exact absurd hk hw
      | cons _ _ => rfl
    simp [canBlockUpdateIdleWaiting, h, this]
  · intro i k' h
    cases i with
    | rep _ => trivial
    | press code =>
      simp only [handleInputEvent] at h
      split at h
      · cases h
      · injection h with h; subst h
        simp only []
        split <;> simp only [(dynRecord_fields _ _ _).2.2.2.2.2.2.1]
    | release code =>
      simp only [handleInputEvent] at h
      split at h
      · cases h
      · injection h with h; subst h
        simp only [(dynRecord_fields _ _ _).2.2.2.2.2.2.1]
    | tap code =>
      simp only [handleInputEvent] at h
      split at h
      · cases h
      · split at h
        · cases h
        · injection h with h; subst h; rfl

/-- while something waits for idleness kanata never blocks its loop (so the idle clock keeps running) -/
theorem never_blocks_while_waiting_for_idle (k : KState) (ms : Nat) (hw : k.waitingForIdle ≠ []) :
    (canBlockUpdateIdleWaiting k ms).2 = false := by
  have : k.waitingForIdle.isEmpty = false := by
    cases hk : k.waitingForIdle with
    | nil => exact absurd hk hw
    | cons _ _ => rfl
  simp [canBlockUpdateIdleWaiting, this]

/-! ### non-vacuity -/
example : countdown 10 3 = some 3 ∧ countdown 2 3 = none := by decide

end KVerif.C18
