/-
C14 — OS key-repeat is forwarded for, and only for, keys kanata is holding down.
-/
import KVerif.Model.KeyOutputs
namespace KVerif.C14
open KVerif.L KVerif.K KVerif.KO

/-! ### The key-output table covers every key-producing action form -/

theorem addKc_mono (outs : List Nat) (kc x : Nat) (h : x ∈ outs) : x ∈ addKc outs kc := by
  unfold addKc; split
  · exact h
  · exact List.mem_append_left _ h

theorem addKc_self (outs : List Nat) (kc : Nat) : kc ∈ addKc outs kc := by
  unfold addKc; split
  · rename_i h; simpa using h
  · simp

theorem foldl_addKc_mono (kcs : List Nat) : ∀ (outs : List Nat) (x : Nat), x ∈ outs → x ∈ kcs.foldl addKc outs := by
  induction kcs with
  | nil => intro outs x h; exact h
  | cons k rest ih => intro outs x h; exact ih _ x (addKc_mono outs k x h)

theorem foldl_addKc_mem (kcs : List Nat) : ∀ (outs : List Nat) (x : Nat), x ∈ kcs → x ∈ kcs.foldl addKc outs := by
  induction kcs with
  | nil => intro _ x h; cases h
  | cons k rest ih =>
    intro outs x h
    rcases List.mem_cons.mp h with rfl | h
    · exact foldl_addKc_mono rest _ _ (addKc_self outs _)
    · exact ih _ x h

mutual
  theorem add_mono (customs : List (List CAct)) (slot : Nat) : (a : Action) → (outs : List Nat) → (x : Nat) →
      x ∈ outs → x ∈ addOutputs customs slot a outs
    | .keyCode kc, outs, x, h => by simp only [addOutputs]; exact addKc_mono outs kc x h
    | .holdTap _ hold tap ta _ _, outs, x, h => by
      simp only [addOutputs]
      exact add_mono customs slot ta _ x (add_mono customs slot hold _ x (add_mono customs slot tap outs x h))
    | .oneShot a _ _, outs, x, h => by simp only [addOutputs]; exact add_mono customs slot a outs x h
    | .multipleKeyCodes kcs, outs, x, h => by simp only [addOutputs]; exact foldl_addKc_mono kcs outs x h
    | .multipleActions acs, outs, x, h => by simp only [addOutputs]; exact addL_mono customs slot acs outs x h
    | .tapDance acs _ _, outs, x, h => by simp only [addOutputs]; exact addL_mono customs slot acs outs x h
    | .fork l r _, outs, x, h => by
      simp only [addOutputs]; exact add_mono customs slot r _ x (add_mono customs slot l outs x h)
    | .chords _ chs _, outs, x, h => by simp only [addOutputs]; exact addC_mono customs slot chs outs x h
    | .switch cases, outs, x, h => by simp only [addOutputs]; exact addS_mono customs slot cases outs x h
    | .custom id, outs, x, h => by simp only [addOutputs]; exact foldl_addKc_mono _ outs x h
    | .src, outs, x, h => by simp only [addOutputs]; exact addKc_mono outs slot x h
    | .noOp, _, _, h | .trans, _, _, h | .layer _, _, _, h | .defaultLayer _, _, _, h | .bufKeyCodes _, _, _, h
    | .sequence _, _, _, h | .repeatableSequence _, _, _, h | .cancelSequences, _, _, h
    | .releaseState _, _, _, h | .oneShotIgnoreEventsTicks _, _, _, h | .repeat, _, _, h => by
      simp only [addOutputs]; exact h
  theorem addL_mono (customs : List (List CAct)) (slot : Nat) : (acs : List Action) → (outs : List Nat) → (x : Nat) →
      x ∈ outs → x ∈ addOutputsL customs slot acs outs
    | [], _, _, h => by simp only [addOutputsL]; exact h
    | a :: rest, outs, x, h => by
      simp only [addOutputsL]; exact addL_mono customs slot rest _ x (add_mono customs slot a outs x h)
  theorem addC_mono (customs : List (List CAct)) (slot : Nat) : (chs : List (Nat × Action)) → (outs : List Nat) → (x : Nat) →
      x ∈ outs → x ∈ addOutputsC customs slot chs outs
    | [], _, _, h => by simp only [addOutputsC]; exact h
    | (_, a) :: rest, outs, x, h => by
      simp only [addOutputsC]; exact addC_mono customs slot rest _ x (add_mono customs slot a outs x h)
  theorem addS_mono (customs : List (List CAct)) (slot : Nat) : (cs : List (List Nat × Action × Bool)) → (outs : List Nat) → (x : Nat) →
      x ∈ outs → x ∈ addOutputsS customs slot cs outs
    | [], _, _, h => by simp only [addOutputsS]; exact h
    | (_, a, _) :: rest, outs, x, h => by
      simp only [addOutputsS]; exact addS_mono customs slot rest _ x (add_mono customs slot a outs x h)
end

mutual
  theorem add_complete (customs : List (List CAct)) (slot : Nat) : (a : Action) → (outs : List Nat) → (x : Nat) →
      x ∈ possibleOutputs customs slot a → x ∈ addOutputs customs slot a outs
    | .keyCode kc, outs, x, h => by
      simp only [possibleOutputs, List.mem_singleton] at h; subst h
      simp only [addOutputs]; exact addKc_self outs _
    | .holdTap _ hold tap ta _ _, outs, x, h => by
      simp only [possibleOutputs, List.mem_append] at h
      simp only [addOutputs]
      rcases h with (h | h) | h
      · exact add_mono customs slot ta _ x (add_mono customs slot hold _ x (add_complete customs slot tap outs x h))
      · exact add_mono customs slot ta _ x (add_complete customs slot hold _ x h)
      · exact add_complete customs slot ta _ x h
    | .oneShot a _ _, outs, x, h => by
      simp only [possibleOutputs] at h; simp only [addOutputs]; exact add_complete customs slot a outs x h
    | .multipleKeyCodes kcs, outs, x, h => by
      simp only [possibleOutputs] at h; simp only [addOutputs]; exact foldl_addKc_mem kcs outs x h
    | .multipleActions acs, outs, x, h => by
      simp only [possibleOutputs] at h; simp only [addOutputs]; exact addL_complete customs slot acs outs x h
    | .tapDance acs _ _, outs, x, h => by
      simp only [possibleOutputs] at h; simp only [addOutputs]; exact addL_complete customs slot acs outs x h
    | .fork l r _, outs, x, h => by
      simp only [possibleOutputs, List.mem_append] at h
      simp only [addOutputs]
      rcases h with h | h
      · exact add_mono customs slot r _ x (add_complete customs slot l outs x h)
      · exact add_complete customs slot r _ x h
    | .chords _ chs _, outs, x, h => by
      simp only [possibleOutputs] at h; simp only [addOutputs]; exact addC_complete customs slot chs outs x h
    | .switch cases, outs, x, h => by
      simp only [possibleOutputs] at h; simp only [addOutputs]; exact addS_complete customs slot cases outs x h
    | .custom id, outs, x, h => by
      simp only [possibleOutputs] at h; simp only [addOutputs]; exact foldl_addKc_mem _ outs x h
    | .src, outs, x, h => by
      simp only [possibleOutputs, List.mem_singleton] at h; subst h
      simp only [addOutputs]; exact addKc_self outs _
    | .noOp, _, _, h | .trans, _, _, h | .layer _, _, _, h | .defaultLayer _, _, _, h | .bufKeyCodes _, _, _, h
    | .sequence _, _, _, h | .repeatableSequence _, _, _, h | .cancelSequences, _, _, h
    | .releaseState _, _, _, h | .oneShotIgnoreEventsTicks _, _, _, h | .repeat, _, _, h => by
      simp [possibleOutputs] at h
  theorem addL_complete (customs : List (List CAct)) (slot : Nat) : (acs : List Action) → (outs : List Nat) → (x : Nat) →
      x ∈ possibleOutputsL customs slot acs → x ∈ addOutputsL customs slot acs outs
    | [], _, _, h => by simp [possibleOutputsL] at h
    | a :: rest, outs, x, h => by
      simp only [possibleOutputsL, List.mem_append] at h
      simp only [addOutputsL]
      rcases h with h | h
      · exact addL_mono customs slot rest _ x (add_complete customs slot a outs x h)
      · exact addL_complete customs slot rest _ x h
  theorem addC_complete (customs : List (List CAct)) (slot : Nat) : (chs : List (Nat × Action)) → (outs : List Nat) → (x : Nat) →
      x ∈ possibleOutputsC customs slot chs → x ∈ addOutputsC customs slot chs outs
    | [], _, _, h => by simp [possibleOutputsC] at h
    | (_, a) :: rest, outs, x, h => by
      simp only [possibleOutputsC, List.mem_append] at h
      simp only [addOutputsC]
      rcases h with h | h
      · exact addC_mono customs slot rest _ x (add_complete customs slot a outs x h)
      · exact addC_complete customs slot rest _ x h
  theorem addS_complete (customs : List (List CAct)) (slot : Nat) : (cs : List (List Nat × Action × Bool)) → (outs : List Nat) → (x : Nat) →
      x ∈ possibleOutputsS customs slot cs → x ∈ addOutputsS customs slot cs outs
    | [], _, _, h => by simp [possibleOutputsS] at h
    | (_, a, _) :: rest, outs, x, h => by
      simp only [possibleOutputsS, List.mem_append] at h
      simp only [addOutputsS]
      rcases h with h | h
      · exact addS_mono customs slot rest _ x (add_complete customs slot a outs x h)
      · exact addS_complete customs slot rest _ x h
end

/-- **keyouts_complete** (full): for every action — any nesting of plain key, output chord, multi,
tap-hold, tap-dance, one-shot, fork, switch, chord group, unmod/unshift, use-defsrc — every key code
of a key-producing leaf is in the key-output table entry built for the physical key. (This is the
"every variant has an arm" obligation of `add_key_output_from_action_to_key_pos`.) -/
theorem keyouts_complete (customs : List (List CAct)) (slot : Nat) (a : Action) (x : Nat)
    (h : x ∈ possibleOutputs customs slot a) : x ∈ keyOutputs customs slot a :=
  add_complete customs slot a [] x h

/-! ### ... and with global overrides in the configuration -/

theorem mem_addKc_self (outs : List Nat) (kc : Nat) : kc ∈ addKc outs kc := by
  unfold addKc; split <;> simp_all

theorem mem_addKc_mono (outs : List Nat) (kc x : Nat) (h : x ∈ outs) : x ∈ addKc outs kc := by
  unfold addKc; split <;> simp_all

theorem mem_foldl_addKc (ks : List Nat) : ∀ (outs : List Nat) (x : Nat), x ∈ outs ∨ x ∈ ks → x ∈ ks.foldl addKc outs := by
  induction ks with
  | nil => intro outs x h; simpa using h
  | cons k rest ih =>
    intro outs x h
    simp only [List.foldl_cons]
    apply ih
    rcases h with h | h
    · exact Or.inl (mem_addKc_mono _ _ _ h)
    · rcases List.mem_cons.mp h with h | h
      · subst h; exact Or.inl (mem_addKc_self _ _)
      · exact Or.inr h

theorem withOverrides_go (t : Override.Overrides) (base : List Nat) : ∀ (acc : List Nat) (x : Nat),
    (x ∈ acc ∨ x ∈ base ∨ ∃ c ∈ base, x ∈ overrideOuts t c) →
    x ∈ base.foldl (fun outs c => (overrideOuts t c).foldl addKc (addKc outs c)) acc := by
  induction base with
  | nil => intro acc x h; rcases h with h | h | ⟨c, hc, _⟩ <;> simp_all
  | cons b rest ih =>
    intro acc x h
    simp only [List.foldl_cons]
    apply ih
    rcases h with h | h | ⟨c, hc, hx⟩
    · exact Or.inl (mem_foldl_addKc _ _ _ (Or.inl (mem_addKc_mono _ _ _ h)))
    · rcases List.mem_cons.mp h with h | h
      · subst h; exact Or.inl (mem_foldl_addKc _ _ _ (Or.inl (mem_addKc_self _ _)))
      · exact Or.inr (Or.inl h)
    · rcases List.mem_cons.mp hc with hc | hc
      · subst hc; exact Or.inl (mem_foldl_addKc _ _ _ (Or.inr hx))
      · exact Or.inr (Or.inr ⟨c, hc, hx⟩)

/-- **keyouts_complete_with_overrides** (full): with a `defoverrides` table the entry of a physical key
holds every key code of a key-producing leaf of its action AND the output key of every override
whose input key is such a key code - whatever the physical key is called (the table is what the
repeat logic consults, so a missing entry means a dropped repeat). -/
theorem keyouts_complete_with_overrides (t : Override.Overrides) (customs : List (List CAct)) (slot : Nat)
    (a : Action) (x : Nat) (h : x ∈ possibleOutputs customs slot a) :
    x ∈ withOverrides t (keyOutputs customs slot a) ∧
    ∀ o ∈ overrideOuts t x, o ∈ withOverrides t (keyOutputs customs slot a) := by
  have hb := keyouts_complete customs slot a x h
  exact ⟨withOverrides_go t _ [] x (Or.inr (Or.inl hb)),
         fun o ho => withOverrides_go t _ [] o (Or.inr (Or.inr ⟨x, hb, ho⟩))⟩

example : withOverrides (Override.Overrides.new [{ inKey := 45, outKey := 21, inMods := [42], outMods := [] }])
    (keyOutputs [] 30 (.keyCode 45)) = [45, 21] := by decide

/-! ### What a repeat event is forwarded as -/

theorem writeRepeat_out (k : KState) (kc : Nat) :
    (writeRepeat k kc).out = k.out ∨ (writeRepeat k kc).out = k.out ++ [.down kc] := by
  unfold writeRepeat; split
  · exact Or.inl rfl
  · exact Or.inr rfl

/-- **repeat_at_most_one** (full): a repeat event makes kanata emit nothing or exactly one event,
a key-down (repeat) of the chosen key. -/
theorem repeat_at_most_one (k k' : KState) (code : Nat) (h : handleRepeat k code = .ok k') :
    k'.out = k.out ∨ ∃ kc, k'.out = k.out ++ [.down kc] := by
  unfold handleRepeat at h
  split at h
  · -- [seq] hidden sequence mode: the repeat is dropped
    injection h with h; subst h; exact Or.inl rfl
  split at h
  · cases h
  · rename_i cur ost _
    simp only [] at h
    split at h
    · cases h
    · rename_i order _
      injection h with h
      subst h
      simp only []
      split
      · rename_i kc _
        rcases writeRepeat_out { k with overrideStates := ost } kc with h1 | h1
        · exact Or.inl h1
        · exact Or.inr ⟨kc, h1⟩
      · exact Or.inl rfl

theorem mem_repeatOrder (outs : List Nat) (x : Nat) : x ∈ repeatOrder outs ↔ x ∈ outs := by
  unfold repeatOrder
  simp only [List.mem_append, List.mem_filter, List.mem_reverse]
  constructor
  · rintro (⟨h, _⟩ | ⟨h, _⟩) <;> exact h
  · intro h
    cases hm : Override.isMod x
    · exact Or.inl ⟨h, by simp⟩
    · exact Or.inr ⟨h, rfl⟩

theorem repeatCandidate_active (k : KState) (cur : List KeyCode) (outs : List Nat) (kc : Nat)
    (h : repeatCandidate k cur outs = some kc) : isActive k cur kc = true ∧ kc ∈ outs := by
  unfold repeatCandidate at h
  have h1 := List.find?_some h
  have h2 := List.mem_of_find?_eq_some h
  exact ⟨h1, (mem_repeatOrder outs kc).mp h2⟩

theorem scanLayers_active (k : KState) (cur : List KeyCode) (code : Nat) : ∀ (order : List Nat) (kc : Nat),
    scanLayers k cur code order = some kc → isActive k cur kc = true := by
  intro order
  induction order with
  | nil => intro kc h; cases h
  | cons l rest ih =>
    intro kc h
    simp only [scanLayers] at h
    split at h
    · split at h
      · rename_i hc
        injection h with h; subst h
        exact (repeatCandidate_active k cur _ _ hc).1
      · exact ih kc h
    · exact ih kc h

/-- **repeat_only_active** (full): the key a repeat is forwarded as is in the list of keys kanata
wants down — the layout's key codes after overrides — or in the unmod/unshift key lists. -/
theorem repeat_only_active (k : KState) (cur : List KeyCode) (order : List Nat) (code kc : Nat)
    (h : repeatTarget k cur order code = some kc) : isActive k cur kc = true := by
  unfold repeatTarget at h
  split at h
  · rename_i kc' hs
    injection h with h; subst h
    exact scanLayers_active k cur code order _ hs
  · split at h
    · rename_i kc' hd
      injection h with h; subst h
      split at hd
      · rename_i outs _
        exact (repeatCandidate_active k cur outs _ hd).1
      · cases hd
    · split at h
      · rename_i ha
        injection h with h; subst h; exact ha
      · cases h

/-- the state in which `(tap-hold 200 200 a S-a)` has resolved to its hold action: `lsft` and `a` are
down -/
def relistWitness : KState :=
  { layout := { cfg := { layers := [[]], srcKeys := [] },
                states := [.normalKey 42 (0, 30) 0, .normalKey 30 (0, 30) 0] },
    customs := [], keyOutputs := [[(30, [30, 42])]],
    mods := { codes := [42, 54, 56, 100, 29, 97, 125, 126], lsft := 42, rsft := 54 },
    prevKeys := [42, 30] }

/-- **repeat_prefers_last_listed** (full, after fix PENDING-1): among the outputs listed for the key,
the last-listed non-modifier key that is active is chosen - whatever modifiers are listed, before or
after it (so `S-b` repeats `b`, not shift, also when `b` alone was listed earlier, as in
`(tap-hold 200 200 b S-b)` whose entry is `[b, lsft]`). -/
theorem repeat_prefers_last_listed (k : KState) (cur : List KeyCode) (pre : List Nat) (x : Nat) (post : List Nat)
    (hxm : Override.isMod x = false) (hx : isActive k cur x = true)
    (hpost : ∀ y ∈ post, Override.isMod y = false → isActive k cur y = false) :
    repeatCandidate k cur (pre ++ x :: post) = some x := by
  unfold repeatCandidate repeatOrder
  have hsplit : (pre ++ x :: post).reverse.filter (fun kc => !Override.isMod kc) =
      post.reverse.filter (fun kc => !Override.isMod kc) ++ x :: pre.reverse.filter (fun kc => !Override.isMod kc) := by
    simp only [List.reverse_append, List.reverse_cons, List.append_assoc, List.singleton_append,
      List.filter_append]
    rw [List.filter_cons_of_pos (by rw [hxm]; rfl)]
  rw [hsplit, List.append_assoc, List.find?_append]
  have hnone : (post.reverse.filter (fun kc => !Override.isMod kc)).find?
      (fun kc => cur.contains kc || k.unshiftedKeys.contains kc || k.unmoddedKeys.contains kc) = none := by
    rw [List.find?_eq_none]
    intro y hy
    obtain ⟨hy1, hy2⟩ := List.mem_filter.mp hy
    have hym : Override.isMod y = false := by
      cases hm : Override.isMod y
      · rfl
      · rw [hm] at hy2; cases hy2
    have := hpost y (List.mem_reverse.mp hy1) hym
    simpa [isActive] using this
  rw [hnone]
  simp only [Option.none_or, List.cons_append, List.find?_cons]
  have : (cur.contains x || k.unshiftedKeys.contains x || k.unmoddedKeys.contains x) = true := hx
  rw [this]

/-- **repeat_modifier_only_without_key** (full): a repeat is forwarded as a repeat of a modifier only when
none of the non-modifier outputs listed for the key is active ("preferring the last-listed key of a
chord over its modifiers", for every way the entry came about). -/
theorem repeat_modifier_only_without_key (k : KState) (cur : List KeyCode) (outs : List Nat) (m : Nat)
    (h : repeatCandidate k cur outs = some m) (hm : Override.isMod m = true) :
    ∀ y ∈ outs, Override.isMod y = false → isActive k cur y = false := by
  intro y hy hym
  unfold repeatCandidate repeatOrder at h
  rw [List.find?_append] at h
  cases hA : (outs.reverse.filter (fun kc => !Override.isMod kc)).find?
      (fun kc => cur.contains kc || k.unshiftedKeys.contains kc || k.unmoddedKeys.contains kc) with
  | some a =>
    rw [hA] at h
    simp only [Option.some_or] at h
    injection h with h
    subst h
    have := (List.mem_filter.mp (List.mem_of_find?_eq_some hA)).2
    rw [hm] at this; cases this
  | none =>
    rw [List.find?_eq_none] at hA
    have hmem : y ∈ outs.reverse.filter (fun kc => !Override.isMod kc) :=
      List.mem_filter.mpr ⟨List.mem_reverse.mpr hy, by rw [hym]; rfl⟩
    have := hA y hmem
    simpa [isActive] using this

example : repeatCandidate relistWitness [42, 30] [30, 42] = some 30 := by decide

/-- **relisted_key_behind_modifier_counterexample** (the scan before fix PENDING-1, plain reverse order):
the entry of `(tap-hold 200 200 a S-a)` is `[a, lsft]` - an output is listed once, at its first
listing - so with `S-a` held the reverse scan found `lsft` first and the OS repeat was forwarded as a
repeat of shift. Reproduced on the real code (corpus/C14.txt). -/
theorem relisted_key_behind_modifier_counterexample :
    keyOutputs [] 30 (.holdTap 200 (.multipleKeyCodes [42, 30]) (.keyCode 30) (.multipleKeyCodes [42, 30]) .default 200) = [30, 42] ∧
    repeatCandidatePinned relistWitness [42, 30] [30, 42] = some 42 ∧
    repeatCandidate relistWitness [42, 30] [30, 42] = some 30 := by
  refine ⟨by decide, by decide, by decide⟩

/-- **repeat_completeness** (full): if the held physical key has an entry on the first layer of the
order that has one, and any of those outputs is active, a repeat is forwarded (for one of them). -/
theorem repeat_completeness (k : KState) (cur : List KeyCode) (code l : Nat) (rest : List Nat) (outs : List Nat)
    (ho : outputsFor k l code = some outs) (x : Nat) (hx : x ∈ outs) (ha : isActive k cur x = true) :
    ∃ kc, repeatTarget k cur (l :: rest) code = some kc ∧ kc ∈ outs := by
  have hc : ∃ kc, repeatCandidate k cur outs = some kc := by
    unfold repeatCandidate
    cases hf : (repeatOrder outs).find? (fun kc => cur.contains kc || k.unshiftedKeys.contains kc || k.unmoddedKeys.contains kc) with
    | some kc => exact ⟨kc, rfl⟩
    | none =>
      rw [List.find?_eq_none] at hf
      have := hf x ((mem_repeatOrder outs x).mpr hx)
      simp only [isActive] at ha
      rw [ha] at this
      exact absurd rfl this
  obtain ⟨kc, hkc⟩ := hc
  refine ⟨kc, ?_, (repeatCandidate_active k cur outs kc hkc).2⟩
  simp only [repeatTarget, scanLayers, ho, hkc]

/-- **repeat_only_down_partial** (partial: needs "no unmod / unshift key active"; the full statement
"never for a key that is up" is false otherwise, see `repeat_for_suppressed_modifier_counterexample`):
with the unmod and unshift lists empty, the forwarded key is in the post-override key list. -/
theorem repeat_only_down_partial (k : KState) (cur : List KeyCode) (order : List Nat) (code kc : Nat)
    (hu : k.unmoddedKeys = []) (hs : k.unshiftedKeys = [])
    (h : repeatTarget k cur order code = some kc) : kc ∈ cur := by
  have := repeat_only_active k cur order code kc h
  simpa [isActive, hu, hs] using this

/-! ### The only-down clause is false when a modifier is suppressed by `unmod` -/

/-- physical `lsft` held (its key code is in the layout), `(unmod a)` active: the OS sees `a` only -/
def unmodWitness : KState :=
  { layout := { cfg := { layers := [[]], srcKeys := [] },
                states := [.normalKey 42 (0, 42) 0, .custom 0 (0, 30)] },
    customs := [[.unmodded [30] 1]], keyOutputs := [[(42, [42]), (30, [30])]],
    mods := { codes := [42, 54, 56, 100, 29, 97, 125, 126], lsft := 42, rsft := 54 },
    unmoddedKeys := [30], unmoddedMods := 1, prevKeys := [30] }

/-- **repeat_for_suppressed_modifier_counterexample**: the key list sent to the OS is `[a]` (shift is
removed by `unmod`), yet an OS repeat event for the physical shift key is forwarded as a repeat of
`LShift`, which is up at the OS. Reproduced on the real code; recorded as a known finding. -/
theorem repeat_for_suppressed_modifier_counterexample :
    adjustKeys unmodWitness unmodWitness.layout.keycodes = [30] ∧
    repeatTarget unmodWitness unmodWitness.layout.keycodes [0] 42 = some 42 := by
  constructor <;> rfl

end KVerif.C14
