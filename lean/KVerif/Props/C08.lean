/-
C08 — macros play exactly their key list, in order, and always end with keys released.
Property theorems only; helper lemmas are in Lemmas/Macro*.lean.
-/
import KVerif.Lemmas.MacroTick
import KVerif.Gen.MacroConsts
namespace KVerif.C08
open KVerif.L KVerif.Macro

/-! ## Expansion: the parser model produces exactly the spelling -/

/-- **expand_spells** (full).  For every macro body — any nesting depth, any number of items, keys,
delays, output chords, custom items (unicode, mouse …), list-form actions, plain groups and groups
held under modifier prefixes written `S-(…)`, `S- (…)` or `S-$var` — that satisfies what the parser
insists on (a body is not empty, delays are 1..=65535, a held group has at least one modifier, no
`O-` pseudo-modifier), the parser model — which walks the parameter list with remainder passing as
`parse_macro_item_impl` does, consuming two elements for a bare prefix followed by a list — returns
exactly the in-order spelling of the body followed by `Complete`: nothing added, nothing dropped,
nothing reordered; modifiers are pressed before and released after their group (in the order
written), chords are released in reverse order. -/
theorem expand_spells (body : List Body) (hne : body ≠ []) (hok : allOk body = true)
    (hov : (spellAll body).any isOverlap = false) :
    parseMacro (flattenAll body) = .ok (spellAll body ++ [.complete]) := by
  unfold parseMacro
  rw [flattenAll_isEmpty body hne, parseAll_spells _ body hok (Nat.le_refl _)]
  simp [hov]

/-- **expand_accepts_only_bodies** (full).  Conversely, every parameter list the parser model
accepts is the flattening of a well-formed body, and the event list is that body's spelling plus
`Complete` — so `expand_spells`, `expand_balanced` and the playback theorems speak about every
macro the parser model can produce, not about a subset of them. -/
theorem expand_accepts_only_bodies (params : List Item) (evs : List SeqEv)
    (h : parseMacro params = .ok evs) :
    ∃ body, params = flattenAll body ∧ body ≠ [] ∧ allOk body = true ∧
      (spellAll body).any isOverlap = false ∧ evs = spellAll body ++ [.complete] := by
  unfold parseMacro at h
  split at h
  · cases h
  · rename_i hne
    split at h
    · cases h
    · rename_i es hp
      split at h
      · cases h
      · rename_i hov
        obtain ⟨bs, h1, h2, h3⟩ := parseAll_sound _ _ _ hp
        simp only [Except.ok.injEq] at h
        refine ⟨bs, h1, ?_, h2, ?_, ?_⟩
        · rintro rfl
          simp [h1, flattenAll] at hne
        · rw [← h3]; simpa using hov
        · rw [← h3, ← h]

/-- **expand_balanced** (full).  In the expansion of every macro body, every `Press k` is followed
later by a `Release k`; the events are presses, releases, delays and custom items only, so the
final `Complete` is the only one; and for every key the presses and releases are well nested (a
Dyck word: no release of `k` while no press of `k` is open, and none left open at the end) — a tap
is self-contained, a chord opens and closes its keys, a held group opens its modifiers before and
closes them after its items. -/
theorem expand_balanced (body : List Body) :
    (∀ pre k post, spellAll body = pre ++ .press k :: post → SeqEv.release k ∈ post) ∧
    (spellAll body).all isStep = true ∧
    (∀ k d, walk k d (spellAll body) = some d) :=
  ⟨(closedB_iff _).mp (closedB_spellAll body), spellAll_steps body, fun k d => walk_spellAll k body d⟩

/-! ## Playback: a single active macro -/

/-- **slots_append** (full): where each event falls in the schedule.  The events before `e` take
`(slots pre).length` ticks; `e` is performed on the next tick and occupies `ticksOf e` ticks in all —
one for a press, release or custom item, exactly `d` for a delay of `d ≥ 1` — during the rest of
which nothing happens; then the events after it follow.  So the step after a delay `d` comes `d + 1`
ticks after the step before the delay: never sooner than stated. -/
theorem slots_append (pre : List SeqEv) (e : SeqEv) (post : List SeqEv) :
    slots (pre ++ e :: post) =
      slots pre ++ some e :: List.replicate (ticksOf e - 1) none ++ slots post := by
  induction pre with
  | nil => simp [slots]
  | cons p pre ih => simp only [List.cons_append, slots, ih, List.append_assoc]

/-- **macro_trace** (full).  A single active macro — any list `evs` of presses, releases, delays and
custom items followed by `Complete`, as the parser emits them — in a layout in which no
other sequence is active: tick after tick `process_sequences` performs exactly the schedule
`slots evs` on `states`: on the `n`-th tick the `n`-th slot — each press pushes one `FakeKey`, each
release removes the `FakeKey`s of its key, each custom item is queued, at most one step per tick and in
the order spelled, a delay of `d` holding everything for exactly `d` ticks — while the macro stays
the one active sequence; on the tick after the last step `Complete` ends it, nothing else
changes, and the ring is empty again (or holds a fresh copy of the latest held repeating macro). -/
theorem macro_trace (evs : List SeqEv) (hall : evs.all isStep = true) (s : Layout) (cur : Option SeqEv)
    (h : s.activeSequences = [⟨cur, 0, none, evs ++ [.complete]⟩]) :
    (∀ n, n ≤ (slots evs).length →
      (runSeq n s).states = playStates s.states ((slots evs).take n) ∧
      ∃ q, (runSeq n s).activeSequences = [q]) ∧
    (runSeq ((slots evs).length + 1) s).states = playStates s.states (slots evs) ∧
    (runSeq ((slots evs).length + 1) s).activeSequences = restartOf (playStates s.states (slots evs)) := by
  obtain ⟨e1, ⟨cur', e2⟩, e3⟩ := effs_steps evs hall cur [.complete] (by simp)
  have hrun : ∀ n, n ≤ (slots evs).length →
      (runSeq n s).states = playStates s.states ((slots evs).take n) ∧
      (runSeq n s).activeSequences = [seqRun n ⟨cur, 0, none, evs ++ [.complete]⟩] := by
    intro n hn
    obtain ⟨r1, r2⟩ := single_run s _ h n (fun m _ hm => e3 m (Nat.le_trans hm hn))
    refine ⟨?_, r2⟩
    rw [r1, playStates_eq, ← effs_take _ _ n hn, e1, List.map_take]
  refine ⟨fun n hn => ⟨(hrun n hn).1, _, (hrun n hn).2⟩, ?_⟩
  obtain ⟨r1, r2⟩ := hrun (slots evs).length (Nat.le_refl _)
  rw [List.take_length] at r1
  rw [e2] at r2
  obtain ⟨s1, s2⟩ := single_step (runSeq (slots evs).length s) _ r2
  obtain ⟨c1, c2⟩ := complete_tick cur'
  rw [c1] at s1 s2
  rw [c2] at s2
  rw [runSeq_succ_last]
  simp only [effStates, stApply, List.isEmpty_nil, if_true] at s1 s2
  rw [s1, s2, r1]
  exact ⟨rfl, rfl⟩

/-- **macro_ends_released** (full, single macro).  When a single macro whose events are what the
parser emits for some body (`expand_balanced`: steps in which every press is followed by a release)
has finished, no `FakeKey` of a key it presses or releases remains in `states` — even one that
was there before — and it has left no `FakeKey` that was not there before: every key it pressed
is released. -/
theorem macro_ends_released (evs : List SeqEv) (hall : evs.all isStep = true) (hbal : closedB evs = true)
    (s : Layout) (cur : Option SeqEv) (h : s.activeSequences = [⟨cur, 0, none, evs ++ [.complete]⟩]) :
    ∀ k, St.fakeKey k ∈ (runSeq ((slots evs).length + 1) s).states →
      St.fakeKey k ∈ s.states ∧ SeqEv.press k ∉ evs ∧ SeqEv.release k ∉ evs := by
  intro k hk
  rw [(macro_trace evs hall s cur h).2.1, playStates_slots] at hk
  exact fold_fake evs s.states k hbal hall hk

/-- the same for the macro of any body: it applies to everything `expand_spells` produces -/
theorem macro_of_body_ends_released (body : List Body) (s : Layout) (cur : Option SeqEv)
    (h : s.activeSequences = [⟨cur, 0, none, spellAll body ++ [.complete]⟩]) :
    ∀ k, St.fakeKey k ∈ (runSeq ((slots (spellAll body)).length + 1) s).states →
      St.fakeKey k ∈ s.states ∧ SeqEv.press k ∉ spellAll body :=
  fun k hk => ⟨(macro_ends_released _ (spellAll_steps body) (closedB_spellAll body) s cur h k hk).1,
    (macro_ends_released _ (spellAll_steps body) (closedB_spellAll body) s cur h k hk).2.1⟩

/-- **cancel_ends_released** (full): every cancellation path leaves no active sequence and no
`FakeKey` at all — the `CancelSequences` action of keyberon, and the three sites of
src/kanata/mod.rs (`CancelMacroOnRelease` when the key of a release-cancel macro is released, a
key press while the countdown of a cancel-on-press macro runs), which also drop the
`RepeatingSequence` states so that a repeating macro does not start again. -/
theorem cancel_ends_released :
    (∀ (s : Layout) (a : Action) (c : Coord) (o : Bool),
      (armCancelSequences s a c o).activeSequences = [] ∧ ∀ k, St.fakeKey k ∉ (armCancelSequences s a c o).states) ∧
    (∀ l : Layout, (cancelAll l).activeSequences = [] ∧ (∀ k, St.fakeKey k ∉ (cancelAll l).states) ∧
      ∀ evs c, St.repeatingSequence evs c ∉ (cancelAll l).states) ∧
    (∀ k : KState, 0 < k.cancelDur → k.prePress.lay = cancelAll k.lay ∧ k.prePress.cancelDur = 0) ∧
    (∀ (tbl : Nat → List CAct) (k : KState) (id : Nat), CAct.cancelMacroOnRelease ∈ tbl id →
      (customEffects tbl k (.release id)).lay.activeSequences = [] ∧
      ∀ key, St.fakeKey key ∉ (customEffects tbl k (.release id)).lay.states) := by
  refine ⟨?_, ?_, ?_, ?_⟩
  · intro s a c o
    have hf := armCancelSequences_fields s a c o
    refine ⟨hf.1, ?_⟩
    intro k hk
    rw [hf.2, List.mem_filter] at hk
    simp at hk
  · intro l
    exact (cancelAll_inv l).2
  · intro k hk
    unfold KState.prePress
    simp [hk]
  · intro tbl k id hmem
    -- once cancelled, the rest of the list keeps the ring and the fake keys empty
    have key : ∀ (l : List CAct) (k : KState),
        (k.lay.activeSequences = [] ∧ ∀ key, St.fakeKey key ∉ k.lay.states) ∨ CAct.cancelMacroOnRelease ∈ l →
        ((l.foldl (fun k a => match a with
            | .cancelMacroOnRelease => ({ lay := cancelAll k.lay, cancelDur := 0 } : KState)
            | _ => k) k).lay.activeSequences = [] ∧
          ∀ key, St.fakeKey key ∉ (l.foldl (fun k a => match a with
            | .cancelMacroOnRelease => ({ lay := cancelAll k.lay, cancelDur := 0 } : KState)
            | _ => k) k).lay.states) := by
      intro l
      induction l with
      | nil =>
        intro k h
        rcases h with h | h
        · exact h
        · cases h
      | cons a rest ih =>
        intro k h
        simp only [List.foldl_cons]
        cases a with
        | cancelMacroOnRelease =>
          exact ih _ (Or.inl ⟨rfl, (cancelAll_inv k.lay).2.2.1⟩)
        | cancelMacroOnNextPress d =>
          refine ih _ ?_
          rcases h with h | h
          · exact Or.inl h
          · simp only [List.mem_cons, reduceCtorEq, false_or] at h; exact Or.inr h
        | other =>
          refine ih _ ?_
          rcases h with h | h
          · exact Or.inl h
          · simp only [List.mem_cons, reduceCtorEq, false_or] at h; exact Or.inr h
    exact key (tbl id) k (Or.inr hmem)

/-- **repeat_only_while_held** (full).  `process_sequences` starts a sequence on its own only in
one situation: its loop has left the ring empty and a `RepeatingSequence` state is present — then
exactly one fresh copy of the latest pressed one is started, nothing else.  With no such state
present the ring stays empty.  That state is pushed by the press of a `macro-repeat…` key
(`armSequence … true`) and removed by the release of that key's coordinate (and by the
cancellation glue), so a repeating macro restarts only while its key is held; a run in progress when
the key is released plays to its end (`macro_trace`) and is not restarted. -/
theorem repeat_only_while_held (s : Layout) :
    ((processSequences s).activeSequences =
      if (seqLoop s.activeSequences.length s).activeSequences.isEmpty
      then restartOf (seqLoop s.activeSequences.length s).states
      else (seqLoop s.activeSequences.length s).activeSequences) ∧
    (∀ states, (∀ evs c, St.repeatingSequence evs c ∉ states) → restartOf states = []) ∧
    (∀ states q, q ∈ restartOf states → ∃ evs c, St.repeatingSequence evs c ∈ states ∧ q = { remaining := evs }) ∧
    (∀ (f : Bool) (c : Coord) (states : List St) (cu : CustomEv) evs,
      St.repeatingSequence evs c ∉ (releaseStates f c states cu).1) := by
  refine ⟨?_, ?_, ?_, ?_⟩
  · rw [processSequences_eq, restartRepeating_seqs]
  · intro states h
    unfold restartOf
    split
    · rename_i evs hl
      obtain ⟨c, hc⟩ := lastRepeating_mem hl
      exact absurd hc (h evs c)
    · rfl
  · intro states q hq
    unfold restartOf at hq
    split at hq
    · rename_i evs hl
      obtain ⟨c, hc⟩ := lastRepeating_mem hl
      simp only [List.mem_singleton] at hq
      exact ⟨evs, c, hc, hq⟩
    · cases hq
  · intro f c states cu evs
    exact releaseStates_no_rep f c states cu evs

/-! ## Interference: other keys and other macros -/

/-- **macro_projection_partial** (partial: at most 4 sequences in the ring).
Full statement: whatever else is typed or played meanwhile, an active macro performs its schedule.
Proved: in ANY layout state whose ring holds at most 4 sequences — whatever keys are held, queued or
waiting, whatever the other sequences are — one `process_sequences` pass makes every active sequence
perform exactly ONE effect, `seqEffect q`, and advance by `seqStep q`; both are functions of the
sequence alone (they do not take the layout), so what a macro does on its n-th tick is determined by
the macro (`effs_steps`: its `slots`), not by other input; the effects are applied to `states` in
ring order; a sequence leaves the ring only when its own events are used up; and (second part)
nothing that an action of the C08 fragment without `CancelSequences` does — plain keys, custom
actions, `multi`, starting other macros while the ring has room — changes a sequence that is
already active: it only appends the sequences it starts.
Missing: a 5th sequence (eviction), and the cancellation actions, which remove sequences by design. -/
theorem macro_projection_partial :
    (∀ s : Layout, s.activeSequences.length ≤ ACTIVE_SEQ_CAP →
      (seqLoop s.activeSequences.length s).activeSequences =
        s.activeSequences.flatMap (fun q => keep (seqStep q)) ∧
      (seqLoop s.activeSequences.length s).states =
        (s.activeSequences.map seqEffect).foldl effStates s.states ∧
      processSequences s = restartRepeating (seqLoop s.activeSequences.length s)) ∧
    (∀ fuel s a coord delay o ls s' cu, SeqInv s → MFrag a → a ≠ .trans → NoCancel a →
      s.activeSequences.length + seqCount a ≤ ACTIVE_SEQ_CAP →
      doAction fuel s a coord delay o ls = .ok (s', cu) →
      ∃ started, s'.activeSequences = s.activeSequences ++ started) := by
  refine ⟨?_, fun fuel => (frag_ext fuel).1⟩
  intro s h
  obtain ⟨l1, l2⟩ := seqLoop_spec s.activeSequences.length s s.activeSequences [] (by simp) (Nat.le_refl _)
    (by simpa using h)
  simp only [List.drop_length, List.take_length, List.nil_append] at l1 l2
  exact ⟨l1, l2, processSequences_eq s⟩

/-! ## All histories: macros end released while the ring of 4 is not overrun -/

/-- inputs of a run: a key event, or one millisecond -/
inductive In
  | ev (e : Ev)
  | tick
  deriving Repr

/-- the layout model run on a history -/
def runL : Layout → List In → Except Crash Layout
  | s, [] => .ok s
  | s, .ev e :: r =>
    match s.event e with
    | .error c => .error c
    | .ok s' => runL s' r
  | s, .tick :: r =>
    match tick s with
    | .error c => .error c
    | .ok (s', _) => runL s' r

/-- **macro_ends_released_partial** (partial: the configuration fragment below; no bound on the
history any more).
Full statement: for every configuration and every history, whenever no macro is playing no key
pressed by a macro is down.  It was false of the pinned code (a 5th concurrently active macro evicted
the oldest from the ring of 4 and stranded its keys: `macro_ring_eviction_strands_key_counterexample`);
since the `fix:` commit that introduced `start_sequence` an evicted sequence's outstanding releases
are performed at the eviction, and the hypothesis "at most 4 macros concurrently active" is gone.
Proved: for every configuration built from plain keys, no-op and transparent keys, custom actions,
`CancelSequences` and the macro actions (a `Sequence` / `RepeatableSequence` whose events are the
parser's, alone or inside a `multi` with a custom action — what the eight macro list actions
compile to, `compiled_in_fragment`), started quiet, and EVERY history of presses, releases and ticks
that the layout processes — any order and timing, physically consistent or not, macros activated
once, repeatedly, overlapping each other and plain keys, sharing keys and modifiers, any number of
them concurrently (also more than 4), any number of events pending (also bursts beyond the queue of
32): after the whole history (hence after every prefix of it) every `FakeKey` in `states` is owed a
`Release` by a sequence that is still active, every active sequence is a suffix of what the parser
emitted, and therefore **whenever no sequence is active, no `FakeKey` is left**.
Hypotheses that remain: `CfgM` (the configuration fragment), `Quiet` and `SeqInv` of the start
state (true of a fresh layout, `init_ok`), and that the run returns a state (`runL … = .ok`; on this
fragment the model has no crash outcome other than the index checks of `resolve_coord`).
Missing for the full statement: macros next to tap-hold, one-shot, tap-dance, chord, layer, fork and
switch actions, and sequences containing `Tap` events (never emitted by kanata's parser). -/
theorem macro_ends_released_partial : ∀ (ins : List In) (s : Layout), CfgM s.cfg → Quiet s → SeqInv s →
    ∀ s', runL s ins = .ok s' →
      SeqInv s' ∧ Quiet s' ∧ (s'.activeSequences = [] → ∀ k, St.fakeKey k ∉ s'.states) := by
  intro ins
  induction ins with
  | nil =>
    intro s _ hq hi s' h
    simp only [runL] at h
    injection h with h; subst h
    exact ⟨hi, hq, hi.released⟩
  | cons i rest ih =>
    intro s hc hq hi s' h
    cases i with
    | ev e =>
      simp only [runL] at h
      split at h
      · cases h
      · rename_i s1 he
        obtain ⟨e1, e2, e3⟩ := event_inv hc hq hi e s1 he
        exact ih s1 (e3 ▸ hc) e1 e2 s' h
    | tick =>
      simp only [runL] at h
      split at h
      · cases h
      · rename_i s1 cu ht
        obtain ⟨t1, t2, t3⟩ := tick_inv hc hq hi s1 cu ht
        exact ih s1 (t3 ▸ hc) t1 t2 s' h

/-- inputs of a run of the Kanata-level model -/
inductive KIn
  | press (c : Coord)
  | release (c : Coord)
  | tick
  deriving Repr

def runK (tbl : Nat → List CAct) : KState → List KIn → Except Crash KState
  | k, [] => .ok k
  | k, .press c :: r =>
    match k.press c with
    | .error e => .error e
    | .ok k' => runK tbl k' r
  | k, .release c :: r =>
    match k.release c with
    | .error e => .error e
    | .ok k' => runK tbl k' r
  | k, .tick :: r =>
    match k.tick tbl with
    | .error e => .error e
    | .ok (k', _) => runK tbl k' r

/-- **macro_ends_released_kanata_partial** (partial: the same configuration fragment; no bound on
the history).  The same with the cancellation glue of src/kanata/mod.rs in the loop (release-cancel,
cancel-on-press and their combination, whatever custom action table `tbl` the configuration has):
whatever is cancelled when, however many macros run at once, whenever no sequence is active no
`FakeKey` is left. -/
theorem macro_ends_released_kanata_partial (tbl : Nat → List CAct) : ∀ (ins : List KIn) (k : KState),
    CfgM k.lay.cfg → KInv k → ∀ k', runK tbl k ins = .ok k' →
      KInv k' ∧ (k'.lay.activeSequences = [] → ∀ key, St.fakeKey key ∉ k'.lay.states) := by
  intro ins
  induction ins with
  | nil =>
    intro k _ hi k' h
    simp only [runK] at h
    injection h with h; subst h
    exact ⟨hi, hi.inv.released⟩
  | cons i rest ih =>
    intro k hc hi k' h
    cases i with
    | press c =>
      simp only [runK] at h
      split at h
      · cases h
      · rename_i k1 he
        obtain ⟨e1, e2⟩ := kpress_inv hc hi c k1 he
        exact ih k1 (e2 ▸ hc) e1 k' h
    | release c =>
      simp only [runK] at h
      split at h
      · cases h
      · rename_i k1 he
        obtain ⟨e1, e2⟩ := krelease_inv hc hi c k1 he
        exact ih k1 (e2 ▸ hc) e1 k' h
    | tick =>
      simp only [runK] at h
      split at h
      · cases h
      · rename_i k1 keys ht
        obtain ⟨t1, t2⟩ := ktick_inv tbl hc hi k1 keys ht
        exact ih k1 (t2 ▸ hc) t1 k' h

/-- a freshly created layout is quiet and satisfies the invariant (the theorems apply from start-up) -/
theorem init_ok (cfg : LCfg) (tv2 dfl qth : Bool) (osd : Nat) :
    Quiet { cfg := cfg, transV2 := tv2, delegateToFirstLayer := dfl, quickTapHoldTimeout := qth,
            oneshot := { pauseInputProcessingDelay := osd } } ∧
    SeqInv { cfg := cfg, transV2 := tv2, delegateToFirstLayer := dfl, quickTapHoldTimeout := qth,
             oneshot := { pauseInputProcessingDelay := osd } } :=
  ⟨⟨rfl, rfl, rfl, rfl, rfl⟩, ⟨fun _ h => (by cases h), fun _ h => (by cases h), fun _ _ h => (by cases h), Nat.zero_le _⟩⟩

/-- the eight macro list actions compile to actions of the fragment -/
theorem compiled_in_fragment (form : Form) (rep : Bool) (params : List Item) (c : Compiled) (id : Nat)
    (h : compile form rep params = .ok c) : MFrag (c.toAction id) ∧ seqCount (c.toAction id) = 1 := by
  unfold compile at h
  split at h
  · cases h
  · rename_i evs hp
    obtain ⟨body, _, _, _, _, hev⟩ := expand_accepts_only_bodies params evs hp
    injection h with h; subst h
    have hok : EvsOK evs := hev ▸ EvsOK_spell body
    unfold Compiled.toAction
    cases form <;> cases rep <;> simp [MFrag, MFragL, seqCount, seqCountL, hok]

/-! ## The ring of 4 -/

/-- the macro `mod-(…6 ms…)`: press a modifier, wait, release it -/
def ringMacro (m : KeyCode) : List SeqEv := [.press m, .delay 6, .release m, .complete]

/-- what `do_action` did for a macro key at the pinned commit (before `start_sequence`) -/
def ringStartPinned (s : Layout) (m : KeyCode) : Layout :=
  armSequencePinned s (.sequence (ringMacro m)) (ringMacro m) (0, m) false false

/-- what `do_action` does for a macro key now -/
def ringStart (s : Layout) (m : KeyCode) : Layout :=
  armSequence s (.sequence (ringMacro m)) (ringMacro m) (0, m) false false

/-- five macros started one tick apart (LShift, LCtrl, LAlt, LGui, RAlt held over a 6 ms delay),
then 12 more ticks -/
def ringRun (start : Layout → KeyCode → Layout) : Layout :=
  let s : Layout := { cfg := { layers := [], srcKeys := [] } }
  let s := processSequences (start s 42)
  let s := processSequences (start s 29)
  let s := processSequences (start s 56)
  let s := processSequences (start s 125)
  let s := processSequences (start s 100)
  runSeq 12 s

/-- **macro_ring_eviction_strands_key_counterexample** (about the pinned code, `armSequencePinned`).
`active_sequences` is a ring of 4 that drops its oldest element when a 5th is pushed
(`pushBackWrap`).  Five well-formed macros (each presses a modifier, waits 6 ms and releases it —
`EvsOK`, so `macro_ends_released` applies to each alone) started on consecutive ticks: starting the
fifth evicted the first while it still held LShift; when all sequences had ended, `FakeKey LShift`
was still in `states` and nothing was left that would ever release it — the invariant of
`macro_ends_released_partial` is false of that state.  Reproduced on the real keyberon `Layout` and on
a whole `Kanata` at the pinned commit (DESIGN §7 row 8); repaired by the `fix:` commit that
introduced `start_sequence` (KNOWN_FINDINGS: fixed). -/
theorem macro_ring_eviction_strands_key_counterexample :
    (∀ m, EvsOK (ringMacro m)) ∧
    (ringRun ringStartPinned).activeSequences = [] ∧ St.fakeKey 42 ∈ (ringRun ringStartPinned).states ∧
    ¬ SeqInv (ringRun ringStartPinned) := by
  refine ⟨fun m => ⟨[.press m, .delay 6, .release m], rfl, by simp [isStep], by simp [closedB]⟩,
    by decide, by decide, ?_⟩
  intro h
  exact h.released (by decide) 42 (by decide)

/-- **ring_eviction_releases_owed_keys** (full; the code as it now is).  Starting a macro keeps the
invariant whether or not the ring of 4 has room: when the push evicts the oldest sequence,
`start_sequence` performs, at that moment, every release the evicted sequence still owed (and the
release of a pending tap), so no `FakeKey` is left without an active sequence that will release it.
On the witness of the counterexample the same five macros now end with nothing held.  What remains
of the ring's capacity: the evicted macro is cut short — its remaining presses are never played —
which `macro_projection_partial` excludes by its bound of 4. -/
theorem ring_eviction_releases_owed_keys :
    (∀ (s : Layout) (a : Action) (evs : List SeqEv) (c : Coord) (o rep : Bool), SeqInv s → EvsOK evs →
      SeqInv (armSequence s a evs c o rep)) ∧
    (ringRun ringStart).activeSequences = [] ∧ (ringRun ringStart).states = [] :=
  ⟨fun s a evs c o rep h hev => (armSequence_inv s a evs c o rep h hev).1, by decide, by decide⟩

/-! ## The cancel-on-press window -/

theorem totalDuration_sum : ∀ (l : List SeqEv) (acc : Nat),
    acc + (l.map evDur).sum ≤ U32_MAX →
    l.foldl (fun d e => min (d + evDur e) U32_MAX) acc =
      acc + (l.map evDur).sum := by
  intro l
  induction l with
  | nil => intro acc _; simp
  | cons e rest ih =>
    intro acc h
    simp only [List.map_cons, List.sum_cons, List.foldl_cons] at h ⊢
    rw [Nat.min_eq_left (by omega), ih _ (by omega)]
    omega

/-- **duration_is_playback_length** (full).  The duration `macro-cancel-on-press` hands to
`CancelMacroOnNextPress` (`macro_sequence_event_total_duration` of the parser) is exactly the
number of ticks the layout takes to play the macro (`macro_trace`: one per step, `d` per delay,
one for `Complete`), for every event list the parser can emit (delays ≥ 1) short of 2³² ticks.
The countdown starts on the tick the macro is started and is decremented on that tick already, so it
is positive — a key press cancels — exactly until the last step has been performed. -/
theorem duration_is_playback_length (evs : List SeqEv) (hd : ∀ d, SeqEv.delay d ∈ evs → 1 ≤ d)
    (hs : (slots evs).length + 1 ≤ U32_MAX) :
    totalDuration (evs ++ [.complete]) = (slots evs).length + 1 := by
  have hlen : ∀ l : List SeqEv, (∀ d, SeqEv.delay d ∈ l → 1 ≤ d) →
      (l.map evDur).sum = (slots l).length := by
    intro l
    induction l with
    | nil => intro _; rfl
    | cons e rest ih =>
      intro h
      have := ih (fun d hm => h d (List.mem_cons_of_mem _ hm))
      simp only [List.map_cons, List.sum_cons, this, slots, List.length_cons, List.length_append,
        List.length_replicate]
      cases e <;> simp only [ticksOf, evDur] <;> try omega
      rename_i d
      have := h d (by simp)
      rw [Nat.max_eq_left this]; omega
  unfold totalDuration
  have hc : evDur .complete = 1 := rfl
  rw [totalDuration_sum _ 0 (by simp only [List.map_append, List.sum_append, hlen evs hd]; simpa [hc] using hs)]
  simp only [List.map_append, List.sum_append, hlen evs hd]
  simp [hc]

/-- capacities and constants used by the model are the ones in the source tree now -/
theorem consts_from_source :
    ACTIVE_SEQ_CAP = Gen.MACRO_ACTIVE_SEQ_CAP ∧ Gen.MACRO_ACTIVE_SEQ_WRAPPING = true ∧
    STATES_CAP = Gen.MACRO_STATES_CAP ∧ KEY_OVERLAP = Gen.MACRO_KEY_OVERLAP ∧
    Gen.MACRO_DELAY_IS_NONZERO_U16 = true ∧ Gen.MACRO_COMPLETE_APPENDED = true := by decide

/-! ### Non-vacuity -/

/-- `S-(a 500 b) C-S-x (unicode é) (q (5 w)) A-RA- (z)` -/
def sampleBody : List Body :=
  [.held false none [42] [.key 30, .delay 500, .key 48], .chord [29, 42, 45], .actList (.custom 233) [],
   .group [.key 16, .group [.delay 5, .key 17]], .held false none [56, 100] [.key 44]]

example : sampleBody ≠ [] ∧ allOk sampleBody = true ∧ (spellAll sampleBody).any isOverlap = false := by
  refine ⟨by simp [sampleBody], by decide, by decide⟩

example : parseMacro (flattenAll sampleBody) = .ok
    [.press 42, .press 30, .release 30, .delay 500, .press 48, .release 48, .release 42,
     .press 29, .press 42, .press 45, .release 45, .release 42, .release 29, .custom 233,
     .press 16, .release 16, .delay 5, .press 17, .release 17,
     .press 56, .press 100, .press 44, .release 44, .release 56, .release 100, .complete] := by rfl

/-- a layout with one macro just started: the hypotheses of `macro_trace` / `macro_ends_released` -/
def sampleEvs : List SeqEv := [.press 42, .press 30, .release 30, .delay 3, .press 48, .release 48, .release 42]

example : sampleEvs.all isStep = true ∧ closedB sampleEvs = true ∧
    (slots sampleEvs).length = 9 ∧
    playStates [] (slots sampleEvs) = [] ∧
    playStates [] ((slots sampleEvs).take 7) = [.fakeKey 42, .fakeKey 48] := by decide

/-- a configuration of the fragment with all four macro forms, a repeating one, and the cancel key -/
def sampleCfg : LCfg :=
  { layers := [[((0, 2), .sequence (sampleEvs ++ [.complete])),
                ((0, 3), .multipleActions [.repeatableSequence (sampleEvs ++ [.complete]), .custom 0]),
                ((0, 30), .keyCode 30), ((0, 11), .cancelSequences)]],
    srcKeys := [(2, .keyCode 2), (3, .keyCode 3), (30, .keyCode 30), (11, .keyCode 11)] }

example : CfgM sampleCfg := by
  have hok : EvsOK (sampleEvs ++ [.complete]) := ⟨sampleEvs, rfl, by decide, by decide⟩
  refine ⟨?_, ?_⟩
  · intro tbl ht e he
    simp only [sampleCfg, List.mem_cons, List.mem_nil_iff, or_false] at ht
    subst ht
    simp only [List.mem_cons, List.mem_nil_iff, or_false] at he
    rcases he with rfl | rfl | rfl | rfl <;> simp [MFrag, MFragL, hok]
  · intro e he
    simp only [sampleCfg, List.mem_cons, List.mem_nil_iff, or_false] at he
    rcases he with rfl | rfl | rfl | rfl <;> simp [MFrag]

/-- the hypotheses of `macro_ends_released_partial` hold of the freshly created layout of this configuration -/
example : Quiet { cfg := sampleCfg } ∧ SeqInv { cfg := sampleCfg } :=
  ⟨⟨rfl, rfl, rfl, rfl, rfl⟩, ⟨fun _ h => (by cases h), fun _ h => (by cases h), fun _ _ h => (by cases h), Nat.zero_le _⟩⟩

end KVerif.C08
