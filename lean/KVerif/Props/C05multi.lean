/-
C05, several tap-hold keys pending at once — `waiting` plus `extra_waiting` (keyberon/src/layout.rs:
`Layout::tick`, `process_extra_waitings`, `waiting_into_*`, the `HoldTap` arm of `do_action`).
Property theorems only; helper lemmas and the auxiliary definitions are in Lemmas/TapHoldMulti.lean.

What the code does (and the model mirrors; read `tick` / `tickMain` / `processExtraWaitings` /
`tickExtraWaitings` in Model/Layout.lean):
* a tick first lets `waiting` decide (`tickMain`), then — only if the tick has produced no custom
  event so far — scans `extra_waiting` front to back (`process_extra_waitings`): every entry is
  `tick_wt`-ed until the FIRST one that decides; that one is removed and resolved, the entries behind
  it are not ticked at all in that tick (`break`);
* while anything is pending nothing is taken from the event queue;
* a tap-hold action performed while `waiting` is occupied is pushed to `extra_waiting`
  (`ArrayDeque<_, 8, Wrapping>`): when it is full the OLDEST entry is dropped.

Vocabulary (Lemmas/TapHoldMulti.lean): `htStep w q` = one `tick_wt` of entry `w` against queue `q`
(entry afterwards, decision); `Counted w w'` = `w'` is `w` with the countdown and the tick counter
advanced by one and nothing else of interest changed; `resolveAct S w a` = `waiting_into_hold/tap/
timeout` for the entry `w` already taken out of `S` (exactly one `do_action`, on `w`'s hold / tap /
timeout action, at `w`'s coordinate); `Pend` / `pendTick` / `pendRun` = the pending part of the
layout as a machine of its own, with the log of resolutions; `Pend.pot` = the tick bound
`max (countdown of waiting, ≥ 1) (max over extra_waiting of (countdown, ≥ 1) + position)`;
`pendOK s` = the (decidable) hypothesis of the run theorems:
  action queue empty, no one-shot key active, every pending entry is a tap-hold entry whose hold / tap
  / timeout actions are leaves (`Leaf`: keys, output chords, layer-while-held, layer-switch,
  release-key, release-layer, macros, cancel-macros, no-op) and whose timeout applies (not the
  tap-hold-except-keys variant, or a press is queued).
-/
import KVerif.Lemmas.TapHoldMulti
namespace KVerif.C05
open KVerif.L

/-! ## 1. One tick resolves at most one entry of `extra_waiting`, by exactly one `do_action` -/

/-- **extra_waiting_exactly_one** (full; any actions, any queue, any number of entries).
The `process_extra_waitings` stage of a tick that has produced no custom event so far, with `k ≥ 0`
tap-hold entries in `extra_waiting`: there is a count-down function `f` (`Counted w (f w)` for every
`w`: coordinate, actions, configuration, layer stack kept; countdown − 1) such that EITHER every entry
is counted down, nothing else in the layout changes and there is no output, OR the list splits as
`pre ++ w :: post`, `w` is removed, the entries before it are counted down, the entries behind it are
untouched, and EXACTLY ONE `do_action` is performed: on one of `w`'s own tap / hold / timeout actions,
at `w`'s coordinate, with the layers active when it was pressed, on a layout `s0` that differs from
`s` only in bookkeeping counters and in `extra_waiting = pre.map f ++ post`.  Hence in `s0` the list is
shorter by exactly one and the pending coordinates are those of `s` with position `|pre|` erased:
no entry is dropped or duplicated, and the removed one cannot resolve again. -/
theorem extra_waiting_exactly_one (s : Layout) (hall : ∀ w ∈ s.extraWaiting, isHT w = true)
    (s' : Layout) (cu : CustomEv) (h : processExtraWaitings s .noEvent = .ok (s', cu)) :
    ∃ f : Waiting → Waiting, (∀ w, Counted w (f w)) ∧
      ((cu = .noEvent ∧ s' = { s with extraWaiting := s.extraWaiting.map f }) ∨
       (∃ pre w post, s.extraWaiting = pre ++ w :: post ∧
          ∃ a ∈ outcomes w, ∃ s0 s1 : Layout, ∃ fuel : Nat, 3999 ≤ fuel ∧
            s0.extraWaiting = pre.map f ++ post ∧
            s0.extraWaiting.length + 1 = s.extraWaiting.length ∧
            s0.extraWaiting.map (·.coord) = (s.extraWaiting.map (·.coord)).eraseIdx pre.length ∧
            s0.waiting = s.waiting ∧ s0.queue = s.queue ∧ s0.states = s.states ∧
            s0.actionQueue = s.actionQueue ∧
            doAction fuel s0 a w.coord (min (w.delay + min (w.ticks + 1) U16_MAX) U16_MAX) false w.layerStack = .ok (s1, cu) ∧
            (s' = s1 ∨ s' = tapPost s1))) := by
  refine ⟨step1 s.queue, fun w => htStep_counted w s.queue, ?_⟩
  rcases processExtra_eq s hall with ⟨_, h2⟩ | ⟨pre, w, post, a, h1, _, h3, h4, h5⟩
  · left
    rw [h2] at h
    injection h with h; injection h with e1 e2
    exact ⟨e2.symm, e1.symm⟩
  · right
    rw [h5] at h
    have hw : isHT w = true := hall w (by rw [h1]; simp)
    have hc := htStep_counted w s.queue
    have hwd := waitingDelay_step w hw s.queue
    have hlen : (pre.map (step1 s.queue) ++ post).length + 1 = s.extraWaiting.length := by
      rw [h1]; simp; omega
    have hco : (pre.map (step1 s.queue) ++ post).map (·.coord) =
        (s.extraWaiting.map (·.coord)).eraseIdx pre.length := by
      rw [h1]
      have e : (pre ++ w :: post).map (·.coord) = pre.map (·.coord) ++ w.coord :: post.map (·.coord) := by simp
      have l : pre.length = (pre.map (·.coord)).length := by simp
      rw [e, l, eraseIdx_mid, List.map_append, List.map_map]
      congr 1
      apply List.map_congr_left
      intro x _
      exact (htStep_counted x s.queue).coord
    refine ⟨pre, w, post, h1, ?_⟩
    generalize hS : ({ s with extraWaiting := pre.map (step1 s.queue) ++ post } : Layout) = S at h
    have hSe : S.extraWaiting = pre.map (step1 s.queue) ++ post := by rw [← hS]
    have hSf : S.waiting = s.waiting ∧ S.queue = s.queue ∧ S.states = s.states ∧ S.actionQueue = s.actionQueue := by
      rw [← hS]; exact ⟨rfl, rfl, rfl, rfl⟩
    cases a with
    | hold =>
      obtain ⟨p1, p2, p3, p4⟩ := holdPrep_fields S (htStep w s.queue).1
      have p5 : (holdPrep S (htStep w s.queue).1).actionQueue = S.actionQueue := by
        unfold holdPrep; split <;> rfl
      refine ⟨w.hold, by simp [outcomes], holdPrep S (htStep w s.queue).1, s', 3999, Nat.le_refl _,
        p4.trans hSe, by rw [p4, hSe]; exact hlen, by rw [p4, hSe]; exact hco, p1.trans hSf.1,
        p2.trans hSf.2.1, p3.trans hSf.2.2.1, p5.trans hSf.2.2.2, ?_, Or.inl rfl⟩
      rw [← hwd, ← hc.hold, ← hc.coord, ← hc.layerStack]; exact h
    | tap =>
      simp only [resolveAct] at h
      split at h
      · cases h
      · rename_i s1 ret hd
        injection h with h; injection h with e1 e2
        refine ⟨w.tap, by simp [outcomes], S, s1, FUEL, by decide, hSe, by rw [hSe]; exact hlen,
          by rw [hSe]; exact hco, hSf.1, hSf.2.1, hSf.2.2.1, hSf.2.2.2, ?_, Or.inr e1.symm⟩
        rw [← hwd, ← hc.tap, ← hc.coord, ← hc.layerStack, ← e2]; exact hd
    | timeout =>
      obtain ⟨p1, p2, p3, p4⟩ := timeoutPrep_fields S (htStep w s.queue).1
      have p5 : (timeoutPrep S (htStep w s.queue).1).actionQueue = S.actionQueue := by
        unfold timeoutPrep; split <;> rfl
      refine ⟨w.timeoutAction, by simp [outcomes], timeoutPrep S (htStep w s.queue).1, s', FUEL, by decide,
        p4.trans hSe, by rw [p4, hSe]; exact hlen, by rw [p4, hSe]; exact hco, p1.trans hSf.1,
        p2.trans hSf.2.1, p3.trans hSf.2.2.1, p5.trans hSf.2.2.2, ?_, Or.inl rfl⟩
      rw [← hwd, ← hc.timeoutAction, ← hc.coord, ← hc.layerStack]; exact h
    | noOp => exact absurd rfl h4

/-- **extra_waiting_frozen_by_custom_event** (full).  When the tick has already produced a custom
event (a one-shot expiry releasing a custom-action key, or `waiting` resolving to a custom action),
`extra_waiting` is not touched at all in that tick — not even counted down. -/
theorem extra_waiting_frozen_by_custom_event (s : Layout) (cu : CustomEv) (h : cu ≠ .noEvent) :
    processExtraWaitings s cu = .ok (s, cu) := processExtra_frozen s cu h

/-- **tick_performs_the_logged_resolutions** (full on `pendOK` states with something pending).
A whole `tick`: its first two stages only age the queue; then `waiting` is counted down or resolved
by exactly one `resolveAct` (on the layout with `waiting` emptied, `extra_waiting` still untouched);
then `extra_waiting` is scanned and the first decider, if any, is resolved by exactly one `resolveAct`
on the layout the first resolution produced; nothing else is performed for a pending entry; the
tick cannot crash; afterwards the pending part of the layout is `pendTick`'s, the hypotheses hold
again, and the pending entries are, as a multiset of keys, the old ones minus the (at most two)
logged ones. -/
theorem tick_performs_the_logged_resolutions (s : Layout) (h : pendOK s = true)
    (hne : s.waiting ≠ none ∨ s.extraWaiting ≠ []) :
    ∃ s2 s3 : Layout,
      (match (stepMain (ageQ s.queue) s.waiting).2 with
        | none => s2 = { tickPre s with waiting := (stepMain (ageQ s.queue) s.waiting).1 }
        | some r => resolveAct { tickPre s with waiting := none } r.w r.kind = .ok (s2, .noEvent)) ∧
      (match (scanExtra (ageQ s.queue) s.extraWaiting).2 with
        | none => s3 = { s2 with extraWaiting := (scanExtra (ageQ s.queue) s.extraWaiting).1 }
        | some r => resolveAct { s2 with extraWaiting := (scanExtra (ageQ s.queue) s.extraWaiting).1 } r.w r.kind
            = .ok (s3, .noEvent)) ∧
      tick s = .ok (processSequenceCustom s3 .noEvent) ∧
      Pend.of (processSequenceCustom s3 .noEvent).1 = (pendTick (Pend.of s)).1 ∧
      pendOK (processSequenceCustom s3 .noEvent).1 = true ∧
      ((Pend.of s).all.map wkey).Perm
        ((pendTick (Pend.of s)).1.all.map wkey ++ (pendTick (Pend.of s)).2.map (fun r => wkey r.w)) ∧
      (pendTick (Pend.of s)).2.length ≤ 2 := by
  obtain ⟨s2, s3, h1, h2, h3, h4, h5⟩ := tick_staged s ((pendOK_iff s).mp h) hne
  refine ⟨s2, s3, h1, h2, h3, h4, (pendOK_iff _).mpr h5, pendTick_perm _, ?_⟩
  simp only [pendTick, List.length_append]
  have a : ∀ o : Option Res, o.toList.length ≤ 1 := fun o => by cases o <;> simp
  have := a (stepMain (ageQ (Pend.of s).queue) (Pend.of s).main).2
  have := a (scanExtra (ageQ (Pend.of s).queue) (Pend.of s).extra).2
  omega

/-! ## 2. With no further input every pending entry is resolved exactly once, within a bound -/

/-- **every_pending_taphold_resolves** (full on `pendOK` states: any number of entries, any
countdowns, any queue contents).  With no further input there is a tick count `n`, at most
`Pend.pot` = `max (countdown of waiting) (max over extra_waiting of countdown + position)` (countdowns
taken as at least 1), such that: the `n` ticks succeed; before each of them something is still
pending and the queue holds the same events in the same order (nothing is dequeued); after them
nothing is pending and the queue still holds the same events; the pending part of every
intermediate layout is the pending machine's, and the log grows on each tick by exactly what
`tick_performs_the_logged_resolutions` says that tick performs (one `resolveAct` per logged entry);
and the log of these `n` ticks is — as a multiset of keys (coordinate, the three actions, layer
stack, delay) — exactly the entries pending at the start: each was resolved exactly once, nothing
else was, and every resolution is a tap, a hold or a timeout (never the chord path's drop). -/
theorem every_pending_taphold_resolves (s : Layout) (h : pendOK s = true) :
    ∃ n, n ≤ (Pend.of s).pot ∧ ∃ s', tickN n s = .ok s' ∧
      s'.waiting = none ∧ s'.extraWaiting = [] ∧ pendOK s' = true ∧
      s'.queue.map (·.ev) = s.queue.map (·.ev) ∧
      Pend.of s' = (pendRun n (Pend.of s)).1 ∧
      (∀ m, m < n → ∃ sm, tickN m s = .ok sm ∧ pendOK sm = true ∧
        (sm.waiting ≠ none ∨ sm.extraWaiting ≠ []) ∧ sm.queue.map (·.ev) = s.queue.map (·.ev) ∧
        Pend.of sm = (pendRun m (Pend.of s)).1 ∧
        (pendRun (m + 1) (Pend.of s)).2 = (pendRun m (Pend.of s)).2 ++ (pendTick (Pend.of sm)).2) ∧
      ((s.waiting.toList ++ s.extraWaiting).map wkey).Perm ((pendRun n (Pend.of s)).2.map (fun r => wkey r.w)) ∧
      (∀ r ∈ (pendRun n (Pend.of s)).2, r.kind ≠ .noOp) := by
  have hp := (pendOK_iff s).mp h
  have ha : (Pend.of s).Applies := by
    intro w hw
    simp only [Pend.all, Pend.of, List.mem_append, Option.mem_toList] at hw
    rcases hw with hw | hw
    · exact (hp.main w hw).applies
    · exact (hp.extra w hw).applies
  obtain ⟨n, hn, he, hf⟩ := pend_resolves _ (Pend.of s) (Nat.le_refl _) ha
  obtain ⟨s', e, hpe, hok⟩ := run_sim n s hp hf
  have hall : (Pend.of s').all = [] := by rw [hpe]; exact he
  have hw' : s'.waiting = none := by
    cases hw : s'.waiting with
    | none => rfl
    | some w => simp [Pend.all, Pend.of, hw] at hall
  have hx' : s'.extraWaiting = [] := by
    simpa [Pend.all, Pend.of, hw'] using hall
  have hq' : s'.queue.map (·.ev) = s.queue.map (·.ev) := by
    have := pendRun_evs n (Pend.of s)
    rw [← hpe] at this
    exact this
  refine ⟨n, hn, s', e, hw', hx', (pendOK_iff _).mpr hok, hq', hpe, ?_, ?_, pendRun_kinds n _⟩
  · intro m hm
    obtain ⟨sm, em, hpm, hokm⟩ := run_sim m s hp (fun k hk => hf k (by omega))
    refine ⟨sm, em, (pendOK_iff _).mpr hokm, ?_, ?_, hpm, by rw [hpm]; exact pendRun_log_snoc m _⟩
    · have hne := hf m hm
      rw [← hpm] at hne
      cases hw : sm.waiting with
      | some w => exact Or.inl (by simp)
      | none =>
        right
        intro hx
        exact hne (by simp [Pend.all, Pend.of, hw, hx])
    · have := pendRun_evs m (Pend.of s)
      rw [← hpm] at this
      exact this
  · have := pendRun_perm n (Pend.of s)
    rw [he] at this
    simpa [Pend.all, Pend.of] using this

/-- **extra_entry_resolved_within** (full on `pendOK` states).  The entry at position `i` of
`extra_waiting`, countdown `T`: after some `n` ticks with `n + 1 ≤ max T 1 + i` it sits at a position
`j ≤ i`, the same key (only its counters moved), the layout is again `pendOK`, and the next tick
resolves exactly position `j` (`decider`; by `resolution_order` that is one `resolveAct` on it).
So it is resolved on a tick no later than its countdown plus the number of entries ahead of it. -/
theorem extra_entry_resolved_within (s : Layout) (h : pendOK s = true) (i : Nat) (w : Waiting)
    (hi : s.extraWaiting[i]? = some w) :
    ∃ n j w' sn, n + 1 ≤ max w.timeout 1 + i ∧ j ≤ i ∧ tickN n s = .ok sn ∧ pendOK sn = true ∧
      sn.extraWaiting[j]? = some w' ∧ wkey w' = wkey w ∧
      decider (ageQ sn.queue) sn.extraWaiting = some j := by
  have hp := (pendOK_iff s).mp h
  have ha : (Pend.of s).Applies := by
    intro x hx
    simp only [Pend.all, Pend.of, List.mem_append, Option.mem_toList] at hx
    rcases hx with hx | hx
    · exact (hp.main x hx).applies
    · exact (hp.extra x hx).applies
  obtain ⟨n, j, w', b1, b2, b3, b4, b5⟩ := extra_entry_resolves _ (Pend.of s) i w ha hi (Nat.le_refl _)
  -- something is pending before each of the first n ticks: the entry itself is still there after them
  have hpend := pendRun_nonempty_before n (Pend.of s) w' (by
    simp only [Pend.all, List.mem_append]
    exact Or.inr (List.mem_of_getElem? b3))
  obtain ⟨sn, e, hpe, hok⟩ := run_sim n s hp hpend
  have hx : sn.extraWaiting = (pendRun n (Pend.of s)).1.extra := by rw [← hpe]; rfl
  have hq : sn.queue = (pendRun n (Pend.of s)).1.queue := by rw [← hpe]; rfl
  exact ⟨n, j, w', sn, b1, b2, e, (pendOK_iff _).mpr hok, by rw [hx]; exact b3, b4, by rw [hx, hq]; exact b5⟩

/-- **waiting_entry_resolved_within** (full on `pendOK` states).  The entry in `waiting`, countdown
`T`, is resolved on a tick no later than `max T 1`, whatever is in `extra_waiting`: after some `n`
ticks with `n + 1 ≤ max T 1` it is still the same key in `waiting` and the main stage of the next tick
resolves it (`r` is the logged resolution; `tick_performs_the_logged_resolutions`). -/
theorem waiting_entry_resolved_within (s : Layout) (h : pendOK s = true) (w : Waiting)
    (hw : s.waiting = some w) :
    ∃ n w' sn r, n + 1 ≤ max w.timeout 1 ∧ tickN n s = .ok sn ∧ pendOK sn = true ∧
      sn.waiting = some w' ∧ wkey w' = wkey w ∧ (stepMain (ageQ sn.queue) sn.waiting).2 = some r := by
  have hp := (pendOK_iff s).mp h
  have ha : (Pend.of s).Applies := by
    intro x hx
    simp only [Pend.all, Pend.of, List.mem_append, Option.mem_toList] at hx
    rcases hx with hx | hx
    · exact (hp.main x hx).applies
    · exact (hp.extra x hx).applies
  obtain ⟨n, w', r, b1, b2, b3, b4⟩ := main_entry_resolves _ (Pend.of s) w ha hw (Nat.le_refl _)
  have hpend := pendRun_nonempty_before n (Pend.of s) w' (by simp [Pend.all, b2])
  obtain ⟨sn, e, hpe, hok⟩ := run_sim n s hp hpend
  have hm : sn.waiting = (pendRun n (Pend.of s)).1.main := by rw [← hpe]; rfl
  have hq : sn.queue = (pendRun n (Pend.of s)).1.queue := by rw [← hpe]; rfl
  exact ⟨n, w', sn, r, b1, e, (pendOK_iff _).mpr hok, hm.trans b2, b3, by rw [hm, hq, b2]; exact b4⟩

/-- **tie_costs_the_later_entry_a_tick** (witness on the executable model; the bound of
`extra_entry_resolved_within` is attained, and "timeout at exactly T" fails for entries of
`extra_waiting`).  Two entries with the same countdown 2 in `extra_waiting`, nothing else, no input:
both countdowns reach 0 on the second tick, but only the first is resolved then (hold key 101 down
after 2 ticks); the second is resolved on the THIRD tick, `countdown + position = 2 + 1` (102 down
only after 3 ticks), one tick after its timeout, and its tick counter — added to the delay handed to
`do_action` — says 2, not 3. -/
theorem tie_costs_the_later_entry_a_tick :
    (keysAfter 1 tieS = [] ∧ keysAfter 2 tieS = [101] ∧ keysAfter 3 tieS = [101, 102]) ∧
    ((pendRun 2 (Pend.of tieS)).2.map (fun r => (r.w.coord, r.kind)) = [((0, 1), .timeout)] ∧
     (pendRun 3 (Pend.of tieS)).2.map (fun r => (r.w.coord, r.kind, r.w.ticks)) =
       [((0, 1), .timeout, 2), ((0, 2), .timeout, 2)]) ∧
    (Pend.of tieS).pot = 3 ∧ pendOK tieS = true := by
  decide +kernel

/-- **timeout_hypothesis_is_needed** (witness on the executable model).  `pendOK` asks that the
timeout applies to every entry.  A `tap-hold-except-keys` entry with no press queued skips its
timeout (`custom_tap_hold_except` answers "skip" until some key is pressed): countdown 2, and after
500 ticks it is still pending, nothing is output. -/
theorem timeout_hypothesis_is_needed :
    pendOK exceptS = false ∧ keysAfter 500 exceptS = [] ∧
    (match tickN 500 exceptS with | .ok s => s.extraWaiting.length | .error _ => 0) = 1 := by
  decide +kernel

/-! ## 3. The order of resolutions, and the replay of buffered events -/

/-- **resolution_order** (full on `pendOK` states with something pending).  The order inside one
tick is: `waiting` first (its action runs on a layout in which `extra_waiting` is still as it was),
then `extra_waiting` in ARRIVAL order — position `j` is resolved iff it is the first position whose
`handle_hold_tap` decides this tick; every earlier position has been ticked and stays, every later
position is neither ticked nor resolved in this tick even if it would have decided (it loses the
tick).  Across ticks the order is therefore the order of decision ticks, ties broken by position —
NOT the order of arrival (`later_arrival_can_resolve_first`). -/
theorem resolution_order (s : Layout) (h : pendOK s = true) (hne : s.waiting ≠ none ∨ s.extraWaiting ≠ []) :
    ∃ s2 s3 : Layout,
      (match (stepMain (ageQ s.queue) s.waiting).2 with
        | none => s2 = { tickPre s with waiting := (stepMain (ageQ s.queue) s.waiting).1 }
        | some r => resolveAct { tickPre s with waiting := none } r.w r.kind = .ok (s2, .noEvent)) ∧
      s2.extraWaiting = s.extraWaiting ∧
      (match decider (ageQ s.queue) s.extraWaiting with
        | none => s3 = { s2 with extraWaiting := s.extraWaiting.map (step1 (ageQ s.queue)) }
        | some j => ∃ w a, s.extraWaiting[j]? = some w ∧ (htStep w (ageQ s.queue)).2 = some a ∧
            (∀ k x, k < j → s.extraWaiting[k]? = some x → (htStep x (ageQ s.queue)).2 = none) ∧
            resolveAct { s2 with extraWaiting := (s.extraWaiting.take j).map (step1 (ageQ s.queue)) ++
                                                s.extraWaiting.drop (j + 1) } (htStep w (ageQ s.queue)).1 a
              = .ok (s3, .noEvent)) ∧
      tick s = .ok (processSequenceCustom s3 .noEvent) := by
  have hp := (pendOK_iff s).mp h
  obtain ⟨s2, s3, h1, h2, h3, _, _⟩ := tick_staged s hp hne
  refine ⟨s2, s3, h1, ?_, ?_, h3⟩
  · -- the main stage does not touch extra_waiting
    cases hm : (stepMain (ageQ s.queue) s.waiting).2 with
    | none =>
      rw [hm] at h1
      rw [h1]
      exact (tickPre_pframe s).extra
    | some r =>
      rw [hm] at h1
      obtain ⟨hk, w, hw, hr, hd⟩ := stepMain_kind _ _ r hm
      have ok := hp.main w hw
      have hc := htStep_counted w (ageQ s.queue)
      obtain ⟨S', e, f⟩ := resolveAct_leaf { tickPre s with waiting := none } r.w r.kind hk
        (by rw [hr, hc.hold]; exact ok.hold) (by rw [hr, hc.tap]; exact ok.tap)
        (by rw [hr, hc.timeoutAction]; exact ok.timeoutAction)
      rw [h1] at e
      injection e with e; injection e with e _
      rw [e]
      exact f.extra.trans (tickPre_pframe s).extra
  · cases hd : decider (ageQ s.queue) s.extraWaiting with
    | none =>
      obtain ⟨d1, d2⟩ := decider_none _ _ hd
      rw [d1] at h2
      simp only [] at h2 ⊢
      rw [h2, d2]
    | some j =>
      obtain ⟨w, a, d1, d2, d3, d4, d5⟩ := decider_spec _ _ j hd
      rw [d4] at h2
      simp only [] at h2 ⊢
      rw [d5] at h2
      exact ⟨w, a, d1, d2, d3, h2⟩

/-- **later_arrival_can_resolve_first** (witness on the executable model): `waiting` holds a key with
countdown 100, `extra_waiting` a key that arrived later with countdown 3, then one with countdown 50.
With no input the hold keys come down in the order 102 at tick 3, 103 at tick 51 (not 50: it was not
ticked on the tick on which the entry ahead of it was resolved), 101 at tick 100: by decision tick,
not by arrival. -/
theorem later_arrival_can_resolve_first :
    keysAfter 2 orderS = [] ∧ keysAfter 3 orderS = [102] ∧ keysAfter 50 orderS = [102] ∧
    keysAfter 51 orderS = [102, 103] ∧ keysAfter 99 orderS = [102, 103] ∧
    keysAfter 100 orderS = [102, 103, 101] ∧
    (pendRun 100 (Pend.of orderS)).2.map (·.w.coord) = [(0, 2), (0, 3), (0, 1)] ∧
    (Pend.of orderS).pot = 100 ∧ pendOK orderS = true := by
  decide +kernel

/-- **buffered_events_replayed_after_all_resolve** (full on `pendOK` states; lifts
`pending_events_are_buffered` / `buffered_events_replayed_in_order` of Props/C05 to any number of
concurrent tap-holds).  Whatever is queued while tap-holds are pending (arrival: `pending_events_
are_buffered`, any waiting state): with no further input, after `n ≤ Pend.pot` ticks nothing is
pending and the queue holds the same events in the same order (only their ages moved); then the
rapid-event pause, if a hold or tap resolution started it, runs for exactly the `p` ticks it has left,
during which nothing is dequeued either; and on the tick after that the main stage takes exactly the
OLDEST buffered event — `dequeue` of the head of the queue — after stages that again only aged the
queue.  From there on `buffered_events_replayed_in_order` applies to every later tick on which nothing
is waiting: one event per tick, in arrival order. -/
theorem buffered_events_replayed_after_all_resolve (s : Layout) (h : pendOK s = true) :
    ∃ n, n ≤ (Pend.of s).pot ∧ ∃ s', tickN n s = .ok s' ∧ s'.waiting = none ∧ s'.extraWaiting = [] ∧
      s'.queue.map (·.ev) = s.queue.map (·.ev) ∧
      ∃ s'', tickN s'.oneshot.pauseInputProcessingTicks s' = .ok s'' ∧
        s''.waiting = none ∧ s''.extraWaiting = [] ∧ s''.oneshot.pauseInputProcessingTicks = 0 ∧
        s''.queue.map (·.ev) = s.queue.map (·.ev) ∧
        ∀ q rest, s''.queue = q :: rest →
          tickOneshot (tickPre s'') = .ok (tickPre s'', .noEvent) ∧
          tickMain (tickPre s'') =
            dequeue FUEL ((tickPre s'').setQueue (ageQ rest)) ⟨q.ev, min (q.since + 1) U16_MAX⟩ := by
  obtain ⟨n, hn, s', e, hw, hx, hok, hq, _, _⟩ := every_pending_taphold_resolves s h
  have hp' := (pendOK_iff s').mp hok
  obtain ⟨s'', e2, hok2, w2, x2, p2, q2⟩ := pause_run _ s' hp' hw hx rfl
  refine ⟨n, hn, s', e, hw, hx, hq, s'', e2, w2, x2, p2, q2.trans hq, ?_⟩
  intro q rest hqq
  exact main_pops_oldest s'' hok2 w2 x2 p2 q rest hqq

/-! ## 4. Capacity: more tap-holds than `extra_waiting` has room for -/

/-- **holdTap_while_waiting_goes_to_extra_waiting** (full).  A tap-hold action performed while
`waiting` is occupied (not the quick-tap repress path, at most 12 layers): `do_action` does nothing
but the bookkeeping of `armHoldTapWait` — no output, no custom event. -/
theorem holdTap_while_waiting_goes_to_extra_waiting (fuel : Nat) (s : Layout) (T : Nat) (hold tap to : Action)
    (cfg : HTConfig) (iv : Nat) (c : Coord) (d : Nat) (os : Bool) (ls : List Nat)
    (hq : iv = 0 ∨ c ≠ s.lptCoord ∨ s.lptTapHoldTimeout = 0) (hl : ls.length ≤ MAX_ACTIVE_LAYERS) :
    dispatch (fuel + 1) s (.holdTap T hold tap to cfg iv) c d os ls =
      .ok (armHoldTapWait s c d T hold tap to cfg iv ls, .noEvent) := by
  have h1 : (iv == 0 || c != s.lptCoord || s.lptTapHoldTimeout == 0) = true := by
    rcases hq with h | h | h
    · simp [h]
    · simp [h]
    · simp [h]
  have h2 : ¬ (ls.length > MAX_ACTIVE_LAYERS) := by omega
  simp only [dispatch, h1, if_true, h2, if_false]

/-- **extra_waiting_capacity** (full; the model's behaviour when more tap-holds are pending than
there is room for).  With `waiting` occupied, the new entry is appended to `extra_waiting` while fewer
than 8 are there; when 8 are there the OLDEST of them is dropped and the new one appended
(`ArrayDeque::push_back` with `Wrapping`).  Nothing is performed for the dropped entry: the key
states, the queue and the action queue are unchanged and `waiting` stays — that key's press is LOST,
it resolves to none of tap / hold / timeout, now or later (`tenth_concurrent_taphold_is_lost_
counterexample`).  It is not forced to hold (the queue-overflow path `flushWaitings` does that; this
path does not). -/
theorem extra_waiting_capacity (s : Layout) (w0 : Waiting) (hw : s.waiting = some w0) (c : Coord) (d T : Nat)
    (hold tap to : Action) (cfg : HTConfig) (iv : Nat) (ls : List Nat) :
    (armHoldTapWait s c d T hold tap to cfg iv ls).waiting = some w0 ∧
    (armHoldTapWait s c d T hold tap to cfg iv ls).states = s.states ∧
    (armHoldTapWait s c d T hold tap to cfg iv ls).queue = s.queue ∧
    (armHoldTapWait s c d T hold tap to cfg iv ls).actionQueue = s.actionQueue ∧
    (s.extraWaiting.length < EXTRA_WAITING_LEN →
      (armHoldTapWait s c d T hold tap to cfg iv ls).extraWaiting =
        s.extraWaiting ++ [newEntry s c d T hold tap to cfg ls]) ∧
    (∀ e rest, s.extraWaiting = e :: rest → s.extraWaiting.length = EXTRA_WAITING_LEN →
      (armHoldTapWait s c d T hold tap to cfg iv ls).extraWaiting =
        rest ++ [newEntry s c d T hold tap to cfg ls]) := by
  have key : ∀ S : Layout, (updateCoord S c).waiting = S.waiting ∧ (updateCoord S c).states = S.states ∧
      (updateCoord S c).queue = S.queue ∧ (updateCoord S c).actionQueue = S.actionQueue ∧
      (updateCoord S c).extraWaiting = S.extraWaiting := by
    intro S; unfold updateCoord; split <;> exact ⟨rfl, rfl, rfl, rfl, rfl⟩
  unfold armHoldTapWait
  simp only [hw]
  refine ⟨(key _).1, (key _).2.1, (key _).2.2.1, (key _).2.2.2.1, ?_, ?_⟩
  · intro hlt
    rw [(key _).2.2.2.2]
    simp only [pushBackWrap, hlt, if_true]
    rfl
  · intro e rest he hlen
    rw [(key _).2.2.2.2]
    have : ¬ ((e :: rest).length < EXTRA_WAITING_LEN) := by rw [← he]; omega
    simp only [pushBackWrap, he, this, if_false]
    rfl

/-- **tenth_concurrent_taphold_is_lost_counterexample** (witness on the executable model; the
property "every tap-hold press resolves to exactly one of tap / hold / timeout" is FALSE beyond the
capacity).  One physical key carrying ten tap-hold actions — `(multi (tap-hold 0 3 k201 k101)
(fork (tap-hold 0 3 k202 k102) XX (lctl)) … (fork (tap-hold 0 3 k210 k110) XX (lctl)))` in kanata
terms: the parser only refuses a second tap-hold directly inside `multi`, not one wrapped in `fork` /
`switch` — pressed once and held, no other input.  On the tick that dequeues the press the first
tap-hold takes `waiting`, the 2nd … 9th fill `extra_waiting`, the 10th evicts the 2nd.  Nine keys
resolve (hold keys 101, 103 … 110 come down); the second tap-hold resolves to NOTHING: neither its
hold key 102 nor its tap key 202 is ever pressed, at any tick.
Replay on the real code: that configuration, `press` the key, `tick` 12 times, read `keycodes()`
after every tick.  (`tenAfter n` = keys down, hold key of `waiting`, hold keys of `extra_waiting`
after the press and `n` ticks; definitions in Lemmas/TapHoldMulti.lean.) -/
theorem tenth_concurrent_taphold_is_lost_counterexample :
    tenAfter 1 = ([], some 101, [103, 104, 105, 106, 107, 108, 109, 110]) ∧
    tenAfter 3 = ([103], some 101, [104, 105, 106, 107, 108, 109, 110]) ∧
    tenAfter 4 = ([103, 101, 104], none, [105, 106, 107, 108, 109, 110]) ∧
    tenAfter 10 = ([103, 101, 104, 105, 106, 107, 108, 109, 110], none, []) ∧
    tenAfter 40 = ([103, 101, 104, 105, 106, 107, 108, 109, 110], none, []) ∧
    (∀ n, n ≤ 40 → 102 ∉ (tenAfter n).1 ∧ 202 ∉ (tenAfter n).1) := by
  decide +kernel

/-! ## Non-vacuity: a concrete state meeting the hypotheses of the theorems above -/

/-! `multiS` (Lemmas/TapHoldMulti.lean): three tap-hold keys pending — one in `waiting`, two in
`extra_waiting`, different variants and countdowns, keys / layer / macro as actions — and two events
buffered behind them. -/

/-- hypotheses of `extra_waiting_exactly_one` -/
example : ∀ w ∈ multiS.extraWaiting, isHT w = true := by decide
/-- hypothesis of `extra_waiting_frozen_by_custom_event` -/
example : CustomEv.press 7 ≠ .noEvent := by decide
/-- hypotheses of `tick_performs_the_logged_resolutions`, `every_pending_taphold_resolves`,
`resolution_order`, `buffered_events_replayed_after_all_resolve` -/
example : pendOK multiS = true ∧ (multiS.waiting ≠ none ∨ multiS.extraWaiting ≠ []) ∧ (Pend.of multiS).pot = 200 :=
  by decide +kernel
/-- hypotheses of `waiting_entry_resolved_within` (bound 200) -/
example : pendOK multiS = true ∧ ∃ w, multiS.waiting = some w ∧ max w.timeout 1 = 200 :=
  ⟨by decide +kernel, _, rfl, by decide⟩
/-- hypotheses of `extra_entry_resolved_within` (position 1, bound 150 + 1) -/
example : pendOK multiS = true ∧ ∃ w, multiS.extraWaiting[1]? = some w ∧ max w.timeout 1 + 1 = 151 :=
  ⟨by decide +kernel, _, rfl, by decide⟩
/-- on this state the model does what the theorems say: the queued release of (0,31) makes the first
extra entry decide tap on the very first tick although `waiting` (countdown 200) is still pending -/
example : (pendRun 1 (Pend.of multiS)).2.map (fun r => (r.w.coord, r.kind)) = [((0, 31), .tap)] := by
  decide +kernel
/-- and the replay of `buffered_events_replayed_after_all_resolve` on this state: the last pending key
is resolved on tick 200 (the bound), the two buffered events are still queued in order; the pause the
hold resolution started runs 5 ticks; tick 206 takes the press of (0,45), tick 207 the release of
(0,31) (key 31, tapped on tick 1, goes up) -/
example :
    (match tickN 199 multiS with | .ok s => s.waiting.isSome | .error _ => false) = true ∧
    (match tickN 200 multiS with
      | .ok s => (s.waiting.isNone, s.extraWaiting.length, s.queue.map (·.ev), s.oneshot.pauseInputProcessingTicks)
      | .error _ => (false, 0, [], 0)) = (true, 0, [.press (0, 45), .release (0, 31)], 5) ∧
    (match tickN 205 multiS with | .ok s => (s.queue.map (·.ev), s.keycodes) | .error _ => ([], [])) =
      ([.press (0, 45), .release (0, 31)], [31, 33]) ∧
    (match tickN 206 multiS with | .ok s => (s.queue.map (·.ev), s.keycodes) | .error _ => ([], [])) =
      ([.release (0, 31)], [31, 33]) ∧
    (match tickN 207 multiS with | .ok s => (s.queue.map (·.ev), s.keycodes) | .error _ => ([], [])) =
      ([], [33]) := by
  decide +kernel
/-- hypotheses of `holdTap_while_waiting_goes_to_extra_waiting` and `extra_waiting_capacity` -/
example : ((0 : Nat) = 0 ∨ ((0, 33) : Coord) ≠ multiS.lptCoord ∨ multiS.lptTapHoldTimeout = 0) ∧
    [0].length ≤ MAX_ACTIVE_LAYERS ∧ (∃ w0, multiS.waiting = some w0) ∧
    multiS.extraWaiting.length < EXTRA_WAITING_LEN := ⟨Or.inl rfl, by decide, ⟨_, rfl⟩, by decide⟩

end KVerif.C05
