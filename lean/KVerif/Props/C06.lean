/-
C06 — one-shot applies to exactly the next key, or expires; it never lingers.
Property theorems only; helper lemmas are in Lemmas/OneShot*.lean.

All statements are about the layout model (`Model/Layout.lean`) on the C06 fragment — base and upper
layers of plain keys, output chords, layer-while-held, transparent / unmapped positions, and
one-shot keys of any of the four end variants whose inner action is one of the first three (what the
parser admits inside `one-shot`).  `Inv s down` is the invariant of that fragment (`no_state_stranded`
shows that every run keeps it, `init_inv` that a fresh layout has it), so a hypothesis `Inv s down`
reads "for every state the layout can reach".  No statement bounds a timeout, a delay, a queue
content or a history length.
-/
import KVerif.Lemmas.OneShotStep
import KVerif.Gen.OneShotConsts
namespace KVerif.C06
open KVerif.L

/-! ## never lingers: no state is stranded -/

/-- a freshly created layout satisfies the invariant -/
theorem init_inv (cfg : LCfg) (hc : CfgFrag cfg) (tv2 dfl qth : Bool) (osd : Nat) :
    Inv { cfg := cfg, transV2 := tv2, delegateToFirstLayer := dfl, quickTapHoldTimeout := qth,
          oneshot := { pauseInputProcessingDelay := osd } } [] :=
  ⟨⟨rfl, rfl, rfl, rfl, rfl, (fun _ h => by cases h), rfl⟩, hc, Nat.zero_le _, fun _ => ⟨rfl, rfl⟩, trivial,
   (fun _ h => by cases h)⟩

/-- **no_state_stranded** (full, on the fragment).  For every configuration of the fragment and every
history of presses, releases and ticks — any order and timing, physically consistent or not, any
number of one-shot keys stacked, including the overflow of the 16-entry tables — in which an event
never arrives while 32 are pending: after every step, every key or layer state in the layout belongs
to a coordinate that is physically down, or whose release is deferred in `released_keys` *while a
one-shot key is active* (so `tick_osh` is counting down towards releasing it, see
`oneshot_expires_at_T`), or whose release is still waiting in the input queue.  Nothing else ever
remains: a one-shot state cannot outlive its key other than through these three. -/
theorem no_state_stranded : ∀ (ins : List In) (s : Layout) (down : List Coord), Inv s down →
    ∀ s' down', run s down ins = some (.ok (s', down')) → Inv s' down' := by
  intro ins
  induction ins with
  | nil =>
    intro s down h s' down' hr
    simp only [run] at hr
    injection hr with hr; injection hr with hr; injection hr with h1 h2
    subst h1; subst h2; exact h
  | cons i rest ih =>
    intro s down h s' down' hr
    simp only [run] at hr
    split at hr
    · cases hr
    · rename_i hov
      cases i with
      | ev e =>
        have hq : s.queue.length < QUEUE_SIZE := by
          simp only [overflows, decide_eq_true_eq] at hov; omega
        obtain ⟨s1, e1, i1, _⟩ := h.input e hq
        simp only [stepIn, e1] at hr
        exact ih s1 _ i1 s' down' hr
      | tick =>
        simp only [stepIn] at hr
        cases ht : tick s with
        | error c => simp only [ht] at hr; cases hr
        | ok r =>
          obtain ⟨s1, cu⟩ := r
          simp only [ht] at hr
          exact ih s1 _ (h.step s1 cu ht).1 s' down' hr

/-- **nothing_lingers**: once every key is physically up, the input queue has drained and no
one-shot key is active, the layout holds no state at all — no key code, no layer. -/
theorem nothing_lingers {s : Layout} (h : Inv s []) (hq : s.queue = []) (hk : s.oneshot.keys = []) :
    s.states = [] ∧ s.keycodes = [] ∧ s.currentLayer = s.defaultLayer := by
  have hs : s.states = [] := by
    apply List.eq_nil_iff_forall_not_mem.mpr
    intro st hst
    have hok := h.calm.states st hst
    have hco : ∃ c, st.coord = some c := by
      cases st <;> simp only [C04.StOK] at hok <;> first | exact ⟨_, rfl⟩ | exact absurd hok id
    obtain ⟨c, hc⟩ := hco
    rcases h.owned st hst c hc with g | g | ⟨x, hx, _⟩
    · cases g
    · rw [(h.idle hk).1] at g; cases g
    · rw [hq] at hx; cases hx
  exact ⟨hs, by simp [Layout.keycodes, hs], by simp [Layout.currentLayer, hs]⟩

/-! ## expiry -/

/-- `n` ticks without input -/
def ticks : Nat → Layout → Except Crash Layout
  | 0, s => .ok s
  | n + 1, s =>
    match tick s with
    | .error c => .error c
    | .ok (s', _) => ticks n s'

/-- **oneshot_expires_at_T** (full).  With one-shot keys active, no release requested, the countdown
at `T ≥ 1` (the value every activation installs) and no input: for `T − 1` ticks nothing changes but
the countdown; on exactly the `T`-th tick every deferred release is applied — the states of all
tapped one-shot keys go at once — and no one-shot key is active afterwards.  For every `T`. -/
theorem oneshot_expires_at_T : ∀ (T : Nat) (s : Layout) (down : List Coord), Inv s down →
    s.oneshot.keys ≠ [] → s.oneshot.releaseOnNextTick = false → s.oneshot.timeout = T → 1 ≤ T →
    s.queue = [] →
    (∀ n, n < T → ∃ sn, ticks n s = .ok sn ∧ sn.states = s.states ∧ SameKeys s.oneshot sn.oneshot ∧
        sn.oneshot.timeout = T - n) ∧
    (∃ sT, ticks T s = .ok sT ∧ sT.states = dropCoords s.oneshot.releasedKeys s.states ∧
        sT.oneshot.keys = [] ∧ sT.oneshot.releasedKeys = [] ∧ Inv sT down) := by
  intro T
  induction T with
  | zero => intro s down _ _ _ _ h; omega
  | succ T ih =>
    intro s down h hk hr ht _ hq
    by_cases hT : T = 0
    · subst hT
      obtain ⟨sr, _, i1, ho, hst, hqq, hm, hiff⟩ := tick_fires_then_pops h hk (Or.inr (by omega))
      have hage : age s.queue = [] := by rw [hq]; rfl
      rw [hage] at hm
      have htick := (hiff sr .noEvent).mpr hm
      refine ⟨fun n hn => ?_, sr, by simp only [ticks, htick], hst, by rw [ho]; rfl, by rw [ho]; rfl, i1⟩
      have : n = 0 := by omega
      subst this
      exact ⟨s, rfl, rfl, SameKeys.refl _, by omega⟩
    · obtain ⟨s1, e1, i1, f1, f2, f3, f4⟩ := tick_waits_idle h hk hr (by omega) hq
      obtain ⟨a1, a2⟩ := ih s1 down i1 (by rw [f3.keys]; exact hk) (by rw [f3.request]; exact hr)
        (by omega) (by omega) f2
      refine ⟨fun n hn => ?_, ?_⟩
      · cases n with
        | zero => exact ⟨s, rfl, rfl, SameKeys.refl _, by omega⟩
        | succ m =>
          obtain ⟨sn, g1, g2, g3, g4⟩ := a1 m (by omega)
          exact ⟨sn, by simp only [ticks, e1, g1], g2.trans f1, f3.trans g3, by omega⟩
      · obtain ⟨sT, g1, g2, g3, g4, g5⟩ := a2
        exact ⟨sT, by simp only [ticks, e1, g1], by rw [g2, f1, f3.released], g3, g4, g5⟩

/-! ## press variants -/

/-- **first_key_press_variant** (full).  Press variants, one-shot keys active: when the press of a
plain key (key, output chord or layer-while-held) is taken from the queue, every state that was
there stays — the one-shot key or layer is still in effect for this key — the key's own state is
added, the countdown becomes `min(rapid-event-delay, countdown)` and input processing is paused for
`rapid-event-delay` ticks.  Active and deferred one-shot keys are untouched. -/
theorem first_key_press_variant {s : Layout} {down : List Coord} (h : Inv s down)
    (hk : s.oneshot.keys ≠ []) (he : isPressEnd s.oneshot.endConfig = true)
    (c : Coord) (n : Nat) (order : List Nat) (ho : s.transOrder = .ok order) (a : Action) (ls : List Nat)
    (hr : s.resolveCoord c order = .ok (a, ls)) (hs : Simple a) :
    ∃ s1, dequeue FUEL s ⟨.press c, n⟩ = .ok (s1, .noEvent) ∧ Adds c s s1 ∧ SameKeys s.oneshot s1.oneshot ∧
      s1.oneshot.timeout = min s.oneshot.pauseInputProcessingDelay s.oneshot.timeout ∧
      s1.oneshot.pauseInputProcessingTicks = s.oneshot.pauseInputProcessingDelay := by
  have sp := simpleArm_spec (prelude s c) a hs c false
  obtain ⟨p1, p2, p3, p4⟩ := prelude_spec s c
  refine ⟨_, dequeue_press_simple h.calm c n order ho a ls hr hs, (prelude_adds s c).trans sp.adds, ?_, ?_, ?_⟩
  all_goals
    rw [sp.osh, p2]
    simp only [Bool.false_eq_true, if_false, handlePress_other_pressEnd _ c hk h.calm.ignore he]
  exact ⟨rfl, rfl, rfl, rfl, rfl, rfl⟩

def ticksOf : List In → Nat
  | [] => 0
  | .tick :: r => ticksOf r + 1
  | .ev _ :: r => ticksOf r

def eventsOf : List In → List Ev
  | [] => []
  | .tick :: r => eventsOf r
  | .ev e :: r => e :: eventsOf r

/-- **no_pop_before_release** (full).  One-shot keys active, countdown `m`, input pause `p ≥ m` (the
situation `first_key_press_variant` creates: `m = min(d, countdown) ≤ d = p`).  Whatever arrives
meanwhile, during the next `max m 1 − 1` ticks nothing is taken from the input queue and no state
changes: both counters just go down together. -/
theorem no_pop_before_release : ∀ (ins : List In) (s : Layout) (down : List Coord) (m : Nat), Inv s down →
    s.oneshot.keys ≠ [] → s.oneshot.releaseOnNextTick = false → s.oneshot.timeout = m →
    m ≤ s.oneshot.pauseInputProcessingTicks → ticksOf ins + 1 ≤ max m 1 →
    ∀ s' down', run s down ins = some (.ok (s', down')) →
      Inv s' down' ∧ s'.states = s.states ∧ SameKeys s.oneshot s'.oneshot ∧
      s'.oneshot.timeout = m - ticksOf ins ∧
      s'.oneshot.pauseInputProcessingTicks = s.oneshot.pauseInputProcessingTicks - ticksOf ins ∧
      s'.queue.map (·.ev) = s.queue.map (·.ev) ++ eventsOf ins := by
  intro ins
  induction ins with
  | nil =>
    intro s down m h _ _ hm _ _ s' down' hr
    simp only [run] at hr
    injection hr with hr; injection hr with hr; injection hr with h1 h2
    subst h1; subst h2
    exact ⟨h, rfl, SameKeys.refl _, by simp [ticksOf, hm], by simp [ticksOf], by simp [eventsOf]⟩
  | cons i rest ih =>
    intro s down m h hk hr hm hp hn s' down' hrun
    simp only [run] at hrun
    split at hrun
    · cases hrun
    · rename_i hov
      cases i with
      | ev e =>
        have hq : s.queue.length < QUEUE_SIZE := by
          simp only [overflows, decide_eq_true_eq] at hov; omega
        obtain ⟨s1, e1, i1, q1, st1, o1⟩ := h.input e hq
        simp only [stepIn, e1] at hrun
        obtain ⟨r1, r2, r3, r4, r5, r6⟩ := ih s1 _ m i1 (o1 ▸ hk) (o1 ▸ hr) (o1 ▸ hm) (o1 ▸ hp)
          (by simpa [ticksOf] using hn) s' down' hrun
        rw [o1] at r3 r5
        exact ⟨r1, r2.trans st1, r3, by simpa [ticksOf] using r4, by simpa [ticksOf] using r5,
          by rw [r6, q1]; simp [eventsOf]⟩
      | tick =>
        simp only [ticksOf] at hn
        have hm2 : 2 ≤ m := by omega
        obtain ⟨s1, e1, i1, f1, f2, f3, f4, f5⟩ := tick_waits_paused h hk hr (by omega) (by omega)
        simp only [stepIn, e1] at hrun
        obtain ⟨r1, r2, r3, r4, r5, r6⟩ := ih s1 down (m - 1) i1 (by rw [f3.keys]; exact hk)
          (by rw [f3.request]; exact hr) (by omega) (by omega) (by omega) s' down' hrun
        refine ⟨r1, r2.trans f1, f3.trans r3, by simp only [ticksOf]; omega, by simp only [ticksOf]; omega, ?_⟩
        rw [r6, f2, age_map_ev]
        simp [eventsOf]

/-- **release_precedes_next_pop** (full).  On the tick on which `tick_osh` fires — the countdown is at
its last step, or a release was requested — the deferred releases are applied first: the layout is
`sr`, with no one-shot key active, every state of a tapped one-shot key gone and the input pause
lifted; only then is the oldest queued event taken, and it is processed on `sr`.  Hence a key pressed
after the first following key never sees the one-shot key or layer. -/
theorem release_precedes_next_pop {s : Layout} {down : List Coord} (h : Inv s down) (hk : s.oneshot.keys ≠ [])
    (hf : s.oneshot.releaseOnNextTick = true ∨ s.oneshot.timeout ≤ 1) :
    ∃ sr, tickOneshot (tickPre s) = .ok (sr, .noEvent) ∧ Inv sr down ∧
      sr.oneshot.keys = [] ∧ sr.oneshot.releasedKeys = [] ∧ sr.oneshot.pauseInputProcessingTicks = 0 ∧
      sr.states = dropCoords s.oneshot.releasedKeys s.states ∧
      (∀ st ∈ sr.states, ∀ k ∈ s.oneshot.releasedKeys, st.coord ≠ some k) ∧
      sr.queue = age s.queue ∧
      (tickMain sr = match age s.queue with
        | [] => .ok (sr, .noEvent)
        | q :: rest => dequeue FUEL (sr.setQueue rest) q) ∧
      (∀ s' cu, tick s = .ok (s', cu) ↔ tickMain sr = .ok (s', cu)) := by
  obtain ⟨sr, e1, i1, ho, hst, hq, hm, hiff⟩ := tick_fires_then_pops h hk hf
  refine ⟨sr, e1, i1, by rw [ho]; rfl, by rw [ho]; rfl, by rw [ho]; rfl, hst, ?_, hq, hm, hiff⟩
  intro st hst' k hk'
  rw [hst] at hst'
  exact (mem_dropCoords.mp hst').2 k hk'

/-- **oneshot_press_variant** (full): the timeline after the first following key.  From the state
`first_key_press_variant` produces (countdown `m ≤` pause), after any inputs containing exactly
`max m 1 − 1` ticks nothing has been taken from the queue and no state has changed; on the next tick
— tick number `max m 1`, i.e. `rapid-event-delay` ticks after the key when `1 ≤ d ≤ countdown`, the
very next tick when `d = 0` — the one-shot states are released *before* the queue is looked at.
The two counters were started by the same `handle_press` and run in step, for every `m`. -/
theorem oneshot_press_variant (ins : List In) (s : Layout) (down : List Coord) (m : Nat) (h : Inv s down)
    (hk : s.oneshot.keys ≠ []) (hr : s.oneshot.releaseOnNextTick = false) (hm : s.oneshot.timeout = m)
    (hp : m ≤ s.oneshot.pauseInputProcessingTicks) (hn : ticksOf ins + 1 = max m 1)
    (s' : Layout) (down' : List Coord) (hrun : run s down ins = some (.ok (s', down'))) :
    s'.states = s.states ∧ s'.queue.map (·.ev) = s.queue.map (·.ev) ++ eventsOf ins ∧
    ∃ sr, tickOneshot (tickPre s') = .ok (sr, .noEvent) ∧ sr.oneshot.keys = [] ∧
      sr.states = dropCoords s.oneshot.releasedKeys s.states ∧
      (∀ s'' cu, tick s' = .ok (s'', cu) ↔ tickMain sr = .ok (s'', cu)) ∧
      (tickMain sr = match age s'.queue with
        | [] => .ok (sr, .noEvent)
        | q :: rest => dequeue FUEL (sr.setQueue rest) q) := by
  obtain ⟨r1, r2, r3, r4, _, r6⟩ := no_pop_before_release ins s down m h hk hr hm hp (by omega) s' down' hrun
  obtain ⟨sr, e1, _, k1, _, _, k4, _, _, k7, k8⟩ := release_precedes_next_pop r1 (by rw [r3.keys]; exact hk)
    (Or.inr (by omega))
  exact ⟨r2, r6, sr, e1, k1, by rw [k4, r3.released, r2], k8, k7⟩

/-- **second_key_never_modified** (full): the press-variant story end to end, for every delay `d` and
every remaining countdown `t`.  One-shot keys active (press variant), input not paused, and the
oldest queued event is the press of a plain key at `c`: this tick takes it — every earlier state
stays, so the one-shot key or layer applies to it — and from the resulting state `s1`, whatever
arrives, after exactly `max (min d t) 1 − 1` further ticks nothing has been taken from the queue and
no state has changed; on the next tick the one-shot states are released first (`sr` holds no state of
a tapped one-shot key, no one-shot key is active) and only then is the next event — e.g. the second
following key — taken and processed, on `sr`.  So the release happens on tick `max (min d t) 1` after
the first key (`= d` for `1 ≤ d ≤ t`, the very next tick for `d = 0`), and the first later pop on
that same tick, after it. -/
theorem second_key_never_modified {s : Layout} {down : List Coord} (h : Inv s down)
    (hk : s.oneshot.keys ≠ []) (hr : s.oneshot.releaseOnNextTick = false)
    (he : isPressEnd s.oneshot.endConfig = true) (hp : s.oneshot.pauseInputProcessingTicks = 0)
    (c : Coord) (n : Nat) (rest : List Queued) (hq : s.queue = ⟨.press c, n⟩ :: rest)
    (order : List Nat) (ho : s.transOrder = .ok order) (a : Action) (ls : List Nat)
    (hres : s.resolveCoord c order = .ok (a, ls)) (hs : Simple a) :
    ∃ s1, tickMain s = .ok (s1, .noEvent) ∧ Inv s1 down ∧ Adds c s s1 ∧ s1.queue = rest ∧
      s1.oneshot.releasedKeys = s.oneshot.releasedKeys ∧
      ∀ (ins : List In) (s' : Layout) (down' : List Coord),
        ticksOf ins + 1 = max (min s.oneshot.pauseInputProcessingDelay s.oneshot.timeout) 1 →
        run s1 down ins = some (.ok (s', down')) →
        s'.states = s1.states ∧ s'.queue.map (·.ev) = rest.map (·.ev) ++ eventsOf ins ∧
        ∃ sr, tickOneshot (tickPre s') = .ok (sr, .noEvent) ∧ sr.oneshot.keys = [] ∧
          sr.states = dropCoords s.oneshot.releasedKeys s1.states ∧
          (∀ s'' cu, tick s' = .ok (s'', cu) ↔ tickMain sr = .ok (s'', cu)) ∧
          (tickMain sr = match age s'.queue with
            | [] => .ok (sr, .noEvent)
            | q :: rest' => dequeue FUEL (sr.setQueue rest') q) := by
  have hc := h.calm.setQueue rest
  have e0 := tickMain_pops h.calm.waiting h.calm.extra hp _ rest hq
  have e1 := dequeue_press_simple (s := s.setQueue rest) hc c n order ho a ls
    ((resolveCoord_cfg s (s.setQueue rest) rfl c order).trans hres) hs
  have sp := simpleArm_spec (prelude (s.setQueue rest) c) a hs c false
  obtain ⟨p1, p2, p3, p4⟩ := prelude_spec (s.setQueue rest) c
  obtain ⟨i1, _⟩ := h.pop_press c n rest hq _ _ e1
  have hosh : (simpleArm (prelude (s.setQueue rest) c) a c false).oneshot =
      { s.oneshot with timeout := min s.oneshot.pauseInputProcessingDelay s.oneshot.timeout,
                       pauseInputProcessingTicks := s.oneshot.pauseInputProcessingDelay } := by
    rw [sp.osh, p2]
    simp only [Bool.false_eq_true, if_false]
    exact congrArg Prod.fst (handlePress_other_pressEnd s.oneshot c hk h.calm.ignore he)
  refine ⟨_, e0.trans e1, i1, ?_, by rw [sp.queue, p3]; rfl, by rw [hosh], ?_⟩
  · exact (Adds.of_states (c := c) (s := s) (s' := s.setQueue rest) rfl).trans ((prelude_adds _ c).trans sp.adds)
  · intro ins s' down' hn hrun
    have := oneshot_press_variant ins _ down (min s.oneshot.pauseInputProcessingDelay s.oneshot.timeout) i1
      (by rw [hosh]; exact hk) (by rw [hosh]; exact hr) (by rw [hosh]) (by rw [hosh]; exact Nat.min_le_left _ _)
      hn s' down' hrun
    obtain ⟨r1, r2, sr, r3, r4, r5, r6, r7⟩ := this
    refine ⟨r1, ?_, sr, r3, r4, ?_, r6, r7⟩
    · rw [r2, sp.queue, p3]; rfl
    · rw [r5, hosh]

/-- **press_variant_delay_zero**: with `rapid-event-delay 0` the first following key sets the
countdown to 0 and starts no pause; the very next tick releases the one-shot states before it takes
the next event — at the layout level the second following key is not modified for delay 0 either.
(What delay 0 breaks is outside the layout: `Kanata::is_idle` treats `oneshot.timeout == 0` as idle, so
the pinned event loop could stop ticking before that next tick happened; see C07, which repaired it.) -/
theorem press_variant_delay_zero {s : Layout} {down : List Coord} (h : Inv s down)
    (hk : s.oneshot.keys ≠ []) (he : isPressEnd s.oneshot.endConfig = true)
    (hd : s.oneshot.pauseInputProcessingDelay = 0)
    (c : Coord) (n : Nat) (order : List Nat) (ho : s.transOrder = .ok order) (a : Action) (ls : List Nat)
    (hr : s.resolveCoord c order = .ok (a, ls)) (hs : Simple a) :
    ∃ s1, dequeue FUEL s ⟨.press c, n⟩ = .ok (s1, .noEvent) ∧ s1.oneshot.timeout = 0 ∧
      s1.oneshot.pauseInputProcessingTicks = 0 ∧ s1.oneshot.keys = s.oneshot.keys := by
  obtain ⟨s1, e1, _, f3, f4, f5⟩ := first_key_press_variant h hk he c n order ho a ls hr hs
  exact ⟨s1, e1, by rw [f4, hd]; simp, by rw [f5, hd], f3.keys⟩

/-! ## release variants -/

/-- **first_key_release_variant** (full).  Release variants: the press of another key is only
remembered (`other_pressed_keys`); the countdown, the input pause and the one-shot keys are untouched
and every state stays — the one-shot key or layer remains in effect. -/
theorem first_key_release_variant {s : Layout} {down : List Coord} (h : Inv s down)
    (hk : s.oneshot.keys ≠ []) (he : isPressEnd s.oneshot.endConfig = false)
    (c : Coord) (n : Nat) (order : List Nat) (ho : s.transOrder = .ok order) (a : Action) (ls : List Nat)
    (hr : s.resolveCoord c order = .ok (a, ls)) (hs : Simple a) :
    ∃ s1, dequeue FUEL s ⟨.press c, n⟩ = .ok (s1, .noEvent) ∧ Adds c s s1 ∧
      s1.oneshot = { s.oneshot with
        otherPressedKeys := (pushBackWrap ONE_SHOT_MAX_ACTIVE s.oneshot.otherPressedKeys c).1 } ∧
      c ∈ s1.oneshot.otherPressedKeys := by
  have sp := simpleArm_spec (prelude s c) a hs c false
  obtain ⟨p1, p2, p3, p4⟩ := prelude_spec s c
  have ho' : (simpleArm (prelude s c) a c false).oneshot = { s.oneshot with
      otherPressedKeys := (pushBackWrap ONE_SHOT_MAX_ACTIVE s.oneshot.otherPressedKeys c).1 } := by
    rw [sp.osh, p2]
    simp only [Bool.false_eq_true, if_false, handlePress_other_releaseEnd _ c hk h.calm.ignore he]
  refine ⟨_, dequeue_press_simple h.calm c n order ho a ls hr hs, (prelude_adds s c).trans sp.adds, ho', ?_⟩
  rw [ho']
  exact mem_pushBackWrap_new _ (by decide) _ _

/-- **oneshot_release_variant** (full).  Release variants, one-shot keys active: when the release of
a key that is not an active one-shot key is taken from the queue, it is applied normally, and the
release of the one-shot keys is requested **iff** that key was pressed since the activation
(`other_pressed_keys`); nothing else changes.  By `release_precedes_next_pop` the request is served at
the start of the next tick, before any later event is taken: nothing pressed after that release is
affected.  The release of a key that was already down when the one-shot key was tapped ends nothing. -/
theorem oneshot_release_variant {s : Layout} {down : List Coord} (h : Inv s down)
    (hk : s.oneshot.keys ≠ []) (he : isPressEnd s.oneshot.endConfig = false) (c : Coord) (n : Nat)
    (hc : s.oneshot.keys.contains c = false) :
    dequeue FUEL s ⟨.release c, n⟩ =
      .ok ({ s with
          oneshot := { s.oneshot with
            releaseOnNextTick := s.oneshot.releaseOnNextTick || s.oneshot.otherPressedKeys.contains c },
          states := s.states.filter (fun st => st.coord != some c) }, .noEvent) := by
  rw [dequeue_release_calm h.calm.states c n, handleRelease_other _ c hk hc]
  simp only [afterRelease, if_true, he, Bool.not_false, Bool.true_and]

/-- **nothing_after_first_release_is_affected** (full): the release-variant story end to end.
One-shot keys active (release variant), input not paused, and the oldest queued event is the release
of a key pressed since the activation: this tick applies it and requests the release; the next tick
releases the one-shot states first and only then takes the next event, on the released state `sr`.
So no key pressed after that first release is affected. -/
theorem nothing_after_first_release_is_affected {s : Layout} {down : List Coord} (h : Inv s down)
    (hk : s.oneshot.keys ≠ []) (he : isPressEnd s.oneshot.endConfig = false)
    (hp : s.oneshot.pauseInputProcessingTicks = 0)
    (c : Coord) (n : Nat) (rest : List Queued) (hq : s.queue = ⟨.release c, n⟩ :: rest)
    (hc : s.oneshot.keys.contains c = false) (hco : s.oneshot.otherPressedKeys.contains c = true) :
    ∃ s1, tickMain s = .ok (s1, .noEvent) ∧ Inv s1 down ∧ s1.queue = rest ∧
      s1.states = s.states.filter (fun st => st.coord != some c) ∧
      s1.oneshot.releasedKeys = s.oneshot.releasedKeys ∧
      ∃ sr, tickOneshot (tickPre s1) = .ok (sr, .noEvent) ∧ sr.oneshot.keys = [] ∧
        sr.states = dropCoords s.oneshot.releasedKeys s1.states ∧
        (∀ s'' cu, tick s1 = .ok (s'', cu) ↔ tickMain sr = .ok (s'', cu)) ∧
        (tickMain sr = match age rest with
          | [] => .ok (sr, .noEvent)
          | q :: rest' => dequeue FUEL (sr.setQueue rest') q) := by
  have e0 := tickMain_pops h.calm.waiting h.calm.extra hp _ rest hq
  obtain ⟨s1, e1, i1⟩ := h.pop_release c n rest hq
  have e2 := dequeue_release_calm (s := s.setQueue rest) h.calm.states c n
  rw [show (s.setQueue rest).oneshot = s.oneshot from rfl, handleRelease_other _ c hk hc] at e2
  simp only [afterRelease, if_true, he, hco, Bool.not_false, Bool.true_and, Bool.or_true] at e2
  rw [e2] at e1
  injection e1 with e1; injection e1 with e1
  subst e1
  obtain ⟨sr, k0, _, k1, _, _, k4, _, k6, k7, k8⟩ := release_precedes_next_pop i1 hk (Or.inl rfl)
  exact ⟨_, e0.trans e2, i1, rfl, rfl, rfl, sr, k0, k1, k4, k8, k7⟩

/-- the same release in a press variant requests nothing -/
theorem release_in_press_variant_requests_nothing {s : Layout} {down : List Coord} (h : Inv s down)
    (hk : s.oneshot.keys ≠ []) (he : isPressEnd s.oneshot.endConfig = true) (c : Coord) (n : Nat)
    (hc : s.oneshot.keys.contains c = false) :
    dequeue FUEL s ⟨.release c, n⟩ =
      .ok ({ s with states := s.states.filter (fun st => st.coord != some c) }, .noEvent) := by
  rw [dequeue_release_calm h.calm.states c n, handleRelease_other _ c hk hc]
  simp only [afterRelease, if_true, he, Bool.not_true, Bool.false_and, Bool.or_false]

/-! ## the one-shot key itself: tap, hold, stack, overflow, pcancel -/

/-- **tapped_oneshot_release_is_deferred** (full).  The release of an active one-shot key is not
applied: every state stays, the coordinate is remembered in `released_keys` — except that, when 16
releases are deferred already, the oldest of them is applied for real. -/
theorem tapped_oneshot_release_is_deferred {s : Layout} {down : List Coord} (h : Inv s down) (c : Coord) (n : Nat)
    (hc : s.oneshot.keys.contains c = true) :
    dequeue FUEL s ⟨.release c, n⟩ =
      .ok ({ s with
          oneshot := { s.oneshot with releasedKeys := (pushBackWrap ONE_SHOT_MAX_ACTIVE s.oneshot.releasedKeys c).1 },
          states := match (pushBackWrap ONE_SHOT_MAX_ACTIVE s.oneshot.releasedKeys c).2 with
            | some c2 => s.states.filter (fun st => st.coord != some c2)
            | none => s.states }, .noEvent) ∧
    c ∈ (pushBackWrap ONE_SHOT_MAX_ACTIVE s.oneshot.releasedKeys c).1 ∧
    (s.oneshot.releasedKeys.length < ONE_SHOT_MAX_ACTIVE →
      (pushBackWrap ONE_SHOT_MAX_ACTIVE s.oneshot.releasedKeys c).2 = none) := by
  refine ⟨?_, mem_pushBackWrap_new _ (by decide) _ _, fun hl => by simp [pushBackWrap, hl]⟩
  rw [dequeue_release_calm h.calm.states c n, handleRelease_active _ c hc]
  simp only [afterRelease, Bool.false_eq_true, if_false]
  rfl

/-- **oneshot_stack_restarts_timeout** (full).  The press of a one-shot key (inner action a key, an
output chord or layer-while-held; timeout `T`, end variant `v`): its inner action takes effect like a
plain press (states added at its coordinate, nothing lost), and — whether or not other one-shot keys
are active — the countdown is set to `T` (restarting it), the end variant becomes `v`, the key joins
the active keys, and its own deferred release, if any, is withdrawn.  All active keys are released
together by the one `tick_osh` that fires (`release_precedes_next_pop` hands back *all* of
`released_keys`). -/
theorem oneshot_stack_restarts_timeout {s : Layout} {down : List Coord} (h : Inv s down)
    (hq : s.queue.length < QUEUE_SIZE) (c : Coord) (n : Nat) (order : List Nat) (ho : s.transOrder = .ok order)
    (inner : Action) (T : Nat) (v : OneShotEnd) (ls : List Nat)
    (hr : s.resolveCoord c order = .ok (.oneShot inner T v, ls)) (hs : Simple inner) :
    ∃ s1, dequeue FUEL s ⟨.press c, n⟩ = .ok (s1, .noEvent) ∧ Adds c s s1 ∧
      s1.oneshot.timeout = T ∧ s1.oneshot.endConfig = v ∧
      s1.oneshot.keys = (pushBackWrap ONE_SHOT_MAX_ACTIVE s.oneshot.keys c).1 ∧ c ∈ s1.oneshot.keys ∧
      c ∉ s1.oneshot.releasedKeys ∧
      (∀ x ∈ s.oneshot.releasedKeys, x ≠ c → x ∈ s1.oneshot.releasedKeys) ∧
      s1.oneshot.pauseInputProcessingTicks = s.oneshot.pauseInputProcessingTicks := by
  obtain ⟨s1, e1, _, e3, e4, _⟩ := dequeue_press_oneShot h.calm hq c n order ho inner T v ls hr hs
  obtain ⟨a1, a2, a3, _, _, a6, _, a8⟩ := activate_fields s.oneshot c T v
  obtain ⟨f1, _, _, f4, f5, f6⟩ := handlePress_osk_fields s.oneshot c
  refine ⟨s1, e1, e3, by rw [e4, a2], by rw [e4, a3], by rw [e4, a8], ?_, ?_, ?_, ?_⟩
  · rw [e4, a8]; exact mem_pushBackWrap_new _ (by decide) _ _
  · rw [e4, a6]
    intro hmem
    have hk0 := f6 h.calm.ignore hmem
    have := f5 c hmem
    rw [(h.idle hk0).1] at this
    cases this
  · intro x hx hne
    rw [e4, a6]
    rcases f4 x hx with g | g
    · exact g
    · exact absurd g hne
  · rw [e4]
    simp only [activate]
    unfold OneShotState.handlePress
    split
    · rfl
    · simp only []; split <;> rfl

/-- **oneshot_overflow_releases_oldest** (full).  With 16 one-shot keys active, the activation of
another drops the oldest from the active keys and queues a release event for it; the other 15 and
the new key are active.  With fewer than 16 nothing is dropped.  (When that release event is taken
the key is no longer active, so — unless it was activated again meanwhile — it is applied normally,
`release_in_press_variant_requests_nothing` / `oneshot_release_variant`; that no state is stranded
either way is `no_state_stranded`.) -/
theorem oneshot_overflow_releases_oldest (o : OneShotState) (c : Coord) :
    (o.keys.length < ONE_SHOT_MAX_ACTIVE → activateOverflow o c = none ∧
      ∀ T v, (activate o c T v).keys = o.keys ++ [c]) ∧
    (∀ k0 tl, o.keys = k0 :: tl → ONE_SHOT_MAX_ACTIVE ≤ o.keys.length → activateOverflow o c = some k0 ∧
      ∀ T v, (activate o c T v).keys = tl ++ [c]) := by
  have f1 := (handlePress_osk_fields o c).1
  refine ⟨fun hl => ⟨?_, fun T v => ?_⟩, fun k0 tl hk hl => ⟨?_, fun T v => ?_⟩⟩
  · simp only [activateOverflow, f1, pushBackWrap, hl, if_true]
  · rw [(activate_fields o c T v).2.2.2.2.2.2.2]; simp only [pushBackWrap, hl, if_true]
  · have : ¬ ((k0 :: tl).length < ONE_SHOT_MAX_ACTIVE) := by rw [← hk]; omega
    simp only [activateOverflow, f1, pushBackWrap, hk, this, if_false]
  · have : ¬ ((k0 :: tl).length < ONE_SHOT_MAX_ACTIVE) := by rw [← hk]; omega
    rw [(activate_fields o c T v).2.2.2.2.2.2.2]; simp only [pushBackWrap, hk, this, if_false]

/-- **oneshot_held_is_plain** (full).  A one-shot key that is still physically held — its release has
not been taken from the queue, so its coordinate is not in `released_keys` (guaranteed right after its
press by `oneshot_stack_restarts_timeout`) — keeps its states when the one-shot activation ends, by
timeout or otherwise; from then on no one-shot key is active, so its eventual release is an ordinary
release removing exactly its states.  It acts as the plain key for as long as it is held. -/
theorem oneshot_held_is_plain {s : Layout} {down : List Coord} (h : Inv s down) (hk : s.oneshot.keys ≠ [])
    (hf : s.oneshot.releaseOnNextTick = true ∨ s.oneshot.timeout ≤ 1) (c : Coord)
    (hc : c ∉ s.oneshot.releasedKeys) :
    ∃ sr, tickOneshot (tickPre s) = .ok (sr, .noEvent) ∧
      (∀ st ∈ s.states, st.coord = some c → st ∈ sr.states) ∧
      ∀ n, dequeue FUEL sr ⟨.release c, n⟩ =
        .ok ({ sr with states := sr.states.filter (fun st => st.coord != some c) }, .noEvent) := by
  obtain ⟨sr, e1, i1, k1, _, _, k4, _⟩ := release_precedes_next_pop h hk hf
  refine ⟨sr, e1, fun st hst hco => ?_, fun n => dequeue_release_inactive i1.calm.states k1 c n⟩
  rw [k4]
  refine mem_dropCoords.mpr ⟨hst, fun k hk' hcon => ?_⟩
  rw [hco] at hcon
  injection hcon with hcon
  exact hc (hcon ▸ hk')

/-- **pcancel_on_repress** (full).  pcancel variants: pressing a one-shot key that is already active
requests the release of all one-shot keys (served at the start of the next tick,
`release_precedes_next_pop`, although the countdown was just restarted), and the re-pressed key is
not deferred, so it stays down as a plain key until it is released.  In the other two variants, and
for a one-shot key that is not active yet, nothing is requested. -/
theorem pcancel_on_repress {s : Layout} {down : List Coord} (h : Inv s down) (hk : s.oneshot.keys ≠ [])
    (hq : s.queue.length < QUEUE_SIZE) (c : Coord) (n : Nat) (order : List Nat) (ho : s.transOrder = .ok order)
    (inner : Action) (T : Nat) (v : OneShotEnd) (ls : List Nat)
    (hr : s.resolveCoord c order = .ok (.oneShot inner T v, ls)) (hs : Simple inner) :
    ∃ s1, dequeue FUEL s ⟨.press c, n⟩ = .ok (s1, .noEvent) ∧
      s1.oneshot.releaseOnNextTick =
        (s.oneshot.releaseOnNextTick || (isRepressEnd s.oneshot.endConfig && s.oneshot.keys.contains c)) ∧
      s1.oneshot.keys ≠ [] ∧ c ∉ s1.oneshot.releasedKeys := by
  obtain ⟨s1, e1, _, _, e4, _⟩ := dequeue_press_oneShot h.calm hq c n order ho inner T v ls hr hs
  obtain ⟨a1, _, _, _, _, a6, a7, _⟩ := activate_fields s.oneshot c T v
  have hp := handlePress_oneShotKey s.oneshot c hk h.calm.ignore
  refine ⟨s1, e1, by rw [e4, a7, hp], by rw [e4]; exact a1, ?_⟩
  rw [e4, a6, hp]
  simp

/-! ## the model is the code that is there now -/

theorem consts_from_source :
    ONE_SHOT_MAX_ACTIVE = Gen.OS_ONE_SHOT_MAX_ACTIVE ∧ QUEUE_SIZE = Gen.OS_QUEUE_SIZE ∧
    Gen.oneShotFnsAsModelled = true := by decide

/-! ## Non-vacuity -/

/-- one-shot shift (press variant), one-shot layer (release-pcancel variant), a one-shot output chord,
two plain keys; an upper layer mapping the plain keys to other keys -/
def sampleCfg : LCfg :=
  { layers := [
      [((0, 30), .oneShot (.keyCode 42) 500 .firstPress),
       ((0, 48), .oneShot (.layer 1) 10 .firstReleaseOrRepress),
       ((0, 46), .oneShot (.multipleKeyCodes [29, 56]) 3 .firstRelease),
       ((0, 32), .keyCode 32), ((0, 18), .keyCode 18)],
      [((0, 32), .keyCode 45), ((0, 18), .keyCode 21)]],
    srcKeys := [(30, .keyCode 30), (48, .keyCode 48), (46, .keyCode 46), (32, .keyCode 32), (18, .keyCode 18)] }

theorem sampleCfg_frag : CfgFrag sampleCfg := by
  refine ⟨?_, ?_⟩
  · intro tbl ht e he
    simp only [sampleCfg, List.mem_cons, List.mem_nil_iff, or_false] at ht
    rcases ht with rfl | rfl <;>
      (simp only [List.mem_cons, List.mem_nil_iff, or_false] at he
       rcases he with rfl | rfl | rfl | rfl | rfl <;> simp [Frag, Simple]) <;>
      (rcases he with rfl | rfl <;> simp [Frag])
  · intro e he
    simp only [sampleCfg, List.mem_cons, List.mem_nil_iff, or_false] at he
    rcases he with rfl | rfl | rfl | rfl | rfl <;> simp [Frag]

/-- a state in which one-shot shift has been tapped (release deferred) with the countdown running:
the hypotheses of the expiry, press-variant and release theorems are met -/
def sampleActive : Layout :=
  { cfg := sampleCfg, states := [.normalKey 42 (0, 30) 0],
    oneshot := { keys := [(0, 30)], releasedKeys := [(0, 30)], timeout := 500, endConfig := .firstPress,
                 pauseInputProcessingDelay := 5 } }

example : sampleActive.oneshot.keys ≠ [] ∧ sampleActive.oneshot.releaseOnNextTick = false ∧
    sampleActive.oneshot.timeout = 500 ∧ 1 ≤ 500 ∧ sampleActive.queue = [] ∧
    isPressEnd sampleActive.oneshot.endConfig = true ∧
    (∀ st ∈ sampleActive.states, ∀ c, st.coord = some c → c ∈ sampleActive.oneshot.releasedKeys) := by
  refine ⟨by simp [sampleActive], rfl, rfl, by decide, rfl, rfl, ?_⟩
  intro st hst c hc
  simp only [sampleActive, List.mem_cons, List.mem_nil_iff, or_false] at hst
  subst hst
  simp only [St.coord] at hc
  injection hc with hc
  subst hc
  simp [sampleActive]

/-- the plain key `d` resolves to a simple action in that state, on the base layer -/
example : sampleActive.transOrder = .ok [0] ∧
    sampleActive.resolveCoord (0, 32) [0] = .ok (.keyCode 32, []) ∧ Simple (.keyCode 32) := by
  exact ⟨rfl, rfl, trivial⟩

/-- the same state with the two plain keys pressed in a burst (both still held): the hypotheses of
`second_key_never_modified` — including the invariant — are met -/
def sampleBurst : Layout :=
  { sampleActive with queue := [⟨.press (0, 32), 1⟩, ⟨.press (0, 18), 1⟩] }

example : Inv sampleBurst [(0, 18), (0, 32)] ∧ sampleBurst.oneshot.keys ≠ [] ∧
    sampleBurst.oneshot.releaseOnNextTick = false ∧ isPressEnd sampleBurst.oneshot.endConfig = true ∧
    sampleBurst.oneshot.pauseInputProcessingTicks = 0 ∧
    sampleBurst.queue = ⟨.press (0, 32), 1⟩ :: [⟨.press (0, 18), 1⟩] ∧
    sampleBurst.transOrder = .ok [0] ∧
    sampleBurst.resolveCoord (0, 32) [0] = .ok (.keyCode 32, []) ∧ Simple (.keyCode 32) := by
  refine ⟨⟨⟨rfl, rfl, rfl, rfl, rfl, ?_, rfl⟩, sampleCfg_frag, by decide, ?_, ?_, ?_⟩, by simp [sampleBurst, sampleActive],
    rfl, rfl, rfl, rfl, rfl, rfl, trivial⟩
  · intro st hst
    simp only [sampleBurst, sampleActive, List.mem_cons, List.mem_nil_iff, or_false] at hst
    subst hst; exact Or.inl rfl
  · intro hk; simp [sampleBurst, sampleActive] at hk
  · exact ⟨Or.inl (by simp), Or.inl (by simp), trivial⟩
  · intro st hst c hc
    simp only [sampleBurst, sampleActive, List.mem_cons, List.mem_nil_iff, or_false] at hst
    subst hst
    simp only [St.coord] at hc
    injection hc with hc
    subst hc
    exact Or.inr (Or.inl (by simp [sampleBurst, sampleActive]))

/-! ## Findings recorded after the remarks of round t5 -/

/-- `n` ticks of the layout; `none` on a crash -/
def tickN : Nat → Layout → Option Layout
  | 0, s => some s
  | n + 1, s => match tick s with
    | .ok (s', _) => tickN n s'
    | .error _ => none

/-- an input event followed by the tick that processes it -/
def evThenTick (s : Layout) (e : Ev) : Option Layout :=
  match s.event e with
  | .ok s' => tickN 1 s'
  | .error _ => none

/-- From `sampleActive` (one-shot LShift tapped, press variant, rapid-event delay 5): the first
following key `d` is pressed; four ticks later - inside the delay in which the release of LShift is
outstanding and the input queue is paused - `aq` is put into the action queue (this is how chords v2
hands a chord's action to the layout: `Layout::tick` pushes it to `action_queue` and performs it
before `tick_osh`, whatever the pause says); `d` is released, 100 quiet ticks pass (first component)
and the second key `e` is pressed (second component). -/
def lingerRun (aq : ActionQueue) : Option (Layout × Layout) := do
  let s ← evThenTick sampleActive (.press (0, 32))
  let s ← tickN 4 s
  let s ← tickN 1 { s with actionQueue := aq }
  let s ← evThenTick s (.release (0, 32))
  let s1 ← tickN 100 s
  let s2 ← evThenTick s1 (.press (0, 18))
  pure (s1, s2)

/-- **oneshot_rearmed_in_release_delay_counterexample** (known finding, KNOWN_FINDINGS.jsonl C06).
Full statement that fails: "with the press variants the second following key is never modified".
`second_key_never_modified` proves it for every one-shot activation that arrives through the input
queue (the queue is paused until the release is out).  A one-shot action performed from the ACTION
queue during that delay (`do_action` `OneShot` arm: `self.oneshot.timeout = oneshot.timeout`)
restores the full timeout of the activation that the first key had already ended: 100 ticks later
LShift (42) is still down, and it is down together with the second key `e` (18).  Without the queued
action the same run ends the one-shot as the property says.  On the real code: chords v2 chord
`(defchordsv2 (e f) (one-shot 500 lalt) 35 first-release ())` pressed 5-6 ms after the first key
(corpus/C06.txt). -/
theorem oneshot_rearmed_in_release_delay_counterexample :
    ((lingerRun [((0, 33), 0, .oneShot (.keyCode 56) 500 .firstPress)]).map fun r =>
        (r.1.keycodes, r.2.keycodes)) = some ([42, 56], [42, 56, 18]) ∧
    ((lingerRun []).map fun r => (r.1.keycodes, r.2.keycodes)) = some ([], [18]) := by
  constructor <;> decide +kernel

/-- **stale_pause_counter_counterexample** (about the pinned code, `armIgnorePinned`; repaired by fix
PENDING-t5-1, KNOWN_FINDINGS: fixed).  `one-shot-pause-processing p` pressed while no one-shot is
active armed `ticks_to_ignore_events`, which `tick_osh` only counts down (and only clears) while a
one-shot is active: the value survived any number of ticks, and once a one-shot key was activated
(`keys` non-empty, everything else as it was) the press of the first following key was ignored -
it neither ended the one-shot nor was it recorded - so the one-shot key modified the SECOND following
key as well (real code: corpus/C06.txt, `one-shot-pause-processing 50` tapped a second before). -/
theorem stale_pause_counter_counterexample (o : OneShotState) (hk : o.keys = []) (p : Nat) (hp : 0 < p) :
    (∀ n, (Nat.repeat (fun x => x.tick.1) n (o.armIgnorePinned p)) = o.armIgnorePinned p) ∧
    (∀ (ks : List Coord) (T : Nat) (k : Coord),
      ({ o.armIgnorePinned p with keys := ks, timeout := T }).handlePress (.other k) =
        ({ o.armIgnorePinned p with keys := ks, timeout := T }, [])) := by
  refine ⟨fun n => ?_, fun ks T k => ?_⟩
  · induction n with
    | zero => rfl
    | succ n ih =>
      simp only [Nat.repeat, ih]
      rw [tick_inactive _ (by simp [OneShotState.armIgnorePinned, hk])]
  · have : ¬ p = 0 := by omega
    simp [OneShotState.handlePress, OneShotState.armIgnorePinned, Nat.pos_iff_ne_zero, this]

/-- **pause_only_armed_while_active** (full; the code as repaired).  The pause is only started while a
one-shot is active - where `tick_osh` counts it down on every tick and clears it when the activation
ends - so a layout without an active one-shot never holds an armed pause: the invariant
`keys = [] → ticksToIgnoreEvents = 0` is kept by the pause action (and `tick_osh` keeps it because it
zeroes the counter whenever it empties `keys`). -/
theorem pause_only_armed_while_active (o : OneShotState) (p : Nat)
    (h : o.keys = [] → o.ticksToIgnoreEvents = 0) :
    ((o.armIgnore p).keys = [] → (o.armIgnore p).ticksToIgnoreEvents = 0) ∧
    (o.keys = [] → o.armIgnore p = o) ∧
    ((o.tick.1).keys = [] → (o.tick.1).ticksToIgnoreEvents = 0) := by
  refine ⟨?_, ?_, ?_⟩
  · unfold OneShotState.armIgnore
    split
    · exact h
    · rename_i hne; intro hk; simp at hk; simp [hk] at hne
  · intro hk; simp [OneShotState.armIgnore, hk]
  · unfold OneShotState.tick
    split
    · exact h
    · simp only []
      split
      · intro _; rfl
      · rename_i hne _; intro hk; simp at hk; simp [hk] at hne

example : ({} : OneShotState).armIgnore 50 = {} ∧
    (({ keys := [(0, 30)], timeout := 500 } : OneShotState).armIgnore 50).ticksToIgnoreEvents = 50 := by
  exact ⟨rfl, rfl⟩

end KVerif.C06
