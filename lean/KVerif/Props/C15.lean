/-
C15 — live reload is all-or-nothing: failure keeps the old configuration, success is a restart.
Property theorems only (helper lemmas: KVerif/Lemmas/Reload*.lean).  Every theorem is quantified over
all `World`s — i.e. over every keyberon layout, every parser and every implementation of the parts of
`tick_states` that are not reload bookkeeping — and over all states and histories.
-/
import KVerif.Lemmas.ReloadSim
import KVerif.Model.ReloadMini
namespace KVerif.Reload
open KVerif.Gen.Reload

variable {W : World}

/-! ## 1. The model reads the source: generated lists vs. the hand classification -/

/-- **fields_classified**.  The generated enumeration lists every field of `struct Kanata` (checked
build) and both global stores exactly once, and the hand classification `classify` (a total function
with no wildcard arm, so a NEW field stops this file from compiling) splits them into exactly these
five lists. -/
theorem fields_classified :
    (∀ f : Field, f ∈ allFields) ∧ allFields.Nodup ∧
    fieldsOf .cfgDerived =
      [.key_outputs, .layout, .layer_info, .sequence_backtrack_modcancel, .sequence_always_on,
       .sequence_input_mode, .sequence_timeout, .sequences, .overrides, .log_layer_changes,
       .movemouse_inherit_accel_state, .movemouse_smooth_diagonals, .override_release_on_activation,
       .dynamic_macro_max_presses, .dynamic_macro_replay_behaviour, .virtual_keys,
       .switch_max_key_timing, .G_ZCH, .G_MAPPED_KEYS] ∧
    fieldsOf .cfgStartupOnly =
      [.kbd_in_paths, .continue_if_no_devices, .include_names, .exclude_names, .x11_repeat_rate,
       .device_detect_mode, .allow_hardware_repeat] ∧
    fieldsOf .runtimeReset =
      [.prev_layer, .scroll_state, .hscroll_state, .move_mouse_state_vertical,
       .move_mouse_state_horizontal, .move_mouse_speed_modifiers, .sequence_state,
       .dynamic_macro_replay_state, .dynamic_macro_record_state, .override_states,
       .live_reload_requested, .caps_word, .waiting_for_idle, .vkeys_pending_release,
       .ticks_since_idle, .movemouse_buffer, .unmodded_keys, .unmodded_mods, .unshifted_keys,
       .last_pressed_key, .macro_on_press_cancel_duration] ∧
    fieldsOf .runtimeRetained = [.cur_keys, .prev_keys, .dynamic_macros, .saved_clipboard_content] ∧
    fieldsOf .infrastructure =
      [.kbd_out, .cfg_paths, .cur_cfg_idx, .last_tick, .time_remainder, .tcp_server_address] := by
  refine ⟨fun f => by cases f <;> decide, by decide, by decide, by decide, by decide, by decide, by decide⟩

/-- **steps_all_known**: the translator understood every statement of `do_live_reload`;
`do_live_reload` starts by parsing; the helper methods it calls write no field of the struct; and
every assignment whose right-hand side is not derived from `cfg` is either
`self.prev_layer = cur_layer` or stores, textually, the very expression both constructors store in
that field (which is what `resetVal` models). -/
theorem steps_all_known :
    reloadSteps.all stepKnown = true ∧ reloadSteps.head? = some .parse ∧ effectWrites = [] ∧
    reloadResetRhs.all (fun x => x == (.prev_layer, "cur_layer") ||
      ctorConstRhs.lookup x.1 == some (x.2, x.2)) = true := by
  refine ⟨by decide, by decide, by decide, by decide⟩

/-- **reload_covers_cfg_derived**.  Every field whose value is computed from the configuration and
used while keys are processed is re-assigned from the new `cfg` by `do_live_reload` — and from
nothing else; conversely `do_live_reload` assigns from `cfg` only such fields; and the fields it
assigns from anything else are exactly the run-time state classified as reset on reload (the request
flag is cleared by `handle_time_ticks` just before the call).  (Forgetting
`self.overrides = cfg.overrides` changes `Gen.Reload.reloadSteps` and this theorem no longer checks.) -/
theorem reload_covers_cfg_derived :
    (∀ f, classify f = .cfgDerived → cfgOnly reloadSteps f = true) ∧
    (∀ f, f ∈ assignedFromCfg reloadSteps → classify f = .cfgDerived) ∧
    (∀ f, f ∈ assignedReset reloadSteps ↔ (classify f = .runtimeReset ∧ f ≠ .live_reload_requested)) := by
  refine ⟨fun f => by cases f <;> decide, fun f => by cases f <;> decide, fun f => by cases f <;> decide⟩

/-- **ctor_cfg_fields**.  The fields a constructor computes from `cfg` are exactly the
configuration-derived ones plus the start-up-only ones; both constructors initialise every field in
the same way; and the configuration-derived fields that `do_live_reload` does NOT re-assign are exactly
the seven start-up-only fields (device selection, X11 repeat rate field, `allow_hardware_repeat`,
which the Linux/macOS event loops read once before the processing loop starts). -/
theorem ctor_cfg_fields :
    ctorNew = ctorNewFromStr ∧
    (∀ f, ctorNew.lookup f = some true ↔ (classify f = .cfgDerived ∨ classify f = .cfgStartupOnly)) ∧
    (∀ f, (ctorNew.lookup f = some true ∧ f ∉ assigned reloadSteps) ↔ classify f = .cfgStartupOnly) ∧
    (∀ f, classify f = .infrastructure ∨ classify f = .runtimeRetained → f ∉ assigned reloadSteps) := by
  refine ⟨by decide, fun f => by cases f <;> decide, fun f => by cases f <;> decide,
    fun f => by cases f <;> decide⟩

/-- **write_sites_as_modelled**.  The functions of src/ that write one of the bookkeeping fields are
the ones the model implements (this is what justifies running the abstract parts of the tick inside
`frame`), and the functions that mention `live_reload_requested`, `cur_cfg_idx`, `cfg_paths`,
`ticks_since_idle` or `prev_layer` at all are modelled ones. -/
theorem write_sites_as_modelled :
    writeSites =
      [("cur_cfg_idx", "handle_keystate_changes"), ("cur_keys", "handle_keystate_changes"),
       ("cur_keys", "src/kanata/key_repeat.rs::handle_repeat"),
       ("cur_keys", "src/kanata/key_repeat.rs::handle_repeat_actual"), ("cur_keys", "tick_states"),
       ("layout", "do_live_reload"), ("live_reload_requested", "handle_time_ticks"),
       ("live_reload_requested", "tick_states"), ("macro_on_press_cancel_duration", "do_live_reload"),
       ("macro_on_press_cancel_duration", "handle_input_event"),
       ("macro_on_press_cancel_duration", "handle_keystate_changes"),
       ("macro_on_press_cancel_duration", "tick_states"), ("prev_keys", "handle_keystate_changes"),
       ("prev_keys", "tick_states"), ("prev_layer", "check_handle_layer_change"),
       ("prev_layer", "do_live_reload"), ("ticks_since_idle", "can_block_update_idle_waiting"),
       ("ticks_since_idle", "do_live_reload"),
       ("ticks_since_idle", "handle_input_event"), ("ticks_since_idle", "handle_keystate_changes"),
       ("waiting_for_idle", "do_live_reload"),
       ("waiting_for_idle", "handle_keystate_changes"), ("waiting_for_idle", "tick_idle_timeout")] ∧
    touchSites =
      [("cfg_paths", "do_live_reload"), ("cfg_paths", "handle_keystate_changes"),
       ("cur_cfg_idx", "do_live_reload"), ("cur_cfg_idx", "handle_keystate_changes"),
       ("live_reload_requested", "can_block_update_idle_waiting"),
       ("live_reload_requested", "handle_time_ticks"), ("live_reload_requested", "is_idle"),
       ("live_reload_requested", "tick_states"), ("prev_layer", "check_handle_layer_change"),
       ("prev_layer", "do_live_reload"), ("ticks_since_idle", "can_block_update_idle_waiting"),
       ("ticks_since_idle", "do_live_reload"),
       ("ticks_since_idle", "handle_input_event"), ("ticks_since_idle", "handle_keystate_changes"),
       ("ticks_since_idle", "handle_time_ticks"), ("ticks_since_idle", "tick_idle_timeout")] := by
  refine ⟨by decide, by decide⟩

/-! ## 2. Failure keeps the old configuration -/

/-- when does reading the configuration fail: the file is missing, cannot be read, or its text is
rejected by the parser (syntactically or semantically — the parser returns one error type) -/
theorem newFromFile_none_iff (env : Env W.toTypes) (p : Nat) :
    newFromFile env p = none ↔
      (match env.fs p with
       | .missing => True
       | .unreadable => True
       | .content c => ∃ e, W.parse c = .error e) := by
  unfold newFromFile
  cases env.fs p with
  | missing => simp
  | unreadable => simp
  | content c => cases h : W.parse c <;> simp [h]

/-- **reload_fail_is_noop** (full).  If the file to reload is missing, unreadable or does not parse,
`do_live_reload` returns an error and the `Kanata` value is *equal* to what it was — every field and
both global stores — and nothing is sent to the clients.  As the state is the whole input of every
later step, all later behaviour is that of the old configuration. -/
theorem reload_fail_is_noop (env : Env W.toTypes) (s : KSt W) (p : Nat)
    (hp : (s .cfg_paths : List Nat)[(s .cur_cfg_idx : Nat)]? = some p)
    (hfail : newFromFile env p = none) :
    doLiveReload env s = .ok ⟨s, [], false⟩ :=
  doLiveReload_fail env s p hp hfail

/-- **reload_fail_run_equiv** (full, over every history; the loop is taken without parking — that
parking is unobservable is C07).  Take any history — any inputs, any timing, the files changing under
kanata's feet, any number of reload requests through any of the reload actions, back-to-back or far
apart — in which no file of the command line can be loaded at any moment.  Then what reaches the OS
and the clients, iteration by iteration, is EXACTLY what the same history produces when the reload
actions do nothing at all (`nr = true`), and the final states agree on every field except the request
flag, the file index and the idle counter.  Hypothesis `Blind`: the parts of `tick_states` outside the
model do not read those three fields (checked against the source: `write_sites_as_modelled`). -/
theorem reload_fail_run_equiv (hB : Blind W) (script : List (Tick W.toTypes)) (msPrev : Nat) (s : KSt W)
    (hreq : s .live_reload_requested = false)
    (hfail : ∀ t ∈ script, ∀ p ∈ (s .cfg_paths : List Nat), newFromFile t.env p = none)
    (s' : KSt W) (out : List (List W.Os × List Msg))
    (h : runNB false script msPrev s = .ok (s', out)) :
    ∃ s'' : KSt W, runNB true script msPrev s = .ok (s'', out) ∧ (∀ f, f ∉ bk → s' f = s'' f) ∧
      s'' .live_reload_requested = false := by
  have h0 : Sim s s := ⟨fun _ _ => rfl, fun _ => rfl, hreq⟩
  obtain ⟨s'', h1, h2⟩ := sim_runNB hB script msPrev h0 hfail s' out h
  exact ⟨s'', h1, h2.agree, h2.breq⟩

/-- the fallible calls that `do_live_reload` makes after it has started to overwrite fields: none -/
def lateFallibles : List String := lateFalliblesOf reloadSteps

/-- **reload_atomic** (full).  Whenever `do_live_reload` reports failure — the file does not load,
`update_kbd_out` fails, `xset` cannot be spawned — the `Kanata` value is equal to what it was, every
field and both global stores, and nothing was sent to the clients: every call that can fail precedes
the first assignment (`lateFallibles = []`).  Until the fix that moved `Kanata::set_repeat_rate` up
this was false: `reload_not_atomic_counterexample` (about the statement list as it was). -/
theorem reload_atomic (env : Env W.toTypes) (s : KSt W) (r : RRes W.toTypes)
    (h : doLiveReload env s = .ok r) (hr : r.ok = false) : r.st = s ∧ r.msgs = [] := by
  have hshape : reloadSteps = .parse :: (reloadSteps.tail.takeWhile isFallible ++
      reloadSteps.tail.dropWhile isFallible) := by decide
  unfold doLiveReload at h
  rw [hshape] at h
  exact doLiveReloadWith_atomic _ _ (by decide) (by decide) env s r h hr

example : lateFallibles = [] ∧ falliblesOf reloadSteps = ["update_kbd_out", "Kanata::set_repeat_rate"] := by
  decide

/-! ## 3. Success is a restart -/

/-- what must be true of the keyberon layout for "the first layer becomes active": a freshly built
layout has no held layers and its default layer is 0 (`Layout::new`) -/
def FreshLayer0 (W : World) : Prop := ∀ c, W.currentLayer (W.cfgVal .layout c) = 0

/-- the run-time state that a reload does not reset is in the condition a constructor leaves it in
(`prev_keys` is exempt: the next tick releases whatever it lists) -/
def retainedFieldsInitial (s : KSt W) : Prop :=
  ∀ f, classify f = .runtimeRetained → f ≠ .prev_keys →
    s f = constVal W (s .cfg_paths) (s .cur_cfg_idx) f

/-- a complete run: the file parsed, and state and notifications are the closed form -/
theorem reload_success_form (env : Env W.toTypes) (s : KSt W) (r : RRes W.toTypes)
    (h : doLiveReload env s = .ok r) (hok : r.ok = true) :
    ∃ p c, (s .cfg_paths : List Nat)[(s .cur_cfg_idx : Nat)]? = some p ∧ newFromFile env p = some c ∧
      r.st = reloaded c s ∧
      (env.tx = false → r.msgs = []) ∧
      (env.tx = true → ∃ name,
        W.layerName (W.cfgVal .layer_info c) (W.currentLayer (W.cfgVal .layout c)) = some name ∧
        r.msgs = [.configFileReload p, .layerChange name]) := by
  obtain ⟨p, c, hp, hc, hrun⟩ := doLiveReload_ok_inv env s r h hok
  have hf := runSteps_ok_fallibles env c _ _ _ _ r hrun hok
  have hf' : ∀ callee ∈ falliblesOf reloadSteps, env.callFails callee c = false := by
    intro callee hm
    apply hf
    rw [mem_falliblesOf] at hm ⊢
    have hs : reloadSteps = .parse :: reloadSteps.tail := by decide
    rw [hs] at hm
    rcases List.mem_cons.1 hm with e | e
    · cases e
    · exact e
  have hcl := doLiveReload_success env s p c hp hc hf'
  rw [h] at hcl
  refine ⟨p, c, hp, hc, ?_⟩
  by_cases htx : env.tx = true
  · simp only [htx, if_true] at hcl
    split at hcl
    · simp at hcl
    · rename_i name hn
      simp at hcl
      subst hcl
      exact ⟨rfl, by simp [htx], fun _ => ⟨name, hn, rfl⟩⟩
  · simp only [htx] at hcl
    simp at hcl
    subst hcl
    refine ⟨rfl, fun _ => rfl, fun h => absurd h htx⟩

/-- **reload_notifies_once** (full).  A reload that succeeds with a client channel sends exactly two
messages, in this order: `ConfigFileReload` with the path that was loaded and `LayerChange` with the
name — taken from the NEW `layer_info` — of the layer the new layout starts on.  A reload that fails
sends nothing (`reload_atomic`), and afterwards `prev_layer` equals the current layer, so
`check_handle_layer_change` does not announce that layer a second time. -/
theorem reload_notifies_once (env : Env W.toTypes) (s : KSt W) (r : RRes W.toTypes) (htx : env.tx = true)
    (h : doLiveReload env s = .ok r) (hok : r.ok = true) :
    (∃ p c name, (s .cfg_paths : List Nat)[(s .cur_cfg_idx : Nat)]? = some p ∧ newFromFile env p = some c ∧
      W.layerName (W.cfgVal .layer_info c) (W.currentLayer (W.cfgVal .layout c)) = some name ∧
      r.msgs = [.configFileReload p, .layerChange name]) ∧
    (∀ s' m, checkLayerChange env.tx r.st = .ok (s', m) → m = []) := by
  obtain ⟨p, c, hp, hc, hst, _, hm⟩ := reload_success_form env s r h hok
  obtain ⟨name, hn, hmsgs⟩ := hm htx
  refine ⟨⟨p, c, name, hp, hc, hn, hmsgs⟩, ?_⟩
  intro s' m hcl
  refine (checkLayerChange_spec _ _ _ _ hcl).2.1 ?_
  rw [hst]
  obtain ⟨_, _, r3, _, r5⟩ := reloaded_keeps c s
  rw [r3, r5]

/-- the closed form of a complete reload is the restart state, when the retained run-time fields are
initial -/
theorem reloaded_eq_restartState (hW : FreshLayer0 W) (c : W.Cfg) (s : KSt W)
    (hreq : s .live_reload_requested = false) (hret : retainedFieldsInitial s) :
    reloaded c s = restartState s c := by
  apply St.ext'
  intro f
  have hctor := ctor_cfg_fields.2.1 f
  have hreset := reload_covers_cfg_derived.2.2 f
  have hrp : f ∈ assignedReset resetPart ↔ f ∈ assignedReset reloadSteps := by
    revert f; intro f _ _; cases f <;> decide
  simp only [reloaded]
  rw [applyReset_get, applyCfg_get]
  simp only [silent_assigns, hrp, hreset]
  cases hcl : classify f with
  | cfgDerived =>
    have hne : f ≠ .prev_keys := by intro e; subst e; simp [classify] at hcl
    have hlk : ctorNew.lookup f = some true := hctor.2 (Or.inl hcl)
    simp [restartState, hcl, hne, freshAt, hlk]
  | cfgStartupOnly => simp [restartState, hcl]
  | infrastructure => simp [restartState, hcl]
  | runtimeReset =>
    have hlk : ctorNew.lookup f ≠ some true := by
      intro e
      rcases hctor.1 e with e1 | e1 <;> simp [hcl] at e1
    have hpk : f ≠ .prev_keys := by intro e; subst e; simp [classify] at hcl
    have h1 : f ≠ .cfg_paths := by intro e; subst e; simp [classify] at hcl
    have h2 : f ≠ .cur_cfg_idx := by intro e; subst e; simp [classify] at hcl
    have hR : (restartState s c) f = typedInit W f := by
      simp only [restartState, hcl, hpk, if_false, freshAt]
      first
        | exact constVal_eq _ _ f h1 h2
        | (split
           · rename_i e; exact absurd e hlk
           · exact constVal_eq _ _ f h1 h2)
    rw [hR]
    by_cases hq : f = .live_reload_requested
    · subst hq
      simp [hreq, typedInit]
    · simp only [hq, ne_eq, not_false_eq_true, and_self, if_true]
      by_cases hl : f = .prev_layer
      · subst hl
        simp [resetVal, typedInit, hW c]
      · exact resetVal_eq _ f hl
  | runtimeRetained =>
    by_cases hpk : f = .prev_keys
    · subst hpk; simp [restartState, classify]
    · have hlk : ctorNew.lookup f ≠ some true := by
        intro e
        rcases hctor.1 e with e1 | e1 <;> simp [hcl] at e1
      have := hret f hcl hpk
      simp only [restartState, hcl, hpk, if_false, freshAt]
      simp
      exact this

/-- **reload_fresh_equiv_partial**.  FULL STATEMENT WANTED: after a successful reload kanata is in the
state of a freshly started instance of the new configuration.  PROVED: the state after a successful
reload EQUALS (every field, both global stores) the restart state — a fresh instance of the new
configuration positioned on the same command line, keeping the plumbing, the start-up-only settings and
`prev_keys` — PROVIDED the three run-time fields that `do_live_reload` still does not reset are in
their initial condition (`retainedFieldsInitial`: the `runtimeRetained` fields other than `prev_keys`,
i.e. `cur_keys` — empty whenever `handle_time_ticks` gets to the reload, `reload_deferral` — and
`dynamic_macros`, `saved_clipboard_content`: what the user recorded or saved, kept on purpose) and a
freshly built layout starts on layer 0.  State equality makes every later step identical.
Before the stale-state fix 21 fields were in this hypothesis: `reload_fresh_equiv_counterexample`. -/
theorem reload_fresh_equiv_partial (hW : FreshLayer0 W) (env : Env W.toTypes) (s : KSt W) (r : RRes W.toTypes)
    (h : doLiveReload env s = .ok r) (hok : r.ok = true)
    (hreq : s .live_reload_requested = false) (hret : retainedFieldsInitial s) :
    ∃ p c, (s .cfg_paths : List Nat)[(s .cur_cfg_idx : Nat)]? = some p ∧ newFromFile env p = some c ∧
      r.st = restartState s c := by
  obtain ⟨p, c, hp, hc, hst, _, _⟩ := reload_success_form env s r h hok
  exact ⟨p, c, hp, hc, by rw [hst]; exact reloaded_eq_restartState hW c s hreq hret⟩

/-- what `retainedFieldsInitial` asks for, field by field -/
theorem retainedFieldsInitial_iff (s : KSt W) :
    retainedFieldsInitial s ↔
      (s .cur_keys = ([] : List Nat) ∧ s .dynamic_macros = W.init0 .dynamic_macros ∧
       s .saved_clipboard_content = W.init0 .saved_clipboard_content) := by
  constructor
  · intro h
    exact ⟨h .cur_keys rfl (by decide), h .dynamic_macros rfl (by decide),
      h .saved_clipboard_content rfl (by decide)⟩
  · rintro ⟨h1, h2, h3⟩ f hcl hpk
    revert hcl hpk
    cases f <;> simp [classify] <;> first | exact h1 | exact h2 | exact h3

/-- **reload_eq_restart_partial**: the whole of `do_live_reload` — result, state, notifications,
crashes, every way of failing — coincides with the all-or-nothing restart specification
`restartReload` (the specification the correspondence check runs against the real code), provided
the three retained fields are initial (see `reload_fresh_equiv_partial`).  No hypothesis about `xset`
any more. -/
theorem reload_eq_restart_partial (hW : FreshLayer0 W) (env : Env W.toTypes) (s : KSt W)
    (hreq : s .live_reload_requested = false) (hret : retainedFieldsInitial s) :
    doLiveReload env s = restartReload env s := by
  unfold restartReload
  cases hp : (s .cfg_paths : List Nat)[(s .cur_cfg_idx : Nat)]? with
  | none =>
    unfold doLiveReload doLiveReloadWith
    have hs : reloadSteps = .parse :: reloadSteps.tail := by decide
    rw [hs]; simp [hp]
  | some p =>
    simp only
    cases hc : newFromFile env p with
    | none => simp only; exact doLiveReload_fail env s p hp hc
    | some c =>
      simp only
      by_cases hany : (falliblesOf reloadSteps).any (fun callee => env.callFails callee c) = true
      · rw [if_pos hany]
        have hshape : reloadSteps = .parse :: (reloadSteps.tail.takeWhile isFallible ++
            reloadSteps.tail.dropWhile isFallible) := by decide
        have hF : (reloadSteps.tail.takeWhile isFallible).all isFallible = true := by decide
        have hall : falliblesOf (reloadSteps.tail.takeWhile isFallible) = falliblesOf reloadSteps := by decide
        unfold doLiveReload doLiveReloadWith
        rw [hshape]
        simp only [hp, hc]
        rw [runSteps_append]
        rcases runPrefix_fallibles env c _ none s [] hF with ⟨h1, _⟩ | ⟨h1, hnone⟩
        · rw [h1]
        · exfalso
          rw [hall] at hnone
          simp only [List.any_eq_true] at hany
          obtain ⟨callee, hm, hf⟩ := hany
          rw [hnone callee hm] at hf; cases hf
      · have hnone : ∀ callee ∈ falliblesOf reloadSteps, env.callFails callee c = false := by
          intro callee hm
          cases hf : env.callFails callee c with
          | false => rfl
          | true => exact absurd (List.any_eq_true.2 ⟨callee, hm, hf⟩) hany
        rw [if_neg hany]
        rw [doLiveReload_success env s p c hp hc hnone]
        rw [reloaded_eq_restartState hW c s hreq hret]
        cases env.tx <;> rfl

/-! ## 4. When the reload is applied -/

/-- **reload_deferral** (full).  One call of `handle_time_ticks` attempts a reload iff, after its
ticks and the layer-change check, a request is pending and either both key lists are empty or
`ticks_since_idle > 1000`; at most one attempt per call; without an attempt nothing but the ticks
happened.  Whenever at least one tick ran in this call (or `cur_keys` was empty on entry, which is
an invariant of the loop: `tick_states` and `handle_repeat` leave it empty), `cur_keys` is empty at
the decision, so "no output key is down" means exactly: `prev_keys` — the keys the last tick left
pressed at the OS — is empty. -/
theorem reload_deferral (env : Env W.toTypes) (ms : Nat) (s : KSt W) (r : HRes W.toTypes)
    (h : handleTimeTicks env ms s = .ok r) :
    ∃ s2 os m1, decisionState env ms s = .ok (s2, os, m1) ∧
      r.attempt.isSome = reloadDue s2 ∧
      (r.attempt = none → r.st = s2 ∧ r.msgs = m1 ∧ r.os = os) ∧
      ((s .cur_keys = ([] : List Nat) ∨ 0 < ms) →
        reloadDue s2 = ((s2 .live_reload_requested : Bool) &&
          ((s2 .prev_keys : List Nat).isEmpty || decide ((s2 .ticks_since_idle : Nat) > 1000)))) := by
  obtain ⟨s2, os, m1, hd, hos, hcase⟩ := handleTimeTicks_inv false env ms s r h
  refine ⟨s2, os, m1, hd, ?_, ?_, ?_⟩
  · rcases hcase with ⟨h1, h2, _, _⟩ | ⟨h1, rr, _, h2, _, _⟩ <;> simp [h1, h2]
  · intro hn
    rcases hcase with ⟨_, _, h3, h4⟩ | ⟨_, rr, _, h2, _, _⟩
    · exact ⟨h3, h4, hos⟩
    · simp [h2] at hn
  · intro hor
    have := (decisionState_rel false env ms s s2 os m1 hd).2.2.2.2 hor
    simp [reloadDue, this]

/-- **request_never_lost** (full): a pending request survives any number of ticks until an attempt
is made — ticks, custom actions, layer changes cannot clear it. -/
theorem request_never_lost (env : Env W.toTypes) (ms : Nat) (s : KSt W) (r : HRes W.toTypes)
    (h : handleTimeTicks env ms s = .ok r) (hreq : s .live_reload_requested = true)
    (hno : r.attempt = none) : r.st .live_reload_requested = true := by
  obtain ⟨s2, os, m1, hd, _, hcase⟩ := handleTimeTicks_inv false env ms s r h
  rcases hcase with ⟨_, _, h3, _⟩ | ⟨_, rr, _, h2, _, _⟩
  · rw [h3]; exact (decisionState_rel false env ms s s2 os m1 hd).2.1 hreq
  · simp [h2] at hno

/-- **attempt_clears_request** (full): every attempt, successful or not, consumes the request — a
broken file is not retried until the user asks again (back-to-back requests each get one attempt). -/
theorem attempt_clears_request (env : Env W.toTypes) (ms : Nat) (s : KSt W) (r : HRes W.toTypes) (b : Bool)
    (h : handleTimeTicks env ms s = .ok r) (ha : r.attempt = some b) :
    r.st .live_reload_requested = false := by
  obtain ⟨s2, os, m1, hd, _, hcase⟩ := handleTimeTicks_inv false env ms s r h
  rcases hcase with ⟨_, h2, _, _⟩ | ⟨_, rr, hrr, _, h3, _⟩
  · simp [h2] at ha
  · rw [h3, doLiveReload_frame env _ rr .live_reload_requested hrr (by decide)]
    simp

/-- **fallback_needs_idle** (full).  In one iteration of the processing loop a reload is attempted
while an output key is still down only through the idle fall-back, and that needs: no input event in
this iteration, `is_idle()` true at its start, and the idle counter (after this iteration's update)
above 1000.  With a request pending `is_idle()` is false while any `NormalKey` state exists, so a
held — or stuck — ordinary key postpones the reload indefinitely; the fall-back can only fire for
keys that are down without a `NormalKey` state (`unmod`/`unshift` lists, keys left by macros). -/
theorem fallback_needs_idle (env : Env W.toTypes) (inp : Option W.Input) (ms msPrev : Nat) (s : KSt W)
    (r : IterRes W.toTypes) (h : loopIter env inp ms msPrev s = .ok r) (hatt : r.attempt.isSome = true) :
    ∃ s0 s2 os m1, decisionState env ms s0 = .ok (s2, os, m1) ∧ reloadDue s2 = true ∧
      (((s2 .prev_keys : List Nat) = [] ∧ (s2 .cur_keys : List Nat) = []) ∨
       (inp = none ∧ isIdle s = true ∧ 1000 < ((canBlockUpdate msPrev s).1 .ticks_since_idle : Nat))) := by
  unfold loopIter loopIterWith at h
  simp only at h
  cases inp with
  | some e =>
    simp only at h
    split at h
    · simp at h
    · rename_i hr hh
      simp at h; subst h
      simp only at hatt
      obtain ⟨s2, os, m1, hd, _, hcase⟩ := handleTimeTicks_inv false env ms _ hr hh
      refine ⟨_, s2, os, m1, hd, ?_⟩
      rcases hcase with ⟨_, h2, _, _⟩ | ⟨hdue, _⟩
      · simp [h2] at hatt
      · refine ⟨hdue, Or.inl ?_⟩
        have htsi := (decisionState_rel false env ms _ s2 os m1 hd).2.2.2.1
        have h0 : ((handleInput (canBlockUpdate msPrev s).1 e).1 .ticks_since_idle : Nat) = 0 := by
          simp [handleInput, frameK, framedK, framed, St.set]
        rw [h0] at htsi
        simp only [reloadDue, Bool.and_eq_true, Bool.or_eq_true, decide_eq_true_eq] at hdue
        rcases hdue.2 with hk | hk
        · simpa using hk
        · exact absurd (Nat.lt_of_lt_of_le hk htsi) (Nat.not_lt_zero _)
  | none =>
    simp only at h
    split at h
    · simp at h; subst h; simp at hatt
    · split at h
      · simp at h
      · rename_i hnb hr hh
        simp at h; subst h
        simp only at hatt
        obtain ⟨s2, os, m1, hd, _, hcase⟩ := handleTimeTicks_inv false env ms _ hr hh
        refine ⟨_, s2, os, m1, hd, ?_⟩
        rcases hcase with ⟨_, h2, _, _⟩ | ⟨hdue, _⟩
        · simp [h2] at hatt
        · refine ⟨hdue, ?_⟩
          have htsi := (decisionState_rel false env ms _ s2 os m1 hd).2.2.2.1
          simp only [reloadDue, Bool.and_eq_true, Bool.or_eq_true, decide_eq_true_eq] at hdue
          rcases hdue.2 with hk | hk
          · exact Or.inl (by simpa using hk)
          · refine Or.inr ⟨rfl, ?_, Nat.lt_of_lt_of_le hk htsi⟩
            cases hni : isIdle s with
            | true => rfl
            | false =>
              have h0 : ((canBlockUpdate msPrev s).1 .ticks_since_idle : Nat) = 0 := by
                simp [canBlockUpdate, hni, St.set]
              rw [h0] at htsi
              exact absurd (Nat.lt_of_lt_of_le hk htsi) (Nat.not_lt_zero _)

/-! ## 5. Which file -/

/-- **reload_index_spec** (full).  With `cur_cfg_idx` inside `cfg_paths` (an invariant:
`reload_index_invariant`): `lrld` keeps the index; `lrld-next` / `lrld-prev` step cyclically;
`(lrld-num k+1)` selects `k` when it exists and otherwise leaves the index alone BUT STILL requests a
reload of the current file; `(lrld-file p)` selects the first position of `p`, and requests nothing
when `p` was not on the command line.  No arm can crash or leave the range.  (With an empty
`cfg_paths` — impossible after `Kanata::new` — `lrld-next/prev` would underflow `len() - 1`.) -/
theorem reload_index_spec (paths : List Nat) (idx : Nat) (hidx : idx < paths.length) :
    selectIndex paths idx .cur = .ok (idx, true) ∧
    selectIndex paths idx .next = .ok ((idx + 1) % paths.length, true) ∧
    selectIndex paths idx .prev = .ok ((idx + paths.length - 1) % paths.length, true) ∧
    (∀ n, selectIndex paths idx (.num n) = .ok (if n < paths.length then n else idx, true)) ∧
    (∀ p, (p ∉ paths → selectIndex paths idx (.file p) = .ok (idx, false)) ∧
          (p ∈ paths → ∃ i, selectIndex paths idx (.file p) = .ok (i, true) ∧ i < paths.length ∧
             paths[i]? = some p ∧ ∀ j, j < i → paths[j]? ≠ some p)) := by
  refine ⟨by simp [selectIndex, hidx], ?_, ?_, ?_, ?_⟩
  · simp only [selectIndex]
    have hne : paths.length ≠ 0 := by omega
    simp only [hne, if_false]
    by_cases he : idx = paths.length - 1
    · have h0 : (idx + 1) % paths.length = 0 := by
        have : idx + 1 = paths.length := by omega
        rw [this]; exact Nat.mod_self _
      have hpos : 0 < paths.length := by omega
      rw [if_pos he, if_pos hpos, h0]
    · have hlt : idx + 1 < paths.length := by omega
      rw [if_neg he, if_pos hlt, Nat.mod_eq_of_lt hlt]
  · simp only [selectIndex]
    cases idx with
    | zero =>
      have hne : paths.length ≠ 0 := by omega
      have h0 : (0 + paths.length - 1) % paths.length = paths.length - 1 := by
        rw [Nat.zero_add]; exact Nat.mod_eq_of_lt (by omega)
      rw [h0]
      simp [hne]
    | succ i =>
      have hi : i < paths.length := by omega
      have h0 : (i + 1 + paths.length - 1) % paths.length = i := by
        have : i + 1 + paths.length - 1 = i + paths.length := by omega
        rw [this, Nat.add_mod_right]; exact Nat.mod_eq_of_lt hi
      rw [h0]
      simp [hi]
  · intro n
    simp only [selectIndex]
    split <;> rfl
  · intro p
    constructor
    · intro hn
      simp only [selectIndex]
      cases hf : findPath paths p with
      | none => rfl
      | some i =>
        have := (findPath_some paths p i hf).2.1
        exact absurd (List.mem_of_getElem? this) hn
    · intro hm
      simp only [selectIndex]
      cases hf : findPath paths p with
      | none => exact absurd hm (findPath_none paths p hf)
      | some i =>
        obtain ⟨a, b, c⟩ := findPath_some paths p i hf
        exact ⟨i, rfl, a, b, c⟩

example : selectIndex [10, 11, 12] 2 .next = .ok (0, true) ∧ selectIndex [10, 11, 12] 0 .prev = .ok (2, true) ∧
    selectIndex [10, 11, 12] 1 (.num 7) = .ok (1, true) ∧ selectIndex [10, 11, 10] 1 (.file 10) = .ok (0, true) ∧
    selectIndex [10, 11, 12] 1 (.file 99) = .ok (1, false) ∧
    selectIndex [] 0 .next = .error (.subOverflow "LiveReloadNext cfg_paths.len() - 1") :=
  ⟨rfl, rfl, rfl, rfl, rfl, rfl⟩

/-- **reload_index_invariant** (full): one iteration of the processing loop — ticks, every reload
action, a failed or successful reload — leaves `cfg_paths` unchanged and `cur_cfg_idx` inside it, so
neither `do_live_reload` nor the log lines can index out of bounds, on any history. -/
theorem reload_index_invariant (env : Env W.toTypes) (inp : Option W.Input) (ms msPrev : Nat) (s : KSt W)
    (r : IterRes W.toTypes) (h : loopIter env inp ms msPrev s = .ok r)
    (hidx : (s .cur_cfg_idx : Nat) < (s .cfg_paths : List Nat).length) :
    r.st .cfg_paths = s .cfg_paths ∧ (r.st .cur_cfg_idx : Nat) < (r.st .cfg_paths : List Nat).length := by
  have key : ∀ (s0 : KSt W) (hr : HRes W.toTypes), handleTimeTicks env ms s0 = .ok hr →
      s0 .cfg_paths = s .cfg_paths → s0 .cur_cfg_idx = s .cur_cfg_idx →
      hr.st .cfg_paths = s .cfg_paths ∧ (hr.st .cur_cfg_idx : Nat) < (hr.st .cfg_paths : List Nat).length := by
    intro s0 hr hh hp hi
    obtain ⟨s2, os, m1, hd, _, hcase⟩ := handleTimeTicks_inv false env ms s0 hr hh
    obtain ⟨d1, _, d3, _, _⟩ := decisionState_rel false env ms s0 s2 os m1 hd
    have d3' := d3 (by rw [hp, hi]; exact hidx)
    rcases hcase with ⟨_, _, h3, _⟩ | ⟨_, rr, hrr, _, h3, _⟩
    · rw [h3, d1, hp]; exact ⟨rfl, by rw [hp] at d3'; exact d3'⟩
    · rw [h3, doLiveReload_frame env _ rr .cfg_paths hrr (by decide),
        doLiveReload_frame env _ rr .cur_cfg_idx hrr (by decide)]
      simp only [St.set_other _ _ _ _ (show Field.cfg_paths ≠ .live_reload_requested by decide),
        St.set_other _ _ _ _ (show Field.cur_cfg_idx ≠ .live_reload_requested by decide)]
      rw [d1, hp]; exact ⟨rfl, by rw [hp] at d3'; exact d3'⟩
  have cbp : (canBlockUpdate msPrev s).1 .cfg_paths = s .cfg_paths ∧
      (canBlockUpdate msPrev s).1 .cur_cfg_idx = s .cur_cfg_idx := by
    simp only [canBlockUpdate]
    split
    · simp [St.set]
    · split <;> simp [St.set]
  unfold loopIter loopIterWith at h
  simp only at h
  cases inp with
  | some e =>
    simp only at h
    split at h
    · simp at h
    · rename_i hr hh
      simp at h; subst h
      refine key _ hr hh ?_ ?_
      · simp [handleInput, frameK, framedK, framed, St.set, cbp.1]
      · simp [handleInput, frameK, framedK, framed, St.set, cbp.2]
  | none =>
    simp only at h
    split at h
    · simp at h; subst h
      exact ⟨cbp.1, by rw [cbp.1, cbp.2]; exact hidx⟩
    · split at h
      · simp at h
      · rename_i hr hh
        simp at h; subst h
        exact key _ hr hh cbp.1 cbp.2

/-! ## 6. Counterexamples and non-vacuity (on the concrete `Mini` world of the correspondence check) -/

/-- non-vacuity of `retainedFieldsInitial`, in every world: a freshly constructed instance satisfies it -/
theorem fresh_retained_initial (paths : List Nat) (c : W.Cfg) :
    retainedFieldsInitial (fresh (W := W) paths c) := by
  intro f hcl _
  have hlk : ctorNew.lookup f ≠ some true := by
    intro e
    rcases (ctor_cfg_fields.2.1 f).1 e with e1 | e1 <;> simp [hcl] at e1
  rw [(fresh_paths paths c).1, (fresh_paths paths c).2]
  simp only [fresh, freshAt]


/-- old configuration: key 0 → `1`, key 1 → `lrld`, key 2 → `(unmod 4)` -/
def Mini.cA : Mini.Cfg := ⟨0, [[.key 2, .rl .cur, .unmod 5, .noop, .noop, .noop]], [], false⟩
/-- new configuration that also sets `linux-x11-repeat-delay-rate` -/
def Mini.cB : Mini.Cfg := ⟨1, [[.key 4, .rl .cur, .noop, .noop, .noop, .noop]], [], true⟩
/-- new configuration without it -/
def Mini.cC : Mini.Cfg := ⟨2, [[.key 4, .rl .cur, .noop, .noop, .noop, .noop]], [], false⟩

def Mini.envOf (c : Mini.Content) : Env Mini.world.toTypes where
  fs := fun _ => .content c
  callFails := fun callee c => callee == "Kanata::set_repeat_rate" && c.x11
  tx := true

example : FreshLayer0 Mini.world := fun _ => rfl

/-- a failing file: hypotheses of `reload_fail_is_noop` are met, for a syntactically broken file, a
semantically rejected one, a missing one and an unreadable one -/
example : newFromFile (Mini.envOf .syn) 0 = none ∧ newFromFile (Mini.envOf .sem) 0 = none ∧
    newFromFile (W := Mini.world) ⟨fun _ => .missing, fun _ _ => false, true⟩ 0 = none ∧
    newFromFile (W := Mini.world) ⟨fun _ => .unreadable, fun _ _ => false, true⟩ 0 = none := ⟨rfl, rfl, rfl, rfl⟩

/-- a successful reload from a fresh state: hypotheses of `reload_fresh_equiv_partial` and
`reload_notifies_once` are met, and the result is the restart state -/
example : ∃ r, doLiveReload (Mini.envOf (.ok Mini.cC)) (fresh (W := Mini.world) [0] Mini.cA) = .ok r ∧ r.ok = true ∧
    r.msgs = [.configFileReload 0, .layerChange "c2l0"] := ⟨_, rfl, rfl, rfl⟩

/-- a pending request with no key down: the hypotheses of `reload_deferral`, `attempt_clears_request`,
`fallback_needs_idle` and `reload_index_invariant` are met and the reload is attempted in this call -/
example : ∃ r, handleTimeTicks (Mini.envOf (.ok Mini.cC)) 1
      ((fresh (W := Mini.world) [0] Mini.cA).set .live_reload_requested true) = .ok r ∧
    r.attempt = some true ∧ r.msgs = [.configFileReload 0, .layerChange "c2l0"] := ⟨_, rfl, rfl, rfl⟩

/-- a pending request while a key is down: `request_never_lost` applies (no attempt, still pending) -/
example : ∃ r, handleTimeTicks (Mini.envOf (.ok Mini.cC)) 1
      (((fresh (W := Mini.world) [0] Mini.cA).set .live_reload_requested true).set .layout
        { (Mini.initLayout Mini.cA) with states := [.normal 2 (0, 0)] }) = .ok r ∧
    r.attempt = none ∧ r.st .live_reload_requested = true := ⟨_, rfl, rfl, rfl⟩

/-- `do_live_reload` as it was at /repo 678db6b, before the two fixes (regenerated list of that
commit, kept here because the generated one follows the source): `Kanata::set_repeat_rate` runs
after the assignments, and only `prev_layer` and `macro_on_press_cancel_duration` are reset. -/
def pinnedSteps : List RStep := [
  .parse,
  .fallible "update_kbd_out",
  .assign .sequence_backtrack_modcancel true,
  .assign .sequence_always_on true,
  .assign .sequence_input_mode true,
  .assign .sequence_timeout true,
  .assign .layout true,
  .assign .key_outputs true,
  .assign .layer_info true,
  .assign .sequences true,
  .assign .overrides true,
  .assign .log_layer_changes true,
  .assign .movemouse_smooth_diagonals true,
  .assign .override_release_on_activation true,
  .assign .movemouse_inherit_accel_state true,
  .assign .dynamic_macro_max_presses true,
  .assign .dynamic_macro_replay_behaviour true,
  .assign .switch_max_key_timing true,
  .assign .virtual_keys true,
  .assign .G_ZCH true,
  .assign .G_MAPPED_KEYS true,
  .fallible "Kanata::set_repeat_rate",
  .notify "ConfigFileReload",
  .bindCurLayer,
  .assign .prev_layer false,
  .assign .macro_on_press_cancel_duration false,
  .notify "LayerChange"
]

example : lateFalliblesOf pinnedSteps = ["Kanata::set_repeat_rate"] ∧
    assignedReset pinnedSteps = [.prev_layer, .macro_on_press_cancel_duration] := by decide

/-- **reload_not_atomic_counterexample** (about `pinnedSteps`, the code before the fix).  The new file
parses but asks for an X11 repeat rate and `xset` cannot be spawned: `do_live_reload` returned an
error ("live reload failed") AFTER it had replaced the layout and every other configuration-derived
field.  The old configuration was gone, `ConfigFileReload` / `LayerChange` were never sent,
`prev_layer` was not updated.  Reproduced on the real code of that commit (harness cases `okx`);
with the fix `reload_atomic` holds with no hypothesis. -/
theorem reload_not_atomic_counterexample :
    ∃ r, doLiveReloadWith pinnedSteps (Mini.envOf (.ok Mini.cB)) (fresh (W := Mini.world) [0] Mini.cA) = .ok r ∧
      r.ok = false ∧ r.msgs = [] ∧
      (r.st .layout : Mini.Layout).layers = Mini.cB.layers ∧
      (r.st .layout : Mini.Layout).layers ≠ ((fresh (W := Mini.world) [0] Mini.cA) .layout : Mini.Layout).layers :=
  ⟨_, rfl, rfl, rfl, rfl, by decide⟩

/-- the same input on the code as it is now: a clean failure, nothing changed -/
example : doLiveReload (Mini.envOf (.ok Mini.cB)) (fresh (W := Mini.world) [0] Mini.cA) =
    .ok ⟨fresh (W := Mini.world) [0] Mini.cA, [], false⟩ := rfl

/-- a state in which a run-time field that used to be retained is not initial: `unmodded_keys = [5]`
(reachable: hold an `(unmod …)` key, request the reload with another key, keep holding for a second —
the idle fall-back fires because an `unmod` key has no `NormalKey` state) -/
def Mini.sU : KSt Mini.world := (fresh (W := Mini.world) [0] Mini.cA).set .unmodded_keys ([5] : List Nat)

/-- **reload_fresh_equiv_counterexample** (about `pinnedSteps`, the code before the fix).  From `sU`
the reload succeeded and notified, yet the very next tick of the reloaded instance pressed key 5
(and it stayed pressed: nothing in the new layout ever sends the custom release that removes it from
`unmodded_keys`), whereas the restarted instance emits nothing.  Reproduced on the real code of that
commit (harness cases with `um`). -/
theorem reload_fresh_equiv_counterexample :
    ∃ r, doLiveReloadWith pinnedSteps (Mini.envOf (.ok Mini.cC)) Mini.sU = .ok r ∧ r.ok = true ∧
      (∃ s1, tickStates (W := Mini.world) r.st = .ok (s1, [Mini.Os.down 5])) ∧
      (∃ s2, tickStates (W := Mini.world) (restartState Mini.sU Mini.cC) = .ok (s2, [])) :=
  ⟨_, rfl, rfl, ⟨_, rfl⟩, ⟨_, rfl⟩⟩

/-- the same input on the code as it is now: the reloaded instance is silent too -/
example : ∃ r, doLiveReload (Mini.envOf (.ok Mini.cC)) Mini.sU = .ok r ∧ r.ok = true ∧
    (∃ s1, tickStates (W := Mini.world) r.st = .ok (s1, [])) := ⟨_, rfl, rfl, ⟨_, rfl⟩⟩

/-- non-vacuity of `Blind`: the concrete world of the correspondence check satisfies it -/
theorem blind_mini_world : Blind Mini.world := by
  refine ⟨?_, ?_, ?_, ?_, ?_⟩
  · intro a b h
    have hl : a .layout = b .layout := h _ (by decide)
    have hu : a .unmodded_keys = b .unmodded_keys := h _ (by decide)
    have hc : a .cur_keys = b .cur_keys := h _ (by decide)
    have hp : a .prev_keys = b .prev_keys := h _ (by decide)
    constructor
    · intro f hf
      have hfb := framed_not_bk hf
      show (Mini.ksc a).1 f = (Mini.ksc b).1 f
      simp only [Mini.ksc, hl, hu, hc, hp]
      by_cases n1 : f = .cur_keys
      · subst n1; simp
      · by_cases n2 : f = .unmodded_keys
        · subst n2
          simp [St.set]; rfl
        · by_cases n3 : f = .layout
          · subst n3
            simp [St.set]; rfl
          · simp [St.set, n1, n2, n3, h f hfb]; rfl
    · show (Mini.ksc a).2 = (Mini.ksc b).2
      simp only [Mini.ksc, hl, hu, hc, hp]
  · intro a b h
    exact ⟨fun f hf => h f (framedK_not_bk hf), rfl⟩
  · intro a b h
    exact ⟨fun f hf => h f (framedK_not_bk hf), rfl⟩
  · intro a b e h
    have hl : a .layout = b .layout := h _ (by decide)
    constructor
    · intro f hf
      show (a.set .layout (Mini.levent (a .layout) e)) f = (b.set .layout (Mini.levent (b .layout) e)) f
      by_cases n : f = .layout
      · subst n; simp [St.set, hl]; rfl
      · simp [St.set, n, h f (framedK_not_bk hf)]
    · rfl
  · intro a b h
    have hl : a .layout = b .layout := h _ (by decide)
    show ((a .layout : Mini.Layout).queue).isEmpty = ((b .layout : Mini.Layout).queue).isEmpty
    rw [hl]

/-- **failed_request_moves_index_pinned_counterexample** [t7:in-use].  "If the file to reload does not
parse, kanata … behaves exactly as if no reload had been requested" fails for `lrld-next` (likewise
prev / num / file): the request moves `cur_cfg_idx` when it is made (`applyAct`), the failed
`do_live_reload` returns the state unchanged (`reload_fail_is_noop`) - with the index still on the
file that failed.  With two files, the second one broken, the first one running: after the failed
`lrld-next` a plain `lrld` selects file 1, the broken one, not the file whose configuration runs.
Reproduced on the real code (`C15 S nf 2 ok … syn`: `rq1 fail … rq1 fail`, the specification run
has `rq1 fail … rq0 ok`); recorded as a known finding (repair proposed: restore the index on Err). -/
theorem failed_request_moves_index_pinned_counterexample (env : Env W.toTypes) (s : KSt W) (p0 p1 : Nat)
    (hpaths : (s .cfg_paths : List Nat) = [p0, p1]) (hidx : (s .cur_cfg_idx : Nat) = 0)
    (hfail : newFromFile env p1 = none) :
    ∃ s1 : KSt W, applyAct s (.reload .next) = .ok s1 ∧
      doLiveReload env s1 = .ok ⟨s1, [], false⟩ ∧
      selectIndex (s1 .cfg_paths) (s1 .cur_cfg_idx) .cur = .ok (1, true) ∧
      selectIndex (s .cfg_paths) (s .cur_cfg_idx) .cur = .ok (0, true) := by
  refine ⟨(s.set .cur_cfg_idx (1 : Nat)).set .live_reload_requested true, ?_, ?_, ?_, ?_⟩
  · simp only [applyAct, hpaths, hidx, selectIndex]
    rfl
  · have hp : (((s.set .cur_cfg_idx (1 : Nat)).set .live_reload_requested true) .cfg_paths : List Nat) = [p0, p1] := by
      rw [St.set_other _ _ _ _ (by decide), St.set_other _ _ _ _ (by decide)]; exact hpaths
    have hi : (((s.set .cur_cfg_idx (1 : Nat)).set .live_reload_requested true) .cur_cfg_idx : Nat) = 1 := by
      rw [St.set_other _ _ _ _ (by decide)]; exact St.set_same _ _ _
    exact reload_fail_is_noop env _ p1 (by rw [hp, hi]; rfl) hfail
  · have hp : (((s.set .cur_cfg_idx (1 : Nat)).set .live_reload_requested true) .cfg_paths : List Nat) = [p0, p1] := by
      rw [St.set_other _ _ _ _ (by decide), St.set_other _ _ _ _ (by decide)]; exact hpaths
    have hi : (((s.set .cur_cfg_idx (1 : Nat)).set .live_reload_requested true) .cur_cfg_idx : Nat) = 1 := by
      rw [St.set_other _ _ _ _ (by decide)]; exact St.set_same _ _ _
    rw [hp, hi]; rfl
  · rw [hpaths, hidx]; rfl

/-- a history that meets the hypotheses of `reload_fail_run_equiv`: `lrld` tapped while the file is
syntactically broken -/
example : ∃ s' out, runNB (W := Mini.world) false
    [⟨Mini.envOf .syn, some (.press (0, 1)), 1⟩, ⟨Mini.envOf .syn, some (.release (0, 1)), 1⟩,
     ⟨Mini.envOf .syn, none, 1⟩] 0 (fresh (W := Mini.world) [0] Mini.cA) = .ok (s', out) ∧
    newFromFile (Mini.envOf .syn) 0 = none := ⟨_, _, rfl, rfl⟩

end KVerif.Reload
