/-
C01 (continued) — no stuck output; goes idle: quiescence with the features COMBINED in one
configuration.

`Props/C01.lean` and `Props/C01q2.lean` prove quiescence separately per fragment of the action grammar
(layered, one-shot, macro, tap-hold, tap-dance, chords v1).  Here the statement is proved on
configurations that MIX the stateful kinds.

Full statement aimed at (not proved as one theorem): for every configuration of the union fragment of
C02 (`NCF.UAct`: any nesting of `multi` and `fork` over layered actions, one-shot keys, macros /
repeating macros / cancel / custom actions, tap-hold keys of every variant, one-shot-pause-processing)
and every balanced bounded-queue history, a closed-form number of quiet ticks leaves the layout at rest.

Proved here:
  * **stage 1** (`quiesce_union_stage1`, `quiesce_union_stage1_fresh`, `union_stage1_no_state_stranded`):
    plain keys, output chords, layer-while-held, transparent / unmapped positions, ONE-SHOT keys (all four
    end variants) and TAP-HOLD keys (all five variants, any hold timeout and tap-hold interval) side by
    side in one configuration — home-row mods next to a one-shot shift and a one-shot layer.  In full on
    that fragment: every balanced history from start-up in which an event never arrives while 32 are
    pending; explicit closed-form bound; the quiet ticks are proved not to crash.
  * **stage 3** (`quiesce_union_stage3`, `quiesce_union_stage3_fresh`, `union_stage3_no_state_stranded`;
    contains stage 1: `stage1_within_stage3`): NESTING — the layered fragment of C04 (`multi` and
    `fork` nested to any depth, use-defsrc, layer-switch, release-key / release-layer, ...), custom
    actions, `CancelSequences` and `one-shot-pause-processing` (every action of C02's union fragment
    except macros), with tap-hold
    keys anywhere in the nesting (at most one per press, as kanata's parser enforces) and one-shot keys at
    layer positions and in `fork` branches there, by induction over the recursion budget of `do_action`;
    same bound as stage 1.
  * **the full union is FALSE** (`quiesce_union_counterexample`, reproduced on the real code): with two
    one-shot actions and a `tap-hold-except-keys` in one `multi`, sixteen one-shot keys active and a
    32-event burst, the release of the tap-hold key is consumed by the queue-overflow path re-entered
    from `do_action` before its waiting state exists; the key is never decided and 32 events (30 key
    releases) stay queued for good although no event ever arrived while 32 were pending.  With an
    ordinary `tap-hold` in the same place (`quiesce_union_stuck_modifier_counterexample`, reproduced on the
    real `Kanata`): the hold action's key is pressed after the key's release has been applied and stays
    down for good while kanata reports idle.
Not proved (open): stage 2 proper (macros and repeating macros next to tap-hold or one-shot keys; custom
actions, cancel and one-shot-pause-processing are in stage 3), transparent / use-defsrc items inside
`multi` next to them and more than one tap-hold key per press (`extra_waiting`); there the
property is decided by the C01 oracle on the real code.
Helper lemmas: Lemmas/QuiesceUnion.lean (stage-1 fragment, press, invariant, potential, first two tick
stages), Lemmas/QuiesceUnionTick.lean (third stage, ticks, events, runs, totality through C02's `NC`),
Lemmas/QuiesceUnionCx.lean (the stuck states of the counterexamples), Lemmas/QuiesceUnion4Base.lean
(releases, one-shot expiry and sequence stages with custom states allowed), Lemmas/QuiesceUnion3.lean /
QuiesceUnion3Top.lean (effect of `do_action` on nested actions: `engineIn`, `engineTop`),
Lemmas/QuiesceUnion3Tick.lean (invariant, ticks and runs of stage 3).
-/
import KVerif.Lemmas.QuiesceUnionTick
import KVerif.Lemmas.QuiesceUnionCx
import KVerif.Lemmas.QuiesceUnion3Tick
import KVerif.Props.C01
namespace KVerif.C01
open KVerif.L KVerif.Quiesce KVerif.QU

/-! ### Stage 1: one-shot keys and tap-hold keys together -/

/-- **union_stage1_no_state_stranded** (full on the fragment).  Configurations of stage 1 (`QU.Cfg1`:
plain keys, output chords, layer-while-held, transparent / unmapped positions, one-shot keys of any of
the four end variants whose inner action is one of the first three, tap-hold keys of any of the five
variants whose hold / tap / timeout actions are one of the first three — all in one configuration).
For EVERY history of presses, releases and ticks — any order and timing, physically consistent or not,
one-shot keys stacked beyond 16, tap-hold keys decided while one-shot keys are active and the other way
round — in which an event never arrives while 32 are pending (`run … = some …`), after every step:
every key or layer state in the layout belongs to a coordinate that is physically down, or whose
release is deferred by an ACTIVE one-shot key (so the one-shot countdown is running towards releasing
it), or whose release is still queued; and the undecided tap-hold key, if any, is down or has its
release queued (so it is decided within its countdown).  Nothing else ever remains.  (`UInv` carries
these as `owned`, `idle`, `wok`; it holds of the fresh layout: `QU.init_uinv`.) -/
theorem union_stage1_no_state_stranded (T I B d : Nat) (ins : List C06.In) (s : Layout) (down : List Coord)
    (h : UInv T I B d s down) (s' : Layout) (down' : List Coord)
    (hrun : C06.run s down ins = some (.ok (s', down'))) :
    (∀ st ∈ s'.states, ∀ c, st.coord = some c →
      c ∈ down' ∨ (c ∈ s'.oneshot.releasedKeys ∧ s'.oneshot.keys ≠ []) ∨ ∃ x ∈ s'.queue, x.ev = .release c) ∧
    (∀ w, s'.waiting = some w → w.coord ∈ down' ∨ ∃ x ∈ s'.queue, x.ev = .release w.coord) ∧
    s'.extraWaiting = [] := by
  obtain ⟨i1, _⟩ := run_uinv ins s down h s' down' hrun
  refine ⟨fun st hst c hc => ?_, fun w hw => (i1.wok w hw).2, i1.extra⟩
  rcases i1.owned st hst c hc with g | g | g
  · exact Or.inl g
  · refine Or.inr (Or.inl ⟨g, fun hk => ?_⟩)
    rw [(i1.idle hk).1] at g; cases g
  · exact Or.inr (Or.inr g)

/-- **quiesce_union_stage1** (full on the fragment).
Configurations of stage 1 (see above) with every hold timeout `≤ T`, every tap-hold interval `≤ I`,
every one-shot timeout `≤ B` (`Quiesce.maxHoldTimeout`, `maxTapInterval`, `maxOneShot` of the
configuration are such bounds), rapid-event delay `d`, that are well-formed (`NCF.RangeU`: layer targets
exist, no transparent item in the defsrc row) and within the model's recursion budget (`NCF.FuelU`).
From any state the layout can reach with no key physically down (`UInv T I B d s0 []` and `StartU s0`
hold of the fresh layout and are kept by every history), after EVERY history of presses, releases and
ticks that leaves no key physically down (an event never arrives while 32 are pending),
    `N ≥ (T + 2d + I + B + 4) · (events still queued) + T + 2d + I + B + 2`
ticks without input run WITHOUT A CRASH and leave the layout at rest: no key, layer or other state, an
empty queue, no tap-hold key undecided, no one-shot key active, no input pause, no quick-tap window
open, no sequence, nothing in the action queue — for this and every larger `N`, so nothing is emitted
later either.  By `at_rest_released_and_idle` kanata then releases everything at the OS and reports idle.
The bound follows the code: while a tap-hold key is undecided nothing is taken from the queue, and with
its release queued it is decided within its countdown (`≤ T`); a hold or tap decision, and the first
key after a one-shot key, pause input for `d` ticks; a queued press may be a further tap-hold key
(countdown `T`, quick-tap window `I`) or a further one-shot key (countdown `B`), and a 17th one-shot key
queues the release of the oldest.  Throughout, the one-shot countdown keeps running, so that the
releases it defers are applied at the latest `B + 1` ticks after the last activation. -/
theorem quiesce_union_stage1 (s0 : Layout) (T I B d : Nat) (h0 : UInv T I B d s0 []) (hr : NCF.RangeU s0.cfg)
    (hf : NCF.FuelU s0.cfg) (hs : NCF.StartU s0) (ins : List C06.In) (hP : PressesOK s0.cfg ins) (s1 : Layout)
    (hrun : C06.run s0 [] ins = some (.ok (s1, [])))
    (N : Nat) (hN : (T + 2 * d + I + B + 4) * s1.queue.length + T + 2 * d + I + B + 2 ≤ N) :
    ∃ s2, C06.run s1 [] (List.replicate N .tick) = some (.ok (s2, [])) ∧ LayoutAtRest s2 := by
  have hC := NCF.cfgOK_of_range hr
  obtain ⟨i1, _⟩ := run_uinv ins s0 [] h0 s1 [] hrun
  have hN1 : NCF.NC s0.cfg s1 := by
    rcases run_total_U hC hf ins s0 [] hs.nc hP with hn | ⟨s', hr', hn'⟩
    · rw [hn] at hrun; cases hrun
    · rw [hr'] at hrun
      injection hrun with hrun; injection hrun with hrun; injection hrun with hrun
      exact hrun ▸ hn'
  obtain ⟨s2, hq⟩ := quiet_total_U hC hf N s1 hN1
  obtain ⟨_, i2, p2⟩ := quiet_ticks_U N s1 i1 s2 [] hq
  have hp := uPot_le i1
  have hW : pressW T I B d + 2 = T + 2 * d + I + B + 4 := rfl
  rw [hW] at hp
  exact ⟨s2, hq, i2.atRest (by omega)⟩

/-- the closed-form bound of `quiesce_union_stage1_fresh`: with `T` the largest hold timeout, `I` the
largest tap-hold interval, `B` the largest one-shot timeout of the configuration and `d` the
rapid-event delay: `32 (T + 2d + I + B + 4) + T + 2d + I + B + 2` -/
def boundStage1 (cfg : LCfg) (d : Nat) : Nat :=
  (maxHoldTimeout cfg + 2 * d + maxTapInterval cfg + maxOneShot cfg + 4) * QUEUE_SIZE +
    maxHoldTimeout cfg + 2 * d + maxTapInterval cfg + maxOneShot cfg + 2

/-- **quiesce_union_stage1_fresh**: the same from start-up, every hypothesis a (decidable) condition on
the configuration or on the list of inputs, the bound a function of the configuration alone.  For every
configuration of stage 1 that is well-formed and within the recursion budget, every history from the
freshly created layout whose presses lie inside the layer tables, in which every pressed key is
released again (`downs [] ins = []`) and no event arrives while 32 are pending (`run … ≠ none`): the
history runs without a crash, and `N ≥ boundStage1 cfg d` further ticks run without a crash and leave
the layout at rest. -/
theorem quiesce_union_stage1_fresh (cfg : LCfg) (hc : Cfg1 cfg) (hr : NCF.RangeU cfg) (hf : NCF.FuelU cfg)
    (tv2 dfl qth : Bool) (d : Nat) (ins : List C06.In) (hP : PressesOK cfg ins) (hbal : downs [] ins = [])
    (hroom : C06.run { cfg := cfg, transV2 := tv2, delegateToFirstLayer := dfl, quickTapHoldTimeout := qth,
                       oneshot := { pauseInputProcessingDelay := d } } [] ins ≠ none)
    (N : Nat) (hN : boundStage1 cfg d ≤ N) :
    ∃ s1 s2, C06.run { cfg := cfg, transV2 := tv2, delegateToFirstLayer := dfl, quickTapHoldTimeout := qth,
                       oneshot := { pauseInputProcessingDelay := d } } [] ins = some (.ok (s1, [])) ∧
      C06.run s1 [] (List.replicate N .tick) = some (.ok (s2, [])) ∧ LayoutAtRest s2 := by
  have h0 := init_uinv cfg hc _ _ _ ⟨hBound_max cfg, oshBound_max cfg⟩ tv2 dfl qth d
  have hs := NCF.startU_init cfg hr.unpack.pos tv2 dfl qth d
  rcases run_total_U (NCF.cfgOK_of_range hr) hf ins _ [] hs.nc hP with hn | ⟨s1, hr1, _⟩
  · exact absurd hn hroom
  · rw [hbal] at hr1
    obtain ⟨i1, _⟩ := run_uinv ins _ [] h0 s1 [] hr1
    obtain ⟨s2, r2, a2⟩ := quiesce_union_stage1 _ _ _ _ d h0 hr hf hs ins hP s1 hr1 N (by
      have := i1.qlen
      have h2 : (maxHoldTimeout cfg + 2 * d + maxTapInterval cfg + maxOneShot cfg + 4) * s1.queue.length ≤
          (maxHoldTimeout cfg + 2 * d + maxTapInterval cfg + maxOneShot cfg + 4) * QUEUE_SIZE := Nat.mul_le_mul_left _ this
      unfold boundStage1 at hN
      omega)
    exact ⟨s1, s2, hr1, r2, a2⟩

/-! ### Non-vacuity: home-row mods next to a one-shot shift and a one-shot layer -/

/-- `a`: tap a / hold LShift (default variant, 200 ticks, tap-hold interval 150); `s`: tap s / hold
layer 1 (release variant, 200 ticks); a one-shot RShift (press variant, 500 ticks); a one-shot layer 1
(release-or-repress variant, 300 ticks); two plain keys, one remapped on layer 1, and an output chord -/
def hrmCfg : LCfg :=
  { layers := [
      [((0, 30), .holdTap 200 (.keyCode 42) (.keyCode 30) (.keyCode 42) .default 150),
       ((0, 31), .holdTap 200 (.layer 1) (.keyCode 31) (.layer 1) .permissiveHold 0),
       ((0, 57), .oneShot (.keyCode 54) 500 .firstPress),
       ((0, 58), .oneShot (.layer 1) 300 .firstReleaseOrRepress),
       ((0, 32), .keyCode 32), ((0, 18), .multipleKeyCodes [29, 18])],
      [((0, 32), .keyCode 45)]],
    srcKeys := [(30, .keyCode 30), (31, .keyCode 31), (57, .keyCode 57), (58, .keyCode 58), (32, .keyCode 32),
                (18, .keyCode 18)] }

/-- the one-shot shift tapped, then the home-row mod `a` pressed and held while `d` is tapped (the
one-shot shift is still active when `a` is decided); the one-shot layer pressed, the layer-tap `s`
tapped inside it; then `a` tapped twice quickly, the chord key and everything released in a burst -/
def hrmHist : List C06.In :=
  [.ev (.press (0, 57)), .tick, .ev (.release (0, 57)), .tick, .ev (.press (0, 30)), .tick, .ev (.press (0, 32)),
   .tick, .ev (.release (0, 32)), .tick, .tick, .ev (.press (0, 58)), .tick, .ev (.press (0, 31)),
   .ev (.release (0, 31)), .tick, .ev (.release (0, 30)), .ev (.press (0, 30)), .ev (.release (0, 30)),
   .ev (.press (0, 30)), .ev (.press (0, 18)), .ev (.release (0, 58)), .ev (.release (0, 18)),
   .ev (.release (0, 30))]

theorem hrmCfg_frag : Cfg1 hrmCfg := by
  refine ⟨?_, ?_⟩
  · intro tbl ht e he
    simp only [hrmCfg, List.mem_cons, List.mem_nil_iff, or_false] at ht
    rcases ht with rfl | rfl
    · simp only [List.mem_cons, List.mem_nil_iff, or_false] at he
      rcases he with rfl | rfl | rfl | rfl | rfl | rfl <;> simp [Frag1, C06.Simple]
    · simp only [List.mem_cons, List.mem_nil_iff, or_false] at he
      subst he; simp [Frag1]
  · intro e he
    simp only [hrmCfg, List.mem_cons, List.mem_nil_iff, or_false] at he
    rcases he with rfl | rfl | rfl | rfl | rfl | rfl <;> simp [Frag1]

example : NCF.RangeU hrmCfg := by decide
example : NCF.FuelU hrmCfg := by decide +kernel

/-- the history is balanced, and it really mixes the features: while it runs, a tap-hold key is
undecided with a one-shot key active (evaluated) -/
example : downs [] hrmHist = [] ∧
    (match C06.run { cfg := hrmCfg, oneshot := { pauseInputProcessingDelay := 5 } } [] (hrmHist.take 6) with
      | some (.ok (s, _)) => some (s.waiting.isSome, s.oneshot.keys.length)
      | _ => none) = some (true, 1) := by
  refine ⟨by decide, by decide +kernel⟩

/-- the hypotheses of `quiesce_union_stage1_fresh` hold of this configuration and history, with
rapid-event delay 5: `T` = 200, `I` = 150, `B` = 500, so 32 · 864 + 862 = 28510 quiet ticks leave the
layout at rest -/
example : ∃ s1 s2, C06.run { cfg := hrmCfg, oneshot := { pauseInputProcessingDelay := 5 } } [] hrmHist
      = some (.ok (s1, [])) ∧
    C06.run s1 [] (List.replicate 28510 .tick) = some (.ok (s2, [])) ∧ LayoutAtRest s2 := by
  have hP : PressesOK hrmCfg hrmHist := by
    intro c hc
    simp only [hrmHist, List.mem_cons, List.mem_nil_iff, or_false, C06.In.ev.injEq, Ev.press.injEq,
      reduceCtorEq, false_or, or_false] at hc
    rcases hc with rfl | rfl | rfl | rfl | rfl | rfl | rfl | rfl <;> exact ⟨by decide, by decide⟩
  have hbal : downs [] hrmHist = [] := by decide
  have hT : maxHoldTimeout hrmCfg = 200 := by
    simp [maxHoldTimeout, listMax, hrmCfg, htT]
  have hI : maxTapInterval hrmCfg = 150 := by
    simp [maxTapInterval, listMax, hrmCfg, htI]
  have hB : maxOneShot hrmCfg = 500 := by
    simp [maxOneShot, listMax, hrmCfg, oshT]
  have hroom : C06.run { cfg := hrmCfg, oneshot := { pauseInputProcessingDelay := 5 } } [] hrmHist ≠ none := by
    have : (C06.run { cfg := hrmCfg, oneshot := { pauseInputProcessingDelay := 5 } } [] hrmHist).isSome = true := by
      decide +kernel
    intro h0
    rw [h0] at this
    cases this
  exact quiesce_union_stage1_fresh hrmCfg hrmCfg_frag (by decide) (by decide +kernel) true false false 5 hrmHist hP hbal
    hroom 28510 (by unfold boundStage1; rw [hT, hI, hB]; decide)


/-! ### Stage 3: nesting - the layered fragment, custom actions, one-shot keys and tap-hold keys together -/

open KVerif.QU3 in
/-- **union_stage3_no_state_stranded** (full on the fragment).  Configurations of stage 3 (`QU3.Cfg3`,
decidable form `QU3.Shape3`): the layered fragment of C04 — keys, output chords, `multi` and
`fork` nested to any depth, no-op, transparent, use-defsrc, layer-while-held, layer-switch,
release-key / release-layer — CUSTOM actions (what mouse, virtual-key, unmod, cmd ... actions compile to;
a released custom state reports its release as the custom event of the tick), `CancelSequences` and
`one-shot-pause-processing` — i.e. every action of the union fragment of C02 except macros — together
with tap-hold keys of all five variants ANYWHERE in that nesting
(at most one per press, which kanata's parser enforces for `multi`) and one-shot keys of all four
variants at layer positions and in the branches of `fork`s there (not inside `multi`: see
`quiesce_union_counterexample`; for the same reason transparent and use-defsrc items, which may resolve
to a one-shot key, are admitted at layer positions and in `fork` branches there, not inside `multi`).  For EVERY history in which an event never arrives while 32 are
pending, after every step: every key or layer state belongs to a coordinate that is physically down,
or whose release is deferred by an active one-shot key, or whose release is queued; the undecided
tap-hold key is down or has its release queued; `extra_waiting` is never used.  (Every state is a plain
key, a held layer or a custom action, so each has a coordinate.) -/
theorem union_stage3_no_state_stranded (T I B d : Nat) (ins : List C06.In) (s : Layout) (down : List Coord)
    (h : UInv3 T I B d s down) (s' : Layout) (down' : List Coord)
    (hrun : C06.run s down ins = some (.ok (s', down'))) :
    (∀ st ∈ s'.states, ∀ c, st.coord = some c →
      c ∈ down' ∨ (c ∈ s'.oneshot.releasedKeys ∧ s'.oneshot.keys ≠ []) ∨ ∃ x ∈ s'.queue, x.ev = .release c) ∧
    (∀ w, s'.waiting = some w → w.coord ∈ down' ∨ ∃ x ∈ s'.queue, x.ev = .release w.coord) ∧
    s'.extraWaiting = [] := by
  obtain ⟨i1, _⟩ := run_uinv3 ins s down h s' down' hrun
  refine ⟨fun st hst c hc => ?_, fun w hw => (i1.wok w hw).2, i1.extra⟩
  rcases i1.owned st hst c hc with g | g | g
  · exact Or.inl g
  · refine Or.inr (Or.inl ⟨g, fun hk => ?_⟩)
    rw [(i1.idle hk).1] at g; cases g
  · exact Or.inr (Or.inr g)

open KVerif.QU3 in
/-- **quiesce_union_stage3** (full on the fragment).  Configurations of stage 3 (see above) with every
hold timeout `≤ T`, every tap-hold interval `≤ I`, every one-shot timeout `≤ B` at any nesting depth,
rapid-event delay `d`, well-formed (`NCF.RangeU`) and within the model's recursion budget (`NCF.FuelU`).
From any state the layout can reach with no key physically down (`UInv3 T I B d s0 []`, `StartU s0`:
both hold of the fresh layout and are kept by every history), after EVERY history of presses, releases
and ticks that leaves no key physically down (an event never arrives while 32 are pending),
    `N ≥ (T + 2d + I + B + 4) · (events still queued) + T + 2d + I + B + 2`
ticks without input run WITHOUT A CRASH and leave the layout at rest (`LayoutAtRest`: no state, nothing
queued, waiting, counting or playing) — for this and every larger `N`.  By `at_rest_released_and_idle`
kanata then releases everything at the OS and reports idle.  The bound is that of stage 1: nesting adds
states and layer changes to a press, not time. -/
theorem quiesce_union_stage3 (s0 : Layout) (T I B d : Nat) (h0 : UInv3 T I B d s0 []) (hr : NCF.RangeU s0.cfg)
    (hf : NCF.FuelU s0.cfg) (hs : NCF.StartU s0) (ins : List C06.In) (hP : PressesOK s0.cfg ins) (s1 : Layout)
    (hrun : C06.run s0 [] ins = some (.ok (s1, [])))
    (N : Nat) (hN : (T + 2 * d + I + B + 4) * s1.queue.length + T + 2 * d + I + B + 2 ≤ N) :
    ∃ s2, C06.run s1 [] (List.replicate N .tick) = some (.ok (s2, [])) ∧ LayoutAtRest s2 := by
  have hC := NCF.cfgOK_of_range hr
  obtain ⟨i1, _⟩ := run_uinv3 ins s0 [] h0 s1 [] hrun
  have hN1 : NCF.NC s0.cfg s1 := by
    rcases run_total_U hC hf ins s0 [] hs.nc hP with hn | ⟨s', hr', hn'⟩
    · rw [hn] at hrun; cases hrun
    · rw [hr'] at hrun
      injection hrun with hrun; injection hrun with hrun; injection hrun with hrun
      exact hrun ▸ hn'
  obtain ⟨s2, hq⟩ := quiet_total_U hC hf N s1 hN1
  obtain ⟨_, i2, p2⟩ := quiet_ticks_U3 N s1 i1 s2 [] hq
  have hp := uPot3_le i1
  have hW : pressW T I B d + 2 = T + 2 * d + I + B + 4 := rfl
  rw [hW] at hp
  exact ⟨s2, hq, i2.atRest (by omega)⟩

/-- the closed-form bound of `quiesce_union_stage3_fresh`: with `T` / `I` / `B` the largest hold
timeout / tap-hold interval / one-shot timeout found at any nesting depth of the configuration and `d`
the rapid-event delay: `32 (T + 2d + I + B + 4) + T + 2d + I + B + 2` -/
def boundStage3 (cfg : LCfg) (d : Nat) : Nat :=
  (QU3.cfgMax QU3.nT cfg + 2 * d + QU3.cfgMax QU3.nI cfg + QU3.cfgMax QU3.nB cfg + 4) * QUEUE_SIZE +
    QU3.cfgMax QU3.nT cfg + 2 * d + QU3.cfgMax QU3.nI cfg + QU3.cfgMax QU3.nB cfg + 2

open KVerif.QU3 in
/-- **quiesce_union_stage3_fresh**: the same from start-up, every hypothesis a decidable condition on
the configuration (`Shape3`, `RangeU`, `FuelU`) or on the list of inputs, the bound a function of the
configuration alone. -/
theorem quiesce_union_stage3_fresh (cfg : LCfg) (hc : Shape3 cfg) (hr : NCF.RangeU cfg) (hf : NCF.FuelU cfg)
    (tv2 dfl qth : Bool) (d : Nat) (ins : List C06.In) (hP : PressesOK cfg ins) (hbal : downs [] ins = [])
    (hroom : C06.run { cfg := cfg, transV2 := tv2, delegateToFirstLayer := dfl, quickTapHoldTimeout := qth,
                       oneshot := { pauseInputProcessingDelay := d } } [] ins ≠ none)
    (N : Nat) (hN : boundStage3 cfg d ≤ N) :
    ∃ s1 s2, C06.run { cfg := cfg, transV2 := tv2, delegateToFirstLayer := dfl, quickTapHoldTimeout := qth,
                       oneshot := { pauseInputProcessingDelay := d } } [] ins = some (.ok (s1, [])) ∧
      C06.run s1 [] (List.replicate N .tick) = some (.ok (s2, [])) ∧ LayoutAtRest s2 := by
  have h0 := init_uinv3 cfg _ _ _ (cfg3_max hc) tv2 dfl qth d
  have hs := NCF.startU_init cfg hr.unpack.pos tv2 dfl qth d
  rcases run_total_U (NCF.cfgOK_of_range hr) hf ins _ [] hs.nc hP with hn | ⟨s1, hr1, _⟩
  · exact absurd hn hroom
  · rw [hbal] at hr1
    obtain ⟨i1, _⟩ := run_uinv3 ins _ [] h0 s1 [] hr1
    obtain ⟨s2, r2, a2⟩ := quiesce_union_stage3 _ _ _ _ d h0 hr hf hs ins hP s1 hr1 N (by
      have := i1.qlen
      have h2 : (cfgMax nT cfg + 2 * d + cfgMax nI cfg + cfgMax nB cfg + 4) * s1.queue.length ≤
          (cfgMax nT cfg + 2 * d + cfgMax nI cfg + cfgMax nB cfg + 4) * QUEUE_SIZE := Nat.mul_le_mul_left _ this
      unfold boundStage3 at hN
      omega)
    exact ⟨s1, s2, hr1, r2, a2⟩

/-- stage 1 is part of stage 3: every configuration of `quiesce_union_stage1` meets `Cfg3` -/
theorem stage1_within_stage3 {c : LCfg} {T I B : Nat} (hc : Cfg1 c) (hb : BoundU c T I B) : QU3.Cfg3 T I B c :=
  QU3.cfg1_cfg3 hc hb

/-- non-vacuity: `a` = `(multi lctl (tap-hold 200 200 a lsft))` with a tap-hold interval; `s` = a `fork`
between a layer-tap key and a one-shot RShift; a one-shot RShift; a `fork` between a one-shot layer and
`(multi (layer-while-held 1) (release-key lctl))`; a plain key; a `multi` of an output chord and a `fork`;
a layer-switch key; a `multi` of a custom action and a key, a custom action, `one-shot-pause-processing`,
a `multi` of `CancelSequences` and a key; on layer 1 a `multi` of a key and a layer-switch, a use-defsrc
item, a layer-switch -/
def nestCfg : LCfg :=
  { layers := [
      [((0, 30), .multipleActions [.keyCode 29, .holdTap 200 (.keyCode 42) (.keyCode 30) (.keyCode 42) .default 150]),
       ((0, 31), .fork (.holdTap 200 (.layer 1) (.keyCode 31) (.layer 1) .permissiveHold 0)
                   (.oneShot (.keyCode 54) 500 .firstPress) [29]),
       ((0, 57), .oneShot (.keyCode 54) 500 .firstPress),
       ((0, 58), .fork (.oneShot (.layer 1) 300 .firstReleaseOrRepress)
                   (.multipleActions [.layer 1, .releaseState (.keyCode 29)]) [42]),
       ((0, 32), .keyCode 32),
       ((0, 18), .multipleActions [.multipleKeyCodes [29, 18], .fork (.keyCode 1) .noOp [54]]),
       ((0, 33), .defaultLayer 1), ((0, 34), .multipleActions [.custom 7, .keyCode 34]), ((0, 35), .custom 8),
       ((0, 36), .oneShotIgnoreEventsTicks 5), ((0, 37), .multipleActions [.cancelSequences, .keyCode 37])],
      [((0, 32), .multipleActions [.keyCode 45, .defaultLayer 0]), ((0, 30), .src), ((0, 33), .defaultLayer 0)]],
    srcKeys := [(30, .keyCode 30), (31, .keyCode 31), (57, .keyCode 57), (58, .keyCode 58), (32, .keyCode 32),
                (18, .keyCode 18), (33, .keyCode 33), (34, .keyCode 34), (35, .keyCode 35), (36, .keyCode 36),
                (37, .keyCode 37)] }

/-- the one-shot shift tapped, `a` pressed and held while `d` is tapped; the one-shot layer pressed, `s`
tapped inside it; the layer-switch key tapped; then `a` tapped twice quickly, the chord key and
everything released in a burst -/
def nestHist : List C06.In :=
  [.ev (.press (0, 57)), .tick, .ev (.release (0, 57)), .tick, .ev (.press (0, 30)), .tick, .ev (.press (0, 32)),
   .tick, .ev (.release (0, 32)), .tick, .tick, .ev (.press (0, 58)), .tick, .ev (.press (0, 31)),
   .ev (.release (0, 31)), .tick, .ev (.press (0, 33)), .tick, .ev (.release (0, 33)), .tick,
   .ev (.press (0, 34)), .ev (.press (0, 35)), .tick, .tick, .ev (.release (0, 35)),
   .ev (.press (0, 36)), .ev (.release (0, 36)), .ev (.press (0, 37)), .tick, .ev (.release (0, 37)),
   .ev (.release (0, 30)), .ev (.press (0, 30)), .ev (.release (0, 30)),
   .ev (.press (0, 30)), .ev (.press (0, 18)), .ev (.release (0, 58)), .ev (.release (0, 18)),
   .ev (.release (0, 30)), .ev (.release (0, 34))]

example : QU3.Shape3 nestCfg := by decide
example : NCF.RangeU nestCfg := by decide
example : NCF.FuelU nestCfg := by decide +kernel

/-- the hypotheses of `quiesce_union_stage3_fresh` hold of this configuration and history, with
rapid-event delay 5: `T` = 200, `I` = 150, `B` = 500, so 32 · 864 + 862 = 28510 quiet ticks leave the
layout at rest -/
example : ∃ s1 s2, C06.run { cfg := nestCfg, oneshot := { pauseInputProcessingDelay := 5 } } [] nestHist
      = some (.ok (s1, [])) ∧
    C06.run s1 [] (List.replicate 28510 .tick) = some (.ok (s2, [])) ∧ LayoutAtRest s2 := by
  have hP : PressesOK nestCfg nestHist := by
    intro c hc
    simp only [nestHist, List.mem_cons, List.mem_nil_iff, or_false, C06.In.ev.injEq, Ev.press.injEq,
      reduceCtorEq, false_or, or_false] at hc
    rcases hc with rfl | rfl | rfl | rfl | rfl | rfl | rfl | rfl | rfl | rfl | rfl | rfl | rfl <;> exact ⟨by decide, by decide⟩
  have hbal : downs [] nestHist = [] := by decide
  have hb : boundStage3 nestCfg 5 = 28510 := by decide +kernel
  have hroom : C06.run { cfg := nestCfg, oneshot := { pauseInputProcessingDelay := 5 } } [] nestHist ≠ none := by
    have : (C06.run { cfg := nestCfg, oneshot := { pauseInputProcessingDelay := 5 } } [] nestHist).isSome = true := by
      decide +kernel
    intro h0
    rw [h0] at this
    cases this
  exact quiesce_union_stage3_fresh nestCfg (by decide) (by decide) (by decide +kernel) true false false 5 nestHist hP hbal
    hroom 28510 (by rw [hb]; exact Nat.le_refl _)

/-! ### The full union: the statement is FALSE on the model (and on the real code) -/

/-- sixteen one-shot keys (columns 1-16, timeout 100), thirty plain keys (columns 30-59) and, in column
20, `(multi (one-shot 100 lctl) (one-shot 100 lalt) (tap-hold-except-keys 20 20 u lmet (f12)))` -
an action of the union fragment of C02 (`NCF.UAct`) -/
def cxCfg : LCfg :=
  { layers := [
      ((List.range 16).map fun i => ((0, 1 + i), Action.oneShot (.keyCode (100 + i)) 100 .firstPress)) ++
      [((0, 20), .multipleActions [.oneShot (.keyCode 120) 100 .firstPress, .oneShot (.keyCode 121) 100 .firstPress,
          .holdTap 20 (.keyCode 42) (.keyCode 20) (.keyCode 42) (.customExcept [99]) 0])] ++
      ((List.range 30).map fun i => ((0, 30 + i), Action.keyCode (30 + i)))],
    srcKeys := [] }

/-- the thirty plain keys pressed one after the other and held; the sixteen one-shot keys tapped one
after the other (all sixteen active); then, without a tick in between: the key of column 20 pressed
and released and the thirty plain keys released (32 events: the last one arrives while 31 are
pending, so the queue never overflows on input) -/
def cxHist : List C06.In :=
  ((List.range 30).flatMap fun i => [.ev (.press (0, 30 + i)), .tick]) ++
  ((List.range 16).flatMap fun i => [.ev (.press (0, 1 + i)), .tick, .ev (.release (0, 1 + i)), .tick]) ++
  [.ev (.press (0, 20)), .ev (.release (0, 20))] ++ ((List.range 30).map fun i => .ev (.release (0, 30 + i)))

/-- **quiesce_union_counterexample**: on the WHOLE union fragment of C02 (`NCF.UAct`, any nesting) the
quiescence statement is FALSE, although no event ever arrives while 32 are pending.
`cxCfg` is well-formed and within the recursion budget; `cxHist` is balanced (every pressed key is
released) and never meets a full queue (`run … = some …`); yet 110 quiet ticks later (all one-shot
countdowns are over) the layout is in a state `s0` in which the tap-hold key is undecided, 32 events
are queued and thirty keys are held for the OS with no key physically down - and after ANY further
number `N` of quiet ticks (no crash) it is still so: still undecided, still 32 events queued, the same
key states.  It stays so until the next key is pressed.
Mechanism: the press of column 20 is taken from the queue with its release next in line; the first
one-shot action is the 17th active one-shot key, so the oldest is pushed out and its release is fed
back through `Layout::event` (32 pending again); the second one-shot action does the same, which
overflows the queue INSIDE `do_action`: `event` processes the oldest queued event at once - the
release of column 20 itself, which (column 20 being an active one-shot key by now) is deferred; only
then does the `multi` reach its tap-hold member and open a waiting state for a key whose release has
already been consumed.  `tap-hold-except-keys` never times out while no press is queued
(`custom_tap_hold_except` answers "skip timeout" on a queue without presses: `QU.handleHoldTap_stuck`),
so the waiting state stays for good (`QU.stuck_forever`) and blocks the 32 queued releases behind it.
REPRODUCED ON THE REAL CODE (keyberon `Layout` built by the real parser, `kvharness eval LALL`; model
and real code agree on the state digest):
`(defsrc 1 2 3 4 5 6 7 8 9 0 q w e r t y u i o p a s d f g h j k l z x c v b n m f1 … f11)`
`(deflayer l0 (one-shot 100 lsft) ×16 (multi (one-shot 100 lctl) (one-shot 100 lalt)
(tap-hold-except-keys 20 20 u lmet (f12))) i o p … f11)`; hold the thirty plain keys, tap the sixteen
one-shot keys, then press and release `u` and release the thirty keys within one millisecond: after
5000 ms the layout still has `waiting` set, 32 queued releases and thirty `NormalKey` states.
The positive theorems of this file therefore keep one-shot keys out of `multi` (at most one one-shot
action per press: the re-entered `event` always finds room). -/
theorem quiesce_union_counterexample :
    NCF.RangeU cxCfg ∧ NCF.FuelU cxCfg ∧ downs [] cxHist = [] ∧
    ∃ s0, C06.run { cfg := cxCfg } [] (cxHist ++ List.replicate 110 .tick) = some (.ok (s0, [])) ∧
      s0.keycodes.length = 30 ∧ s0.oneshot.keys = [] ∧
      ∀ N, ∃ s, C06.run s0 [] (List.replicate N .tick) = some (.ok (s, [])) ∧
        s.waiting.isSome = true ∧ s.queue.length = 32 ∧ s.states = s0.states ∧ ¬ LayoutAtRest s := by
  refine ⟨by decide, by decide +kernel, by decide +kernel, ?_⟩
  have hev : (match C06.run { cfg := cxCfg } [] (cxHist ++ List.replicate 110 .tick) with
      | some (.ok (s, down)) => stuckB s && decide (down = []) && decide (s.keycodes.length = 30) &&
          decide (s.queue.length = 32)
      | _ => false) = true := by decide +kernel
  cases hr : C06.run { cfg := cxCfg } [] (cxHist ++ List.replicate 110 .tick) with
  | none => rw [hr] at hev; cases hev
  | some r =>
    cases r with
    | error c => rw [hr] at hev; cases hev
    | ok p =>
      obtain ⟨s0, down⟩ := p
      rw [hr] at hev
      simp only [Bool.and_eq_true, decide_eq_true_eq] at hev
      obtain ⟨⟨⟨h1, h2⟩, h3⟩, h4⟩ := hev
      subst h2
      refine ⟨s0, rfl, h3, ?_, fun N => ?_⟩
      · unfold stuckB at h1
        simp only [Bool.and_eq_true, List.isEmpty_iff] at h1
        exact h1.1.2
      · obtain ⟨s, e1, e2, e3, e4⟩ := stuck_forever N s0 h1
        refine ⟨s, e1, stuckB_waiting e2, e4.trans h4, e3, fun hrest => ?_⟩
        have := stuckB_waiting e2
        rw [hrest.waiting] at this
        cases this

/-- as `cxCfg`, with an ordinary tap-hold key in the `multi`:
`(multi (one-shot 100 lctl) (one-shot 100 lalt) (tap-hold 120 120 u lmet))` (hold action: key 42 here) -/
def cxCfg2 : LCfg :=
  { layers := [
      ((List.range 16).map fun i => ((0, 1 + i), Action.oneShot (.keyCode (100 + i)) 100 .firstPress)) ++
      [((0, 20), .multipleActions [.oneShot (.keyCode 120) 100 .firstPress, .oneShot (.keyCode 121) 100 .firstPress,
          .holdTap 120 (.keyCode 42) (.keyCode 20) (.keyCode 42) .default 0])] ++
      ((List.range 30).map fun i => ((0, 30 + i), Action.keyCode (30 + i)))],
    srcKeys := [] }

/-- **quiesce_union_stuck_modifier_counterexample**: the same mechanism with an ORDINARY tap-hold key
strands a key state for good while everything else comes to rest - the stuck-modifier-while-idle outcome.
After the history `cxHist` (balanced, never a full queue on input) and 160 quiet ticks the layout is
quiet in the sense of C07 (`QuietLayout`: nothing queued, waiting, counting or playing - all that
`is_idle` looks at), no key is physically down, and the hold action's key (42) is still held for the
OS; any number of further quiet ticks (no crash) changes nothing: `LayoutAtRest` is never reached.
What happens: the release of column 20 is consumed (deferred by the one-shot state) by the overflow
path inside `do_action` before the tap-hold waiting state exists; the one-shot countdown (100) ends
and applies the deferred release while the key is still undecided; at its timeout (120) the tap-hold
key takes its hold action - a key state at a coordinate whose release has already been processed.
REPRODUCED ON THE REAL CODE at kanata level (`kvharness eval C01`, real `Kanata` with the simulated
output): with `(tap-hold 120 120 u lmet)` in the configuration of `quiesce_union_counterexample`, 5000 ms
after the same history kanata reports `idle=1` while `NormalKey LMeta` is still in `states`: LeftMeta
was pressed at the OS and is never released. -/
theorem quiesce_union_stuck_modifier_counterexample :
    NCF.RangeU cxCfg2 ∧ NCF.FuelU cxCfg2 ∧ downs [] cxHist = [] ∧
    ∃ s0, C06.run { cfg := cxCfg2 } [] (cxHist ++ List.replicate 160 .tick) = some (.ok (s0, [])) ∧
      s0.keycodes = [42] ∧ C07.QuietLayout s0 ∧
      ∀ N, ∃ s, C06.run s0 [] (List.replicate N .tick) = some (.ok (s, [])) ∧
        s.keycodes = [42] ∧ C07.QuietLayout s ∧ ¬ LayoutAtRest s := by
  refine ⟨by decide, by decide +kernel, by decide +kernel, ?_⟩
  have hev : (match C06.run { cfg := cxCfg2 } [] (cxHist ++ List.replicate 160 .tick) with
      | some (.ok (s, down)) => quietB s && decide (down = []) && decide (s.keycodes = [42])
      | _ => false) = true := by decide +kernel
  cases hr : C06.run { cfg := cxCfg2 } [] (cxHist ++ List.replicate 160 .tick) with
  | none => rw [hr] at hev; cases hev
  | some r =>
    cases r with
    | error c => rw [hr] at hev; cases hev
    | ok p =>
      obtain ⟨s0, down⟩ := p
      rw [hr] at hev
      simp only [Bool.and_eq_true, decide_eq_true_eq] at hev
      obtain ⟨⟨h1, h2⟩, h3⟩ := hev
      subst h2
      refine ⟨s0, rfl, h3, quietB_quiet h1, fun N => ?_⟩
      obtain ⟨s, e1, e2, e3⟩ := quiet_forever N s0 (quietB_quiet h1)
      have hk : s.keycodes = [42] := by
        unfold Layout.keycodes at h3 ⊢
        rw [e2]; exact h3
      refine ⟨s, e1, hk, e3, fun hrest => ?_⟩
      have : s.keycodes = [] := by simp [Layout.keycodes, hrest.states]
      rw [hk] at this
      cases this

end KVerif.C01
