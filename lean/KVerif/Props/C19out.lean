/-
C19, last clause ("... so it produces the same output as typing them again"), OS-output side, in the
composed kanata-level model.  Staged; what is proved and what is still missing:

(a) `tick_os_exact` (full): with the other kanata-level components at rest (`C07.KRest`, any layout)
    one `tick_states` writes EXACTLY the key diff `osDiff k prev cur` between the OS key state before
    (`prev_keys`) and the layout's key-code list after the tick - releases of what is no longer
    wanted, then presses of what is new, duplicates once, through the output tables (ignored range,
    mouse-button and wheel key codes) - and leaves `cur` as the OS key state.  This is the exact form
    of the existential `C07.handleKeystateChanges_rest`.
(b) `run_os_is_function_of_key_lists` (full): the OS events of a whole run (`handle_input_event`,
    `tick_states`, any order) are `osTrace` of the sequence of key-code lists the layout shows after
    the ticks (`C04.runM`, the object `C04.layered_refines` speaks about).
(d) `same_key_lists_same_os_output` (full, conditional on (c)): two runs whose key-list sequences
    agree after dropping repeated lists (`dedupAdj`) write the same OS events - tick numbers and the
    number of idle ticks in between do not matter.
NOT proved - `replay_same_os_output_kan` itself needs two more links:
(b') the replay run (`tick_ms` with `tick_replay_state` feeding `layout.event` and the `extra_ticks`
    loop) as a `C04.In` list whose events are `dyn.fed` (known: `C19kan.replay_feeds_layout_what_was_typed_kan`)
    with at least one tick after each; `runK` here has no constructor for the replay's `layout.event`
    call; `K.ticksMs_spec` already carries the frame induction through both loops.
(c) on `C04.CfgFrag`, by `C04.layered_refines`, the key-list sequence of a run in which every event
    is followed by a tick before the next one depends, after `dedupAdj`, only on the order of the
    events (`Spec.Layered.step` with nothing pending is the identity, `C04.fifo_one_per_tick`): not
    written down as a lemma yet.
With (b') and (c), (d) gives the statement.  Until then the clause stays checked differentially (C19 K
cases, and every KAN case: OS events per tick of model and real code).
-/
import KVerif.Lemmas.KanataDynOutRun
import KVerif.Props.C19kan
namespace KVerif.C19out
open KVerif KVerif.K KVerif.L

/-- **(a) tick_os_exact** -/
theorem tick_os_exact (k k' : KState) (hr : C07.KRest k) (h : tickStates k = .ok k') :
    ∃ l', tick k.layout = .ok (l', .noEvent) ∧ k'.layout = l' ∧
      k'.out = k.out ++ osDiff k k.prevKeys l'.keycodes ∧ k'.prevKeys = l'.keycodes ∧ C07.KRest k' := by
  obtain ⟨l', hl, e1, e2, e3⟩ := C07.tickStates_rest k k' hr h
  have hk : k' = C07.afterTick k l' := by
    have := C07.tickStates_rest_ok k hr l' hl
    rw [h] at this; injection this
  refine ⟨l', hl, e1, ?_, e2, e3⟩
  rw [hk]; exact (afterTick_out k l').1

/-- **(b) run_os_is_function_of_key_lists** -/
theorem run_os_is_function_of_key_lists (ins : List KIn) (k k' : KState) (hr : C07.KRest k)
    (h : runK k ins = .ok k') :
    ∃ trace, C04.runM k.layout (ins.map KIn.toIn) = .ok trace ∧
      k'.out = k.out ++ osTrace k k.prevKeys trace :=
  let ⟨t, a, b, _, _⟩ := runK_out ins k k' hr h
  ⟨t, a, b⟩

/-- **(d) same_key_lists_same_os_output**: two runs (e.g. typing a history, and anything that makes
the layout go through the same key lists in the same order, however many ticks apart) from states
with the same output tables and the same OS key state write the same OS events. -/
theorem same_key_lists_same_os_output (ins1 ins2 : List KIn) (k1 k1' k2 k2' : KState)
    (hr1 : C07.KRest k1) (hr2 : C07.KRest k2) (ht : SameTables k1 k2) (hp : k1.prevKeys = k2.prevKeys)
    (h1 : runK k1 ins1 = .ok k1') (h2 : runK k2 ins2 = .ok k2')
    (hsame : ∀ t1 t2, C04.runM k1.layout (ins1.map KIn.toIn) = .ok t1 →
      C04.runM k2.layout (ins2.map KIn.toIn) = .ok t2 → dedupAdj k1.prevKeys t1 = dedupAdj k1.prevKeys t2) :
    ∃ o, k1'.out = k1.out ++ o ∧ k2'.out = k2.out ++ o := by
  obtain ⟨t1, a1, b1⟩ := run_os_is_function_of_key_lists ins1 k1 k1' hr1 h1
  obtain ⟨t2, a2, b2⟩ := run_os_is_function_of_key_lists ins2 k2 k2' hr2 h2
  refine ⟨osTrace k1 k1.prevKeys t1, b1, ?_⟩
  rw [b2, ← hp, ← osTrace_congr ht, ← osTrace_dedup k1 t1, ← osTrace_dedup k1 t2, hsame t1 t2 a1 a2]

/-! ### non-vacuity -/

def tables : KState :=
  { layout := { cfg := { layers := [[]], srcKeys := [] } }, customs := [], keyOutputs := [[]],
    mods := { codes := [42, 54, 56, 100, 29, 97, 125, 126], lsft := 42, rsft := 54 },
    btnCodes := [(272, 0)], wheelCodes := [(747, 0)] }

example : C07.KRest tables := ⟨rfl, rfl, rfl, rfl, rfl, rfl, rfl, rfl, rfl, rfl, rfl, rfl, rfl, rfl, rfl, rfl⟩

/-- the diff: `a` (30) stays, `b` (48) goes, `c` (46) comes once although listed twice, the mouse
button code becomes a button event, the wheel code a scroll -/
example : osDiff tables [30, 48] [30, 46, 46, 272, 747] = [.up 48, .down 46, .btnDown 0, .scroll 0 120] := by decide

/-- repeated key lists add nothing; the tick count between changes does not matter -/
example : osTrace tables [] [[30], [30], [30, 48], [48], [48], []] = osTrace tables [] [[30], [30, 48], [48], []] ∧
    osTrace tables [] [[30], [30, 48], [48], []] = [.down 30, .down 48, .up 30, .up 48] := by decide

end KVerif.C19out
