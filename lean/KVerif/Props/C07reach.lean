/-
C07 — idle blocking is unobservable: the hypotheses of `block_silent` HOLD in reachable states.

`Props/C07.lean` proves `block_silent` / `block_silent_forever`: from a state satisfying `MayBlock`
(idle, nothing waiting for idleness, PLUS what `is_idle` does not check: no sequence-driven state,
OS key state equal to the wanted key list, no override erasing keys, `cur_keys` empty) any number of
whole `tick_states` is silent.  Here: in every state the kanata-level machine REACHES — by any
history of `handle_input_event` (press, release, repeat, tap), `tick_states` and evaluations of
`can_block_update_idle_waiting`, in any order and number — on configurations without custom actions
and overrides, `is_idle` ALONE implies `MayBlock`; hence whenever the decision function answers
"block", sleeping instead of ticking is unobservable.

Full statement (not proved as one theorem, and false for configurations with custom actions, see
`mayblock_fails_macro_release_cancel_counterexample`): for every accepted configuration, every
reachable state in which `can_block_update_idle_waiting` answers true satisfies `MayBlock`.
Proved:
* `mayblock_reachable_layered`, `block_unobservable_layered` (full on the layered fragment of C04:
  plain keys, output chords, multi, layers, default layers, release-key/layer, transparent, use-defsrc;
  no bound on queue length, held layers, history length; includes overflow of the 32-entry queue);
* `mayblock_reachable_oneshot_partial`, `mayblock_reachable_taphold_partial` (the one-shot fragment of
  C06 and the tap-hold fragment of C05/C01; partial: an input event is only delivered while fewer than
  32 are pending — the step lemmas of these fragments assume it; the overflow path, which flushes
  waiting states into their hold action, is not covered);
* `mayblock_fails_macro_release_cancel_counterexample` (the known finding, on the model).
The kanata-level part of the argument (`KRest`, `KInv`, `reach_inv` in Lemmas/BlockReach.lean) is
generic in a layout-level invariant (`LayoutInv`), so further fragments only need their own
`event` / `tick` preservation lemmas.
Property theorems only; helper lemmas are in Lemmas/BlockReach.lean.
-/
import KVerif.Lemmas.BlockReach
import KVerif.Props.C06
namespace KVerif.C07
open KVerif.L KVerif.K

/-! ## 1. the layered fragment (full) -/

/-- **mayblock_reachable_layered** (full, on the layered fragment of C04).  For every configuration
of the fragment (no custom actions: the custom-action table is empty; no overrides, no unmod /
unshift keys, nothing in motion at start: `KStart`), every start state whose layout is inert (in
particular the freshly created one, `C04.init_inert` / `freshK_start`) and every state reachable
from it by ANY history of input events (press, release, repeat, tap), ticks and evaluations of the
blocking decision — no side condition (`fun _ => true`), no bound on anything: if `is_idle`
answers true then `MayBlock` holds, with the layout's key codes as wanted list. -/
theorem mayblock_reachable_layered (k0 k : KState) (hc : C04.CfgFrag k0.layout.cfg)
    (hi : C04.Inert k0.layout) (hs : KStart k0) (hr : Reach (fun _ => true) k0 k)
    (hidle : isIdle k = true) : MayBlock k k.layout.keycodes k.overrideStates :=
  mayBlock_reachable layered_layoutInv hs ⟨hc, hi⟩ hr hidle

/-- **block_unobservable_layered** (full, on the layered fragment): from kanata at start-up, in every
reachable state in which `can_block_update_idle_waiting` answers true, the decision left the state
unchanged and ANY number of ticks run instead of sleeping emits nothing, cannot crash, keeps the
layout's states, leaves the OS key state equal to the layout's key codes and ends in a state in
which kanata may block again. -/
theorem block_unobservable_layered (cfg : LCfg) (hc : C04.CfgFrag cfg) (tv2 dfl qth : Bool) (osd : Nat)
    (ko : List (List (Nat × List Nat))) (mods : ModCodes) (k : KState)
    (hr : Reach (fun _ => true) (freshK cfg tv2 dfl qth osd ko mods) k) (ms : Nat)
    (hb : (canBlockUpdateIdleWaiting k ms).2 = true) :
    (canBlockUpdateIdleWaiting k ms).1 = k ∧
    ∀ n, ∃ k', ticksN n k = .ok k' ∧ k'.out = k.out ∧ k'.layout.states = k.layout.states ∧
      (n > 0 → k'.prevKeys = k.layout.keycodes) ∧ MayBlock k' k.layout.keycodes k.overrideStates :=
  block_unobservable layered_layoutInv (freshK_start cfg tv2 dfl qth osd ko mods)
    ⟨hc, C04.init_inert cfg tv2 dfl qth osd⟩ hr ms hb

def stdMods : ModCodes := { codes := [42, 54, 56, 100, 29, 97, 125, 126], lsft := 42, rsft := 54 }

theorem sampleCfg_frag : C04.CfgFrag C04.sampleCfg := by
  refine ⟨?_, ?_⟩
  · intro tbl ht e he
    simp only [C04.sampleCfg, List.mem_cons, List.mem_nil_iff, or_false] at ht
    rcases ht with rfl | rfl | rfl <;>
      (simp only [List.mem_cons, List.mem_nil_iff, or_false] at he
       rcases he with rfl | rfl | rfl <;> simp [C04.Frag, C04.FragL])
  · intro e he
    simp only [C04.sampleCfg, List.mem_cons, List.mem_nil_iff, or_false] at he
    rcases he with rfl | rfl | rfl <;> simp [C04.Frag]

/-- a history on the three-layer configuration of C04: Shift + layer 2 held (blocks), a remapped key
pressed and auto-repeated, the layer key released: kanata blocks with `x` (45) held -/
def layeredHist : List Step :=
  [.input (.press 48), .tick, .decide 1, .input (.press 46), .tick, .input (.rep 46),
   .input (.release 48), .tick, .tick, .decide 1]

/-- non-vacuity: the history reaches a state with a key held in which the decision is "block"; the
theorems apply to it -/
example : ∃ k, Reach (fun _ => true) (freshK C04.sampleCfg true false false 0 [[]] stdMods) k ∧
    (canBlockUpdateIdleWaiting k 1).2 = true ∧ k.prevKeys = [45] ∧
    MayBlock k k.layout.keycodes k.overrideStates ∧
    ∀ n, ∃ k', ticksN n k = .ok k' ∧ k'.out = k.out := by
  obtain ⟨k, hk, hp⟩ := exists_of_endsWith
    (r := runSteps (fun _ => true) (freshK C04.sampleCfg true false false 0 [[]] stdMods) layeredHist)
    (p := fun k => (canBlockUpdateIdleWaiting k 1).2 && decide (k.prevKeys = [45])) (by decide +kernel)
  simp only [Bool.and_eq_true, decide_eq_true_eq] at hp
  have hr := reach_of_run _ _ layeredHist _ k .init hk
  exact ⟨k, hr, hp.1, hp.2,
    mayblock_reachable_layered _ k sampleCfg_frag (C04.init_inert _ _ _ _ _) (freshK_start ..) hr
      (canBlock_true k 1 hp.1).1,
    fun n => by
      obtain ⟨k', e1, e2, _⟩ := (block_unobservable_layered _ sampleCfg_frag _ _ _ _ _ _ k hr 1 hp.1).2 n
      exact ⟨k', e1, e2⟩⟩

/-! ## 2. the one-shot and tap-hold fragments (partial: no queue overflow) -/

/-- **mayblock_reachable_oneshot_partial** (the one-shot fragment of C06: plain keys, output chords,
layer-while-held, transparent, one-shot keys of all four end variants, stacked without bound).
Full statement: as `mayblock_reachable_layered`, for every history.  Proved: for every history in
which an input event is delivered only while fewer than 32 events are pending (`hasRoom`; for a tap,
also before its release); missing: the overflow path of `Layout::event`. -/
theorem mayblock_reachable_oneshot_partial (k0 k : KState) (down : List Coord)
    (hi : C06.Inv k0.layout down) (hs : KStart k0) (hr : Reach hasRoom k0 k)
    (hidle : isIdle k = true) : MayBlock k k.layout.keycodes k.overrideStates :=
  mayBlock_reachable oneshot_layoutInv hs ⟨down, hi⟩ hr hidle

/-- from start-up, with the decision function and the silent ticks -/
theorem block_unobservable_oneshot_partial (cfg : LCfg) (hc : C06.CfgFrag cfg) (tv2 dfl qth : Bool) (osd : Nat)
    (ko : List (List (Nat × List Nat))) (mods : ModCodes) (k : KState)
    (hr : Reach hasRoom (freshK cfg tv2 dfl qth osd ko mods) k) (ms : Nat)
    (hb : (canBlockUpdateIdleWaiting k ms).2 = true) :
    (canBlockUpdateIdleWaiting k ms).1 = k ∧
    ∀ n, ∃ k', ticksN n k = .ok k' ∧ k'.out = k.out ∧ k'.layout.states = k.layout.states ∧
      (n > 0 → k'.prevKeys = k.layout.keycodes) ∧ MayBlock k' k.layout.keycodes k.overrideStates :=
  block_unobservable oneshot_layoutInv (freshK_start cfg tv2 dfl qth osd ko mods)
    ⟨[], C06.init_inv cfg hc tv2 dfl qth osd⟩ hr ms hb

/-- a one-shot Shift (press variant, 5 ticks) and two plain keys; rapid-event delay 2 -/
def oshCfg : LCfg :=
  { layers := [[((0, 30), .oneShot (.keyCode 42) 5 .firstPress), ((0, 32), .keyCode 32), ((0, 18), .keyCode 18)]],
    srcKeys := [(30, .keyCode 30), (32, .keyCode 32), (18, .keyCode 18)] }

theorem oshCfg_frag : C06.CfgFrag oshCfg := by
  refine ⟨?_, ?_⟩
  · intro tbl ht e he
    simp only [oshCfg, List.mem_cons, List.mem_nil_iff, or_false] at ht
    subst ht
    simp only [List.mem_cons, List.mem_nil_iff, or_false] at he
    rcases he with rfl | rfl | rfl <;> simp [C06.Frag, C06.Simple]
  · intro e he
    simp only [oshCfg, List.mem_cons, List.mem_nil_iff, or_false] at he
    rcases he with rfl | rfl | rfl <;> simp [C06.Frag]

/-- one-shot Shift tapped, then `d` pressed and held: Shift is released, `d` stays, kanata blocks -/
def oshHist : List Step :=
  [.input (.tap 30), .tick, .tick, .decide 1, .input (.press 32), .tick, .tick, .tick, .tick, .tick, .decide 1]

example : ∃ k, Reach hasRoom (freshK oshCfg true false false 2 [[]] stdMods) k ∧
    (canBlockUpdateIdleWaiting k 1).2 = true ∧ k.prevKeys = [32] ∧
    MayBlock k k.layout.keycodes k.overrideStates ∧
    ∀ n, ∃ k', ticksN n k = .ok k' ∧ k'.out = k.out := by
  obtain ⟨k, hk, hp⟩ := exists_of_endsWith
    (r := runSteps hasRoom (freshK oshCfg true false false 2 [[]] stdMods) oshHist)
    (p := fun k => (canBlockUpdateIdleWaiting k 1).2 && decide (k.prevKeys = [32])) (by decide +kernel)
  simp only [Bool.and_eq_true, decide_eq_true_eq] at hp
  have hr := reach_of_run _ _ oshHist _ k .init hk
  exact ⟨k, hr, hp.1, hp.2,
    mayblock_reachable_oneshot_partial _ k [] (C06.init_inv _ oshCfg_frag _ _ _ _) (freshK_start ..) hr
      (canBlock_true k 1 hp.1).1,
    fun n => by
      obtain ⟨k', e1, e2, _⟩ := (block_unobservable_oneshot_partial _ oshCfg_frag _ _ _ _ _ _ k hr 1 hp.1).2 n
      exact ⟨k', e1, e2⟩⟩

/-- **mayblock_reachable_taphold_partial** (the tap-hold fragment: plain keys, output chords,
layer-while-held, transparent, tap-hold keys of every variant with simple hold / tap / timeout
actions, any timeouts `≤ T` and tap-hold intervals `≤ I`, rapid-event delay `d`).  Full statement:
as `mayblock_reachable_layered`, for every history.  Proved: for every history in which an input
event is delivered only while fewer than 32 events are pending; missing: the overflow path of
`Layout::event` (which turns the waiting tap-hold into a hold). -/
theorem mayblock_reachable_taphold_partial (T I d : Nat) (k0 k : KState) (down : List Coord)
    (hi : Quiesce.HInv T I d k0.layout down) (hs : KStart k0) (hr : Reach hasRoom k0 k)
    (hidle : isIdle k = true) : MayBlock k k.layout.keycodes k.overrideStates :=
  mayBlock_reachable (taphold_layoutInv T I d) hs ⟨down, hi⟩ hr hidle

/-- from start-up, with the decision function and the silent ticks -/
theorem block_unobservable_taphold_partial (cfg : LCfg) (hc : Quiesce.CfgH cfg) (tv2 dfl qth : Bool) (osd : Nat)
    (ko : List (List (Nat × List Nat))) (mods : ModCodes) (k : KState)
    (hr : Reach hasRoom (freshK cfg tv2 dfl qth osd ko mods) k) (ms : Nat)
    (hb : (canBlockUpdateIdleWaiting k ms).2 = true) :
    (canBlockUpdateIdleWaiting k ms).1 = k ∧
    ∀ n, ∃ k', ticksN n k = .ok k' ∧ k'.out = k.out ∧ k'.layout.states = k.layout.states ∧
      (n > 0 → k'.prevKeys = k.layout.keycodes) ∧ MayBlock k' k.layout.keycodes k.overrideStates :=
  block_unobservable (taphold_layoutInv (Quiesce.maxHoldTimeout cfg) (Quiesce.maxTapInterval cfg) osd)
    (freshK_start cfg tv2 dfl qth osd ko mods)
    ⟨[], Quiesce.init_hinv cfg hc _ _ (Quiesce.hBound_max cfg) tv2 dfl qth osd⟩ hr ms hb

/-- a mod-tap key (hold: LShift after 8 ticks, default variant, tap-hold interval 5) and a plain key -/
def thCfg : LCfg :=
  { layers := [[((0, 31), .holdTap 8 (.keyCode 42) (.keyCode 31) (.keyCode 42) .default 5), ((0, 32), .keyCode 32)]],
    srcKeys := [(31, .keyCode 31), (32, .keyCode 32)] }

theorem thCfg_frag : Quiesce.CfgH thCfg := by
  refine ⟨?_, ?_⟩
  · intro tbl ht e he
    simp only [thCfg, List.mem_cons, List.mem_nil_iff, or_false] at ht
    subst ht
    simp only [List.mem_cons, List.mem_nil_iff, or_false] at he
    rcases he with rfl | rfl <;> simp [Quiesce.FragH, C06.Simple]
  · intro e he
    simp only [thCfg, List.mem_cons, List.mem_nil_iff, or_false] at he
    rcases he with rfl | rfl <;> simp [Quiesce.FragH]

/-- the mod-tap key held past its timeout (ten ticks: not idle while it waits), then the quick-tap
window runs out: kanata blocks with LShift held -/
def thHist : List Step :=
  [.input (.press 31), .tick, .decide 1, .tick, .tick, .tick, .tick, .tick, .tick, .tick, .tick, .tick,
   .tick, .tick, .tick, .tick, .tick, .decide 1]

example : ∃ k, Reach hasRoom (freshK thCfg true false false 0 [[]] stdMods) k ∧
    (canBlockUpdateIdleWaiting k 1).2 = true ∧ k.prevKeys = [42] ∧
    MayBlock k k.layout.keycodes k.overrideStates ∧
    ∀ n, ∃ k', ticksN n k = .ok k' ∧ k'.out = k.out := by
  obtain ⟨k, hk, hp⟩ := exists_of_endsWith
    (r := runSteps hasRoom (freshK thCfg true false false 0 [[]] stdMods) thHist)
    (p := fun k => (canBlockUpdateIdleWaiting k 1).2 && decide (k.prevKeys = [42])) (by decide +kernel)
  simp only [Bool.and_eq_true, decide_eq_true_eq] at hp
  have hr := reach_of_run _ _ thHist _ k .init hk
  exact ⟨k, hr, hp.1, hp.2,
    mayblock_reachable_taphold_partial _ _ _ _ k []
      (Quiesce.init_hinv thCfg thCfg_frag _ _ (Quiesce.hBound_max thCfg) _ _ _ _) (freshK_start ..) hr
      (canBlock_true k 1 hp.1).1,
    fun n => by
      obtain ⟨k', e1, e2, _⟩ := (block_unobservable_taphold_partial _ thCfg_frag _ _ _ _ _ _ k hr 1 hp.1).2 n
      exact ⟨k', e1, e2⟩⟩

/-! ## 3. the known finding: macro-release-cancel (a custom action) breaks `Synced` -/

/-- `(macro-release-cancel S-(a 50 b))` on one key: the macro as a sequence, plus the custom action
`CancelMacroOnRelease` (custom-action table entry 0), as `parse_macro_release_cancel` builds it -/
def mrcK0 : KState :=
  { layout := { cfg := { layers := [[((0, 2), .multipleActions [.sequence [.press 42, .press 30, .release 30, .delay 50, .press 48, .release 48, .release 42, .complete], .custom 0])]], srcKeys := [(2, .keyCode 2)] } },
    customs := [[.cancelMacroOnRelease]], keyOutputs := [[]], mods := stdMods }

/-- the key is pressed, the macro presses LShift and taps `a`, the key is released during the delay -/
def mrcHist : List Step :=
  [.input (.press 2), .tick, .tick, .tick, .tick, .tick, .input (.release 2), .tick, .decide 1]

/-- **mayblock_fails_macro_release_cancel_counterexample** (the known finding of C07, on the model).
A reachable state of a configuration with one `macro-release-cancel` key in which
`can_block_update_idle_waiting` answers true although `MayBlock` fails for every wanted list and
override state: releasing the key cancelled the macro AFTER that tick's key diff, so the layout
holds no key any more while the OS still has LShift (42) down; a tick WOULD emit its release — under
the blocking loop it waits for the next input event. -/
theorem mayblock_fails_macro_release_cancel_counterexample :
    ∃ k, Reach (fun _ => true) mrcK0 k ∧ (canBlockUpdateIdleWaiting k 1).2 = true ∧
      k.prevKeys = [42] ∧ k.layout.keycodes = [] ∧ (∀ cur' ost, ¬ MayBlock k cur' ost) ∧
      ∃ k', tickStates k = .ok k' ∧ k'.out = k.out ++ [.up 42] := by
  obtain ⟨k, hk, hp⟩ := exists_of_endsWith (r := runSteps (fun _ => true) mrcK0 mrcHist)
    (p := fun k => (canBlockUpdateIdleWaiting k 1).2 && decide (k.prevKeys = [42]) &&
      decide (k.layout.keycodes = []) && k.overrides.isEmpty && decide (k.unmoddedKeys = []) &&
      decide (k.unshiftedKeys = []) &&
      (match tickStates k with
        | .ok k' => decide (k'.out = k.out ++ [.up 42])
        | .error _ => false)) (by decide +kernel)
  simp only [Bool.and_eq_true, decide_eq_true_eq] at hp
  obtain ⟨⟨⟨⟨⟨⟨h1, h2⟩, h3⟩, h4⟩, h5⟩, h6⟩, h7⟩ := hp
  refine ⟨k, reach_of_run _ _ mrcHist _ k .init hk, h1, h2, h3, ?_, ?_⟩
  · intro cur' ost hm
    have hw := hm.wanted
    rw [adjustKeys_rest k h5 h6, overrideKeys_empty _ h4] at hw
    injection hw with hw
    injection hw with hw1 hw2
    have := hm.synced.1 42 (by rw [h2]; simp)
    rw [← hw1, h3] at this
    cases this
  · cases ht : tickStates k with
    | error c => simp [ht] at h7
    | ok k' =>
      simp only [ht, decide_eq_true_eq] at h7
      exact ⟨k', rfl, h7⟩

end KVerif.C07
