/-
Tree-level model of the configuration "indirection layer" of the kanata parser (property C16).

Mirrors, on s-expression *trees* (atoms are strings, lists; no spans — the byte-level reader is
`Model/SExpr.lean`, property C03):

* `SExpr::atom(vars)` / `SExpr::list(vars)`                 parser/src/cfg/sexpr.rs      → `deref`, `atomView`, `listView`, `resolve`
* `parse_vars`, `parse_list_var`, `push_all_atoms`          parser/src/cfg/mod.rs        → `parseVars`, `parseListVar`, `pushAllAtoms`
* `trim_atom_quotes`                                        parser/src/cfg/str_ext.rs    → `trimAtomQuotes`
* `expand_templates`, `expand`, `evaluate_conditionals`,
  `strings_compare_replacement`, `string_list_compare_replacement`,
  `visit_mut_all_atoms`, `visit_mut_all_lists`              parser/src/cfg/deftemplate.rs → `collectTemplates`, `expandLoop`, `condLoop`, …
* `expand_includes`                                         parser/src/cfg/mod.rs        → `expandIncludes`
* `filter_platform_specific_cfg`, `filter_env_specific_cfg` parser/src/cfg/platform.rs   → `filterPlatform`, `filterEnv`
* alias table: `read_alias_name_action_pairs`, `@name` in
  `parse_action_atom`                                       parser/src/cfg/mod.rs        → `parseAliasPairs`, `inlineAliases`
* the two layer-table fillers of `parse_layers`             parser/src/cfg/mod.rs        → `deflayerFill`, `layermapFill`, `finishLayer`

Conventions.  A string is a `List Char` (`Str`), so that `$name` / `@name` are plain list patterns.
A rejected configuration is `.error (.rej why)`; a Rust panic / stack overflow / non-termination
reachable in the slice is `.error (.crash why)` (unbounded recursion is fuelled; fuel exhaustion is
the crash `fuelOut`).  Core Lean only.
-/
namespace KVerif.CfgTree

abbrev Str := List Char

inductive Tree
  | atom : Str → Tree
  | list : List Tree → Tree
  deriving Repr, Inhabited

mutual
  def Tree.decEq : (a b : Tree) → Decidable (a = b)
    | .atom s, .atom t =>
      if h : s = t then isTrue (by rw [h]) else isFalse (by intro h'; cases h'; exact h rfl)
    | .atom _, .list _ => isFalse (by intro h; cases h)
    | .list _, .atom _ => isFalse (by intro h; cases h)
    | .list l1, .list l2 =>
      match Tree.decEqList l1 l2 with
      | isTrue h => isTrue (by rw [h])
      | isFalse h => isFalse (by intro h'; cases h'; exact h rfl)
  def Tree.decEqList : (a b : List Tree) → Decidable (a = b)
    | [], [] => isTrue rfl
    | [], _ :: _ => isFalse (by intro h; cases h)
    | _ :: _, [] => isFalse (by intro h; cases h)
    | x :: xs, y :: ys =>
      match Tree.decEq x y, Tree.decEqList xs ys with
      | isTrue h1, isTrue h2 => isTrue (by rw [h1, h2])
      | isFalse h1, _ => isFalse (by intro h; cases h; exact h1 rfl)
      | _, isFalse h2 => isFalse (by intro h; cases h; exact h2 rfl)
end

instance : DecidableEq Tree := Tree.decEq

inductive Fail
  | rej (why : String)      -- the parser returns an error (configuration rejected)
  | crash (why : String)    -- panic / stack overflow / hang
  deriving Repr, DecidableEq

abbrev Res := Except Fail

instance {α} [DecidableEq α] : DecidableEq (Res α) := fun a b =>
  match a, b with
  | .ok x, .ok y => if h : x = y then isTrue (by rw [h]) else isFalse (by intro h'; cases h'; exact h rfl)
  | .error x, .error y => if h : x = y then isTrue (by rw [h]) else isFalse (by intro h'; cases h'; exact h rfl)
  | .ok _, .error _ => isFalse (by intro h; cases h)
  | .error _, .ok _ => isFalse (by intro h; cases h)

def fuelOut {α} : Res α := .error (.crash "fuelOut")
def rej {α} (why : String) : Res α := .error (.rej why)

/-- `Some` for every element, else `none` (used for fuelled maps). -/
def allSome {α} : List (Option α) → Option (List α)
  | [] => some []
  | none :: _ => none
  | some a :: rest => match allSome rest with
    | some r => some (a :: r)
    | none => none

/-- assoc-list lookup on string keys (first match; the parser's tables are hash maps that reject
duplicate keys, so first match = the only match) -/
def lookup {β} (k : Str) : List (Str × β) → Option β
  | [] => none
  | (k', v) :: rest => if k' = k then some v else lookup k rest

/-! ## 1. The resolved view: `SExpr::atom(vars)`, `SExpr::list(vars)` -/

abbrev Vars := List (Str × Tree)

/-- `s.strip_prefix('$')` -/
def varName? : Str → Option Str
  | '$' :: n => some n
  | _ => none

/-- the value bound to `$name`, if the atom is a reference to a *bound* variable -/
def varRef (vars : Vars) (s : Str) : Option Tree :=
  match varName? s with
  | some n => lookup n vars
  | none => none

/-- The recursion shared by `SExpr::atom(Some(vars))` and `SExpr::list(Some(vars))`: follow atoms
`$name` bound in `vars` until something else is reached.  `none` = the chain does not end (Rust:
unbounded recursion, stack overflow). An unbound `$name` is an ordinary atom. -/
def deref : Nat → Vars → Tree → Option Tree
  | _, _, .list ts => some (.list ts)
  | f, vars, .atom s =>
    match varRef vars s with
    | none => some (.atom s)
    | some e =>
      match f with
      | 0 => none
      | f + 1 => deref f vars e

/-- `expr.atom(Some(vars))` : outer `none` = crash, inner = the Rust `Option<&str>` -/
def atomView (f : Nat) (vars : Vars) (t : Tree) : Option (Option Str) :=
  match deref f vars t with
  | none => none
  | some (.atom s) => some (some s)
  | some (.list _) => some none

/-- `expr.list(Some(vars))`; an unbound `$name` is not a list -/
def listView (f : Nat) (vars : Vars) (t : Tree) : Option (Option (List Tree)) :=
  match deref f vars t with
  | none => none
  | some (.atom _) => some none
  | some (.list l) => some (some l)

/-- The fully resolved view: what a consumer that walks the whole expression through
`atom(vars)`/`list(vars)` sees.  Fuel is spent on every variable hop and every list descent. -/
def resolve : Nat → Vars → Tree → Option Tree
  | 0, _, _ => none
  | f + 1, vars, .atom s =>
    match varRef vars s with
    | some e => resolve f vars e
    | none => some (.atom s)
  | f + 1, vars, .list ts => (allSome (ts.map (resolve f vars))).map .list

/-! ## 2. `defvar` -/

def stripPrefix? (pre s : Str) : Option Str :=
  if pre.isPrefixOf s then some (s.drop pre.length) else none

def stripSuffix? (suf s : Str) : Option Str :=
  if suf.isSuffixOf s then some (s.take (s.length - suf.length)) else none

/-- `TrimAtomQuotes::trim_atom_quotes` (str_ext.rs) -/
def trimAtomQuotes (s : Str) : Str :=
  match stripPrefix? ['r', '#', '"'] s with
  | some a => (stripSuffix? ['"', '#'] a).getD a
  | none => (stripSuffix? ['"'] ((stripPrefix? ['"'] s).getD s)).getD s

/-- `push_all_atoms`: concatenation of all atoms reachable through the resolved view, quotes
trimmed.  `none` = fuel out. -/
def pushAllAtoms : Nat → Vars → List Tree → Option Str
  | 0, _, _ => none
  | f + 1, vars, ts =>
    (allSome (ts.map fun t =>
      match deref f vars t with
      | none => none
      | some (.atom a) => some (trimAtomQuotes a)
      | some (.list l) => pushAllAtoms f vars l)).map List.flatten

def sConcat : Str := "concat".toList

/-- `parse_list_var`: a list headed by the atom `concat` becomes one atom -/
def parseListVar (f : Nat) (vars : Vars) (l : List Tree) : Option Tree :=
  match l with
  | .atom a :: rest => if a = sConcat then (pushAllAtoms f vars rest).map .atom else some (.list l)
  | _ => some (.list l)

/-- the name/value pairs of one `(defvar …)` item (`parse_vars`, inner loop) -/
def parseVarPairs (f : Nat) : Vars → List Tree → Res Vars
  | vars, [] => .ok vars
  | _, .list _ :: _ => rej "variable name must not be a list"
  | _, [.atom _] => rej "variable name must have a subsequent value"
  | vars, .atom n :: v :: rest =>
    let val : Res Tree := match v with
      | .atom _ => .ok v
      | .list l => match parseListVar f vars l with
        | some t => .ok t
        | none => fuelOut
    match val with
    | .error e => .error e
    | .ok val =>
      if (lookup n vars).isSome then rej "duplicate variable name"
      else parseVarPairs f (vars ++ [(n, val)]) rest

/-- `parse_vars` over the bodies (everything after the keyword) of the `defvar` items, in order -/
def parseVars (f : Nat) : Vars → List (List Tree) → Res Vars
  | vars, [] => .ok vars
  | vars, item :: rest =>
    match parseVarPairs f vars item with
    | .error e => .error e
    | .ok vars' => parseVars f vars' rest

/-! ## 3. Templates -/

def sDeftemplate : Str := "deftemplate".toList
def sTemplateExpand : Str := "template-expand".toList
def sTBang : Str := "t!".toList
def sIfEqual : Str := "if-equal".toList
def sIfNotEqual : Str := "if-not-equal".toList
def sIfInList : Str := "if-in-list".toList
def sIfNotInList : Str := "if-not-in-list".toList

structure Template where
  name : Str
  params : List Str
  content : List Tree
  deriving Repr, DecidableEq

/-- `l.t.first().and_then(|e| e.atom(None)) == Some(kw)` -/
def headIs (kw : Str) : List Tree → Bool
  | .atom a :: _ => a = kw
  | _ => false

def isExpandHead (l : List Tree) : Bool := headIs sTemplateExpand l || headIs sTBang l

def findTemplate (name : Str) : List Template → Option Template
  | [] => none
  | t :: rest => if t.name = name then some t else findTemplate name rest

mutual
  /-- `visit_validate_all_atoms_peek_next` with the closure of `expand_templates`: no `deftemplate`
  atom inside a template; a `template-expand`/`t!` atom followed by an atom must name a template
  defined earlier. `none` = valid. -/
  def validateTree (known : List Template) : Tree → Option String
    | .atom _ => none
    | .list l => validateList known l
  def validateList (known : List Template) : List Tree → Option String
    | [] => none
    | .atom a :: rest =>
      let here : Option String :=
        if a = sDeftemplate then some "deftemplate is not allowed within deftemplate"
        else if a = sTemplateExpand ∨ a = sTBang then
          match rest with
          | .atom n :: _ =>
            if (findTemplate n known).isSome then none else some "Unknown template name in template-expand"
          | _ => none
        else none
      match here with
      | some e => some e
      | none => validateList known rest
    | t@(.list _) :: rest =>
      match validateTree known t with
      | some e => some e
      | none => validateList known rest
end

def atomsOnly : List Tree → Option (List Str)
  | [] => some []
  | .atom a :: rest => (atomsOnly rest).map (a :: ·)
  | .list _ :: _ => none

/-- first loop of `expand_templates`: collect the `deftemplate` items in order -/
def collectTemplates : List Template → List (List Tree) → Res (List Template)
  | acc, [] => .ok acc
  | acc, item :: rest =>
    if !headIs sDeftemplate item then collectTemplates acc rest else
    match item with
    | _ :: .atom name :: more =>
      if (findTemplate name acc).isSome then rej "template name was already defined earlier" else
      match more with
      | .list ps :: content =>
        match atomsOnly ps with
        | none => rej "deftemplate variables must be strings"
        | some params =>
          match validateList acc content with
          | some e => rej e
          | none => collectTemplates (acc ++ [{ name := name, params := params, content := content }]) rest
      | .atom _ :: _ => rej "deftemplate must have a list of template variables the second parameter"
      | [] => rej "deftemplate must have a list of template variables as the second parameter"
    | _ :: .list _ :: _ => rej "template name must be a string"
    | _ => rej "deftemplate must have the template name as the first parameter"

/-- index of the first parameter `p` with `"$" ++ p = a` (`vars_substitute_names … find`) -/
def paramIndex (a : Str) : List Str → Option Nat
  | [] => none
  | p :: ps => if '$' :: p = a then some 0 else (paramIndex a ps).map (· + 1)

mutual
  /-- `visit_mut_all_atoms` with the substitution closure of `expand`.  The `expect("validated
  matching var lens")` cannot fail after the arity check in `instantiate`; the model leaves the atom
  in place there. -/
  def substTree (params : List Str) (args : List Tree) : Tree → Tree
    | .atom a =>
      match paramIndex a params with
      | none => .atom a
      | some i => (args[i]?).getD (.atom a)
    | .list l => .list (substList params args l)
  def substList (params : List Str) (args : List Tree) : List Tree → List Tree
    | [] => []
    | t :: rest => substTree params args t :: substList params args rest
end

mutual
  /-- all atoms of a forest, depth first (`visit_validate_all_atoms`) -/
  def atomsOfTree : Tree → List Str
    | .atom a => [a]
    | .list l => atomsOfList l
  def atomsOfList : List Tree → List Str
    | [] => []
    | t :: rest => atomsOfTree t ++ atomsOfList rest
end

/-- `push_all_atoms` with an empty variable table (what `expand` passes): every atom, quotes trimmed -/
def flattenAtoms (l : List Tree) : Str := ((atomsOfList l).map trimAtomQuotes).flatten

mutual
  /-- `visit_mut_all_lists` with `parse_list_var(l, &HashMap::default())`: inside an expanded template
  every list headed by `concat` is replaced by the concatenation of all its atoms (variables are NOT
  resolved here: the table is empty). -/
  def concatTree : Tree → Tree
    | .atom a => .atom a
    | .list l =>
      match l with
      | .atom a :: rest => if a = sConcat then .atom (flattenAtoms rest) else .list (concatList l)
      | _ => .list (concatList l)
  def concatList : List Tree → List Tree
    | [] => []
    | t :: rest => concatTree t :: concatList rest
end

inductive CondKind | eq | ne | inl | nin
  deriving DecidableEq, Repr

def condKind? (a : Str) : Option CondKind :=
  if a = sIfEqual then some .eq
  else if a = sIfNotEqual then some .ne
  else if a = sIfInList then some .inl
  else if a = sIfNotInList then some .nin
  else none

/-- The test of `if_equal_replacement` … `if_not_in_list_replacement` (tried in that order; at most
one of them matches the head atom) on one list: `none` = the list is not a conditional form;
`some (.ok b)` = it is one and its condition is `b`. Comparands are read with `atom(None)` /
`list(None)`: no variable resolution. -/
def condTest (l : List Tree) : Option (Res Bool) :=
  match l with
  | .atom op :: rest =>
    match condKind? op with
    | none => none
    | some k =>
      some <|
        match rest with
        | [] => rej "expects a string comparand as the first parameter"
        | .list _ :: _ => rej "comparands must be strings"
        | .atom first :: rest2 =>
          match k, rest2 with
          | .eq, .atom second :: _ => .ok (first = second)
          | .ne, .atom second :: _ => .ok (first ≠ second)
          | .inl, .list second :: _ => .ok (first ∈ atomsOfList second)
          | .nin, .list second :: _ => .ok (first ∉ atomsOfList second)
          | .eq, .list _ :: _ => rej "comparands must be strings"
          | .ne, .list _ :: _ => rej "comparands must be strings"
          | .inl, .atom _ :: _ => rej "the second parameter must be a list"
          | .nin, .atom _ :: _ => rej "the second parameter must be a list"
          | _, [] => rej "expects a comparand as the second parameter"
  | _ => none

/-- the replacement: `l.t.iter().skip(3)` when the condition holds, nothing otherwise -/
def condReplacement (l : List Tree) : Option (Res (List Tree)) :=
  match condTest l with
  | none => none
  | some (.error e) => some (.error e)
  | some (.ok b) => some (.ok (if b then l.drop 3 else []))

mutual
  /-- what one call of `evaluate_conditionals` does with one element: a conditional form is
  replaced by its (unevaluated) body — `if_*_replacement` — any other list is visited recursively
  (one pass); the flag is `ChangeOccurred`. -/
  def condPassTree : Tree → Res (List Tree × Bool)
    | .atom a => .ok ([.atom a], false)
    | .list l =>
      match condReplacement l with
      | some (.error e) => .error e
      | some (.ok repl) => .ok (repl, true)
      | none =>
        match condPass l with
        | .error e => .error e
        | .ok (l', c) => .ok ([.list l'], c)
  /-- one call of `evaluate_conditionals` on a list of expressions (the replacements are spliced in
  place of the forms) -/
  def condPass : List Tree → Res (List Tree × Bool)
    | [] => .ok ([], false)
    | t :: rest =>
      match condPassTree t with
      | .error e => .error e
      | .ok (items, c1) =>
        match condPass rest with
        | .error e => .error e
        | .ok (r, c2) => .ok (items ++ r, c1 || c2)
end

/-- `while evaluate_conditionals(&mut expanded_template)? {}` -/
def condLoop : Nat → List Tree → Res (List Tree)
  | 0, _ => fuelOut
  | f + 1, ts =>
    match condPass ts with
    | .error e => .error e
    | .ok (r, c) => if c then condLoop f r else .ok r

mutual
  def sizeTree : Tree → Nat
    | .atom _ => 1
    | .list l => 1 + sizeList l
  def sizeList : List Tree → Nat
    | [] => 0
    | t :: rest => sizeTree t + sizeList rest
end

/-- The replacement `expand` builds for one `(template-expand name args…)` list `l`: look the
template up, check the arity, substitute, evaluate `concat`, evaluate conditionals to a fixpoint. -/
def instantiate (templates : List Template) (l : List Tree) : Res (List Tree) :=
  match l with
  | _ :: .atom name :: args =>
    match findTemplate name templates with
    | none => rej "template name was not defined in any deftemplate"
    | some tpl =>
      if args.length ≠ tpl.params.length then rej "template-expand: wrong number of parameters"
      else
        let body := concatList (substList tpl.params args tpl.content)
        condLoop (sizeList body + 1) body
  | _ :: .list _ :: _ => rej "template name must be a string"
  | _ => rej "template-expand must have a template name as the first parameter"

/-- one iteration of the `for` loop of `expand` over `exprs`; `rec` is `expand` itself on a nested
list (the recursive call `expand(&mut l.t, …)`).  The flag is `!replacements.is_empty()`. -/
def expandPass (rec : List Tree → Res (List Tree)) (templates : List Template) :
    List Tree → Res (List Tree × Bool)
  | [] => .ok ([], false)
  | .atom a :: rest =>
    match expandPass rec templates rest with
    | .error e => .error e
    | .ok (r, c) => .ok (.atom a :: r, c)
  | .list l :: rest =>
    if isExpandHead l then
      match instantiate templates l with
      | .error e => .error e
      | .ok repl =>
        match expandPass rec templates rest with
        | .error e => .error e
        | .ok (r, _) => .ok (repl ++ r, true)
    else
      match rec l with
      | .error e => .error e
      | .ok l' =>
        match expandPass rec templates rest with
        | .error e => .error e
        | .ok (r, c) => .ok (.list l' :: r, c)

/-- `expand`: repeat the pass until no `template-expand` was replaced at this level. -/
def expandLoop : Nat → List Template → List Tree → Res (List Tree)
  | 0, _, _ => fuelOut
  | f + 1, T, ts =>
    match expandPass (expandLoop f T) T ts with
    | .error e => .error e
    | .ok (r, c) => if c then expandLoop f T r else .ok r

/-- the final conversion back to top-level items -/
def toTopLevels : List Tree → Res (List (List Tree))
  | [] => .ok []
  | .atom _ :: _ => rej "expansion created a string outside any list which is not allowed"
  | .list l :: rest =>
    match toTopLevels rest with
    | .error e => .error e
    | .ok r => .ok (l :: r)

/-- `expand_templates` -/
def expandTemplates (f : Nat) (items : List (List Tree)) : Res (List (List Tree)) :=
  match collectTemplates [] items with
  | .error e => .error e
  | .ok T =>
    -- the `deftemplate` items are dropped before the expansion loop (since the repair of
    -- expansions running inside template bodies on unsubstituted parameters)
    match expandLoop f T ((items.filter fun it => match it with
        | .atom a :: _ => a != sDeftemplate
        | _ => true).map .list) with
    | .error e => .error e
    | .ok r => toTopLevels r

/-! ### Specification of template expansion (what the loops are proved to compute) -/

mutual
  /-- conditionals evaluated outermost-first in one structural traversal: a conditional form whose
  test holds is replaced by its evaluated body, one whose test fails disappears (its body is not
  looked at), any other list is evaluated inside. -/
  def condSpecTree : Tree → Res (List Tree)
    | .atom a => .ok [.atom a]
    | .list l =>
      match condTest l with
      | some (.error e) => .error e
      | some (.ok b) =>
        if b then
          match l with
          | _ :: _ :: _ :: body => condSpec body
          | _ => .ok []
        else .ok []
      | none => match condSpec l with
        | .error e => .error e
        | .ok l' => .ok [.list l']
  def condSpec : List Tree → Res (List Tree)
    | [] => .ok []
    | t :: rest =>
      match condSpecTree t with
      | .error e => .error e
      | .ok r1 => match condSpec rest with
        | .error e => .error e
        | .ok r2 => .ok (r1 ++ r2)
end

def flatMapR (g : Tree → Res (List Tree)) : List Tree → Res (List Tree)
  | [] => .ok []
  | t :: rest =>
    match g t with
    | .error e => .error e
    | .ok r1 => match flatMapR g rest with
      | .error e => .error e
      | .ok r2 => .ok (r1 ++ r2)

/-- Template expansion as substitution: every `(template-expand name args…)`, wherever it is, is
replaced by the expansion of the instantiated template body; every other list is expanded inside.
Fuel bounds the nesting of expansions (a template body may expand further templates). -/
def expandSpec : Nat → List Template → List Tree → Res (List Tree)
  | 0, _, _ => fuelOut
  | f + 1, T, ts =>
    flatMapR (fun t =>
      match t with
      | .atom a => .ok [.atom a]
      | .list l =>
        if isExpandHead l then
          match instantiate T l with
          | .error e => .error e
          | .ok repl => expandSpec f T repl
        else
          match expandSpec f T l with
          | .error e => .error e
          | .ok l' => .ok [.list l']) ts

/-! ## 4. include, platform, environment -/

def sInclude : Str := "include".toList
def sPlatform : Str := "platform".toList
def sEnvironment : Str := "environment".toList

/-- the file map of `new_from_str`: file name ↦ already-read top-level items (`sexpr::parse` of the
content; a file that does not parse is outside this model) -/
abbrev Files := List (Str × List (List Tree))

/-- `expand_includes` -/
def expandIncludes (files : Files) : List (List Tree) → Res (List (List Tree))
  | [] => .ok []
  | item :: rest =>
    let here : Res (List (List Tree)) :=
      if headIs sInclude item then
        match item with
        | [_] => rej "Every include block must contain exactly one filepath"
        | _ :: .list _ :: _ => rej "Filepath cannot be a list"
        | [_, .atom path] =>
          match lookup (trimAtomQuotes path) files with
          | none => rej "File is not known"
          | some items => .ok items
        | _ => rej "Multiple filepaths are not allowed in include blocks"
      else .ok [item]
    match here with
    | .error e => .error e
    | .ok xs => match expandIncludes files rest with
      | .error e => .error e
      | .ok r => .ok (xs ++ r)

def validPlatforms : List Str := ["win", "winiov2", "wintercept", "linux", "macos"].map String.toList

def checkPlatformNames : List Tree → Res (List Str)
  | [] => .ok []
  | .list _ :: _ => rej "platform must be a string"
  | .atom p :: rest =>
    if p ∈ validPlatforms then
      match checkPlatformNames rest with
      | .error e => .error e
      | .ok r => .ok (p :: r)
    else rej "Unknown platform"

/-- `filter_platform_specific_cfg` for the platform `cur` (`linux` in this build) -/
def filterPlatform (cur : Str) : List (List Tree) → Res (List (List Tree))
  | [] => .ok []
  | item :: rest =>
    let here : Res (List (List Tree)) :=
      if !headIs sPlatform item then .ok [item] else
      match item with
      | [_, pfs, cfg] =>
        match cfg with
        | .atom _ => rej "configuration-item must be a list"
        | .list configuration =>
          match pfs with
          | .atom _ => rej "applicable-platforms must be a list"
          | .list pfl =>
            match checkPlatformNames pfl with
            | .error e => .error e
            | .ok names => .ok (if cur ∈ names then [configuration] else [])
      | _ => rej "platform requires exactly two parameters"
    match here with
    | .error e => .error e
    | .ok xs => match filterPlatform cur rest with
      | .error e => .error e
      | .ok r => .ok (xs ++ r)

/-- `filter_env_specific_cfg` as `new_from_str` calls it: the environment is
`Err("environment variables are not supported")`, so any `(environment …)` item is an error. -/
def filterEnv : List (List Tree) → Res (List (List Tree))
  | [] => .ok []
  | item :: rest =>
    if headIs sEnvironment item then rej "environment variables are not supported"
    else match filterEnv rest with
      | .error e => .error e
      | .ok r => .ok (item :: r)

/-- the first statement of `parse_cfg_raw_string` after reading the text -/
def pipeline (f : Nat) (files : Files) (cur : Str) (items : List (List Tree)) : Res (List (List Tree)) :=
  match expandIncludes files items with
  | .error e => .error e
  | .ok a => match filterPlatform cur a with
    | .error e => .error e
    | .ok b => match filterEnv b with
      | .error e => .error e
      | .ok c => expandTemplates f c

/-! ## 5. Aliases -/

/-- `read_alias_name_action_pairs`, generic in the parsed-action type `α`: `parse al e` is
`parse_action(e, s)` with the alias table `al` accumulated so far. Definition order matters: a pair
is parsed with the aliases defined before it. -/
def parseAliasPairs {α} (parse : List (Str × α) → Tree → Res α) :
    List (Str × α) → List Tree → Res (List (Str × α))
  | al, [] => .ok al
  | _, .list _ :: _ => rej "Alias names cannot be lists"
  | _, [.atom _] => rej "Found alias without an action"
  | al, .atom n :: e :: rest =>
    match parse al e with
    | .error err => .error err
    | .ok a =>
      if (lookup n al).isSome then rej "Duplicate alias"
      else parseAliasPairs parse (al ++ [(n, a)]) rest

def aliasName? : Str → Option Str
  | '@' :: n => some n
  | _ => none

mutual
  /-- The alias-resolved view of an (already variable-resolved) action expression: an atom `@name`
  is the action the alias table holds for `name` (`parse_action_atom`: `s.aliases.get(alias)`), or
  an error when unknown. This is `parse` above for the action type `α := Tree`. -/
  def inlineTree (al : List (Str × Tree)) : Tree → Res Tree
    | .atom a =>
      match aliasName? a with
      | none => .ok (.atom a)
      | some n => match lookup n al with
        | some t => .ok t
        | none => rej "Referenced unknown alias"
    | .list l => match inlineList al l with
      | .error e => .error e
      | .ok l' => .ok (.list l')
  def inlineList (al : List (Str × Tree)) : List Tree → Res (List Tree)
    | [] => .ok []
    | t :: rest =>
      match inlineTree al t with
      | .error e => .error e
      | .ok t' => match inlineList al rest with
        | .error e => .error e
        | .ok r => .ok (t' :: r)
end

/-! ## 6. Layer tables -/

/-- one row of a layer while it is being filled: `none` is `DEFAULT_ACTION` -/
abbrev Table (α : Type) := Nat → Option α

def Table.empty {α} : Table α := fun _ => none
def Table.set {α} (t : Table α) (i : Nat) (a : α) : Table α := fun j => if j = i then some a else t j

/-- `LayerExprs::DefsrcMapping`: the i-th action goes to position `mapping_order[i]`.  (The length
check against defsrc is done earlier, in `parse_layer_indexes`; `s.mapping_order[i]` would panic on a
longer layer, which that check excludes.) -/
def deflayerFill {α} : Table α → List Nat → List α → Table α
  | t, o :: order, a :: acts => deflayerFill (t.set o a) order acts
  | t, _, _ => t

/-- the input of one deflayermap pair -/
inductive MapIn
  | key (code : Nat)   -- a key name (already through `str_to_oscode`)
  | anyDefsrc          -- `_`
  | anyUnmapped        -- `__`
  | anyBoth            -- `___`
  deriving DecidableEq, Repr

structure MapSt (α : Type) where
  table : Table α
  seen : List Nat := []
  usedDefsrc : Bool := false
  usedUnmapped : Bool := false
  usedBoth : Bool := false

/-- fill `a` into every still-default position among `ps` -/
def fillDefault {α} (t : Table α) (a : α) : List Nat → Table α
  | [] => t
  | p :: ps => fillDefault (if (t p).isNone then t.set p a else t) a ps

/-- One `(input, action)` pair of `LayerExprs::CustomMapping`. `order` is `mapping_order`, `nkeys`
is `KEYS_IN_ROW`, `pu` is `process-unmapped-keys`. -/
def layermapStep {α} (order : List Nat) (nkeys : Nat) (pu : Bool) (st : MapSt α) :
    MapIn × α → Res (MapSt α)
  | (.anyDefsrc, a) =>
    if st.usedDefsrc then rej "must have only one use of _ within a layer"
    else if st.usedBoth then rej "must either use _ or ___ within a layer, not both"
    else .ok { st with table := fillDefault st.table a order, usedDefsrc := true }
  | (.anyUnmapped, a) =>
    if st.usedUnmapped then rej "must have only one use of __ within a layer"
    else if !pu then rej "must set process-unmapped-keys to yes to use __"
    else if st.usedBoth then rej "must either use __ or ___ within a layer, not both"
    else .ok { st with table := fillDefault st.table a ((List.range nkeys).filter (· ∉ order)),
                       usedUnmapped := true }
  | (.anyBoth, a) =>
    if st.usedBoth then rej "must have only one use of ___ within a layer"
    else if st.usedDefsrc then rej "must either use _ or ___ within a layer, not both"
    else if st.usedUnmapped then rej "must either use __ or ___ within a layer, not both"
    else if !pu then rej "must set process-unmapped-keys to yes to use ___"
    else .ok { st with table := fillDefault st.table a (List.range nkeys), usedBoth := true }
  | (.key k, a) =>
    if k ∈ st.seen then rej "input key must not be repeated within a layer"
    else .ok { st with table := st.table.set k a, seen := k :: st.seen }

def layermapFill {α} (order : List Nat) (nkeys : Nat) (pu : Bool) :
    MapSt α → List (MapIn × α) → Res (MapSt α)
  | st, [] => .ok st
  | st, p :: rest =>
    match layermapStep order nkeys pu st p with
    | .error e => .error e
    | .ok st' => layermapFill order nkeys pu st' rest

/-- the common tail of `parse_layers` for one layer: remaining defaults become `Trans` (or `NoOp`
with `block-unmapped-keys` on a non-button), and index 0 is always `NoOp`.  (The virtual-key row is
the other row and is not touched by either filler.) -/
def finishLayer {α} (block : Bool) (isButton : Nat → Bool) (trans noop : α) (t : Table α) : Nat → α :=
  fun i =>
    if i = 0 then noop else
    match t i with
    | some a => a
    | none => if block && !isButton i then noop else trans

/-! ## 7. Contexts (only used to *state* rewrites: "the same configuration with this subexpression replaced") -/

/-- a tree with one hole -/
inductive Ctx
  | hole
  | node (pre : List Tree) (c : Ctx) (post : List Tree)

def Ctx.plug : Ctx → Tree → Tree
  | .hole, t => t
  | .node pre c post, t => .list (pre ++ c.plug t :: post)

/-- a forest with a hole that takes a run of siblings (a template call is replaced by several
items). In `under`, the hole is somewhere behind the first element `hd` of a nested list. -/
inductive FCtx
  | here (pre post : List Tree)
  | under (pre : List Tree) (hd : Tree) (c : FCtx) (post : List Tree)

def FCtx.fill : FCtx → List Tree → List Tree
  | .here pre post, xs => pre ++ xs ++ post
  | .under pre hd c post, xs => pre ++ [.list (hd :: c.fill xs)] ++ post

/-- no enclosing list of the hole is itself a template call (the hole is not inside the arguments
of another `template-expand`) -/
def FCtx.Plain : FCtx → Prop
  | .here _ _ => True
  | .under _ hd c _ => isExpandHead [hd] = false ∧ c.Plain

/-! ## 8. Bypass sites

The parser functions that look at an expression *without* variable resolution
(`Gen/BypassSites.lean`, regenerated from the source), classified by what that means for a rewrite.
`Props/C16.lean` checks that every generated site is classified. -/

inductive BypassClass
  | keyword      -- recognises a keyword / the head of a form: by design not a value position
  | templateEngine -- the template expander itself (runs before variables exist)
  | varName      -- the name side of defvar / the value is stored unresolved on purpose
  | aliasName    -- the name side of defalias
  | defsrc       -- key names in defsrc
  | defcfg       -- every defcfg option value (defcfg is parsed before defvar)
  | includePath  -- the file name of include
  | platformForm -- the two parameters of (platform …) / (environment …)
  | deflocalkeys
  | layerOpts    -- options in (deflayer (name icon …) …); parenthesis check on layer items
  | actionHead   -- the name of a list action `(tap-hold …)`
  | actionArg    -- a specific argument of a specific action that cannot be a variable
  | lspOnly      -- only feeds editor hints, no effect on the parsed configuration
  deriving DecidableEq, Repr

def bypassClass : List ((String × String) × BypassClass) := [
  (("mod.rs", "check_first_expr"), .keyword),
  (("mod.rs", "error_on_unknown_top_level_atoms"), .keyword),
  (("mod.rs", "gen_first_atom_filter"), .keyword),
  (("mod.rs", "gen_first_atom_filter_spanned"), .keyword),
  (("mod.rs", "gen_first_atom_start_filter_spanned"), .keyword),
  (("mod.rs", "parse_cfg_raw_string"), .keyword),
  (("mod.rs", "expand_includes"), .includePath),
  (("mod.rs", "parse_action_list"), .actionHead),
  (("mod.rs", "parse_clipboard_set"), .actionArg),
  (("mod.rs", "parse_live_reload_file"), .actionArg),
  (("mod.rs", "to_simple_expr"), .actionArg),
  (("mod.rs", "parse_deflocalkeys"), .deflocalkeys),
  (("mod.rs", "parse_defsrc"), .defsrc),
  (("mod.rs", "parse_layer_indexes"), .layerOpts),
  (("layer_opts.rs", "parse_layer_opts"), .layerOpts),
  (("mod.rs", "parse_list_var"), .varName),
  (("mod.rs", "parse_vars"), .varName),
  (("mod.rs", "read_alias_name_action_pairs"), .aliasName),
  (("mod.rs", "set_layer_change_lsp_hint"), .lspOnly),
  (("fake_key.rs", "set_virtual_key_reference_lsp_hint"), .lspOnly),
  (("deftemplate.rs", "count_nodes"), .templateEngine),   -- size accounting of the expansion limit
  (("deftemplate.rs", "evaluate_conditionals"), .templateEngine),
  (("deftemplate.rs", "expand"), .templateEngine),
  (("deftemplate.rs", "expand_templates"), .templateEngine),
  (("deftemplate.rs", "string_list_compare_replacement"), .templateEngine),
  (("deftemplate.rs", "strings_compare_replacement"), .templateEngine),
  (("deftemplate.rs", "visit_mut_all_atoms"), .templateEngine),
  (("deftemplate.rs", "visit_mut_all_lists"), .templateEngine),
  (("deftemplate.rs", "visit_validate_all_atoms"), .templateEngine),
  (("deftemplate.rs", "visit_validate_all_atoms_peek_next"), .templateEngine),
  (("platform.rs", "filter_env_specific_cfg"), .platformForm),
  (("platform.rs", "filter_platform_specific_cfg"), .platformForm),
  (("defcfg.rs", "parse_cfg_val_u16"), .defcfg),
  (("defcfg.rs", "parse_defcfg"), .defcfg),
  (("defcfg.rs", "parse_defcfg_val_bool"), .defcfg),
  (("defcfg.rs", "parse_defcfg_val_string"), .defcfg),
  (("defcfg.rs", "parse_dev"), .defcfg),
  (("defcfg.rs", "sexpr_to_list_or_err"), .defcfg),
  (("defcfg.rs", "sexpr_to_str_or_err"), .defcfg),
  (("chord.rs", "parse_defchordv2"), .keyword),
  (("zippychord.rs", "parse_zippy_inner"), .actionArg)
]

end KVerif.CfgTree
