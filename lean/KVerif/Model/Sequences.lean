/-
Model of the runtime side of kanata's sequences:

* src/kanata/sequences.rs   `SequenceState`, `do_sequence_press_logic`,
                            `do_successful_sequence_termination`, `cancel_sequence`, `add_noerase`
* src/kanata/mod.rs         the hooks in `handle_keystate_changes` (key-state diff, the
                            all-keys-released overlap check, `sequence-always-on`, the press loop, the
                            custom actions `SequenceLeader`/`SequenceCancel`/`SequenceNoerase`),
                            `tick_sequence_state`, `tick_states`, `handle_input_event`
* src/kanata/output_logic.rs `press_key`/`release_key` (ignored code range)
* keyberon/src/layout.rs    the slice of `Layout` these hooks touch for configurations whose keys are
                            plain keys or the three custom actions: `event` (queue), `tick` →
                            `dequeue` (one queued event per tick), `do_action` for `KeyCode`/`Custom`/
                            `NoOp`, `State::release`, `keycodes`

Not modelled (assumed not to occur in the histories considered): the 32-slot queue and 64-slot
state capacities, every other action kind, one-shot/tap-dance/chords, overrides, caps-word,
zippychord (passes keys through when no `defzippy` is configured), mouse-button and wheel key codes.
-/
import KVerif.Model.SeqTrie
namespace KVerif.Seq

def KEY_IGNORE_MIN : Nat := 0x2a4
def KEY_IGNORE_MAX : Nat := 0x2ad

/-- `SequenceInputMode` -/
inductive Mode
  | hiddenSuppressed
  | hiddenDelayType
  | visibleBackspaced
  deriving DecidableEq, Repr

/-- `SequenceState` (`activity` is the flag `active`). -/
structure SeqState where
  rawOscs : List Nat := []
  sequence : List Nat := []
  overlapped : List Nat := []
  mode : Mode := .hiddenSuppressed
  ticksUntilTimeout : Nat := 0
  timeout : Nat := 0
  active : Bool := false
  noerase : Nat := 0
  deriving Repr

/-- `SequenceState::activate` -/
def SeqState.activate (_s : SeqState) (mode : Mode) (timeout : Nat) : SeqState :=
  { rawOscs := [], sequence := [], overlapped := [], mode := mode, ticksUntilTimeout := timeout,
    timeout := timeout, active := true, noerase := 0 }

/-- An event at the OS output. -/
inductive Out
  | down (k : Nat)
  | up (k : Nat)
  deriving DecidableEq, Repr

/-- `OsCode::is_modifier` -/
def isModifier (k : Nat) : Bool :=
  k == KC_LSHIFT || k == KC_RSHIFT || k == KC_LGUI || k == KC_RGUI || k == KC_LCTRL || k == KC_RCTRL ||
    k == KC_LALT || k == KC_RALT

def isIgnored (k : Nat) : Bool := KEY_IGNORE_MIN ≤ k && k ≤ KEY_IGNORE_MAX

/-- output_logic.rs `press_key` (keyboard keys only) -/
def osPress (k : Nat) : List Out := if isIgnored k then [] else [.down k]
/-- output_logic.rs `release_key` (keyboard keys only) -/
def osRelease (k : Nat) : List Out := if isIgnored k then [] else [.up k]

/-- The `State` variants that occur: `NormalKey { keycode, coord }` and `Custom { coord }`. -/
inductive KState
  | normalKey (kc : Nat) (coord : Nat × Nat)
  | custom (coord : Nat × Nat)
  deriving DecidableEq, Repr

def KState.coord : KState → Nat × Nat
  | .normalKey _ c => c
  | .custom c => c

def KState.keycode : KState → Option Nat
  | .normalKey kc _ => some kc
  | .custom _ => none

/-- What the sequence functions read and write: the sequence state, `layout.states`, the OS events
emitted so far (in order) and the virtual keys tapped so far (`layout.event(Press(1, j));
layout.event(Release(1, j))`, recorded as `j`). -/
structure Eng where
  st : SeqState
  states : List KState
  out : List Out := []
  taps : List Nat := []
  deriving Repr

/-- `cancel_sequence` -/
def cancelSequence (e : Eng) : Eng :=
  let st := { e.st with active := false }
  match st.mode with
  | .hiddenDelayType =>
    { e with st := st, out := e.out ++ st.rawOscs.flatMap (fun k => osPress k ++ osRelease k) }
  | _ => { e with st := st }

/-- modifiers released before backspacing in visible-backspaced mode -/
def isVbReleasedMod (kc : Nat) : Bool :=
  kc == KC_LCTRL || kc == KC_RCTRL || kc == KC_LALT || kc == KC_RALT || kc == KC_LGUI || kc == KC_RGUI

/-- The backspacing loop of `do_successful_sequence_termination`: returns the remaining
`noerase_count` and the number of backspaces sent. -/
def backspaces : List Nat → (noerase : Nat) → Nat × Nat
  | [], ne => (ne, 0)
  | k :: ks, ne =>
    if k = KEY_OVERLAP_MARKER then backspaces ks ne
    else
      let osc := k &&& MASK_KEYCODES
      if isModifier osc then backspaces ks ne
      else if isIgnored osc then backspaces ks ne
      else if ne > 0 then backspaces ks (ne - 1)
      else let r := backspaces ks ne; (r.1, r.2 + 1)

/-- The second loop: every `NormalKey` state whose key code occurs in the sequence is removed. -/
def clearTyped (sequence : List Nat) (states : List KState) : List KState :=
  sequence.foldl (fun sts k =>
    if k = KEY_OVERLAP_MARKER then sts
    else sts.filter (fun s => !(s.keycode == some (k &&& MASK_KEYCODES)))) states

/-- `do_successful_sequence_termination(.., i = 1, j, seq_type)` -/
def terminate (e : Eng) (j : Nat) (useOverlap : Bool) : Eng :=
  let st := { e.st with active := false }
  let sequence := if useOverlap then st.overlapped else st.sequence
  match st.mode with
  | .visibleBackspaced =>
    let released := e.states.filterMap (fun s =>
      match s with
      | .normalKey kc _ => if isVbReleasedMod kc then some kc else none
      | _ => none)
    let states1 := e.states.filter (fun s =>
      match s with
      | .normalKey kc _ => !isVbReleasedMod kc
      | _ => true)
    let bs := backspaces sequence st.noerase
    { st := { st with noerase := bs.1 }
      states := clearTyped sequence states1
      out := e.out ++ released.flatMap osRelease ++
        (List.replicate bs.2 [Out.down KC_BSPACE, Out.up KC_BSPACE]).flatten
      taps := e.taps ++ [j] }
  | _ =>
    { st := st, states := clearTyped sequence e.states, out := e.out, taps := e.taps ++ [j] }

abbrev Res := Trie.GetRes Nat

/-- The backtracking loop `for i in (0..state.sequence.len()).rev()` of the standard variant:
index `i` is dropped if it is a bare marker, otherwise its modifier bits (or, without
`sequence-backtrack-modcancel`, only its overlap bit) are cleared; stop at the first variant found
in the trie.  Returns the sequence as left and the last lookup result. -/
def backtrack (t : Trie Nat) (modcancel : Bool) : Nat → List Nat → List Nat × Res
  | 0, seq => (seq, .notInTrie)
  | i + 1, seq =>
    let x := seq.getD i 0
    let seq' :=
      if x = KEY_OVERLAP_MARKER then seq.eraseIdx i
      else if modcancel then seq.set i (x &&& MASK_KEYCODES)
      else seq.set i (x &&& NOT_OVERLAP_MARKER)
    let res := t.getOrDescendant seq'
    if res.isNot then backtrack t modcancel i seq' else (seq', res)

/-- `while res == NotInTrie && !state.sequence.is_empty() { remove(0); res = lookup }` -/
def dropFront (t : Trie Nat) : List Nat → Res → List Nat × Res
  | [], res => ([], res)
  | x :: seq, res =>
    if res.isNot then dropFront t seq (t.getOrDescendant seq) else (x :: seq, res)

/-- The overlap variant's attempts to stay valid.  Returns the overlapped sequence as left, the
last lookup result and `is_invalid_termination_overlapped`.  The Rust code pushes `pov`, and on a
miss overwrites that last element with the bare marker and pushes `pov` again
(`ovl ++ [marker, pov]`), then overwrites the new last element with `pushed`, then with `pushed`
stripped of its modifier bits; the lists below are those vectors. -/
def overlapFix (t : Trie Nat) (ovl : List Nat) (pushed pov : Nat) : List Nat × Res × Bool :=
  let r0 := t.getOrDescendant (ovl ++ [pov])
  if !r0.isNot then (ovl ++ [pov], r0, false) else
  let r1 := t.getOrDescendant (ovl ++ [KEY_OVERLAP_MARKER, pov])
  if !r1.isNot then (ovl ++ [KEY_OVERLAP_MARKER, pov], r1, false) else
  let r2 := t.getOrDescendant (ovl ++ [KEY_OVERLAP_MARKER, pushed])
  if !r2.isNot then (ovl ++ [KEY_OVERLAP_MARKER, pushed], r2, false) else
  if pushed &&& MASK_KEYCODES = pushed then (ovl ++ [KEY_OVERLAP_MARKER, pushed], r2, true) else
  let r3 := t.getOrDescendant (ovl ++ [KEY_OVERLAP_MARKER, pushed &&& MASK_KEYCODES])
  (ovl ++ [KEY_OVERLAP_MARKER, pushed &&& MASK_KEYCODES], r3, r3.isNot)

/-- the right-hand modifiers other than AltGr are tracked as the left-hand one -/
def normaliseMod (k : Nat) : Nat :=
  if k = KC_RSHIFT then KC_LSHIFT else if k = KC_RGUI then KC_LGUI else if k = KC_RCTRL then KC_LCTRL else k

/-- The standard variant: look the sequence up; if it is not in the trie run the backtracking
loop.  Returns the sequence as left, the last lookup result and
`is_invalid_termination_standard`. -/
def stdVariant (t : Trie Nat) (modcancel : Bool) (seq0 : List Nat) : List Nat × Res × Bool :=
  let res0 := t.getOrDescendant seq0
  if res0.isNot then
    let r := backtrack t modcancel seq0.length seq0
    (r.1, r.2, r.2.isNot)
  else (seq0, res0, false)

/-- The `match (is_invalid_termination_standard, is_invalid_termination_overlapped)` block.
Returns the state, `res` and `res_overlapped`. -/
def reconcile (t : Trie Nat) (e : Eng) (std ovl : List Nat × Res × Bool) : Eng × Res × Res :=
  let st := e.st
  match std.2.2, ovl.2.2 with
  | false, false =>
    ({ e with st := { st with sequence := std.1, overlapped := ovl.1 } }, std.2.1, ovl.2.1)
  | false, true =>
    -- "overlap seq is invalid; filling with standard seq"
    ({ e with st := { st with sequence := std.1, overlapped := std.1 } }, std.2.1,
      t.getOrDescendant std.1)
  | true, false =>
    -- "standard seq is invalid; filling with overlap seq"
    let seq2 :=
      if ovl.1.getLast?.getD 0 ≠ KEY_OVERLAP_MARKER ∧ ovl.1.getLast?.getD 0 ≥ KEY_OVERLAP_MARKER then
        ovl.1 ++ [KEY_OVERLAP_MARKER]
      else ovl.1
    ({ e with st := { st with sequence := seq2, overlapped := ovl.1 } }, t.getOrDescendant seq2, ovl.2.1)
  | true, true =>
    -- one more try: drop keys from the front
    let r := dropFront t std.1 std.2.1
    let e := { e with st := { st with sequence := r.1, overlapped := ovl.1 } }
    if r.2.isNot || r.1.isEmpty then (cancelSequence e, r.2, ovl.2.1) else (e, r.2, ovl.2.1)

/-- "Check for successful sequence termination." -/
def finish (t : Trie Nat) (x : Eng × Res × Res) : Eng :=
  let e := x.1
  match x.2.2 with
  | .hasValue j => terminate e j true
  | _ =>
    match x.2.1 with
    | .hasValue j =>
      let ovl := e.st.overlapped ++ [KEY_OVERLAP_MARKER]
      let e := { e with st := { e.st with overlapped := ovl } }
      match t.getOrDescendant ovl with
      | .hasValue oj => terminate e oj true
      | _ => terminate e j false
    | _ => e

/-- The unconditional start of `do_sequence_press_logic`: the timeout is reset, the raw key is
recorded, and in visible-backspaced mode the key is pressed at the OS. -/
def pressBase (e : Eng) (k : Nat) : Eng :=
  { e with
    out := (match e.st.mode with
      | .visibleBackspaced => e.out ++ osPress k
      | _ => e.out)
    st := { e.st with ticksUntilTimeout := e.st.timeout, rawOscs := e.st.rawOscs ++ [k] } }

/-- `do_sequence_press_logic(state, k, mod_mask, kbd_out, sequences, modcancel, layout)` -/
def doSeqPress (t : Trie Nat) (modcancel : Bool) (e : Eng) (k : Nat) (modMask : Nat) : Eng :=
  let pushed := normaliseMod k ||| modMask
  let pov := (pushed &&& MASK_KEYCODES) ||| KEY_OVERLAP_MARKER
  finish t (reconcile t (pressBase e k) (stdVariant t modcancel (e.st.sequence ++ [pushed]))
    (overlapFix t e.st.overlapped pushed pov))

/-! ### the configuration slice and the tick-level machine -/

/-- The action of a physical key on the single layer. -/
inductive Act
  | key (kc : Nat)
  | leader (timeout : Nat) (mode : Mode)
  | cancel
  | noerase (n : Nat)
  | nop
  deriving DecidableEq, Repr

structure Cfg where
  trie : Trie Nat
  modcancel : Bool
  alwaysOn : Bool
  defMode : Mode
  defTimeout : Nat
  /-- row 0 -/
  keymap : List (Nat × Act)
  /-- row 1 (`FAKE_KEY_ROW`): virtual key index ↦ the key code it outputs -/
  vkeys : List Nat

inductive QEv
  | press (coord : Nat × Nat)
  | release (coord : Nat × Nat)
  deriving DecidableEq, Repr

structure Kan where
  queue : List QEv := []
  states : List KState := []
  prevKeys : List Nat := []
  seq : SeqState := {}
  deriving Repr

def Cfg.resolve (c : Cfg) (coord : Nat × Nat) : Act :=
  if coord.1 = 0 then (c.keymap.lookup coord.2).getD .nop
  else match c.vkeys[coord.2]? with
    | some kc => .key kc
    | none => .nop

/-- `Layout::tick` for this slice: one queued event is dequeued; returns the custom action pressed
in this tick, if any. -/
def layoutTick (c : Cfg) (k : Kan) : Kan × Option Act :=
  match k.queue with
  | [] => (k, none)
  | .release co :: q => ({ k with queue := q, states := k.states.filter (fun s => !(s.coord == co)) }, none)
  | .press co :: q =>
    match c.resolve co with
    | .key kc => ({ k with queue := q, states := k.states ++ [.normalKey kc co] }, none)
    | .nop => ({ k with queue := q }, none)
    | a => ({ k with queue := q, states := k.states ++ [.custom co] }, some a)

/-- `get_mod_mask_for_cur_keys` -/
def modMaskOf (cur : List Nat) : Nat := cur.foldl (fun a v => a ||| modMask v) 0

/-- The press loop over `cur_keys` of `handle_keystate_changes`. -/
def pressLoop (c : Cfg) (cur : List Nat) : List Nat → List Nat → Eng → Eng
  | [], _, e => e
  | k :: ks, prev, e =>
    if prev.contains k then pressLoop c cur ks prev e
    else
      let prev := prev ++ [k]
      let e := if c.alwaysOn && !e.st.active then { e with st := e.st.activate c.defMode c.defTimeout } else e
      let e := if e.st.active then doSeqPress c.trie c.modcancel e k (modMaskOf cur)
               else { e with out := e.out ++ osPress k }
      pressLoop c cur ks prev e

/-- The block run when the last held key has just been released. -/
def allReleasedHook (t : Trie Nat) (e : Eng) : Eng :=
  if !e.st.active then e else
  let ovl := e.st.overlapped ++ [KEY_OVERLAP_MARKER]
  let e := { e with st := { e.st with overlapped := ovl } }
  match t.getOrDescendant ovl with
  | .hasValue j => terminate e j true
  | .notInTrie => { e with st := { e.st with overlapped := e.st.sequence } }
  | .inTrie => e

/-- The custom-action arms that concern sequences. -/
def customPress (e : Eng) : Option Act → Except Crash Eng
  | some .cancel => .ok (if e.st.active then cancelSequence e else e)
  | some (.leader timeout mode) =>
    if !e.st.active then .ok { e with st := e.st.activate mode timeout }
    else if mode = .hiddenSuppressed then .ok { e with st := e.st.activate mode timeout }
    else .ok e
  | some (.noerase n) =>
    if e.st.active then
      if e.st.noerase + n > 65535 then .error .noeraseOverflow
      else .ok { e with st := { e.st with noerase := e.st.noerase + n } }
    else .ok e
  | _ => .ok e

/-- `tick_sequence_state` -/
def tickSeq (e : Eng) : Except Crash Eng :=
  if !e.st.active then .ok e
  else if e.st.ticksUntilTimeout = 0 then .error .timeoutUnderflow
  else
    let e := { e with st := { e.st with ticksUntilTimeout := e.st.ticksUntilTimeout - 1 } }
    if e.st.ticksUntilTimeout = 0 then .ok (cancelSequence e) else .ok e

/-- `tick_states` for this slice: `handle_keystate_changes`, `tick_sequence_state`, `prev_keys :=
cur_keys`.  Returns the OS events of this tick. -/
def tick (c : Cfg) (k : Kan) : Except Crash (Kan × List Out) :=
  let (k, custom) := layoutTick c k
  let cur := k.states.filterMap KState.keycode
  let rel := (k.prevKeys.filter (fun x => !cur.contains x)).flatMap osRelease
  let e : Eng := { st := k.seq, states := k.states, out := rel }
  let e := if cur.isEmpty && !k.prevKeys.isEmpty then allReleasedHook c.trie e else e
  let e := pressLoop c cur cur k.prevKeys e
  match customPress e custom with
  | .error x => .error x
  | .ok e =>
    match tickSeq e with
    | .error x => .error x
    | .ok e =>
      let queue := k.queue ++ e.taps.flatMap (fun j => [QEv.press (1, j), QEv.release (1, j)])
      .ok ({ queue := queue, states := e.states, prevKeys := cur, seq := e.st }, e.out)

/-- `handle_input_event` for `KeyValue::Press` / `KeyValue::Release` -/
def Kan.input (k : Kan) (ev : QEv) : Kan := { k with queue := k.queue ++ [ev] }

/-! ### the sequence functions as `tick` drives them

`tick` calls, in this order: `allReleasedHook` (when the last held key has just been released),
`doSeqPress` for every newly pressed key while sequence mode is on (a plain `osPress` otherwise),
`customPress`, `tickSeq`.  The theorems of Props/C12.lean are stated over this stream of calls;
`modMask = 0` is what `get_mod_mask_for_cur_keys` returns when no modifier is held. -/

inductive Inp
  /-- a newly pressed key reaches the press loop (no modifier held) -/
  | key (k : Nat)
  /-- one `tick_sequence_state` -/
  | tick
  /-- the last held key has been released -/
  | released
  deriving DecidableEq, Repr

def engStep (t : Trie Nat) (modcancel : Bool) (e : Eng) : Inp → Except Crash Eng
  | .key k =>
    .ok (if e.st.active then doSeqPress t modcancel e k 0 else { e with out := e.out ++ osPress k })
  | .tick => tickSeq e
  | .released => .ok (allReleasedHook t e)

def engRun (t : Trie Nat) (modcancel : Bool) : Eng → List Inp → Except Crash Eng
  | e, [] => .ok e
  | e, i :: is =>
    match engStep t modcancel e i with
    | .error c => .error c
    | .ok e' => engRun t modcancel e' is

def keysOf : List Inp → List Nat
  | [] => []
  | .key k :: is => k :: keysOf is
  | _ :: is => keysOf is

/-- every key arrives before the timeout: `b` is the number of `tick_sequence_state` calls that may
still happen before the next key (`ticks_until_timeout`), `T` the configured timeout -/
def WellTimed (T : Nat) : Nat → List Inp → Prop
  | _, [] => True
  | b, .tick :: r => 1 < b ∧ WellTimed T (b - 1) r
  | b, .released :: r => WellTimed T b r
  | _, .key _ :: r => WellTimed T T r

end KVerif.Seq
