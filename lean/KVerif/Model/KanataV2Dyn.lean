/-
[dyn] `Kanata::tick_ms` over the layout with chords v2 (twin of Model/KanataDynTick.lean): the replay
event goes through `KV2.event`, i.e. into the chords-v2 queue when `defchordsv2` is configured.
-/
import KVerif.Model.KanataV2
import KVerif.Model.KanataDynTick
namespace KVerif.K
open KVerif KVerif.L

/-- the replay step after `tick_states` -/
def replayFeedV2 (s : KV2) : Except Crash (KV2 × Nat) :=
  match tickReplayK s.k with
  | (k1, none) => .ok ({ s with k := k1 }, 0)
  | (k1, some (e, d)) =>
    match ({ s with k := k1 } : KV2).event (replayEvent e) with
    | .error c => .error (.layout c)
    | .ok s1 => .ok ({ s1 with k := { s1.k with dyn := { s1.k.dyn with fed := s1.k.dyn.fed ++ [e] } } }, d)

def msMainLoopV2 : Nat → KV2 → Nat → Except Crash (KV2 × Nat)
  | 0, s, extra => .ok (s, extra)
  | n + 1, s, extra =>
    match tickStatesV2 s with
    | .error c => .error c
    | .ok s1 =>
      match replayFeedV2 s1 with
      | .error c => .error c
      | .ok (s2, d) => msMainLoopV2 n s2 (DynMacro.satAdd extra d)

def msExtraLoopV2 : Nat → KV2 → Except Crash KV2
  | 0, s => .ok s
  | n + 1, s =>
    match tickStatesV2 s with
    | .error c => .error c
    | .ok s1 =>
      match tickReplayK s1.k with
      | (k2, none) => msExtraLoopV2 n { s1 with k := k2 }
      | (k2, some (e, _)) => .ok { s1 with k := { k2 with dyn := { k2.dyn with lost := k2.dyn.lost ++ [e] } } }

/-- `Kanata::tick_ms` -/
def tickMsV2 (ms : Nat) (s : KV2) : Except Crash KV2 :=
  match msMainLoopV2 ms s 0 with
  | .error c => .error c
  | .ok (s1, extra) => msExtraLoopV2 (extra - DynMacro.msAsU16 s1.k.dyn.fix ms) s1

end KVerif.K
