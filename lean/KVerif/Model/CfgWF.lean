/-
`CfgWF`: what the run-time state machine relies on without checking it (C02: "the run-time never
depends on a check that the parser does not enforce"). Evaluated by the driver on the configuration
the REAL parser produced; a violation is reported with the configuration as the failing input.
-/
import KVerif.Model.Kanata
namespace KVerif.WF
open KVerif.L KVerif.K

/-- nesting of boolean operators and end indices of a switch case's opcode array -/
def opsOK (ops : List Nat) : Bool :=
  let rec go : Nat → Nat → List Nat → Bool   -- fuel, index, stack of end indices
    | 0, _, _ => false
    | fuel + 1, i, stack =>
      if i ≥ ops.length then true
      else
        let stack := stack.filter (· > i)
        match ops[i]? with
        | none => true
        | some op =>
          match Switch.decode op ops[i+1]? with
          | .error _ => false
          | .ok (.boolOp _ e) =>
            e ≤ ops.length && e > i && stack.all (e ≤ ·) && stack.length < Switch.MAX_BOOL_EXPR_DEPTH &&
              go fuel (i + 1) (e :: stack)
          | .ok t => go fuel (i + Switch.opWidth t) stack
  go (ops.length + 1) 0 []

partial def actionWF (nLayers : Nat) : Action → Option String
  | .layer l => if l < nLayers then none else some s!"layer {l} out of range"
  | .releaseState (.layer l) => if l < nLayers then none else some s!"release-layer {l} out of range"
  | .multipleActions acs => acs.findSome? (actionWF nLayers)
  | .holdTap _ h t ta _ _ => (actionWF nLayers h).orElse fun _ => (actionWF nLayers t).orElse fun _ => actionWF nLayers ta
  | .oneShot a _ _ => actionWF nLayers a
  | .tapDance acs _ _ =>
    if acs.isEmpty then some "tap-dance with no actions" else acs.findSome? (actionWF nLayers)
  | .chords coords chs _ =>
    if coords.isEmpty then some "chord group with no keys" else chs.findSome? fun c => actionWF nLayers c.2
  | .fork l r _ => (actionWF nLayers l).orElse fun _ => actionWF nLayers r
  | .switch cases =>
    cases.findSome? fun c =>
      if !opsOK c.1 then some "malformed switch opcodes" else actionWF nLayers c.2.1
  | _ => none

def cactWF (rowLen : Nat) : CAct → Option String
  | .mwheel _ interval _ => if interval == 0 then some "mwheel interval 0" else none
  | .moveMouse _ interval => if interval == 0 then some "movemouse interval 0" else none
  | .fakeKey c _ | .fakeKeyOnRelease c _ | .fakeKeyOnIdle c _ _ | .fakeKeyHold c _ =>
    if c.1 < 2 && c.2 < rowLen then none else some s!"virtual key coordinate {c.1},{c.2} out of range"
  | _ => none

/-- first violated assumption, if any -/
def cfgWF (k : KState) : Option String :=
  let n := k.layout.cfg.layers.length
  (k.layout.cfg.layers.findSome? fun tbl => tbl.findSome? fun e => actionWF n e.2).orElse fun _ =>
  (k.layout.cfg.srcKeys.findSome? fun e => match e.2 with
    | .keyCode _ | .noOp => none
    | _ => some "defsrc entry is not a plain key").orElse fun _ =>
  (k.customs.findSome? fun l => l.findSome? (cactWF k.layout.cfg.cols)).orElse fun _ =>
  if n == 0 then some "no layers" else none

end KVerif.WF
