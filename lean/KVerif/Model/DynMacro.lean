/-
Model of src/kanata/dynamic_macro.rs (whole file) and of the places in src/kanata/mod.rs that
drive it: `handle_input_event` (record_press / record_release), the `DynamicMacro*` custom actions
in `handle_keystate_changes`, `tick_states` (tick_record_state) and `tick_ms` (tick_replay_state and
the `extra_ticks` loop).

Conventions: u16 values are `Nat`s with explicit saturation where the Rust code saturates.  The only
unchecked arithmetic of the slice is `macro_items.len() - 1` in `begin_record_macro` and
`stop_macro`; it is a `Crash` outcome.  `fix = true` is the code after the proposed `fix:` patch
(`macro_items.pop()` instead of `remove(len() - 1)`, and `ms_elapsed` clamped instead of wrapped when
it is converted to u16 in `tick_ms`), `fix = false` the pinned code.
`HashSet` iteration order (`add_release_for_all_unreleased_presses`) is "some permutation": the
functions take the permutation to use as a *hint* and fall back to insertion order when the hint is
not a permutation of the set; the theorems hold for every hint.
The keyberon layout is abstract (`LayoutI`): the glue is modelled over any layout; `Flat` is the
concrete single-layer layout of plain keys and dynamic-macro keys that the correspondence check runs.
-/
namespace KVerif.DynMacro

def U16_MAX : Nat := 65535

/-- `u16::saturating_add` -/
def satAdd (a b : Nat) : Nat := min (a + b) U16_MAX

/-- `DynamicMacroItem` -/
inductive Item
  | press (osc delay : Nat)
  | release (osc delay : Nat)
  | endMacro (id : Nat)
  deriving DecidableEq, Repr

/-- `WaitingEventType` -/
inductive Wt | press | release
  deriving DecidableEq, Repr

inductive Crash
  | beginLenMinusOne   -- `state.macro_items.len() - 1` in `begin_record_macro` on an empty Vec
  | stopLenMinusOne    -- the same expression in `stop_macro`
  deriving DecidableEq, Repr

/-- `DynamicMacroRecordState` -/
structure Rec where
  id : Nat                       -- starting_macro_id
  waiting : Option (Nat × Wt)    -- waiting_event: the one-event lag
  items : List Item              -- macro_items, in push order
  delay : Nat                    -- current_delay
  deriving DecidableEq, Repr

/-- `DynamicMacroRecordState::new` -/
def Rec.new (id : Nat) : Rec := { id := id, waiting := none, items := [], delay := 0 }

def mkItem : Nat × Wt → Nat → Item
  | (osc, .press), d => .press osc d
  | (osc, .release), d => .release osc d

/-- `if let Some(pending_event) = state.waiting_event.take() { macro_items.push(..) }`: the block that
`add_event`, `begin_record_macro` and `stop_macro` share. -/
def Rec.flushItems (r : Rec) : List Item :=
  match r.waiting with
  | none => r.items
  | some w => r.items ++ [mkItem w r.delay]

/-- `DynamicMacroRecordState::add_event` -/
def Rec.addEvent (r : Rec) (osc : Nat) (t : Wt) : Rec :=
  { r with items := r.flushItems, delay := 0, waiting := some (osc, t) }

/-- the `pressed_oscs` set of `add_release_for_all_unreleased_presses` after scanning `items`,
starting from `s` (kept duplicate-free, in insertion order) -/
def scan (s : List Nat) : List Item → List Nat
  | [] => s
  | .press o _ :: r => scan (if o ∈ s then s else s ++ [o]) r
  | .release o _ :: r => scan (s.filter (· != o)) r
  | .endMacro _ :: r => scan s r

def unreleased (items : List Item) : List Nat := scan [] items

/-- the order in which the hash set is iterated: the last `u.length` entries of the hint when they
are a permutation of `u`, else `u` itself -/
def orderBy (hint u : List Nat) : List Nat :=
  let h := hint.drop (hint.length - u.length)
  if h.isPerm u then h else u

/-- `add_release_for_all_unreleased_presses` -/
def addReleases (hint : List Nat) (items : List Item) : List Item :=
  items ++ (orderBy hint (unreleased items)).map (Item.release · 0)

/-- `macro_items.remove(macro_items.len() - 1)` (pinned) / `macro_items.pop()` (fixed) -/
def removeLast (fix : Bool) (site : Crash) (l : List Item) : Except Crash (List Item) :=
  if l.isEmpty && !fix then .error site else .ok l.dropLast

abbrev Saved := Option (Nat × List Item)

/-- `begin_record_macro` -/
def beginRecord (fix : Bool) (hint : List Nat) (id : Nat) :
    Option Rec → Except Crash (Option Rec × Saved)
  | none => .ok (some (Rec.new id), none)
  | some st =>
    match removeLast fix .beginLenMinusOne st.flushItems with
    | .error c => .error c
    | .ok items =>
      .ok (if st.id = id then none else some (Rec.new id), some (st.id, addReleases hint items))

/-- `record_press` -/
def recordPress (hint : List Nat) (maxPresses osc : Nat) : Option Rec → Option Rec × Saved
  | none => (none, none)
  | some st =>
    if st.items.length > maxPresses * 2 then (none, some (st.id, addReleases hint st.items))
    else (some (st.addEvent osc .press), none)

/-- `record_release` -/
def recordRelease (osc : Nat) : Option Rec → Option Rec
  | none => none
  | some st => some (st.addEvent osc .release)

/-- `tick_record_state` -/
def tickRecord : Option Rec → Option Rec
  | none => none
  | some st => some { st with delay := satAdd st.delay 1 }

/-- `stop_macro` -/
def stopMacro (fix : Bool) (hint : List Nat) (n : Nat) :
    Option Rec → Except Crash (Option Rec × Saved)
  | none => .ok (none, none)
  | some st =>
    match removeLast fix .stopLenMinusOne st.flushItems with
    | .error c => .error c
    | .ok items =>
      .ok (none, some (st.id, addReleases hint (items.take (items.length - n))))

/-- `DynamicMacroReplayState` -/
structure Replay where
  active : List Nat      -- active_macros (HashSet, duplicate-free list)
  delay : Nat            -- delay_remaining
  queue : List Item      -- macro_items (VecDeque), front first
  deriving DecidableEq, Repr

/-- `dynamic_macros: HashMap<u16, Vec<DynamicMacroItem>>` as an association list -/
abbrev Store := List (Nat × List Item)

def Store.get (s : Store) (id : Nat) : Option (List Item) :=
  match s with
  | [] => none
  | (k, v) :: r => if k = id then some v else Store.get r id

def Store.insert (s : Store) (id : Nat) (v : List Item) : Store :=
  match s with
  | [] => [(id, v)]
  | (k, w) :: r => if k = id then (k, v) :: r else (k, w) :: Store.insert r id v

def Store.save (s : Store) : Saved → Store
  | none => s
  | some (id, v) => s.insert id v

/-- `play_macro` -/
def playMacro (id : Nat) (store : Store) : Option Replay → Option Replay
  | none =>
    match store.get id with
    | none => none
    | some items => some { active := [id], delay := 0, queue := items }
  | some st =>
    if id ∈ st.active then some st
    else match store.get id with
      | none => some st
      | some items =>
        some { st with active := st.active ++ [id], queue := items ++ .endMacro id :: st.queue }

/-- `ReplayDelayBehaviour` -/
inductive Beh | constant | recorded
  deriving DecidableEq, Repr

/-- a key event handed to `layout.event` (`Event::Press(0, osc)` / `Event::Release(0, osc)`) -/
structure KeyEv where
  press : Bool
  osc : Nat
  deriving DecidableEq, Repr

/-- `tick_replay_state`: the new state and the `ReplayEvent` (event, delay), if any -/
def tickReplay (beh : Beh) : Option Replay → Option Replay × Option (KeyEv × Nat)
  | none => (none, none)
  | some st =>
    if st.delay - 1 = 0 then
      match st.queue with
      | [] => (none, none)
      | .press k d :: q =>
        (match beh with
         | .constant => (some { st with delay := 5, queue := q }, some (⟨true, k⟩, 0))
         | .recorded => (some { st with delay := d, queue := q }, some (⟨true, k⟩, d)))
      | .release k d :: q =>
        (match beh with
         | .constant => (some { st with delay := 5, queue := q }, some (⟨false, k⟩, 0))
         | .recorded => (some { st with delay := d, queue := q }, some (⟨false, k⟩, d)))
      | .endMacro id :: q =>
        (some { active := st.active.filter (· != id), delay := 5, queue := q }, none)
    else (some { st with delay := st.delay - 1 }, none)

/-! ## The glue in src/kanata/mod.rs, over an abstract layout -/

/-- the three `CustomAction::DynamicMacro*` variants -/
inductive Act
  | record (id : Nat)
  | stop (n : Nat)
  | play (id : Nat)
  deriving DecidableEq, Repr

/-- an OS key event written to `kbd_out` -/
structure OsEv where
  down : Bool
  code : Nat
  deriving DecidableEq, Repr

/-- What the glue needs from keyberon + `handle_keystate_changes`: registering an event, and one
tick, which yields the dynamic-macro custom actions that fire in this tick and the OS key events
written before them. -/
structure LayoutI (L : Type) where
  event : L → KeyEv → L
  tick : L → L × List Act × List OsEv

structure Cfg where
  fix : Bool
  beh : Beh
  maxPresses : Nat

/-- The slice of `Kanata` that matters here.  `fed`, `lost`, `os` and `nticks` are ghost logs:
the events handed to `layout.event` by the replay, the events popped by the `extra_ticks` loop and
thrown away ("overshot ... the code is broken!"), the OS events with the number of the
`tick_states` call that wrote them, and the number of `tick_states` calls so far. -/
structure K (L : Type) where
  lay : L
  rcd : Option Rec := none
  rep : Option Replay := none
  store : Store := []
  hint : List Nat := []
  fed : List KeyEv := []
  lost : List KeyEv := []
  os : List (Nat × OsEv) := []
  nticks : Nat := 0

/-- `handle_input_event` for `KeyValue::Press` / `KeyValue::Release` -/
def handleInput {L} (I : LayoutI L) (c : Cfg) (k : K L) (e : KeyEv) : K L :=
  if e.press then
    let (r, saved) := recordPress k.hint c.maxPresses e.osc k.rcd
    { k with rcd := r, store := k.store.save saved, lay := I.event k.lay e }
  else
    { k with rcd := recordRelease e.osc k.rcd, lay := I.event k.lay e }

/-- one `CustomAction::DynamicMacro*` arm of `handle_keystate_changes` -/
def doAct {L} (c : Cfg) (k : K L) : Act → Except Crash (K L)
  | .record id =>
    match beginRecord c.fix k.hint id k.rcd with
    | .error e => .error e
    | .ok (r, saved) => .ok { k with rcd := r, store := k.store.save saved }
  | .stop n =>
    match stopMacro c.fix k.hint n k.rcd with
    | .error e => .error e
    | .ok (r, saved) => .ok { k with rcd := r, store := k.store.save saved }
  | .play id => .ok { k with rep := playMacro id k.store k.rep }

def doActs {L} (c : Cfg) (k : K L) : List Act → Except Crash (K L)
  | [] => .ok k
  | a :: r =>
    match doAct c k a with
    | .error e => .error e
    | .ok k' => doActs c k' r

/-- `tick_states`: `handle_keystate_changes` (layout tick, key output, custom actions), then
`tick_record_state` -/
def tickStates {L} (I : LayoutI L) (c : Cfg) (k : K L) : Except Crash (K L) :=
  let (lay', acts, os) := I.tick k.lay
  match doActs c { k with lay := lay', os := k.os ++ os.map (fun e => (k.nticks, e)) } acts with
  | .error e => .error e
  | .ok k2 => .ok { k2 with rcd := tickRecord k2.rcd, nticks := k2.nticks + 1 }

/-- first loop of `tick_ms`: `for _ in 0..ms_elapsed` -/
def mainLoop {L} (I : LayoutI L) (c : Cfg) : Nat → K L → Nat → Except Crash (K L × Nat)
  | 0, k, extra => .ok (k, extra)
  | n + 1, k, extra =>
    match tickStates I c k with
    | .error e => .error e
    | .ok k1 =>
      match tickReplay c.beh k1.rep with
      | (rep', none) => mainLoop I c n { k1 with rep := rep' } extra
      | (rep', some (e, d)) =>
        mainLoop I c n { k1 with rep := rep', lay := I.event k1.lay e, fed := k1.fed ++ [e] }
          (satAdd extra d)

/-- second loop of `tick_ms`: `for i in 0..(extra_ticks.saturating_sub(ms_elapsed as u16))`, with
its `break` when an event is popped -/
def extraLoop {L} (I : LayoutI L) (c : Cfg) : Nat → K L → Except Crash (K L)
  | 0, k => .ok k
  | n + 1, k =>
    match tickStates I c k with
    | .error e => .error e
    | .ok k1 =>
      match tickReplay c.beh k1.rep with
      | (rep', none) => extraLoop I c n { k1 with rep := rep' }
      | (rep', some (e, _)) => .ok { k1 with rep := rep', lost := k1.lost ++ [e] }

/-- the u16 that `extra_ticks` is compared with: `ms_elapsed as u16` wraps (pinned code);
`u16::try_from(ms_elapsed).unwrap_or(u16::MAX)` clamps (fixed code) -/
def msAsU16 (fix : Bool) (ms : Nat) : Nat := if fix then min ms U16_MAX else ms % 65536

/-- `tick_ms` -/
def tickMs {L} (I : LayoutI L) (c : Cfg) (ms : Nat) (k : K L) : Except Crash (K L) :=
  match mainLoop I c ms k 0 with
  | .error e => .error e
  | .ok (k1, extra) => extraLoop I c (extra - msAsU16 c.fix ms) k1

/-- what the outside world does to `Kanata` -/
inductive Input
  | key (e : KeyEv)          -- handle_input_event
  | tick (ms : Nat)          -- tick_ms
  | hint (h : List Nat)      -- (model only) the hash-set order to use from now on
  deriving Repr

def step {L} (I : LayoutI L) (c : Cfg) (k : K L) : Input → Except Crash (K L)
  | .key e => .ok (handleInput I c k e)
  | .tick ms => tickMs I c ms k
  | .hint h => .ok { k with hint := h }

def run {L} (I : LayoutI L) (c : Cfg) (k : K L) : List Input → Except Crash (K L)
  | [] => .ok k
  | i :: r =>
    match step I c k i with
    | .error e => .error e
    | .ok k' => run I c k' r

/-! ## A concrete layout: one layer of plain keys and dynamic-macro keys

Mirrors, for such configurations, `Layout::event` (32-slot wrapping queue), `Layout::tick`
(one queued event is dequeued per tick), `do_action` for `KeyCode`, `Custom` and
`MultipleActions [KeyCode, Custom]` (64-slot `states`), `dequeue` of a release, `keycodes()`, and the
release/press diff of `handle_keystate_changes`. -/

structure KeyDef where
  osc : Nat
  out : Option Nat      -- the key code it outputs, if any
  acts : List Act       -- the dynamic-macro custom actions it fires on press
  deriving Repr

def QUEUE_SIZE : Nat := 32
def STATES_CAP : Nat := 64

structure Flat where
  queue : List KeyEv := []
  states : List (Nat × Option Nat) := []   -- (coord, NormalKey keycode | Custom)
  prev : List Nat := []                    -- prev_keys
  deriving Repr

def findKey (keys : List KeyDef) (osc : Nat) : Option KeyDef :=
  keys.find? (·.osc == osc)

def pushState (st : List (Nat × Option Nat)) (x : Nat × Option Nat) : Option (List (Nat × Option Nat)) :=
  if st.length < STATES_CAP then some (st ++ [x]) else none

/-- `Layout::dequeue` → `do_action`: new states and the custom actions returned -/
def flatDequeue (keys : List KeyDef) (st : List (Nat × Option Nat)) (e : KeyEv) :
    List (Nat × Option Nat) × List Act :=
  if e.press then
    match findKey keys e.osc with
    | none => (st, [])
    | some kd =>
      let st1 := match kd.out with
        | none => st
        | some kc => (pushState st (e.osc, some kc)).getD st
      if kd.acts.isEmpty then (st1, [])
      else match pushState st1 (e.osc, none) with
        | none => (st1, [])
        | some st2 => (st2, kd.acts)
  else (st.filter (·.1 != e.osc), [])

/-- `Layout::event`: on overflow of the wrapping queue the oldest event is dequeued at once and its
custom event is dropped -/
def flatEvent (keys : List KeyDef) (l : Flat) (e : KeyEv) : Flat :=
  match l.queue with
  | [] => { l with queue := [e] }
  | o :: q =>
    if l.queue.length < QUEUE_SIZE then { l with queue := l.queue ++ [e] }
    else { l with queue := q ++ [e], states := (flatDequeue keys l.states o).1 }

def dedup : List Nat → List Nat
  | [] => []
  | x :: r => x :: (dedup r).filter (· != x)

def flatTick (keys : List KeyDef) (l : Flat) : Flat × List Act × List OsEv :=
  let (st, acts, q) := match l.queue with
    | [] => (l.states, [], [])
    | e :: q => let r := flatDequeue keys l.states e; (r.1, r.2, q)
  let cur := st.filterMap (·.2)
  let rel := (l.prev.filter (fun k => !cur.contains k)).map (OsEv.mk false)
  let prs := (dedup (cur.filter (fun k => !l.prev.contains k))).map (OsEv.mk true)
  ({ queue := q, states := st, prev := cur }, acts, rel ++ prs)

def flatI (keys : List KeyDef) : LayoutI Flat :=
  { event := flatEvent keys, tick := flatTick keys }

/-! ## Specification: what a recording should contain, said directly in terms of what was typed -/

/-- what happens between the start and the end of a recording -/
inductive RecEv
  | press (osc : Nat)
  | release (osc : Nat)
  | tick
  deriving DecidableEq, Repr

/-- number of ticks before the next key event, as a saturating u16 -/
def leadTicks : List RecEv → Nat
  | .tick :: r => min (leadTicks r + 1) U16_MAX
  | _ => 0

/-- The typed key events, each with the time that passed until the next one (the last one: until
now). Ticks before the first key event do not count. -/
def timed : List RecEv → List Item
  | [] => []
  | .tick :: r => timed r
  | .press o :: r => .press o (leadTicks r) :: timed r
  | .release o :: r => .release o (leadTicks r) :: timed r

/-- number of key events -/
def keyCount : List RecEv → Nat
  | [] => 0
  | .tick :: r => keyCount r
  | _ :: r => keyCount r + 1

/-- What a stop with truncation `n` must store (up to the order of the trailing releases): the
typed events without the last one (the stop key) and without `n` more, then a release for every key
that these leave down. -/
def specBody (n : Nat) (evs : List RecEv) : List Item :=
  (timed evs).take ((timed evs).length - 1 - n)

/-- keys that `items` leave down: pressed, and not released afterwards -/
def leftDown (items : List Item) : List Nat := unreleased items

/-- The recording functions as `handle_input_event` / `tick_states` call them between the start and
the end of a recording: the real `record_press` (with its limit), `record_release`,
`tick_record_state`.  A macro saved on the way (limit reached) goes to the store. -/
def recOp (hint : List Nat) (max : Nat) (s : Option Rec × Store) : RecEv → Option Rec × Store
  | .press o => ((recordPress hint max o s.1).1, s.2.save (recordPress hint max o s.1).2)
  | .release o => (recordRelease o s.1, s.2)
  | .tick => (tickRecord s.1, s.2)

def recordAll (hint : List Nat) (max : Nat) (s : Option Rec × Store) (evs : List RecEv) :
    Option Rec × Store := evs.foldl (recOp hint max) s

/-! ### the one-layer layout, seen from outside -/

inductive FlatOp
  | ev (e : KeyEv)
  | tick
  deriving DecidableEq, Repr

/-- run events and ticks on the one-layer layout, collecting the OS key events in order -/
def flatRun (keys : List KeyDef) (l : Flat) : List FlatOp → Flat × List OsEv
  | [] => (l, [])
  | .ev e :: r => flatRun keys (flatEvent keys l e) r
  | .tick :: r =>
    let t := flatTick keys l
    let rest := flatRun keys t.1 r
    (rest.1, t.2.2 ++ rest.2)

def eventsOf : List FlatOp → List KeyEv
  | [] => []
  | .ev e :: r => e :: eventsOf r
  | .tick :: r => eventsOf r

/-- every event is followed by a tick before the next event arrives -/
def Spaced : List FlatOp → Bool
  | [] => true
  | .tick :: r => Spaced r
  | .ev _ :: .tick :: r => Spaced r
  | _ => false

/-- the key diff of `handle_keystate_changes`: releases of what is no longer there, then presses of
what is new -/
def osDiff (prev cur : List Nat) : List OsEv :=
  (prev.filter (fun k => !cur.contains k)).map (OsEv.mk false) ++
    (dedup (cur.filter (fun k => !prev.contains k))).map (OsEv.mk true)

def keycodes (st : List (Nat × Option Nat)) : List Nat := st.filterMap (·.2)

/-- the layout states after a sequence of events -/
def flatStates (keys : List KeyDef) (st : List (Nat × Option Nat)) : List KeyEv → List (Nat × Option Nat)
  | [] => st
  | e :: r => flatStates keys (flatDequeue keys st e).1 r

/-- the OS key events a sequence of events produces when each is processed in a tick of its own -/
def flatTrace (keys : List KeyDef) (st : List (Nat × Option Nat)) : List KeyEv → List OsEv
  | [] => []
  | e :: r =>
    osDiff (keycodes st) (keycodes (flatDequeue keys st e).1) ++ flatTrace keys (flatDequeue keys st e).1 r

end KVerif.DynMacro
