/-
C20 specification: what the property statement requires of the text in the receiving application,
as a function of the dictionary and the user's key history.  It is deliberately independent of the
state machine in Model/Zippy.lean: it only uses the dictionary (`Dict`, `level`, the lines as
written), the text buffer (Model/TextBuf.lean) and the times at which the layout hands queued events
to the output stage (one event per tick).

The specification speaks (`some …`) about two classes of histories and is silent (`none`) about all
others (an unreleased event left in the queue, a single tick item above 5000 after the first
non-modifier key, …).

A. *plain taps and chord chains* (`specChain`).  Optional modifiers (shift / AltGr) pressed first and
   held to the end; then a sequence of holds (all keys of a hold are released before the next hold
   begins; the last hold may stay down), each of which is read as

   * a plain tap: one key that is no top-level chord → its character is typed; or
   * the chords `c1 … cm` of one dictionary line (the longest line that matches the coming holds),
     each hold pressed completely — keys in ANY order, the last press less than
     `on-first-press-chord-deadline` ticks after the first (0 = no deadline) — and released
     beginning less than that deadline after its last press (the deadline restarts at an
     activation; holding longer disables zippychord by design).  A chain that comes after plain
     typing must start at least `idle-reactivate-time` ticks after the last release of that typing;
     a chain directly after a chain needs no pause.

   Required text: everything before the chain, then exactly the line's expansion — its first
   keystroke under the user's shift — then the smart space when configured; with `smart-space full`
   a punctuation keystroke directly after an activation (a plain tap, or the first key of the next
   chain) removes that smart space first.  Required modifiers at the end: exactly the ones held.

   Silent when: a key zippychord ignores (ctrl, esc, backspace, …) is used; the dictionary has
   no-erase outputs (dead keys are not interpreted) or an expansion whose Backspaces delete text it
   did not type itself; the line's expansion is empty; a hold that follows a chain contains one of
   that chain's follow-up chords without continuing it as a line.

B. *no chord possible* (`specPassthrough`): a physically consistent history in which the set of held
   keys never contains all keys of any top-level chord.  Required: text and modifiers are exactly
   what the user's own key events produce.
-/
import KVerif.Model.Zippy
namespace KVerif.Zippy
open KVerif.TextBuf

def ZchOut.shift (o : ZchOut) : Bool := o.kind = .upper || o.kind = .shiftAltGr
def ZchOut.ag (o : ZchOut) : Bool := o.kind = .altGr || o.kind = .shiftAltGr

/-- The text after the keystrokes of an expansion; `sh` = the user's shift, which applies to the
first keystroke only. -/
def typeOuts : List Ch → Bool → List ZchOut → List Ch
  | rt, _, [] => rt
  | rt, sh, o :: os => typeOuts (stroke rt o.osc (o.shift || sh) o.ag) false os

/-- `n` layout ticks starting at time `t`: one queued event is taken per tick. -/
def popTicks (t : Nat) (q : List InEv) : Nat → List (InEv × Nat) × Nat × List InEv
  | 0 => ([], t, q)
  | n + 1 =>
    match q with
    | [] => ([], t + n + 1, [])
    | e :: q' =>
      let (l, t', q'') := popTicks (t + 1) q' n
      ((e, t) :: l, t', q'')

/-- Processing time of every queued event. -/
def eventTimes (t : Nat) (q : List InEv) : List HEv → List (InEv × Nat)
  | [] => []
  | .press k :: r => eventTimes t (q ++ [.press k]) r
  | .release k :: r => eventTimes t (q ++ [.release k]) r
  | .ticks n :: r =>
    let (l, t', q') := popTicks t q n
    l ++ eventTimes t' q' r

/-- Events still queued at the end of the history. -/
def pendingAtEnd : List InEv → List HEv → Nat
  | q, [] => q.length
  | q, .press k :: r => pendingAtEnd (q ++ [.press k]) r
  | q, .release k :: r => pendingAtEnd (q ++ [.release k]) r
  | q, .ticks n :: r => pendingAtEnd (q.drop n) r

def isModKey (k : Nat) : Bool := k = KEY_LEFTSHIFT || k = KEY_RIGHTSHIFT || k = KEY_RIGHTALT

/-- A hold: keys pressed (with times, in press order), then released. -/
structure Hold where
  presses : List (Nat × Nat)
  releases : List (Nat × Nat)
  deriving Repr

def Hold.keys (h : Hold) : Key := chordKey (h.presses.map (·.1))
def Hold.complete (h : Hold) : Bool :=
  h.releases.length = h.presses.length && h.presses.all (fun p => h.releases.any (fun r => r.1 = p.1))
def Hold.firstPress (h : Hold) : Nat := (h.presses.head?.map (·.2)).getD 0
def Hold.lastPress (h : Hold) : Nat := (h.presses.getLast?.map (·.2)).getD 0
def Hold.firstRelease (h : Hold) : Nat := (h.releases.head?.map (·.2)).getD 0
def Hold.lastRelease (h : Hold) : Nat := (h.releases.getLast?.map (·.2)).getD 0

/-- Splits timed non-modifier events into holds; `none` if a key is pressed while another hold is
being released, pressed twice, or released without being held. -/
def splitHolds : List Hold → Option Hold → List (InEv × Nat) → Option (List Hold)
  | acc, cur, [] =>
    match cur with
    | none => some acc.reverse
    | some h => some (h :: acc).reverse
  | acc, cur, (.press k, t) :: r =>
    match cur with
    | none => splitHolds acc (some ⟨[(k, t)], []⟩) r
    | some h =>
      if h.releases.isEmpty then
        if h.presses.any (·.1 = k) then none else splitHolds acc (some { h with presses := h.presses ++ [(k, t)] }) r
      else if h.complete then splitHolds (h :: acc) (some ⟨[(k, t)], []⟩) r
      else none
  | acc, cur, (.release k, t) :: r =>
    match cur with
    | none => none
    | some h =>
      if h.presses.any (·.1 = k) && !h.releases.any (·.1 = k) then
        splitHolds acc (some { h with releases := h.releases ++ [(k, t)] }) r
      else none

structure Required where
  rtext : List Ch
  mods : List Nat      -- modifier keys down at the end, sorted
  deriving Repr

def rootKeys (d : Dict) : List Key := (level d []).map (·.1)

/-- Class B: the user's own events, provided no top-level chord is ever completely held. -/
def specPassthrough (d : Dict) (evs : List (InEv × Nat)) : Option Required :=
  let rec go (held : List Nat) (b : Buf) : List (InEv × Nat) → Option Buf
    | [] => some b
    | (.press k, _) :: r =>
      if held.contains k then none
      else
        let held := k :: held
        if (rootKeys d).any (fun key => isSubsetOf key held) then none
        else go held (b.step (.down k)) r
    | (.release k, _) :: r =>
      if !held.contains k then none else go (held.filter (· ≠ k)) (b.step (.up k)) r
  match go [] Buf.empty evs with
  | none => none
  | some b =>
    some ⟨b.rtext, (if b.lsft then [KEY_LEFTSHIFT] else []) ++ (if b.rsft then [KEY_RIGHTSHIFT] else []) ++
                   (if b.ralt then [KEY_RIGHTALT] else [])⟩

/-- Every Backspace of the expansion deletes a character typed earlier by the same expansion.
(An expansion that deletes text typed before it cannot be taken back when a longer chord or a
follow-up supersedes it; the specification is silent on dictionaries containing one.) -/
def selfContained : Nat → List ZchOut → Bool
  | _, [] => true
  | n, o :: os =>
    if o.osc = KEY_BACKSPACE then (n > 0 && selfContained (n - 1) os) else selfContained (n + 1) os

/-- The explicit dictionary line reached by a path of key sets, if any. -/
def lineAt (lines : List DLine) (path : Path) : Option DLine :=
  lines.find? (fun l => l.chords.map chordKey = path)

def modsList (mods : List Nat) : List Nat :=
  (if mods.contains KEY_LEFTSHIFT then [KEY_LEFTSHIFT] else []) ++
  (if mods.contains KEY_RIGHTSHIFT then [KEY_RIGHTSHIFT] else []) ++
  (if mods.contains KEY_RIGHTALT then [KEY_RIGHTALT] else [])

/-- The keystroke (key under the held modifiers) as the `ZchOutput` it is compared as. -/
def strokeOut (sh ag : Bool) (k : Nat) : ZchOut :=
  match sh, ag with
  | false, false => ⟨.lower, false, k⟩
  | true, false => ⟨.upper, false, k⟩
  | false, true => ⟨.altGr, false, k⟩
  | true, true => ⟨.shiftAltGr, false, k⟩

/-- State of the class-A reading of a history. -/
structure SpecSt where
  rt : List Ch                  -- required text so far
  smart : Bool                  -- the previous item was an activation that added a removable smart space
  idleFrom : Option Nat         -- time of the last release of plain typing (chords need an idle time after it)
  ctx : Path                    -- path of the chain just completed if it has follow-ups, else []

/-- Class A: a sequence of plain taps and chord chains. `fuel` = number of holds. -/
def specItems (cfg : Cfg) (lines : List DLine) (sh ag : Bool) :
    Nat → SpecSt → List Hold → Option (List Ch)
  | _, st, [] => some st.rt
  | 0, _, _ :: _ => none
  | fuel + 1, st, h :: rest =>
    let d := cfg.dict
    let firstKey := (h.presses.head?.map (·.1)).getD 0
    -- a punctuation keystroke directly after an activation removes the smart space
    let rt0 := if st.smart && cfg.punctuation.contains (strokeOut sh ag firstKey) then st.rt.tail else st.rt
    -- a hold that contains a follow-up chord of the chain just completed without continuing it: not covered
    let ambiguous := ((level d st.ctx).map (·.1)).any (fun k => st.ctx ≠ [] && isSubsetOf k h.keys)
    if h.presses.length = 1 && h.complete && !(rootKeys d).contains h.keys then
      if ambiguous then none
      else
        specItems cfg lines sh ag fuel
          ⟨stroke rt0 firstKey sh ag, false, some h.lastRelease, []⟩ rest
    else
      let holds := h :: rest
      let fromCtx := (List.range (holds.length + 1)).reverse.filterMap (fun m =>
        if m = 0 || st.ctx = [] then none else
        match lineAt lines (st.ctx ++ (holds.take m).map Hold.keys) with
        | some l => some (m, l, st.ctx ++ (holds.take m).map Hold.keys)
        | none => none)
      let fromRoot := (List.range (holds.length + 1)).reverse.filterMap (fun m =>
        if m = 0 then none else
        match lineAt lines ((holds.take m).map Hold.keys) with
        | some l => some (m, l, (holds.take m).map Hold.keys)
        | none => none)
      match fromCtx.head?, fromRoot.head? with
      | some _, _ => none        -- continuing a completed chain later: covered by the longest-chain rule only
      | none, none => none
      | none, some (m, l, path) =>
        if ambiguous then none else
        let chain := holds.take m
        let suffix := holds.drop m
        let dl := cfg.ticksChordDeadline
        let okTiming := chain.all (fun h => dl = 0 ||
          (h.lastPress - h.firstPress < dl && (h.releases.isEmpty || h.firstRelease - h.lastPress < dl)))
        let okComplete := (chain.dropLast.all Hold.complete) &&
          (match chain.getLast? with
           | some h => h.complete || (h.releases.isEmpty && suffix.isEmpty)
           | none => false)
        let okIdle := match st.idleFrom with
          | some tr => h.firstPress - tr ≥ cfg.ticksWaitEnable
          | none => true
        if l.out.isEmpty || !okTiming || !okComplete || !okIdle then none
        else
          let t1 := typeOuts rt0 sh l.out
          let smart := wantsSmartSpace cfg l.out
          let t2 := if smart then stroke t1 KEY_SPACE false false else t1
          specItems cfg lines sh ag fuel
            ⟨t2, smart && cfg.smartSpace = .full, none, if hasFollowups d path then path else []⟩ suffix

def specChain (cfg : Cfg) (lines : List DLine) (evs : List (InEv × Nat)) : Option Required :=
  -- leading modifier presses, held to the end
  let modEvs := evs.takeWhile (fun e => match e.1 with | .press k => isModKey k | _ => false)
  let rest := evs.drop modEvs.length
  let mods := modEvs.map (fun e => match e.1 with | .press k => k | .release k => k)
  if mods.eraseDups.length ≠ mods.length then none
  else if rest.any (fun e => match e.1 with | .press k => isModKey k | .release k => isModKey k) then none
  else
    let sh := mods.contains KEY_LEFTSHIFT || mods.contains KEY_RIGHTSHIFT
    let ag := mods.contains KEY_RIGHTALT
    if rest.any (fun e => match e.1 with | .press k => isZippyIgnored k | .release k => isZippyIgnored k) then none
    else if lines.any (fun l => l.out.any (·.noErase) || !selfContained 0 l.out) then none
    else
    match splitHolds [] none rest with
    | none => none
    | some holds =>
      match specItems cfg lines sh ag holds.length ⟨[], false, none, []⟩ holds with
      | some rt => some ⟨rt, modsList mods⟩
      | none => none

/-- The specification. -/
def spec (cfg : Cfg) (lines : List DLine) (hist : List HEv) : Option Required :=
  if pendingAtEnd [] hist ≠ 0 then none
  else if (hist.dropWhile (fun e => match e with
      | .press k => isModKey k | .release k => isModKey k | .ticks _ => true)).any
      (fun e => match e with | .ticks n => n > 5000 | _ => false) then none
  else
    let evs := eventTimes 0 [] hist
    match specChain cfg lines evs with
    | some r => some r
    | none => specPassthrough cfg.dict evs

end KVerif.Zippy
