/-
Model of the table side of kanata's `defseq`:

* parser/src/trie.rs            `Trie` (wrapper around `patricia_tree::PatriciaMap`)
* parser/src/sequences.rs       masks, `mod_mask_for_keycode`
* parser/src/cfg/permutations.rs `gen_permutations`, `heaps_alg` (Heap's algorithm)
* parser/src/cfg/mod.rs         `parse_macro_item_impl` (only the press/release expansion of key-list
                                items), `parse_sequence_keys`, `parse_sequences`

Conventions: a u16 is a `Nat` below 65536; the bit operations of the Rust code are the `Nat` bit
operations `|||`, `&&&`.  Key codes are the numbers of `OsCode`/`KeyCode` (the two enums are
transmuted into each other by kanata, so the numbers coincide).  The byte-level patricia tree is
*specified*, not modelled: a `Trie` is the finite map it represents, as an association list from
u16 key lists to values, and the three queries are specified on lists exactly as trie.rs uses the
underlying byte queries (keys are cast to bytes two per element, so every stored key and every query
has even byte length and byte prefixes coincide with element prefixes).  The correspondence check
compares the three queries with the real `Trie` on random key sets.
A Rust `panic!/expect/index` reachable in the slice is an explicit `crash` outcome.
-/
namespace KVerif.Seq

/-! ### constants (tied to the source by `seq_consts_from_source` in Props/C12.lean) -/

def MASK_KEYCODES : Nat := 0x03FF
def MASK_MODDED : Nat := 0xFC00
def KEY_OVERLAP_MARKER : Nat := 0x0400
/-- `!KEY_OVERLAP_MARKER` as a u16 -/
def NOT_OVERLAP_MARKER : Nat := 0xFBFF
/-- `KEY_OVERLAP = KeyCode::ErrorRollOver` -/
def KC_OVERLAP : Nat := 251
def KC_LSHIFT : Nat := 42
def KC_RSHIFT : Nat := 54
def KC_LCTRL : Nat := 29
def KC_RCTRL : Nat := 97
def KC_LALT : Nat := 56
def KC_RALT : Nat := 100
def KC_LGUI : Nat := 125
def KC_RGUI : Nat := 126
def KC_BSPACE : Nat := 14

/-- `mod_mask_for_keycode` -/
def modMask (kc : Nat) : Nat :=
  if kc = KC_LSHIFT ∨ kc = KC_RSHIFT then 0x8000
  else if kc = KC_LCTRL ∨ kc = KC_RCTRL then 0x4000
  else if kc = KC_LALT then 0x2000
  else if kc = KC_RALT then 0x1000
  else if kc = KC_LGUI ∨ kc = KC_RGUI then 0x0800
  else if kc = KC_OVERLAP then KEY_OVERLAP_MARKER
  else 0

/-! ### the trie, as the finite map it represents -/

abbrev Key := List Nat

/-- Entries, most recently inserted first; keys are unique (`insert` replaces). -/
structure Trie (V : Type) where
  entries : List (Key × V)
  deriving Repr, DecidableEq

namespace Trie
variable {V : Type}

def empty : Trie V := ⟨[]⟩

/-- `Trie::insert` = `PatriciaMap::insert` (replaces the value of an existing key). -/
def insert (t : Trie V) (k : Key) (v : V) : Trie V :=
  ⟨(k, v) :: t.entries.filter (fun e => !(e.1 == k))⟩

/-- `Trie::ancestor_exists`: `get_longest_common_prefix(key).is_some()` — some stored key is a prefix
of `key` (a stored key equal to `key` counts). -/
def ancestorExists (t : Trie V) (key : Key) : Bool :=
  t.entries.any (fun e => e.1.isPrefixOf key)

/-- `Trie::descendant_exists`: `longest_common_prefix_len(key) == key_len(key)` — `key` is a prefix of
some stored key (or `key` is empty: the common prefix length 0 then equals the key length). -/
def descendantExists (t : Trie V) (key : Key) : Bool :=
  key.isEmpty || t.entries.any (fun e => key.isPrefixOf e.1)

inductive GetRes (V : Type)
  | notInTrie
  | inTrie
  | hasValue (v : V)
  deriving DecidableEq, Repr

/-- `res == NotInTrie` -/
def GetRes.isNot {V : Type} : GetRes V → Bool
  | .notInTrie => true
  | _ => false

/-- `Trie::get_or_descendant_exists`: the first entry of `iter_prefix(key)` (entries with that prefix in
sorted key order, so `key` itself comes first when it is stored): none → `NotInTrie`; same length →
`HasValue`; longer → `InTrie`. -/
def getOrDescendant (t : Trie V) (key : Key) : GetRes V :=
  match t.entries.find? (fun e => e.1 == key) with
  | some e => .hasValue e.2
  | none => if t.entries.any (fun e => key.isPrefixOf e.1) then .inTrie else .notInTrie

def keys (t : Trie V) : List Key := t.entries.map (·.1)

end Trie

/-! ### Heap's algorithm (permutations.rs) -/

/-- `slice::swap` (in bounds in every use below). -/
def swap {α : Type} (a : List α) (i j : Nat) : List α :=
  match a[i]?, a[j]? with
  | some x, some y => (a.set i y).set j x
  | _, _ => a

/-- `heaps_alg(k, a, outs)`: returns the permutations pushed and the array as it is left.
`k = 0` does not occur (`gen_permutations` is only called with 2..=6 elements; in Rust `k - 1`
would underflow) and yields nothing here. -/
def heaps {α : Type} : Nat → List α → List (List α) × List α
  | 0, a => ([], a)
  | 1, a => ([a], a)
  | k + 2, a =>
    (List.range (k + 1)).foldl
      (fun (acc : List (List α) × List α) i =>
        let a' := if (k + 2) % 2 = 0 then swap acc.2 i (k + 1) else swap acc.2 0 (k + 1)
        let r := heaps (k + 1) a'
        (acc.1 ++ r.1, r.2))
      (heaps (k + 1) a)

/-- `gen_permutations` -/
def genPermutations {α : Type} (a : List α) : List (List α) := (heaps a.length a).1

/-! ### key-list items and their press/release expansion (`parse_macro_item_impl`) -/

/-- A key-list item of `defseq`, after name resolution (key codes instead of names). -/
inductive Item
  /-- `a`: `Action::KeyCode` → press, release -/
  | key (kc : Nat)
  /-- `S-a`, `C-S-a`: `Action::MultipleKeyCodes(mods ++ [kc])` → pressed in order, released in reverse -/
  | chord (mods : List Nat) (kc : Nat)
  /-- `S-( … )`, `O-( … )`, `C-S-( … )`: modifiers pressed, the body, modifiers released *in the same
  order* -/
  | held (mods : List Nat) (body : List Item)
  /-- a bare nested list `( … )` -/
  | sub (body : List Item)
  deriving Repr

inductive Ev
  | press (kc : Nat)
  | release (kc : Nat)
  deriving DecidableEq, Repr

mutual
  def Item.events : Item → List Ev
    | .key kc => [.press kc, .release kc]
    | .chord mods kc => (mods ++ [kc]).map .press ++ ((mods ++ [kc]).reverse.map .release)
    | .held mods body => mods.map .press ++ Item.eventsList body ++ mods.map .release
    | .sub body => Item.eventsList body
  def Item.eventsList : List Item → List Ev
    | [] => []
    | i :: is => i.events ++ Item.eventsList is
end

mutual
  /-- an empty bare list `()` occurs somewhere (the body of `S-( )`/`O-( )` may be empty) -/
  def Item.hasEmptySub : Item → Bool
    | .key _ => false
    | .chord _ _ => false
    | .held _ body => Item.hasEmptySubList body
    | .sub body => body.isEmpty || Item.hasEmptySubList body
  def Item.hasEmptySubList : List Item → Bool
    | [] => false
    | i :: is => i.hasEmptySub || Item.hasEmptySubList is
end

/-! ### `parse_sequence_keys`: press/release stream → u16 encoding -/

inductive Crash
  /-- `.expect("had to be pressed to be released")` in parse_sequence_keys: no longer reachable since
  the repair 8429da5 (a modifier prefix on an empty list is now a diagnostic) -/
  | expectPressed
  /-- `ticks_until_timeout -= 1` at 0 (tick_sequence_state) -/
  | timeoutUnderflow
  /-- `noerase_count += n` overflowing u16 (add_noerase), `noerase_count -= 1` cannot underflow -/
  | noeraseOverflow
  deriving DecidableEq, Repr

/-- Why `parse_sequences` does not return a trie. -/
inductive PErr
  /-- "O-(...) lists cannot be combined with other modifiers." -/
  | overlapCombined
  /-- "O-(...) lists must have a minimum of 2 elements" -/
  | overlapMin
  /-- "O-(...) lists must have a maximum of 6 elements" -/
  | overlapMax
  /-- "key_list cannot be empty" -/
  | emptyKeyList
  /-- "Found invalid key/chord in key_list": here, an empty bare list `()` (it parses as the no-op
  action, which `parse_macro_item_impl` refuses) -/
  | badItem
  /-- "its sequence contains an earlier defined sequence" -/
  | conflictAncestor
  /-- "its sequence is contained within an earlier defined seqence" -/
  | conflictDescendant
  | crash (c : Crash)
  deriving DecidableEq, Repr

def isPress : Option Ev → Bool
  | some (.press _) => true
  | _ => false

def isRelease : Option Ev → Bool
  | some (.release _) => true
  | _ => false

/-- `Vec::remove(position(== x).expect(..))` -/
def eraseFirst (l : List Nat) (x : Nat) : Option (List Nat) :=
  if l.contains x then some (l.erase x) else none

/-- The inner `while let Some(action) = key_actions.next()` loop of `parse_sequence_keys`, for the
events of one top-level item.  State: `mods_currently_held`, `seq`, `do_release_mod`. -/
def encodeEvents : List Ev → (mods : List Nat) → (seq : List Nat) → (doRel : Bool) →
    Except PErr (List Nat)
  | [], _, seq, _ => .ok seq
  | .press p :: rest, mods, seq, doRel =>
    let mods := if isPress rest.head? then mods ++ [p] else mods
    let seqNum := mods.foldl (fun a m => a ||| modMask m) p
    if seqNum &&& KEY_OVERLAP_MARKER = KEY_OVERLAP_MARKER ∧ seqNum &&& MASK_MODDED ≠ KEY_OVERLAP_MARKER then
      .error .overlapCombined
    else
      let seq := if p ≠ KC_OVERLAP then seq ++ [seqNum] else seq
      encodeEvents rest mods seq doRel
  | .release r :: rest, mods, seq, doRel =>
    let seq := if r = KC_OVERLAP then seq ++ [KEY_OVERLAP_MARKER] else seq
    let doRel' := isRelease rest.head?
    if doRel then
      match eraseFirst mods r with
      | none => .error .badItem   -- was `.expect("had to be pressed to be released")` before the repair (8429da5)
      | some mods' => encodeEvents rest mods' seq doRel'
    else encodeEvents rest mods seq doRel'

/-- `parse_sequence_keys`: the encodings of the top-level items, concatenated. -/
def parseSequenceKeys : List Item → Except PErr (List Nat)
  | [] => .ok []
  | i :: is =>
    if i.hasEmptySub then .error .badItem else
    match encodeEvents i.events [] [] false with
    | .error e => .error e
    | .ok ks =>
      match parseSequenceKeys is with
      | .error e => .error e
      | .ok rest => .ok (ks ++ rest)

/-! ### `parse_sequences`: permutation expansion and the insertion loop -/

def isMarker (v : Nat) : Bool := v == KEY_OVERLAP_MARKER

theorem length_dropWhile_drop_lt (rest : List Nat) (v : Nat) :
    ((rest.dropWhile (fun x => !isMarker x)).drop 1).length < (v :: rest).length := by
  have h1 : (rest.dropWhile (fun x => !isMarker x)).length ≤ rest.length := by
    induction rest with
    | nil => simp
    | cons a r ih =>
      simp only [List.dropWhile_cons]
      split
      · simp only [List.length_cons]; omega
      · simp
  simp only [List.length_drop, List.length_cons]
  omega

/-- The `while let Some(val) = vals.next()` loop that builds `permutations`.  A value without the
overlap bit is appended to every permutation so far; a value with it opens a group that runs to the
next bare marker `0x0400` (consumed), the group's permutations are generated by Heap's algorithm
and every permutation so far is continued with every one of them followed by the marker.
Fuelled by the number of values left (each round consumes at least one), so that the recursion is
structural; `expandPerms` supplies exactly that. -/
def expandPermsF : Nat → List Nat → List (List Nat) → Except PErr (List (List Nat))
  | _, [], perms => .ok perms
  | 0, _ :: _, perms => .ok perms
  | f + 1, v :: rest, perms =>
    if v &&& KEY_OVERLAP_MARKER = 0 then
      expandPermsF f rest (perms.map (· ++ [v]))
    else if v = KEY_OVERLAP_MARKER then .error .overlapMin
    else
      let grp := v :: rest.takeWhile (fun x => !isMarker x)
      let rest' := (rest.dropWhile (fun x => !isMarker x)).drop 1
      if grp.length < 2 then .error .overlapMin
      else if grp.length > 6 then .error .overlapMax
      else
        let ps := genPermutations grp
        expandPermsF f rest' (perms.flatMap fun p => ps.map fun p2 => p ++ p2 ++ [KEY_OVERLAP_MARKER])

def expandPerms (seq : List Nat) (perms : List (List Nat)) : Except PErr (List (List Nat)) :=
  expandPermsF seq.length seq perms

/-- The final `for p in permutations` loop: conflict checks, then insertion. -/
def insertPerms {V : Type} (t : Trie V) (v : V) : List Key → Except PErr (Trie V)
  | [] => .ok t
  | p :: ps =>
    if t.ancestorExists p then .error .conflictAncestor
    else if t.descendantExists p then .error .conflictDescendant
    else insertPerms (t.insert p v) v ps

/-- One `<virtual_key_name> <key_list>` pair (the virtual key is given by its index, which is the
`y` of `get_fake_key_coords`; its existence check is not modelled). -/
def parseEntry (t : Trie Nat) (e : Nat × List Item) : Except PErr (Trie Nat) :=
  if e.2.isEmpty then .error .emptyKeyList else
  match parseSequenceKeys e.2 with
  | .error err => .error err
  | .ok seq =>
    match expandPerms seq [[]] with
    | .error err => .error err
    | .ok perms => insertPerms t e.1 perms

/-- `parse_sequences` over all pairs of all `defseq` blocks, in order. -/
def parseSequencesFrom (t : Trie Nat) : List (Nat × List Item) → Except PErr (Trie Nat)
  | [] => .ok t
  | e :: es =>
    match parseEntry t e with
    | .error err => .error err
    | .ok t' => parseSequencesFrom t' es

def parseSequences (tbl : List (Nat × List Item)) : Except PErr (Trie Nat) :=
  parseSequencesFrom Trie.empty tbl

end KVerif.Seq
