/-
Model of the configuration front end of kanata's parser:

* parser/src/cfg/sexpr.rs   `Position`, `Span`, `PositionCountingBytesIterator`, `Lexer`
                            (`next_token`, `next_while`, `read_until_multiline_*_end`), `parse_`,
                            `strip_utf8_bom`, `parse_with`, `SExpr::{atom,list}`, `impl Debug for SExpr`
* parser/src/cfg/mod.rs     `parse_vars`, `parse_list_var`, `push_all_atoms`
* parser/src/cfg/str_ext.rs `trim_atom_quotes`
* parser/src/cfg/deftemplate.rs  (in Model/Template.lean)

Conventions.  A text is a `List Nat` of bytes (every element < 256); offsets are byte offsets.
Every Rust `assert!`, `expect`, `unwrap`, slice index and unchecked subtraction of the slice is an
explicit `Crash` outcome, and the theorems in Props/C03.lean show which of them are unreachable.
Loops that `continue` and the token loop of `parse_with` take fuel (the number of bytes left + 1
always suffices: `Lemmas/SExprLex.lean`); running out of fuel stands for non-termination.

The code is modelled at two revisions selected by `Fixes`: `Fixes.pinned` is the pinned source,
`Fixes.fixed` has the four front-end repairs proposed with this check (fix-1 Debug of `()`,
fix-3 defvar cycle check, fix-4 template expansion limits, fix-7 end of an unterminated raw string).
-/
namespace KVerif.SExpr

structure Fixes where
  /-- fix-1: `0..len().saturating_sub(1)` in `impl Debug for SExpr` -/
  debugSat : Bool
  /-- fix-3: cycle check in `parse_vars` -/
  varCycle : Bool
  /-- fix-4: depth and size limits in `deftemplate::expand` -/
  tmplLimit : Bool
  /-- fix-7: `read_until_multiline_string_end` consumes the last byte before reporting the error -/
  rawEnd : Bool
  deriving Repr, DecidableEq

def Fixes.pinned : Fixes := ⟨false, false, false, false⟩
def Fixes.fixed : Fixes := ⟨true, true, true, true⟩

inductive Crash
  | posAssert       -- Position::new: assert!(line <= absolute); assert!(line_beginning <= absolute)
  | spanAssert      -- Span::new: assert!(start.absolute <= end.absolute); assert!(start.line <= end.line)
  | coverFile       -- Span::cover: assert!(self.file_name == other.file_name)
  | sliceRange      -- &s[a..b] with a > b or b > len
  | sliceBoundary   -- &s[a..b] with a or b inside a multi-byte character
  | bomUtf8         -- strip_utf8_bom: from_utf8(..).expect("valid input")
  | stackEmpty      -- parse_with: expect("placeholder unpopped") / expect("not empty")
  | debugUnderflow  -- impl Debug for SExpr: `l.t.len() - 1` on the empty list
  | varLens         -- deftemplate::expand: expect("validated matching var lens")
  | unreachable     -- an `unreachable!()` arm
  | fuelOut         -- unbounded recursion / a loop that does not finish
  deriving DecidableEq, Repr

/-! ## UTF-8 -/

/-- continuation byte `10xxxxxx` -/
def isCont (b : Nat) : Bool := 0x80 ≤ b && b ≤ 0xBF

/-- Well-formed UTF-8 byte sequences (Unicode 15, table 3-7) — what a Rust `&str` contains. -/
def validUtf8 : List Nat → Bool
  | [] => true
  | b0 :: r =>
    if b0 < 0x80 then validUtf8 r
    else if 0xC2 ≤ b0 && b0 ≤ 0xDF then
      match r with
      | b1 :: r => isCont b1 && validUtf8 r
      | _ => false
    else if 0xE0 ≤ b0 && b0 ≤ 0xEF then
      match r with
      | b1 :: b2 :: r =>
        (if b0 = 0xE0 then 0xA0 ≤ b1 && b1 ≤ 0xBF else if b0 = 0xED then 0x80 ≤ b1 && b1 ≤ 0x9F else isCont b1)
          && isCont b2 && validUtf8 r
      | _ => false
    else if 0xF0 ≤ b0 && b0 ≤ 0xF4 then
      match r with
      | b1 :: b2 :: b3 :: r =>
        (if b0 = 0xF0 then 0x90 ≤ b1 && b1 ≤ 0xBF else if b0 = 0xF4 then 0x80 ≤ b1 && b1 ≤ 0x8F else isCont b1)
          && isCont b2 && isCont b3 && validUtf8 r
      | _ => false
    else false

/-- `str::is_char_boundary` -/
def isCharBoundary (s : List Nat) (i : Nat) : Bool :=
  if i = 0 then true
  else match s[i]? with
    | none => i = s.length
    | some b => !isCont b

/-! ## Positions and spans -/

structure Pos where
  abs : Nat
  line : Nat
  lineBeg : Nat
  deriving DecidableEq, Repr

/-- `file`: 0 is the empty file name of `Span::default()`, 1 the text being parsed. -/
structure Span where
  start : Pos
  stop : Pos
  file : Nat
  deriving DecidableEq, Repr

def Span.default : Span := ⟨⟨0, 0, 0⟩, ⟨0, 0, 0⟩, 0⟩

/-- `Position::new` -/
def Pos.new (abs line lineBeg : Nat) : Except Crash Pos :=
  if line ≤ abs ∧ lineBeg ≤ abs then .ok ⟨abs, line, lineBeg⟩ else .error .posAssert

/-- `Span::new` -/
def Span.new (start stop : Pos) (file : Nat) : Except Crash Span :=
  if start.abs ≤ stop.abs ∧ start.line ≤ stop.line then .ok ⟨start, stop, file⟩ else .error .spanAssert

/-- `Span::cover` -/
def Span.cover (a b : Span) : Except Crash Span :=
  if a.file ≠ b.file then .error .coverFile
  else
    let start := if a.start.abs ≤ b.start.abs then a.start else b.start
    let stop := if a.stop.abs ≥ b.stop.abs then a.stop else b.stop
    Span.new start stop a.file

/-! ## The byte iterator -/

/-- `PositionCountingBytesIterator`: the bytes not yet consumed and their number (`bytes.len()`,
kept as a field because it is O(1) in Rust; `rem = inp.length` is an invariant), the length of the
whole text, the number of newlines consumed and the offset just after the last newline consumed. -/
structure It where
  inp : List Nat
  rem : Nat
  len : Nat
  line : Nat
  lineBeg : Nat
  deriving Repr

def It.ofText (s : List Nat) : It := ⟨s, s.length, s.length, 0, 0⟩

/-- `source_length - bytes.len()` -/
def It.abs (it : It) : Nat := it.len - it.rem

/-- `pos()` -/
def It.pos (it : It) : Except Crash Pos := Pos.new it.abs it.line it.lineBeg

/-- the state after `next()` returned `b` (`r` = what is left) -/
def It.adv (it : It) (b : Nat) (r : List Nat) : It :=
  if b = 10 then { it with inp := r, rem := it.rem - 1, line := it.line + 1, lineBeg := it.len - (it.rem - 1) }
  else { it with inp := r, rem := it.rem - 1 }

/-- `next()` when only the new state matters -/
def It.skip (it : It) : It :=
  match it.inp with
  | [] => it
  | b :: r => it.adv b r

def nextWhileL (f : Nat → Bool) (len : Nat) : List Nat → Nat → Nat → Nat → It
  | [], rem, line, lb => ⟨[], rem, len, line, lb⟩
  | b :: r, rem, line, lb =>
    if f b then
      if b = 10 then nextWhileL f len r (rem - 1) (line + 1) (len - (rem - 1)) else nextWhileL f len r (rem - 1) line lb
    else ⟨b :: r, rem, len, line, lb⟩

/-- `next_while`: consume bytes while `f` holds.  (`expect("iter lag")` cannot fire: the loop runs
over a clone of the same iterator.) -/
def It.nextWhile (f : Nat → Bool) (it : It) : It := nextWhileL f it.len it.inp it.rem it.line it.lineBeg

def readUntil2L (c1 c2 : Nat) (consumeLast : Bool) (len : Nat) : List Nat → Nat → Nat → Nat → Bool × It
  | [], rem, line, lb => (false, ⟨[], rem, len, line, lb⟩)
  | [b], rem, line, lb =>
    if consumeLast then (false, (⟨[b], rem, len, line, lb⟩ : It).adv b []) else (false, ⟨[b], rem, len, line, lb⟩)
  | b1 :: b2 :: r, rem, line, lb =>
    let it1 := (⟨b1 :: b2 :: r, rem, len, line, lb⟩ : It).adv b1 (b2 :: r)
    if b1 = c1 ∧ b2 = c2 then (true, it1.adv b2 r)
    else readUntil2L c1 c2 consumeLast len (b2 :: r) it1.rem it1.line it1.lineBeg

/-- `read_until_multiline_string_end` (`c1 c2` = `"#`) and `read_until_multiline_comment_end`
(`|#`): consume up to and including the two-byte terminator; `false` if there is none, in which case
all but the last byte have been consumed (`consumeLast` = fix-7: that byte too). -/
def It.readUntil2 (c1 c2 : Nat) (consumeLast : Bool) (it : It) : Bool × It :=
  readUntil2L c1 c2 consumeLast it.len it.inp it.rem it.line it.lineBeg

/-! ## Lexer -/

inductive Tok | openP | closeP | str | blockComment | lineComment | whitespace
  deriving DecidableEq, Repr

inductive LexErr | untermString | untermMlString | untermMlComment
  deriving DecidableEq, Repr

/-- `u8::is_ascii_whitespace`: space, tab, LF, FF, CR -/
def isWs (b : Nat) : Bool := b = 32 || b = 9 || b = 10 || b = 12 || b = 13

/-- `is_start` -/
def isStart (b : Nat) : Bool := b = 40 || b = 41 || b = 34 || isWs b

/-- `next_string` -/
def It.nextString (it : It) : It := it.nextWhile (fun b => !isStart b)

/-- `Lexer::next_token`: start position (with the iterator at that position), token or lexical
error, iterator afterwards; `none` at the end of the text.
`ignore` = `ignore_whitespace_and_comments`. -/
def nextToken (fx : Fixes) (ignore : Bool) : Nat → It → Except Crash (Option ((Pos × It) × Except LexErr Tok × It))
  | 0, _ => .error .fuelOut
  | fuel + 1, it => do
    let start := ((← it.pos), it)
    match it.inp with
    | [] => pure none
    | b :: r =>
      let it1 := it.adv b r
      if b = 40 then pure (some (start, .ok .openP, it1))
      else if b = 41 then pure (some (start, .ok .closeP, it1))
      else if b = 34 then
        let it2 := it1.nextWhile (fun b => b != 34 && b != 10)
        match it2.inp with
        | 34 :: r2 => pure (some (start, .ok .str, it2.adv 34 r2))
        | _ => pure (some (start, .error .untermString, it2.skip))
      else if b = 59 then
        match it1.inp with
        | 59 :: _ =>
          let it2 := (it1.nextWhile (fun b => b != 10)).skip
          if ignore then nextToken fx ignore fuel it2 else pure (some (start, .ok .lineComment, it2))
        | _ => pure (some (start, .ok .str, it1.nextString))
      else if b = 114 then
        match it1.inp with
        | 35 :: 34 :: r2 =>
          let it2 := (it1.adv 35 (34 :: r2)).adv 34 r2
          match it2.readUntil2 34 35 fx.rawEnd with
          | (true, it3) => pure (some (start, .ok .str, it3))
          | (false, it3) => pure (some (start, .error .untermMlString, it3))
        | _ => pure (some (start, .ok .str, it1.nextString))
      else if b = 35 then
        match it1.inp with
        | 124 :: r2 =>
          let it2 := it1.adv 124 r2
          match it2.readUntil2 124 35 false with
          | (true, it3) =>
            if ignore then nextToken fx ignore fuel it3 else pure (some (start, .ok .blockComment, it3))
          | (false, it3) => pure (some (start, .error .untermMlComment, it3))
        | _ => pure (some (start, .ok .str, it1.nextString))
      else if isWs b then
        let it2 := it1.nextWhile isWs
        if ignore then nextToken fx ignore fuel it2 else pure (some (start, .ok .whitespace, it2))
      else pure (some (start, .ok .str, it1.nextString))

/-! ## S-expressions -/

inductive SExpr where
  | atom (t : List Nat) (sp : Span)
  | list (xs : List SExpr) (sp : Span)
  deriving Repr

instance : Inhabited SExpr := ⟨.list [] Span.default⟩

def SExpr.span : SExpr → Span
  | .atom _ sp => sp
  | .list _ sp => sp

/-- `SExprMetaData` -/
structure Meta where
  kind : Tok
  text : List Nat
  span : Span
  deriving Repr

inductive Msg
  | lex (e : LexErr)
  | unexpectedClose   -- "Unexpected closing parenthesis"
  | unclosedOpen      -- "Unclosed opening parenthesis"
  | notInList         -- "Everything must be in a list"
  deriving DecidableEq, Repr

structure PErr where
  span : Span
  msg : Msg
  deriving Repr

/-- `TopLevel = Spanned<Vec<SExpr>>` -/
structure TopLevel where
  xs : List SExpr
  sp : Span
  deriving Repr

/-- `is_char_boundary` at the iterator's offset: offset 0, the end, or before a non-continuation byte -/
def It.atBoundary (it : It) : Bool :=
  it.abs = 0 || match it.inp with | [] => true | c :: _ => !isCont c

/-- `&s[span]` for the token that starts at iterator `a` and ends at iterator `b` (both are
positions in the same text): the bytes in between, provided both ends are character boundaries. -/
def sliceIt (a b : It) : Except Crash (List Nat) :=
  if a.abs > b.abs ∨ b.abs > b.len then .error .sliceRange
  else if !(a.atBoundary && b.atBoundary) then .error .sliceBoundary
  else .ok (a.inp.take (b.abs - a.abs))

/-- the literal reading of `&s[a..b]`; `sliceIt` computes this (Lemmas/SExprLex.lean) -/
def slice (s : List Nat) (a b : Nat) : Except Crash (List Nat) :=
  if a > b ∨ b > s.length then .error .sliceRange
  else if !(isCharBoundary s a && isCharBoundary s b) then .error .sliceBoundary
  else .ok ((s.drop a).take (b - a))

/-- one entry of the explicit stack of `parse_with`; `items` in push order -/
structure Frame where
  items : List SExpr
  span : Span
  deriving Repr

/-- The token loop of `parse_with` fused with the `Lexer` iterator (`Lexer::new`'s closure computes
the end position and the span of each token). -/
def parseLoop (fx : Fixes) (ignore : Bool) : Nat → It → List Frame → List Meta →
    Except Crash (Except PErr (List Frame × List Meta))
  | 0, _, _, _ => .error .fuelOut
  | fuel + 1, it, stack, md => do
    match ← nextToken fx ignore (it.rem + 1) it with
    | none => pure (.ok (stack, md))
    | some ((start, its), t, it') =>
      let stop ← it'.pos
      let span ← Span.new start stop 1
      match t with
      | .error e => pure (.error ⟨span, .lex e⟩)
      | .ok .openP => parseLoop fx ignore fuel it' (⟨[], span⟩ :: stack) md
      | .ok .closeP =>
        match stack with
        | [] => .error .stackEmpty
        | top :: rest =>
          match rest with
          | [] => pure (.error ⟨span, .unexpectedClose⟩)
          | parent :: rest' =>
            let sp ← top.span.cover span
            parseLoop fx ignore fuel it' (⟨parent.items ++ [.list top.items sp], parent.span⟩ :: rest') md
      | .ok .str =>
        match stack with
        | [] => .error .stackEmpty
        | top :: rest =>
          let text ← sliceIt its it'
          parseLoop fx ignore fuel it' (⟨top.items ++ [.atom text span], top.span⟩ :: rest) md
      | .ok k =>
        let text ← sliceIt its it'
        parseLoop fx ignore fuel it' stack (md ++ [⟨k, text, span⟩])

/-- `strip_utf8_bom` (the `expect` checks that what follows the BOM is still UTF-8) -/
def stripBom (s : List Nat) : Except Crash (List Nat) :=
  match s with
  | 0xEF :: 0xBB :: 0xBF :: r => if validUtf8 r then .ok r else .error .bomUtf8
  | _ => .ok s

/-- `parse_with` after the loop, and the `map_err` of `parse_` -/
def finish (res : Except PErr (List Frame × List Meta)) : Except Crash (Except PErr (List TopLevel × List Meta)) :=
  match res with
  | .error e =>
    -- `parse_`: an unterminated block comment is reported at its two opening bytes
    match e.msg with
    | .lex .untermMlComment => pure (.error ⟨⟨e.span.start, { e.span.start with abs := e.span.start.abs + 2 }, e.span.file⟩, e.msg⟩)
    | _ => pure (.error e)
  | .ok (stack, md) =>
    match stack with
    | [] => .error .stackEmpty
    | top :: rest =>
      if !rest.isEmpty then pure (.error ⟨top.span, .unclosedOpen⟩)
      else
        let rec tops : List SExpr → Except PErr (List TopLevel)
          | [] => .ok []
          | .list xs sp :: r => (tops r).map (⟨xs, sp⟩ :: ·)
          | .atom _ sp :: _ => .error ⟨sp, .notInList⟩
        match tops top.items with
        | .error e => pure (.error e)
        | .ok l => pure (.ok (l, md))

/-- `sexpr::parse_` (and `sexpr::parse` with `ignore = true`) on the bytes of a `&str` -/
def parse (fx : Fixes) (ignore : Bool) (s : List Nat) : Except Crash (Except PErr (List TopLevel × List Meta)) := do
  let s ← stripBom s
  let it := It.ofText s
  let r ← parseLoop fx ignore (s.length + 1) it [⟨[], Span.default⟩] []
  finish r

/-! ## `impl Debug for SExpr` -/

mutual
/-- `{:?}`: atoms verbatim, lists parenthesised with single spaces.  On the pinned source the loop
bound `l.t.len() - 1` underflows for the empty list (debug build: "attempt to subtract with
overflow"; release build: wraps and then indexes `l.t[0]` out of bounds). -/
def SExpr.debug (fx : Fixes) : SExpr → Except Crash (List Nat)
  | .atom t _ => .ok t
  | .list xs _ =>
    if xs.isEmpty && !fx.debugSat then .error .debugUnderflow
    else do
      let inner ← SExpr.debugList fx xs
      pure ([40] ++ inner ++ [41])
def SExpr.debugList (fx : Fixes) : List SExpr → Except Crash (List Nat)
  | [] => .ok []
  | [x] => x.debug fx
  | x :: y :: r => do
    let a ← x.debug fx
    let b ← SExpr.debugList fx (y :: r)
    pure (a ++ [32] ++ b)
end

/-! ## Variables: `SExpr::atom(vars)`, `SExpr::list(vars)`, `parse_vars`, `concat` -/

abbrev Bytes := List Nat

/-- an ASCII keyword as bytes (kernel-reducible, unlike `String.toUTF8`) -/
def kw (s : String) : Bytes := s.toList.map Char.toNat

/-- `s.strip_prefix('$')` -/
def stripDollar : Bytes → Option Bytes
  | 36 :: r => some r
  | _ => none

/-- `HashMap<String, SExpr>`: an association list without duplicate keys (`parse_vars` refuses a
second definition), so the order is not observable. -/
abbrev Vars := List (Bytes × SExpr)

/-- `SExpr::atom(vars)`: an atom's text, after following `$name` references through `vars`.
Every hop is a Rust recursive call: `fuel` bounds the hops and `fuelOut` stands for the stack
overflow of an unbounded chain. -/
def SExpr.atomV : Nat → Option Vars → SExpr → Except Crash (Option Bytes)
  | _, _, .list _ _ => .ok none
  | fuel, vars, .atom t _ =>
    match stripDollar t, vars with
    | some vn, some vs =>
      match vs.lookup vn with
      | some var =>
        match fuel with
        | 0 => .error .fuelOut
        | fuel + 1 => var.atomV fuel vars
      | none => .ok (some t)
    | _, _ => .ok (some t)

/-- `SExpr::list(vars)` -/
def SExpr.listV : Nat → Option Vars → SExpr → Except Crash (Option (List SExpr))
  | _, _, .list xs _ => .ok (some xs)
  | fuel, vars, .atom t _ =>
    match stripDollar t, vars with
    | some vn, some vs =>
      match vs.lookup vn with
      | some var =>
        match fuel with
        | 0 => .error .fuelOut
        | fuel + 1 => var.listV fuel vars
      | none => .ok none
    | _, _ => .ok none

/-- `atom(None)` -/
def SExpr.atom? : SExpr → Option Bytes
  | .atom t _ => some t
  | .list _ _ => none

/-- `list(None)` -/
def SExpr.list? : SExpr → Option (List SExpr)
  | .atom _ _ => none
  | .list xs _ => some xs

def stripPrefix (p : Bytes) (s : Bytes) : Option Bytes :=
  if p.isPrefixOf s then some (s.drop p.length) else none

def stripSuffix (p : Bytes) (s : Bytes) : Option Bytes :=
  if p.isSuffixOf s then some (s.take (s.length - p.length)) else none

/-- `trim_atom_quotes` (str_ext.rs), including its fallback to the untrimmed text when only the
opening quote is there -/
def trimAtomQuotes (s : Bytes) : Bytes :=
  match stripPrefix [114, 35, 34] s with
  | some a => (stripSuffix [34, 35] a).getD a
  | none => (stripSuffix [34] ((stripPrefix [34] s).getD s)).getD s

/-- `push_all_atoms`: the concatenation of all atoms below `exprs`, variables resolved, quotes
trimmed.  `fuel` counts the visited expressions (every loop iteration and every recursive call, into
a nested list or into a list that a variable resolved to). -/
def pushAllAtoms : Nat → Vars → List SExpr → Except Crash Bytes
  | _, _, [] => .ok []
  | 0, _, _ :: _ => .error .fuelOut
  | fuel + 1, vars, e :: rest => do
    let a ← match ← e.atomV (fuel + 1) (some vars) with
      | some a => pure (trimAtomQuotes a)
      | none =>
        match ← e.listV (fuel + 1) (some vars) with
        | some l => pushAllAtoms fuel vars l
        | none => pure []
    let b ← pushAllAtoms fuel vars rest
    pure (a ++ b)

/-- `parse_list_var`: `(concat …)` becomes one atom carrying the span of the list -/
def parseListVar (fuel : Nat) (vars : Vars) (xs : List SExpr) (sp : Span) : Except Crash SExpr :=
  match xs with
  | .atom t _ :: rest =>
    if t = kw "concat" then do
      let str ← pushAllAtoms fuel vars rest
      pure (.atom str sp)
    else pure (.list xs sp)
  | _ => pure (.list xs sp)

/-- a diagnostic of the loader: `ParseError { msg, span }` (the message is kept as a tag) -/
structure Diag where
  span : Option Span
  msg : String
  deriving Repr

mutual
/-- the `$name` references (names with the `$` stripped) inside a value -/
def SExpr.refs : SExpr → List Bytes
  | .atom t _ => match stripDollar t with | some n => [n] | none => []
  | .list xs _ => SExpr.refsList xs
def SExpr.refsList : List SExpr → List Bytes
  | [] => []
  | x :: r => x.refs ++ SExpr.refsList r
end

/-- fix-3: does a chain of references starting from the names in `pending` reach `target`?
(`visited` holds the names already queued; every variable is queued at most once, so
`vars.length + 1` rounds suffice.) -/
def reachesVar (vars : Vars) (target : Bytes) : Nat → List Bytes → List Bytes → Bool
  | 0, _, _ => false
  | _, [], _ => false
  | fuel + 1, name :: pending, visited =>
    match vars.lookup name with
    | none => reachesVar vars target fuel pending visited
    | some v =>
      let rs := v.refs.filter (fun n => (vars.lookup n).isSome)
      if rs.contains target then true
      else
        let fresh := (rs.filter (fun n => !visited.contains n)).eraseDups
        reachesVar vars target fuel (fresh ++ pending) (fresh ++ visited)

/-- `check_first_expr(exprs, expected)` -/
def checkFirstExpr (expected : String) (xs : List SExpr) : Except Diag (List SExpr) :=
  match xs with
  | [] => .error ⟨none, "passed empty list"⟩
  | x :: rest =>
    match x.atom? with
    | none => .error ⟨none, "first entry is expected to be an atom"⟩
    | some a => if a = kw expected then .ok rest else .error ⟨none, "passed a different expression"⟩

/-- the pair loop of `parse_vars` over one `defvar` item -/
def parseVarsPairs (fx : Fixes) (fuel : Nat) : List SExpr → Vars → Except Crash (Except Diag Vars)
  | [], vars => pure (.ok vars)
  | [nameE], _ =>
    match nameE with
    | .atom _ sp => pure (.error ⟨some sp, "variable name must have a subsequent value"⟩)
    | .list _ sp => pure (.error ⟨some sp, "variable name must not be a list"⟩)
  | nameE :: valE :: rest, vars =>
    match nameE with
    | .list _ sp => pure (.error ⟨some sp, "variable name must not be a list"⟩)
    | .atom name sp => do
      let v ← match valE with
        | .atom t s => pure (SExpr.atom t s)
        | .list xs s => parseListVar fuel vars xs s
      if (vars.lookup name).isSome then pure (.error ⟨some sp, "duplicate variable name"⟩)
      else
        let vars' := vars ++ [(name, v)]
        if fx.varCycle && reachesVar vars' name (vars'.length + 1) [name] [] then
          pure (.error ⟨some sp, "variable is defined in terms of itself"⟩)
        else parseVarsPairs fx fuel rest vars'

/-- `parse_vars` over the `defvar` items of a configuration -/
def parseVars (fx : Fixes) (fuel : Nat) : List (List SExpr) → Vars → Except Crash (Except Diag Vars)
  | [], vars => pure (.ok vars)
  | item :: items, vars =>
    match checkFirstExpr "defvar" item with
    | .error d => pure (.error d)
    | .ok sub => do
      match ← parseVarsPairs fx fuel sub vars with
      | .error d => pure (.error d)
      | .ok vars' => parseVars fx fuel items vars'

end KVerif.SExpr
