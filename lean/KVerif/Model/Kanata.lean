/-
Model of the kanata layer around the keyberon layout (src/kanata/mod.rs, key_repeat.rs,
caps_word.rs, output_logic.rs): `handle_input_event`, `tick_states` (`handle_keystate_changes`:
key-list diffing, unmod/unshift, overrides, caps-word, custom actions; scrolling and mouse movement
as counters; idle timeout; held virtual keys), `handle_repeat`, `is_idle`,
`can_block_update_idle_waiting`, and the processing loop in virtual time.

Sequence mode (`sequence_state`, `do_sequence_press_logic`, `tick_sequence_state`, ...) is composed in
from Model/Sequences.lean through the hooks of Model/KanataSeq.lean (marked `-- [seq]` below).

Dynamic macros are composed in from Model/DynMacro.lean through Model/KanataDyn.lean (hooks marked
`-- [dyn]` below) and Model/KanataDynTick.lean (`tick_ms`).

Not modelled (configurations using them are answered `unsupported` by the harness): zippychord (C20), `cmd`, clipboard,
live reload (C15). Floating-point mouse distances are not modelled: mouse-move outputs carry the
direction only. `HashSet`/`HashMap` iteration orders (`waiting_for_idle`, `vkeys_pending_release`)
are list orders here; the generators keep at most one entry in each.
-/
import KVerif.Model.Layout
import KVerif.Model.Override
import KVerif.Model.KanataSeq   -- [seq]
import KVerif.Model.KanataDyn   -- [dyn]
namespace KVerif.K
open KVerif.L

inductive FkAction | press | release | tap | toggle
  deriving DecidableEq, Repr, Inhabited

/-- `CustomAction` (the subset that is modelled; everything else is `other`) -/
inductive CAct
  | fakeKey (c : Coord) (a : FkAction)
  | fakeKeyOnRelease (c : Coord) (a : FkAction)
  | fakeKeyOnIdle (c : Coord) (a : FkAction) (idle : Nat)
  | fakeKeyHold (c : Coord) (dur : Nat)
  | mouse (btn : Nat)
  | mouseTap (btn : Nat)
  | mwheel (dir interval distance : Nat)     -- dir: 0 up 1 down 2 left 3 right
  | mwheelNotch (dir : Nat)
  | moveMouse (dir interval : Nat)           -- dir: 0 up 1 down 2 left 3 right
  | moveMouseSpeed (speed : Nat)
  | repeat
  | cancelMacroOnRelease
  | cancelMacroOnNextPress (d : Nat)
  | sendArbitraryCode (code : Nat)
  | capsWord (toCap nonterminal : List KeyCode) (timeout : Nat) (toggle : Bool)
  | unmodded (keys : List KeyCode) (mods : Nat)
  | unshifted (keys : List KeyCode)
  | reverseReleaseOrder
  | unicode (c : Nat)
  | setMouse
  | seqLeader (timeout : Nat) (mode : Seq.Mode)   -- [seq] `SequenceLeader(timeout, input_mode)`
  | seqCancel                                     -- [seq] `SequenceCancel`
  | seqNoerase (n : Nat)                          -- [seq] `SequenceNoerase(count)`
  | dyn (a : DynMacro.Act)                     -- [dyn] DynamicMacroRecord / RecordStop / Play
  | other                                      -- no effect on anything modelled
  deriving DecidableEq, Repr, Inhabited

/-- what reaches the OS (simulated output sink) -/
inductive Os
  | down (k : KeyCode)         -- press, and also repeat (the sink prints both as ↓)
  | up (k : KeyCode)
  | btnDown (b : Nat)
  | btnUp (b : Nat)
  | scroll (dir distance : Nat)
  | move (dir : Nat)
  | unicode (c : Nat)
  | code (c : Nat) (press : Bool)
  deriving DecidableEq, Repr, Inhabited

structure ScrollState where
  dir : Nat
  distance : Nat
  ticksUntil : Nat
  interval : Nat
  deriving DecidableEq, Repr, Inhabited

structure MoveState where
  dir : Nat
  ticksUntil : Nat
  interval : Nat
  deriving DecidableEq, Repr, Inhabited

structure CapsWord where
  toCap : List KeyCode
  nonterminal : List KeyCode
  timeout : Nat
  timeoutTicks : Nat
  deriving DecidableEq, Repr, Inhabited

structure OnIdle where
  coord : Coord
  action : FkAction
  idle : Nat
  deriving DecidableEq, Repr, Inhabited

inductive Crash
  | layout (c : L.Crash)
  | override (c : Override.Crash)
  | underflow (site : String)       -- `interval - 1` etc. on a zero value
  | customId                        -- custom action table lookup failed (serialiser error)
  | seq (c : Seq.Crash)             -- [seq] `ticks_until_timeout -= 1` at 0, `noerase_count +=` overflow
  | dyn (c : DynMacro.Crash)        -- [dyn] `macro_items.len() - 1` on an empty Vec (pinned code only)
  deriving Repr

/-- key codes of the eight modifiers in `UnmodMods` bit order (LSft RSft LAlt RAlt LCtl RCtl LMet RMet) -/
structure ModCodes where
  codes : List KeyCode
  lsft : KeyCode
  rsft : KeyCode
  deriving Repr, Inhabited

structure KState where
  layout : Layout
  customs : List (List CAct)
  keyOutputs : List (List (Nat × List Nat))      -- per layer: physical code ↦ possible outputs
  overrides : Override.Overrides := ⟨[]⟩
  overrideStates : Override.OverrideStates := Override.OverrideStates.new
  overrideReleaseOnActivation : Bool := false
  mods : ModCodes
  btnCodes : List (KeyCode × Nat) := []           -- key codes that are mouse buttons ↦ button id
  wheelCodes : List (KeyCode × Nat) := []         -- key codes that are wheel notches ↦ direction
  ignoreMin : Nat := 0x2a4
  ignoreMax : Nat := 0x2ad
  allowHardwareRepeat : Bool := true
  curKeys : List KeyCode := []
  prevKeys : List KeyCode := []
  scroll : Option ScrollState := none
  hscroll : Option ScrollState := none
  moveV : Option MoveState := none
  moveH : Option MoveState := none
  smoothDiagonals : Bool := false
  moveBuffer : Option (Nat × Nat) := none          -- (axis 0 vertical / 1 horizontal, direction)
  capsWord : Option CapsWord := none
  waitingForIdle : List OnIdle := []
  vkeysPendingRelease : List (Coord × Nat) := []
  ticksSinceIdle : Nat := 0
  unmoddedKeys : List KeyCode := []
  unmoddedMods : Nat := 0
  unshiftedKeys : List KeyCode := []
  lastPressedKey : KeyCode := 0
  macroOnPressCancelDuration : Nat := 0
  liveReloadRequested : Bool := false
  switchMaxKeyTiming : Nat := 0
  dyn : Dyn := {}                                  -- [dyn] dynamic macro record / replay state, store, options
  out : List Os := []                              -- newest last
  seq : SeqK := {}                                 -- [seq] sequence fields of `Kanata` (Model/KanataSeq.lean)
  deriving Repr

def liftL {α} : Except L.Crash α → Except Crash α
  | .ok a => .ok a
  | .error c => .error (.layout c)

def KState.emit (k : KState) (e : Os) : KState := { k with out := k.out ++ [e] }

/-- `press_key` of output_logic.rs: ignored range, mouse buttons, wheel notches, plain keys -/
def pressKey (k : KState) (kc : KeyCode) : KState :=
  if k.ignoreMin ≤ kc ∧ kc ≤ k.ignoreMax then k
  else match k.btnCodes.find? (·.1 == kc) with
    | some (_, b) => k.emit (.btnDown b)
    | none => match k.wheelCodes.find? (·.1 == kc) with
      | some (_, d) => k.emit (.scroll d 120)
      | none => k.emit (.down kc)

/-- `release_key` -/
def releaseKey (k : KState) (kc : KeyCode) : KState :=
  if k.ignoreMin ≤ kc ∧ kc ≤ k.ignoreMax then k
  else match k.btnCodes.find? (·.1 == kc) with
    | some (_, b) => k.emit (.btnUp b)
    | none => match k.wheelCodes.find? (·.1 == kc) with
      | some _ => k
      | none => k.emit (.up kc)

/-- [seq] the OS events of a sequence function, sent through `press_key` / `release_key` (the
stand-alone model has already dropped the ignored range; doing so again changes nothing) -/
def emitSeq (k : KState) : List Seq.Out → KState
  | [] => k
  | .down c :: r => emitSeq (pressKey k c) r
  | .up c :: r => emitSeq (releaseKey k c) r

/-- `write_key(.., Repeat)` -/
def writeRepeat (k : KState) (kc : KeyCode) : KState :=
  if k.ignoreMin ≤ kc ∧ kc ≤ k.ignoreMax then k else k.emit (.down kc)

/-- `states_has_coord` -/
def statesHasCoord (states : List St) (c : Coord) : Bool :=
  states.any fun s => s.coord == some c

/-- `handle_fakekey_action` -/
def fakeKeyAction (l : Layout) (a : FkAction) (c : Coord) : Except L.Crash Layout :=
  match a with
  | .press => l.event (.press c)
  | .release => l.event (.release c)
  | .tap => match l.event (.press c) with
    | .error e => .error e
    | .ok l => l.event (.release c)
  | .toggle => if statesHasCoord l.states c then l.event (.release c) else l.event (.press c)

/-- `CapsWordState::maybe_add_lsft`: the new key list, the new state, and whether caps-word ends -/
def CapsWord.maybeAddLsft (cw : CapsWord) (lsft : KeyCode) (keys : List KeyCode) : List KeyCode × CapsWord × Bool :=
  if cw.timeoutTicks == 0 then (keys, cw, true)
  else if keys.any (fun kc => !cw.toCap.contains kc && !cw.nonterminal.contains kc) then (keys, cw, true)
  else
    let keys' := match keys.getLast? with
      | some kc => if cw.toCap.contains kc then lsft :: keys else keys
      | none => keys
    let cw := if !keys'.isEmpty then { cw with timeoutTicks := cw.timeout } else cw
    (keys', { cw with timeoutTicks := cw.timeoutTicks - 1 }, false)

/-- the modifiers named by an `UnmodMods` bit set -/
def unmodCodes (m : ModCodes) (bits : Nat) : List KeyCode :=
  (List.range 8).filterMap fun i => if (bits / 2 ^ i) % 2 == 1 then m.codes[i]? else none

def customActs (k : KState) (id : Nat) : Except Crash (List CAct) :=
  match k.customs[id]? with
  | some l => .ok l
  | none => .error .customId

/-- first part of `handle_keystate_changes`: unmod / unshift bookkeeping from the custom event -/
def applyUnmodEvent (k : KState) (ce : CustomEv) : Except Crash (KState × Bool) :=
  match ce with
  | .press id =>
    match customActs k id with
    | .error c => .error c
    | .ok acts =>
      .ok (acts.foldl (fun k a => match a with
        | .unmodded keys mods => { k with unmoddedKeys := k.unmoddedKeys ++ keys, unmoddedMods := mods }
        | .unshifted keys => { k with unshiftedKeys := k.unshiftedKeys ++ keys }
        | _ => k) k, false)
  | .release id =>
    match customActs k id with
    | .error c => .error c
    | .ok acts =>
      .ok (acts.foldl (fun (kr : KState × Bool) a => match a with
        | .unmodded keys _ => ({ kr.1 with unmoddedKeys := kr.1.unmoddedKeys.filter (!keys.contains ·) }, kr.2)
        | .unshifted keys => ({ kr.1 with unshiftedKeys := kr.1.unshiftedKeys.filter (!keys.contains ·) }, kr.2)
        | .reverseReleaseOrder => (kr.1, true)
        | _ => kr) (k, false))
  | .noEvent => .ok (k, false)

/-- the key list the OS should see: layout key codes, minus unmodded modifiers plus unmodded keys,
minus shifts plus unshifted keys -/
def adjustKeys (k : KState) (keys : List KeyCode) : List KeyCode :=
  let keys := if !k.unmoddedKeys.isEmpty then
      (keys.filter fun x => !(unmodCodes k.mods k.unmoddedMods).contains x) ++ k.unmoddedKeys
    else keys
  if !k.unshiftedKeys.isEmpty then
    (keys.filter fun x => x != k.mods.lsft && x != k.mods.rsft) ++ k.unshiftedKeys
  else keys

/-- `mark_overridden_nonmodkeys_for_eager_erasure` -/
def markEager (removed : List Nat) (states : List St) : List St :=
  states.map fun s => match s with
    | .normalKey kc c f =>
      if removed.any (fun r => !Override.isMod r && r == kc) then
        .normalKey kc c (if f % 4 == 3 then f else f - f % 4 + 3)
      else s
    | _ => s

/-- releases of keys that were down and are no longer wanted, in order (or reversed) -/
def releaseOld (k : KState) (cur : List KeyCode) (reverse : Bool) : KState :=
  let olds := if reverse then k.prevKeys.reverse else k.prevKeys
  olds.foldl (fun k x => if cur.contains x then k else releaseKey k x) k

/-- presses of keys that are wanted and were not down; `prev_keys` is extended as it goes so that
duplicates in the layout's list press once -/
def pressNew (k : KState) (cur : List KeyCode) : KState :=
  cur.foldl (fun k x =>
    if k.prevKeys.contains x then k
    else pressKey { k with prevKeys := k.prevKeys ++ [x], lastPressedKey := x } x) k

/-- [seq] the block between the release loop and the press loop of `handle_keystate_changes`: when
the last held key has just been released, the overlap variant of the sequence is closed -/
def seqReleasedHook (k : KState) (cur : List KeyCode) : Except Crash KState :=
  if cur.isEmpty && !k.prevKeys.isEmpty then
    match seqAllReleased k.seq k.layout with
    | .error e => .error (.layout e)
    | .ok (sk, l, outs) => .ok (emitSeq { k with seq := sk, layout := l } outs)
  else .ok k

/-- [seq] the press loop of `handle_keystate_changes` as the code has it: a key that was not down is
recorded in `prev_keys`; with `sequence-always-on` an inactive sequence state is activated; in
sequence mode the key goes to `do_sequence_press_logic` (with the modifier mask of the whole wanted
list), otherwise it is pressed.  With sequence mode off and no always-on this is `pressNew`
(`pressLoop_off` in Lemmas/KanataSeqOff.lean). -/
def pressLoop (cur : List KeyCode) : List KeyCode → KState → Except Crash KState
  | [], k => .ok k
  | x :: xs, k =>
    if k.prevKeys.contains x then pressLoop cur xs k
    else
      let k := { k with prevKeys := k.prevKeys ++ [x], lastPressedKey := x }
      let k := { k with seq := k.seq.alwaysOnStep }
      if k.seq.st.active then
        match seqKeyPress k.seq k.layout x (Seq.modMaskOf cur) with
        | .error e => .error (.layout e)
        | .ok (sk, l, outs) => pressLoop cur xs (emitSeq { k with seq := sk, layout := l } outs)
      else pressLoop cur xs (pressKey k x)

/-- the `CustomEvent::Press` part of `handle_keystate_changes` -/
def customPress (k : KState) (acts : List CAct) (cur : List KeyCode) : Except Crash (KState × List KeyCode) :=
  let rec go : List CAct → KState → List KeyCode → Option Nat → Except Crash (KState × List KeyCode)
    | [], k, cur, _ => .ok (k, cur)
    | a :: rest, k, cur, prevBtn =>
      match a with
      | .unicode c => go rest (k.emit (.unicode c)) cur prevBtn
      | .mouse b =>
        let k := match prevBtn with | some p => k.emit (.btnUp p) | none => k
        go rest (k.emit (.btnDown b)) cur (some b)
      | .mouseTap b => go rest ((k.emit (.btnDown b)).emit (.btnUp b)) cur prevBtn
      | .mwheel dir interval distance =>
        let st : ScrollState := { dir, distance, ticksUntil := 0, interval }
        if dir < 2 then go rest { k with scroll := some st } cur prevBtn
        else go rest { k with hscroll := some st } cur prevBtn
      | .mwheelNotch dir => go rest (k.emit (.scroll dir 120)) cur prevBtn
      | .moveMouse dir interval =>
        let st : MoveState := { dir, ticksUntil := 0, interval }
        if dir < 2 then go rest { k with moveV := some st } cur prevBtn
        else go rest { k with moveH := some st } cur prevBtn
      | .fakeKey c fa =>
        match fakeKeyAction k.layout fa c with
        | .error e => .error (.layout e)
        | .ok l => go rest { k with layout := l } cur prevBtn
      | .repeat =>
        let kc := k.lastPressedKey
        -- caps-word may add a shift around the repeated key
        let (k, cur, capsShift) :=
          if !cur.contains k.mods.lsft then
            match k.capsWord with
            | some cw =>
              let cur1 := cur ++ [kc]
              let (cur2, cw', _) := cw.maybeAddLsft k.mods.lsft cur1
              if cur2.length > cur1.length then
                (({ k with capsWord := some cw' } : KState).emit (.down k.mods.lsft), cur2, true)
              else ({ k with capsWord := some cw' }, cur2, false)
            | none => (k, cur, false)
          else (k, cur, false)
        let k := releaseKey k kc
        let k := pressKey k kc
        let k := releaseKey k kc
        let k := if capsShift then k.emit (.up k.mods.lsft) else k
        go rest k cur prevBtn
      | .cancelMacroOnNextPress d =>   -- fix PENDING-t5-3: the maximum of the running windows (was `:= d`)
        go rest { k with macroOnPressCancelDuration := max k.macroOnPressCancelDuration d } cur prevBtn
      | .sendArbitraryCode c => go rest (k.emit (.code c true)) cur prevBtn
      | .capsWord toCap nonterminal timeout toggle =>
        let fresh : CapsWord := { toCap, nonterminal, timeout, timeoutTicks := timeout }
        let cw := if toggle then (match k.capsWord with | some _ => none | none => some fresh) else some fresh
        go rest { k with capsWord := cw } cur prevBtn
      | .fakeKeyOnIdle c fa idle =>
        let e : OnIdle := { coord := c, action := fa, idle }
        let w := if k.waitingForIdle.contains e then k.waitingForIdle else k.waitingForIdle ++ [e]
        go rest { k with ticksSinceIdle := 0, waitingForIdle := w } cur prevBtn
      | .fakeKeyHold c dur =>
        if k.vkeysPendingRelease.any (·.1 == c) then
          go rest { k with vkeysPendingRelease := k.vkeysPendingRelease.map fun e => if e.1 == c then (c, dur) else e } cur prevBtn
        else
          match k.layout.event (.press c) with
          | .error e => .error (.layout e)
          | .ok l => go rest { k with layout := l, vkeysPendingRelease := k.vkeysPendingRelease ++ [(c, dur)] } cur prevBtn
      -- [seq] begin
      | .seqLeader timeout mode =>
        match seqCustom k.seq (.leader timeout mode) with
        | .error c => .error (.seq c)
        | .ok (sk, outs) => go rest (emitSeq { k with seq := sk } outs) cur prevBtn
      | .seqCancel =>
        match seqCustom k.seq .cancel with
        | .error c => .error (.seq c)
        | .ok (sk, outs) => go rest (emitSeq { k with seq := sk } outs) cur prevBtn
      | .seqNoerase n =>
        match seqCustom k.seq (.noerase n) with
        | .error c => .error (.seq c)
        | .ok (sk, outs) => go rest (emitSeq { k with seq := sk } outs) cur prevBtn
      -- [seq] end
      -- [dyn] begin
      | .dyn da =>
        match k.dyn.doAct da with
        | .error e => .error (.dyn e)
        | .ok d => go rest { k with dyn := d } cur prevBtn
      -- [dyn] end
      | _ => go rest k cur prevBtn
  go acts k cur none

/-- the `CustomEvent::Release` part: returns the last mouse button to unclick -/
def customRelease (k : KState) (acts : List CAct) : Except Crash KState :=
  let rec go : List CAct → KState → Option Nat → Except Crash KState
    | [], k, pbtn => .ok (match pbtn with | some b => k.emit (.btnUp b) | none => k)
    | a :: rest, k, pbtn =>
      match a with
      | .mouse b => go rest k (some b)
      | .mwheel dir _ _ =>
        if dir < 2 then
          go rest (match k.scroll with | some ss => if ss.dir == dir then { k with scroll := none } else k | none => k) pbtn
        else
          go rest (match k.hscroll with | some ss => if ss.dir == dir then { k with hscroll := none } else k | none => k) pbtn
      | .moveMouse dir _ =>
        let k := if dir < 2 then
            (match k.moveV with | some m => if m.dir == dir then { k with moveV := none } else k | none => k)
          else
            (match k.moveH with | some m => if m.dir == dir then { k with moveH := none } else k | none => k)
        go rest (if k.smoothDiagonals then { k with moveBuffer := none } else k) pbtn
      | .fakeKeyOnRelease c fa =>
        match fakeKeyAction k.layout fa c with
        | .error e => .error (.layout e)
        | .ok l => go rest { k with layout := l } pbtn
      | .cancelMacroOnRelease =>
        let l := k.layout
        let l := { l with activeSequences := [], states := l.states.filter fun s =>
          match s with | .fakeKey _ | .repeatingSequence _ _ => false | _ => true }
        go rest { k with layout := l, macroOnPressCancelDuration := 0 } pbtn
      | .sendArbitraryCode c => go rest (k.emit (.code c false)) pbtn
      | _ => go rest k pbtn
  go acts k none

/-- eager-erasure marking (`mark_overridden_nonmodkeys_for_eager_erasure`) and, with
`override-release-on-activation`, removal of the overridden non-modifier keys from the layout -/
def eraseOverridden (k : KState) (toRemove : List Nat) : KState :=
  let k := { k with layout := { k.layout with states := markEager toRemove k.layout.states } }
  if k.overrideReleaseOnActivation then
    { k with layout := { k.layout with states := k.layout.states.filter fun s =>
        !(toRemove.any fun r => !Override.isMod r && (match s with
          | .normalKey kc _ _ | .fakeKey kc => kc == r | _ => false)) } }
  else k

/-- caps-word: may add left shift to the wanted list, may end -/
def applyCapsWord (k : KState) (cur : List KeyCode) : List KeyCode × KState :=
  match k.capsWord with
  | some cw =>
    let (cur', cw', ended) := cw.maybeAddLsft k.mods.lsft cur
    (cur', { k with capsWord := if ended then none else some cw' })
  | none => (cur, k)

/-- the custom event of the tick, handled after the key diff -/
def hkcCustom (k : KState) (cur : List KeyCode) (ce : CustomEv) : Except Crash (KState × List KeyCode) :=
  match ce with
  | .press id => match customActs k id with
    | .error c => .error c
    | .ok acts => customPress k acts cur
  | .release id => match customActs k id with
    | .error c => .error c
    | .ok acts => match customRelease k acts with
      | .error c => .error c
      | .ok k => .ok (k, cur)
  | .noEvent => .ok (k, cur)

/-- `Kanata::handle_keystate_changes` -/
def handleKeystateChanges (k : KState) : Except Crash KState :=
  match tick k.layout with
  | .error e => .error (.layout e)
  | .ok (l, ce) =>
    match applyUnmodEvent { k with layout := l } ce with
    | .error c => .error c
    | .ok (k, reverse) =>
      match k.overrides.overrideKeys (adjustKeys k (k.curKeys ++ k.layout.keycodes)) k.overrideStates with
      | .error c => .error (.override c)
      | .ok (cur, ost) =>
        let k := eraseOverridden { k with overrideStates := ost } ost.toRemove
        let (cur, k) := applyCapsWord k cur
        -- [seq] was: `let k := pressNew (releaseOld k cur reverse) cur`
        match seqReleasedHook (releaseOld k cur reverse) cur with
        | .error c => .error c
        | .ok k =>
        match pressLoop cur cur k with
        | .error c => .error c
        | .ok k =>
        match hkcCustom k cur ce with
        | .error c => .error c
        | .ok (k, cur) => .ok { k with curKeys := cur }

def tickScroll (s : Option ScrollState) : Except Crash (Option ScrollState × Option Os) :=
  match s with
  | none => .ok (none, none)
  | some ss =>
    if ss.ticksUntil == 0 then
      if ss.interval == 0 then .error (.underflow "scroll interval - 1")
      else .ok (some { ss with ticksUntil := ss.interval - 1 }, some (.scroll ss.dir ss.distance))
    else .ok (some { ss with ticksUntil := ss.ticksUntil - 1 }, none)

/-- `Kanata::handle_scrolling` -/
def handleScrolling (k : KState) : Except Crash KState :=
  match tickScroll k.scroll with
  | .error c => .error c
  | .ok (s1, o1) =>
    let k := { k with scroll := s1 }
    let k := match o1 with | some e => k.emit e | none => k
    match tickScroll k.hscroll with
    | .error c => .error c
    | .ok (s2, o2) =>
      let k := { k with hscroll := s2 }
      .ok (match o2 with | some e => k.emit e | none => k)

/-- one axis of `handle_move_mouse` (distances and acceleration are not modelled) -/
def tickMove (k : KState) (m : Option MoveState) (axis : Nat) : Except Crash (KState × Option MoveState) :=
  match m with
  | none => .ok (k, none)
  | some ms =>
    if ms.ticksUntil == 0 then
      if ms.interval == 0 then .error (.underflow "move interval - 1") else
      let ms' := { ms with ticksUntil := ms.interval - 1 }
      if k.smoothDiagonals then
        match k.moveBuffer with
        | some (pa, pd) =>
          if pa == axis then .ok (({ k with moveBuffer := some (axis, ms.dir) } : KState).emit (.move pd), some ms')
          else .ok (((({ k with moveBuffer := none } : KState).emit (.move pd)).emit (.move ms.dir)), some ms')
        | none => .ok ({ k with moveBuffer := some (axis, ms.dir) }, some ms')
      else .ok (k.emit (.move ms.dir), some ms')
    else .ok (k, some { ms with ticksUntil := ms.ticksUntil - 1 })

def handleMoveMouse (k : KState) : Except Crash KState :=
  match tickMove k k.moveV 0 with
  | .error c => .error c
  | .ok (k, mv) =>
    let k := { k with moveV := mv }
    match tickMove k k.moveH 1 with
    | .error c => .error c
    | .ok (k, mh) => .ok { k with moveH := mh }

/-- `Kanata::tick_idle_timeout` -/
def tickIdleTimeout (k : KState) : Except Crash KState :=
  let rec go : List OnIdle → KState → List OnIdle → Except Crash KState
    | [], k, kept => .ok { k with waitingForIdle := kept.reverse }
    | w :: rest, k, kept =>
      if k.ticksSinceIdle ≥ w.idle then
        match fakeKeyAction k.layout w.action w.coord with
        | .error e => .error (.layout e)
        | .ok l => go rest { k with layout := l } kept
      else go rest k (w :: kept)
  go k.waitingForIdle k []

/-- `Kanata::tick_held_vkeys` -/
def tickHeldVkeys (k : KState) : Except Crash KState :=
  let rec go : List (Coord × Nat) → KState → List (Coord × Nat) → Except Crash KState
    | [], k, kept => .ok { k with vkeysPendingRelease := kept.reverse }
    | (c, d) :: rest, k, kept =>
      if d - 1 == 0 then
        match k.layout.event (.release c) with
        | .error e => .error (.layout e)
        | .ok l => go rest { k with layout := l } kept
      else go rest k ((c, d - 1) :: kept)
  go k.vkeysPendingRelease k []

/-- [seq] `Kanata::tick_sequence_state` -/
def tickSequenceState (k : KState) : Except Crash KState :=
  match seqTick k.seq with
  | .error c => .error (.seq c)
  | .ok (sk, outs) => .ok (emitSeq { k with seq := sk } outs)

/-- [dyn] `tick_record_state(&mut self.dynamic_macro_record_state)`; nothing happens unless a recording is on -/
def dynTickRecord (k : KState) : KState :=
  match k.dyn.rcd with
  | none => k
  | some _ => { k with dyn := k.dyn.tickRecord }

/-- `Kanata::tick_states` (zippychord not modelled) -/
def tickStates (k : KState) : Except Crash KState :=
  match handleKeystateChanges k with
  | .error c => .error c
  | .ok k =>
  match handleScrolling k with
  | .error c => .error c
  | .ok k =>
  match handleMoveMouse k with
  | .error c => .error c
  | .ok k =>
  match tickSequenceState k with     -- [seq]
  | .error c => .error c
  | .ok k =>
  match tickIdleTimeout k with
  | .error c => .error c
  | .ok k =>
    let k := { k with macroOnPressCancelDuration := k.macroOnPressCancelDuration - 1 }
    let k := dynTickRecord k   -- [dyn]
    let k := { k with prevKeys := k.curKeys, curKeys := [] }
    tickHeldVkeys k

/-- key outputs of a physical key on a layer (`key_outputs[layer].get(code)`) -/
def outputsFor (k : KState) (layer code : Nat) : Option (List Nat) :=
  match k.keyOutputs[layer]? with
  | some tbl => (tbl.find? (·.1 == code)).map (·.2)
  | none => none

/-- `repeat_check_order` (fix PENDING-1): last-listed first, every non-modifier before any modifier -/
def repeatOrder (outs : List Nat) : List Nat :=
  outs.reverse.filter (fun kc => !Override.isMod kc) ++ outs.reverse.filter (fun kc => Override.isMod kc)

/-- the first of `outs` (in `repeatOrder`) that is currently down, per `handle_repeat_actual` -/
def repeatCandidate (k : KState) (cur : List KeyCode) (outs : List Nat) : Option Nat :=
  (repeatOrder outs).find? fun kc => cur.contains kc || k.unshiftedKeys.contains kc || k.unmoddedKeys.contains kc

/-- the scan before fix PENDING-1: plain reverse order (kept for
`relisted_key_behind_modifier_counterexample`) -/
def repeatCandidatePinned (k : KState) (cur : List KeyCode) (outs : List Nat) : Option Nat :=
  outs.reverse.find? fun kc => cur.contains kc || k.unshiftedKeys.contains kc || k.unmoddedKeys.contains kc


/-- the layer scan of `handle_repeat_actual`: the first layer of the order that has outputs for the
key and one of them active decides -/
def scanLayers (k : KState) (cur : List KeyCode) (code : Nat) : List Nat → Option Nat
  | [] => none
  | l :: rest =>
    match outputsFor k l code with
    | some outs => (match repeatCandidate k cur outs with | some kc => some kc | none => scanLayers k cur code rest)
    | none => scanLayers k cur code rest

def isActive (k : KState) (cur : List KeyCode) (kc : Nat) : Bool :=
  cur.contains kc || k.unshiftedKeys.contains kc || k.unmoddedKeys.contains kc

/-- which key code (if any) a repeat event for physical key `code` is forwarded as -/
def repeatTarget (k : KState) (cur : List KeyCode) (order : List Nat) (code : Nat) : Option Nat :=
  match scanLayers k cur code order with
  | some kc => some kc
  | none =>
    match (match outputsFor k k.layout.defaultLayer code with
           | some outs => repeatCandidate k cur outs
           | none => none) with
    | some kc => some kc
    | none => if isActive k cur code then some code else none

/-- `Kanata::handle_repeat` -/
def handleRepeat (k : KState) (code : Nat) : Except Crash KState :=
  -- [seq] "While in non-visible sequence mode, don't send key repeats."
  if k.seq.st.active && k.seq.st.mode != .visibleBackspaced then .ok { k with curKeys := [] } else
  match k.overrides.overrideKeys (k.curKeys ++ k.layout.keycodes) k.overrideStates with
  | .error c => .error (.override c)
  | .ok (cur, ost) =>
    let k := { k with overrideStates := ost }
    match k.layout.transOrder with
    | .error e => .error (.layout e)
    | .ok order =>
      let k' : KState := match repeatTarget k cur order code with
        | some kc => writeRepeat k kc
        | none => k
      .ok { k' with curKeys := [] }

inductive Input
  | press (code : Nat)
  | release (code : Nat)
  | rep (code : Nat)
  | tap (code : Nat)
  deriving Repr, DecidableEq

/-- [dyn] `record_press` / `record_release` in `handle_input_event`; nothing happens unless a recording is on -/
def dynRecord (k : KState) (press : Bool) (code : Nat) : KState :=
  match k.dyn.rcd with
  | none => k
  | some _ => { k with dyn := if press then k.dyn.recordPress code else k.dyn.recordRelease code }

/-- `Kanata::handle_input_event` -/
def handleInputEvent (k : KState) (i : Input) : Except Crash KState :=
  let k := { k with ticksSinceIdle := 0 }
  match i with
  | .press code =>
    let k := dynRecord k true code   -- [dyn]
    let k := if k.macroOnPressCancelDuration > 0 then
        let l := k.layout
        { k with macroOnPressCancelDuration := 0,
                 layout := { l with activeSequences := [], states := l.states.filter fun s =>
                   match s with | .fakeKey _ | .repeatingSequence _ _ => false | _ => true } }
      else k
    match k.layout.event (.press (0, code)) with
    | .error e => .error (.layout e)
    | .ok l => .ok { k with layout := l }
  | .release code =>
    let k := dynRecord k false code   -- [dyn]
    match k.layout.event (.release (0, code)) with
    | .error e => .error (.layout e)
    | .ok l => .ok { k with layout := l }
  | .rep code => handleRepeat k code
  | .tap code =>
    match k.layout.event (.press (0, code)) with
    | .error e => .error (.layout e)
    | .ok l => match l.event (.release (0, code)) with
      | .error e => .error (.layout e)
      | .ok l => .ok { k with layout := l }

/-- `Kanata::is_idle` (the conjuncts that concern modelled components), as in the tree now, except the
dynamic-macro conjunct, which `isIdle` adds -/
def isIdleBase (k : KState) : Bool :=
  let l := k.layout
  let pressedKeysMeansNotIdle := !k.waitingForIdle.isEmpty || k.liveReloadRequested
  l.queue.isEmpty && l.waiting.isNone && l.extraWaiting.isEmpty && l.lptTapHoldTimeout == 0 &&
  l.oneshot.keys.isEmpty && l.oneshot.pauseInputProcessingTicks == 0 && l.activeSequences.isEmpty &&
  l.tapDanceEager.isNone && l.actionQueue.isEmpty && k.scroll.isNone && k.hscroll.isNone &&
  k.moveV.isNone && k.macroOnPressCancelDuration == 0 && k.moveH.isNone && k.capsWord.isNone &&
  k.vkeysPendingRelease.isEmpty &&
  !(l.states.any fun s => match s with
    | .seqCustomPending _ | .seqCustomActive _ => true
    | .normalKey .. => pressedKeysMeansNotIdle
    | _ => false) &&
  !k.seq.st.active      -- [seq] `self.sequence_state.is_inactive()` (last here; the conjuncts are pure)

/-- [dyn] `Kanata::is_idle`: `isIdleBase` and `self.dynamic_macro_replay_state.is_none()` -/
def isIdle (k : KState) : Bool := isIdleBase k && k.dyn.rep.isNone

/-- `Kanata::is_idle` of the pinned commit, before the three `fix:` commits 6f31db9, 1f5ac33,
6e1cc72 (no `extra_waiting` conjunct; one-shot timeout 0 counted as idle; rapid-event pause ignored) -/
def isIdlePinned (k : KState) : Bool :=
  let l := k.layout
  let pressedKeysMeansNotIdle := !k.waitingForIdle.isEmpty || k.liveReloadRequested
  l.queue.isEmpty && l.waiting.isNone && l.lptTapHoldTimeout == 0 &&
  (l.oneshot.timeout == 0 || l.oneshot.keys.isEmpty) && l.activeSequences.isEmpty &&
  l.tapDanceEager.isNone && l.actionQueue.isEmpty && k.scroll.isNone && k.hscroll.isNone &&
  k.moveV.isNone && k.macroOnPressCancelDuration == 0 && k.moveH.isNone && k.capsWord.isNone &&
  k.vkeysPendingRelease.isEmpty &&
  !(l.states.any fun s => match s with
    | .seqCustomPending _ | .seqCustomActive _ => true
    | .normalKey .. => pressedKeysMeansNotIdle
    | _ => false) &&
  !k.seq.st.active &&   -- [seq] `self.sequence_state.is_inactive()` (last here; the conjuncts are pure)
  k.dyn.rep.isNone   -- [dyn]

/-- `Kanata::can_block_update_idle_waiting` -/
def canBlockUpdateIdleWaiting (k : KState) (msElapsed : Nat) : KState × Bool :=
  let idle := isIdle k
  let counting := !k.waitingForIdle.isEmpty || k.liveReloadRequested
  let k := if !idle then { k with ticksSinceIdle := 0 }
    else if counting then { k with ticksSinceIdle := min (k.ticksSinceIdle + msElapsed) 65535 } else k
  let passed := match k.layout.histKeys.head? with
    | some (_, t) => t ≥ k.switchMaxKeyTiming
    | none => true
  -- [dyn] `!recording_dynamic_macro` (fix ccfb98e): ticks must keep coming while a macro is being recorded
  (k, idle && !counting && passed && k.dyn.rcd.isNone)

end KVerif.K
