/-
Model of the macro parser: parser/src/cfg/mod.rs `parse_macro`, `parse_macro_item` /
`parse_macro_item_impl` (in `MacroNumberParseMode::Delay`, the mode `parse_macro` uses),
`parse_mods_held_for_submacro`, the four wrapper forms (`parse_macro_release_cancel`,
`parse_macro_cancel_on_next_press`, `parse_macro_cancel_on_next_press_cancel_on_release`) and
`macro_sequence_event_total_duration`.

Input: the parameter list of the macro action as a list of `Item`s — s-expressions after the
classification the parser performs on each of them through `parse_non_zero_u16`, `parse_action`,
`SExpr::list` and `parse_mod_prefix` (those four are outside this model; the harness generator
writes both the configuration text and this classification, and the driver compares the expansion
below with the `SequenceEvent` list the real parser produced).
Output: the `SequenceEvent` list (`SeqEv` of Model/Action.lean).

`parse_macro_item_impl` takes a slice and returns the events of ONE item plus the unparsed
remainder (it consumes two elements for a bare modifier prefix followed by a list). Its callers loop
`while !remainder.is_empty()`. The recursion goes through nested lists and through remainders, so
it takes fuel here; `itemsFuel` is enough (`parseAll_spells` in Lemmas/MacroExpand.lean).
-/
import KVerif.Model.Action
namespace KVerif.Macro
open KVerif.L

/-- `KEY_OVERLAP = KeyCode::ErrorRollOver` (parser/src/sequences.rs; value tied to the source by
`Gen.MACRO_KEY_OVERLAP`) -/
abbrev KEY_OVERLAP : KeyCode := 251
abbrev U16_MAX : Nat := 65535
abbrev U32_MAX : Nat := 4294967295

/-- what `parse_action` answers on an expression when it answers `Ok` -/
inductive PA
  /-- `Action::KeyCode kc` -/
  | key (kc : KeyCode)
  /-- `Action::MultipleKeyCodes kcs`, e.g. `C-S-a` -/
  | chord (kcs : List KeyCode)
  /-- `Action::Custom c`, e.g. `(unicode x)`, `mlft`; `id` names `c` -/
  | custom (id : Nat)
  /-- any other action, e.g. `XX`, `()`, `(multi a b)` -/
  | other
  deriving Repr, Inhabited, DecidableEq

/-- one element of the parameter list, as the parser classifies it -/
inductive Item
  /-- an atom of ASCII digits with this value (`parse_non_zero_u16` decides) -/
  | num (n : Nat)
  /-- an atom on which `parse_action` answers `Ok` -/
  | act (a : PA)
  /-- a list; `a` is the answer of `parse_action` if it is `Ok` (only looked at when the list is
  itself a macro item, not when it follows a bare modifier prefix) -/
  | list (a : Option PA) (items : List Item)
  /-- `parse_action` = `Err`, an atom that `parse_mod_prefix` consumes entirely (`S-`, `C-S-`);
  `kcs` is the key stack it returns (empty: the atom had no modifier prefix) -/
  | mods (kcs : List KeyCode)
  /-- `parse_action` = `Err`, an atom of modifier prefixes followed by text that names a list
  variable (`S-$v`) with this content -/
  | modsList (kcs : List KeyCode) (items : List Item)
  /-- `parse_action` = `Err`, an atom of modifier prefixes followed by other text, or a failing
  `parse_mod_prefix` (redundant prefix) -/
  | bad
  deriving Repr, Inhabited

inductive MErr
  | fuelOut | emptySlice | emptyMacro | badDelay | notMacroItem | noMods | modsNeedList | overlapKey
  deriving Repr, DecidableEq, Inhabited

def pressAll (ks : List KeyCode) : List SeqEv := ks.map SeqEv.press
def releaseAll (ks : List KeyCode) : List SeqEv := ks.map SeqEv.release

mutual
  /-- fuel that `parseAll` needs for this list -/
  def itemFuel : Item → Nat
    | .list _ sub => itemsFuel sub + 1
    | .modsList _ sub => itemsFuel sub + 1
    | _ => 1
  def itemsFuel : List Item → Nat
    | [] => 1
    | hd :: tl => itemFuel hd + itemsFuel tl + 1
end

/-- the `match parse_action(&acs[0], s) { Ok(..) => .. }` arms of `parse_macro_item_impl` -/
def actionEvents (a : PA) (tl : List Item) : Except MErr (List SeqEv × List Item) :=
  match a with
  | .key kc => .ok ([.press kc, .release kc], tl)
  | .chord kcs => .ok (pressAll kcs ++ releaseAll kcs.reverse, tl)   -- press in order, release reversed
  | .custom id => .ok ([.custom id], tl)
  | .other => .error .notMacroItem

mutual
  /-- `parse_macro_item_impl(acs, s, Delay)`: events of the first item and the remainder -/
  def parseItem : Nat → List Item → Except MErr (List SeqEv × List Item)
    | 0, _ => .error .fuelOut
    | _ + 1, [] => .error .emptySlice           -- `acs[0]`; no caller passes an empty slice
    | fuel + 1, hd :: tl =>
      match hd with
      | .num n =>
        -- `parse_non_zero_u16`; on failure an all-digit atom is an error
        if 0 < n ∧ n ≤ U16_MAX then .ok ([.delay n], tl) else .error .badDelay
      | .act a | .list (some a) _ => actionEvents a tl
      | .list none sub =>
        match parseAll fuel sub with
        | .error e => .error e
        | .ok evs => .ok (evs, tl)
      | .mods kcs =>
        if kcs.isEmpty then .error .noMods else
        -- unparsed text is empty: "check for a follow-up list", `rem_start = 2`
        match tl with
        | .list _ sub :: tl' =>
          match parseAll fuel sub with
          | .error e => .error e
          | .ok evs => .ok (pressAll kcs ++ evs ++ releaseAll kcs, tl')
        | _ => .error .modsNeedList
      | .modsList kcs sub =>
        if kcs.isEmpty then .error .noMods else
        match parseAll fuel sub with
        | .error e => .error e
        | .ok evs => .ok (pressAll kcs ++ evs ++ releaseAll kcs, tl)
      | .bad => .error .notMacroItem

  /-- `while !remainder.is_empty() { (events, remainder) = parse_macro_item(remainder)?; all.append(events) }` -/
  def parseAll : Nat → List Item → Except MErr (List SeqEv)
    | 0, _ => .error .fuelOut
    | _ + 1, [] => .ok []
    | fuel + 1, hd :: tl =>
      match parseItem fuel (hd :: tl) with
      | .error e => .error e
      | .ok (evs, rem) =>
        match parseAll fuel rem with
        | .error e => .error e
        | .ok rest => .ok (evs ++ rest)
end

def isOverlap : SeqEv → Bool
  | .tap k | .press k | .release k => k == KEY_OVERLAP
  | _ => false

/-- `parse_macro`: the event list of `Action::Sequence` / `Action::RepeatableSequence` -/
def parseMacro (params : List Item) : Except MErr (List SeqEv) :=
  if params.isEmpty then .error .emptyMacro else
  match parseAll (itemsFuel params) params with
  | .error e => .error e
  | .ok evs => if evs.any isOverlap then .error .overlapKey else .ok (evs ++ [.complete])

/-- the summand of `macro_sequence_event_total_duration`: a delay counts its duration, anything else 1 -/
def evDur : SeqEv → Nat
  | .delay n => n
  | _ => 1

/-- `macro_sequence_event_total_duration` (u32, saturating) -/
def totalDuration (evs : List SeqEv) : Nat :=
  evs.foldl (fun d e => min (d + evDur e) U32_MAX) 0

/-- the custom actions the wrapper forms attach -/
inductive CAct
  | cancelMacroOnRelease
  | cancelMacroOnNextPress (duration : Nat)
  | other
  deriving Repr, DecidableEq, Inhabited

/-- the list actions `macro`, `macro-release-cancel`, `macro-cancel-on-press`,
`macro-release-cancel-and-cancel-on-press`; each also exists as `macro-repeat…` -/
inductive Form | plain | releaseCancel | cancelOnPress | cancelOnPressAndRelease
  deriving Repr, DecidableEq, Inhabited

/-- what the six (eight with the combined form) macro list actions compile to: the sequence, and
the custom actions of the `Action::Custom` that follows it inside `MultipleActions` (none: the
action is the bare sequence) -/
structure Compiled where
  repeatable : Bool
  events : List SeqEv
  customs : List CAct
  deriving Repr, Inhabited

/-- `parse_macro` / `parse_macro_release_cancel` / `parse_macro_cancel_on_next_press` /
`parse_macro_cancel_on_next_press_cancel_on_release` -/
def compile (form : Form) (repeatable : Bool) (params : List Item) : Except MErr Compiled :=
  match parseMacro params with
  | .error e => .error e
  | .ok evs =>
    .ok { repeatable, events := evs,
          customs := match form with
            | .plain => []
            | .releaseCancel => [.cancelMacroOnRelease]
            | .cancelOnPress => [.cancelMacroOnNextPress (totalDuration evs)]
            | .cancelOnPressAndRelease => [.cancelMacroOnRelease, .cancelMacroOnNextPress (totalDuration evs)] }

/-- the keyberon action (the custom action list is named by `customId`) -/
def Compiled.toAction (c : Compiled) (customId : Nat) : Action :=
  let seq := if c.repeatable then Action.repeatableSequence c.events else Action.sequence c.events
  if c.customs.isEmpty then seq else .multipleActions [seq, .custom customId]

end KVerif.Macro
