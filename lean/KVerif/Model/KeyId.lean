import KVerif.Gen.KeyTables
/-!
Executable model of the key-identity slice of kanata (property C11), Linux build.

Key codes are `Nat`s: an `OsCode` / `KeyCode` *value* is represented by its discriminant, and
`isOsCode` / `isKeyCode` say which discriminants exist.  Key names are `Nat`s: the injective
encoding `encName` of the list of Unicode code points (so that the kernel never compares `String`s;
injectivity is `encName_injective` in Lemmas/KeyId.lean).  Hash maps / hash sets are association lists / lists
in insertion order; only membership and first-match lookup are ever used, which is what the Rust
code uses them for.  Every place where the Rust code would index out of bounds or create an enum
value with a discriminant that does not exist is an explicit `Crash`.
-/
namespace KVerif.KeyId
open KVerif.Gen.KeyTables

/-- an encoded key name -/
abbrev Name := Nat

def nameBase : Nat := 10000000

/-- code points to encoded name: base 10^7, digit = code point + 1 (never 0), first character
    least significant -/
def encName : List Nat → Nat
  | [] => 0
  | c :: cs => encName cs * nameBase + (c + 1)

def encStr (s : String) : Name := encName (s.toList.map Char.toNat)

inductive Crash where
  /-- `transmute` to an enum type that has no variant with this discriminant (undefined behaviour) -/
  | invalidEnum (v : Nat)
  /-- `[i]` on an array of length `KEYS_IN_ROW` with `i ≥ KEYS_IN_ROW` -/
  | indexOOB (i : Nat)
  deriving Repr, DecidableEq, BEq

/-! ## L0: the tables as functions -/

def isOsCode (v : Nat) : Bool := osCodeDiscs.contains v
def isKeyCode (v : Nat) : Bool := keyCodeDiscs.contains v

/-- `OsCode::from_u16` (`from_u16_linux`, parser/src/keys/linux.rs): the discriminant of the variant
    returned.  A `match` takes the first arm that matches. -/
def fromU16 (v : Nat) : Option Nat := fromU16Arms.lookup v

/-- `OsCode::as_u16` (`as_u16_linux`: `self as u16`) -/
def asU16 (c : Nat) : Nat := c

/-- the codes kanata knows on Linux -/
def accepted (v : Nat) : Bool := (fromU16 v).isSome

/-- `impl From<OsCode> for KeyCode` (parser/src/keys/mappings.rs): `transmute` keeps the 16 bits;
    the result is a value of type `KeyCode` only if that discriminant exists there. -/
def keyCodeOfOsCode (c : Nat) : Except Crash Nat :=
  if isKeyCode c then .ok c else .error (.invalidEnum c)

/-- `impl From<KeyCode> for OsCode` -/
def osCodeOfKeyCode (k : Nat) : Except Crash Nat :=
  if isOsCode k then .ok k else .error (.invalidEnum k)

/-! ## key names: `str_to_oscode` and the custom map (parser/src/keys/mod.rs) -/

/-- `add_default_str_osc_mappings`: `mapping.entry(name).or_insert(code)` for each default -/
def addDefaults (m : List (Name × Nat)) : List (Name × Nat) :=
  defaultMappings.foldl (fun m d => if (m.lookup d.1).isSome then m else m ++ [d]) m

/-- `replace_custom_str_oscode_mapping`: cleared, the deflocalkeys entries, then the defaults -/
def replaceCustom (localKeys : List (Name × Nat)) : List (Name × Nat) := addDefaults localKeys

/-- the custom map of a configuration without deflocalkeys (also the initial value of the static) -/
def defaultCustom : List (Name × Nat) := replaceCustom []

/-- `str_to_oscode`: the custom map first, then the `match` (first arm that matches) -/
def strToOscode (custom : List (Name × Nat)) (s : Name) : Option Nat :=
  match custom.lookup s with
  | some c => some c
  | none => nameArms.lookup s

/-! ## actions and the defsrc layer (parser/src/cfg/mod.rs) -/

/-- the fragment of `KanataAction` that a single-key configuration can contain -/
inductive Act where
  | noOp
  | trans
  | keyCode (k : Nat)
  /-- `CustomAction::Mouse(btn)` with the code of `OsCode::from(btn)` -/
  | mouseBtn (c : Nat)
  /-- `CustomAction::MWheelNotch{direction}` with the code of that wheel direction -/
  | mouseWheel (c : Nat)
  /-- any other action (live reload, repeat, … — not followed further in this slice) -/
  | other
  deriving Repr, DecidableEq, BEq

/-- entry `i` of `create_defsrc_layer`: `OsCode::from_u16(i).map(|osc| Action::KeyCode(osc.into()))
    .unwrap_or(NoOp)`, with index 0 forced to `NoOp` afterwards -/
def defsrcEntry (i : Nat) : Except Crash Act :=
  match fromU16 i with
  | none => .ok .noOp
  | some c =>
    match keyCodeOfOsCode c with
    | .error e => .error e
    | .ok k => .ok (if i = 0 then .noOp else .keyCode k)

/-- `xs.iter().map(f)` where `f` may hit undefined behaviour / panic -/
def mapE {α β : Type} (f : α → Except Crash β) : List α → Except Crash (List β)
  | [] => .ok []
  | x :: xs =>
    match f x with
    | .error e => .error e
    | .ok y => match mapE f xs with
      | .error e => .error e
      | .ok ys => .ok (y :: ys)

/-- `create_defsrc_layer`: an array of `KEYS_IN_ROW` actions -/
def createDefsrcLayer : Except Crash (List Act) := mapE defsrcEntry (List.range keysInRow)

/-- `parse_action_atom`, as far as this slice goes: the special atoms are tested before key names
    (`Trans`, `NoOp`, mouse buttons and wheel are modelled, the other special atoms yield `other`
    or, for the ones only allowed inside `multi`, an error), list-action names are errors, then
    `str_to_oscode`; aliases (`@x`) and everything after them are not modelled (error). -/
def parseActionAtom (custom : List (Name × Nat)) (s : Name) : Option (Except Crash Act) :=
  if listActionNames.contains s then none
  else if transAtoms.contains s then some (.ok .trans)
  else if noopAtoms.contains s then some (.ok .noOp)
  else match mouseActionAtoms.lookup s with
    | some c => some (.ok (if mouseBtnCodes.contains c then .mouseBtn c else .mouseWheel c))
    | none =>
      if topLevelErrorAtoms.contains s then none
      else if specialActionAtoms.contains s then some (.ok .other)
      else match strToOscode custom s with
        | some c =>
          match keyCodeOfOsCode c with
          | .error e => some (.error e)
          | .ok k => some (.ok (.keyCode k))
        | none => none

/-! ## the set of intercepted keys -/

inductive PErr where
  | localDup | localUnknownNumber
  | excUnknown | excDup | excEmpty
  | srcUnknown | srcRepeat | srcExcepted
  | lmUnknown | lmRepeat | lmAny1Twice | lmAny2Twice | lmAny3Twice | lmAnyMix | lmNeedsPuk
  | action
  deriving Repr, DecidableEq, BEq

/-- `HashSet::insert` -/
def setInsert (x : Nat) (s : List Nat) : List Nat := if s.contains x then s else s ++ [x]

/-- `parse_deflocalkeys`: name/number pairs; duplicate names, numbers `from_u16` rejects and (since
the repair of the `KEY_MAX` panic) numbers at or beyond `KEYS_IN_ROW` are errors -/
def parseLocalKeys : List (Name × Nat) → List (Name × Nat) → Except PErr (List (Name × Nat))
  | acc, [] => .ok acc
  | acc, (n, v) :: rest =>
    if (acc.lookup n).isSome then .error .localDup
    else match (fromU16 v).filter (· < keysInRow) with
      | none => .error .localUnknownNumber
      | some c => parseLocalKeys (acc ++ [(n, c)]) rest

/-- `process-unmapped-keys` in `parse_defcfg` -/
inductive Puk where
  | no | yes
  | allExcept (names : List Name)
  deriving Repr

/-- the `(all-except k1 … kn)` branch of `parse_defcfg`: unknown names and duplicates are errors -/
def parseExceptions (custom : List (Name × Nat)) : List Nat → List Name → Except PErr (List Nat)
  | acc, [] => .ok acc
  | acc, n :: rest =>
    match strToOscode custom n with
    | none => .error .excUnknown
    | some c => if acc.contains c then .error .excDup else parseExceptions custom (acc ++ [c]) rest

def pukOn : Puk → Bool
  | .no => false
  | _ => true

def pukExceptions (custom : List (Name × Nat)) : Puk → Except PErr (List Nat)
  | .allExcept [] => .error .excEmpty
  | .allExcept ns => parseExceptions custom [] ns
  | _ => .ok []

/-- first loop of `parse_defsrc`: names to codes, a repeated key is an error; returns `mkeys` -/
def defsrcKeys (custom : List (Name × Nat)) : List Nat → List Name → Except PErr (List Nat)
  | mkeys, [] => .ok mkeys
  | mkeys, n :: rest =>
    match strToOscode custom n with
    | none => .error .srcUnknown
    | some c => if mkeys.contains c then .error .srcRepeat else defsrcKeys custom (mkeys ++ [c]) rest

/-- one iteration of the process-unmapped-keys loop of `parse_defsrc` -/
def pukStep (exc : List Nat) (mkeys : Except Crash (List Nat)) (i : Nat) : Except Crash (List Nat) :=
  match mkeys with
  | .error e => .error e
  | .ok mk =>
    match fromU16 i with
    | none => .ok mk
    | some c =>
      match keyCodeOfOsCode c with
      | .error e => .error e
      | .ok k =>
        if k = keyCodeNo then .ok mk
        else if exc.contains c then .ok mk
        else .ok (setInsert c mk)

/-- `for osc in 0..KEYS_IN_ROW as u16 { … }` -/
def pukLoop (exc : List Nat) (mkeys : List Nat) : Except Crash (List Nat) :=
  (List.range keysInRow).foldl (pukStep exc) (.ok mkeys)

/-- input side of one `deflayermap` pair -/
inductive LmIn where
  | key (n : Name)
  | any1 | any2 | any3          -- `_`, `__`, `___`
  deriving Repr

inductive Layer where
  /-- `(deflayer name a1 … an)`, one action atom per defsrc key (the arity check of
      `parse_layer_indexes` is not modelled: the list is as long as defsrc) -/
  | plain (acts : List Name)
  /-- `(deflayermap (name) in1 act1 …)` -/
  | map (pairs : List (LmIn × Name))
  deriving Repr

inductive Outcome (α : Type) where
  | ok (a : α)
  | rejected (e : PErr)
  | crash (c : Crash)
  deriving Repr, DecidableEq

/-- explicit entries of row 0 of one layer, latest assignment first -/
abbrev Row := List (Nat × Act)

/-- `parse_action` on an atom -/
def parseAct (custom : List (Name × Nat)) (a : Name) : Outcome Act :=
  match parseActionAtom custom a with
  | none => .rejected .action
  | some (.error c) => .crash c
  | some (.ok act) => .ok act

/-- the `DefsrcMapping` branch of `parse_layers`:
    `layers_cfg[l][0][mapping_order[i]] = parse_action(ac)` -/
def plainLayer (custom : List (Name × Nat)) : Row → List Nat → List Name → Outcome Row
  | row, c :: order, a :: acts =>
    match parseAct custom a with
    | .ok act => if c ≥ keysInRow then .crash (.indexOOB c) else plainLayer custom ((c, act) :: row) order acts
    | .rejected e => .rejected e
    | .crash e => .crash e
  | row, _, _ => .ok row

structure LmState where
  mapped : List Nat
  row : Row := []
  layerKeys : List Nat := []
  a1 : Bool := false
  a2 : Bool := false
  a3 : Bool := false

/-- the `CustomMapping` branch of `parse_layers`.  The wildcard inputs only matter here through
    their error conditions and through the index they touch (`_` indexes every defsrc position);
    what they store is not tracked (`Row` holds the explicit entries only). -/
def lmPairs (custom : List (Name × Nat)) (puk : Bool) (order : List Nat) :
    LmState → List (LmIn × Name) → Outcome LmState
  | st, [] => .ok st
  | st, (i, a) :: rest =>
    match parseAct custom a with
    | .rejected e => .rejected e
    | .crash e => .crash e
    | .ok act =>
      match i with
      | .any1 =>
        if st.a1 then .rejected .lmAny1Twice else if st.a3 then .rejected .lmAnyMix
        else match order.find? (· ≥ keysInRow) with
          | some c => .crash (.indexOOB c)
          | none => lmPairs custom puk order { st with a1 := true } rest
      | .any2 =>
        if st.a2 then .rejected .lmAny2Twice else if !puk then .rejected .lmNeedsPuk
        else if st.a3 then .rejected .lmAnyMix
        else lmPairs custom puk order { st with a2 := true } rest
      | .any3 =>
        if st.a3 then .rejected .lmAny3Twice else if st.a1 then .rejected .lmAnyMix
        else if st.a2 then .rejected .lmAnyMix else if !puk then .rejected .lmNeedsPuk
        else lmPairs custom puk order { st with a3 := true } rest
      | .key n =>
        match strToOscode custom n with
        | none => .rejected .lmUnknown
        | some c =>
          let mapped := setInsert c st.mapped
          if st.layerKeys.contains c then .rejected .lmRepeat
          else if c ≥ keysInRow then .crash (.indexOOB c)
          else lmPairs custom puk order
            { st with mapped := mapped, layerKeys := st.layerKeys ++ [c], row := (c, act) :: st.row } rest

/-- `parse_layers`: the set of intercepted keys and the explicit entries of each layer's row 0 -/
def parseLayers (custom : List (Name × Nat)) (puk : Bool) (order : List Nat) :
    List Nat → List Row → List Layer → Outcome (List Nat × List Row)
  | mapped, rows, [] => .ok (mapped, rows)
  | mapped, rows, .plain acts :: rest =>
    match plainLayer custom [] order acts with
    | .ok row => parseLayers custom puk order mapped (rows ++ [row]) rest
    | .rejected e => .rejected e
    | .crash e => .crash e
  | mapped, rows, .map pairs :: rest =>
    match lmPairs custom puk order { mapped := mapped } pairs with
    | .ok st => parseLayers custom puk order st.mapped (rows ++ [st.row]) rest
    | .rejected e => .rejected e
    | .crash e => .crash e

structure Config where
  localKeys : List (Name × Nat) := []
  puk : Puk := .no
  defsrc : List Name := []
  layers : List Layer := []
  deriving Repr

structure Parsed where
  custom : List (Name × Nat)
  /-- `Cfg.mapped_keys` -/
  mapped : List Nat
  /-- explicit entries of row 0, per layer -/
  rows : List Row

/-- `parse_cfg_raw_string`, the slice that builds `Cfg.mapped_keys` and the layer rows:
    deflocalkeys, defcfg, `parse_defsrc` (keys, exception check, process-unmapped-keys loop), then
    `parse_layers` -/
def parseCfg (cfg : Config) : Outcome Parsed :=
  match parseLocalKeys [] cfg.localKeys with
  | .error e => .rejected e
  | .ok lk =>
    let custom := replaceCustom lk
    match pukExceptions custom cfg.puk with
    | .error e => .rejected e
    | .ok exc =>
      match defsrcKeys custom [] cfg.defsrc with
      | .error e => .rejected e
      | .ok mk =>
        if exc.any mk.contains then .rejected .srcExcepted
        else
          match (if pukOn cfg.puk then pukLoop exc mk else .ok mk) with
          | .error c => .crash c
          | .ok mk2 =>
            match parseLayers custom (pukOn cfg.puk) mk mk2 [] cfg.layers with
            | .rejected e => .rejected e
            | .crash c => .crash c
            | .ok (m, rows) => .ok { custom := custom, mapped := m, rows := rows }

/-- `Cfg.mapped_keys` -/
def mappedKeys (cfg : Config) : Outcome (List Nat) :=
  match parseCfg cfg with
  | .ok p => .ok p.mapped
  | .rejected e => .rejected e
  | .crash c => .crash c

/-! ## output side (src/kanata/output_logic.rs) -/

inductive Out where
  | down (c : Nat) | up (c : Nat)
  | btnDown (c : Nat) | btnUp (c : Nat)
  | scroll (c : Nat) (dist : Nat)
  /-- `write_raw` of the untouched input event by the Linux event loop -/
  | raw (c : Nat) (release : Bool)
  deriving Repr, DecidableEq, BEq

def ignored (c : Nat) : Bool := keyIgnoreMin ≤ c && c ≤ keyIgnoreMax

/-- `output_logic::press_key` -/
def pressKey (c : Nat) : List Out :=
  if ignored c then []
  else if mouseBtnCodes.contains c then [.btnDown c]
  else if mouseWheelCodes.contains c then [.scroll c hiResScrollUnits]
  else [.down c]

/-- `output_logic::release_key` -/
def releaseKey (c : Nat) : List Out :=
  if ignored c then []
  else if mouseBtnCodes.contains c then [.btnUp c]
  else if mouseWheelCodes.contains c then []
  else [.up c]

/-- `output_logic::write_key` (`release = false` is a press or a repeat) -/
def writeKey (c : Nat) (release : Bool) : List Out :=
  if ignored c then [] else [if release then .up c else .down c]

/-- the code an output event is about -/
def Out.code : Out → Nat
  | .down c | .up c | .btnDown c | .btnUp c | .scroll c _ | .raw c _ => c

/-! ## one key through a one-layer configuration -/

/-- row 0 of the only layer as `parse_layers` leaves it: explicit entries, `Trans` elsewhere
    (block-unmapped-keys is off), index 0 forced to `NoOp`; indexing at `KEYS_IN_ROW` or beyond is
    the out-of-bounds panic of `layers_cfg[l][0][i]` / `self.layers[l][0][y]` -/
def layerAt (entries : List (Nat × Act)) (v : Nat) : Except Crash Act :=
  if v ≥ keysInRow then .error (.indexOOB v)
  else if v = 0 then .ok .noOp
  else .ok ((entries.lookup v).getD .trans)

/-- `resolve_coord` on the base layer: `Trans` falls through to the defsrc layer `src` -/
def resolveTransWith (src : Except Crash (List Act)) (a : Act) (v : Nat) : Except Crash Act :=
  match a with
  | .trans =>
    match src with
    | .error e => .error e
    | .ok src =>
      match src[v]? with
      | some s => .ok s
      | none => .error (.indexOOB v)
  | a => .ok a

def resolveTrans (a : Act) (v : Nat) : Except Crash Act := resolveTransWith createDefsrcLayer a v

/-- press and release of one resolved action: keyberon reports the key code while the key is
    held, kanata presses / releases `OsCode::from(keycode)` through the output filters; the mouse
    custom actions call `click_btn` / `release_btn` / `scroll` directly -/
def emit (a : Act) : Except Crash (List Out) :=
  match a with
  | .keyCode k =>
    match osCodeOfKeyCode k with
    | .error e => .error e
    | .ok c => .ok (pressKey c ++ releaseKey c)
  | .mouseBtn c => .ok [.btnDown c, .btnUp c]
  | .mouseWheel c => .ok [.scroll c hiResScrollUnits]
  | _ => .ok []

/-- what a tap (press, then release) of input code `v` produces: the Linux event loop forwards
    keys that are not intercepted untouched; the others go through the layer row -/
def tap (mapped : List Nat) (entries : List (Nat × Act)) (v : Nat) : Except Crash (List Out) :=
  if !mapped.contains v then .ok [.raw v false, .raw v true]
  else
    match layerAt entries v with
    | .error e => .error e
    | .ok a =>
      match resolveTrans a v with
      | .error e => .error e
      | .ok a => emit a

/-- parse a configuration and tap input code `v` on it (single layer: row 0 of layer 0);
    the Boolean says whether the key is intercepted -/
def tapCfg (cfg : Config) (v : Nat) : Outcome (Bool × List Out) :=
  match parseCfg cfg with
  | .rejected e => .rejected e
  | .crash c => .crash c
  | .ok p =>
    match tap p.mapped (p.rows.headD []) v with
    | .error c => .crash c
    | .ok outs => .ok (p.mapped.contains v, outs)

end KVerif.KeyId
