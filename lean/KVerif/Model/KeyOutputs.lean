/-
Model of parser/src/cfg/key_outputs.rs: the table "physical key ↦ key codes it may put down", built
by structural recursion over each layer's actions; and `possibleOutputs`, the key codes of every
key-producing leaf reachable through the key-producing constructors of the action.
Overrides and chords v2 contributions are not modelled (configurations using them are outside the
kanata-level model).
-/
import KVerif.Model.Kanata
namespace KVerif.KO
open KVerif.L KVerif.K

/-- `add_kc_output` without overrides: append if new -/
def addKc (outs : List Nat) (kc : Nat) : List Nat := if outs.contains kc then outs else outs ++ [kc]

def customKeys : CAct → List Nat
  | .unmodded keys _ => keys
  | .unshifted keys => keys
  | _ => []

mutual
  /-- `add_key_output_from_action_to_key_pos` -/
  def addOutputs (customs : List (List CAct)) (slot : Nat) : Action → List Nat → List Nat
    | .keyCode kc, outs => addKc outs kc
    | .holdTap _ hold tap ta _ _, outs =>
      addOutputs customs slot ta (addOutputs customs slot hold (addOutputs customs slot tap outs))
    | .oneShot a _ _, outs => addOutputs customs slot a outs
    | .multipleKeyCodes kcs, outs => kcs.foldl addKc outs
    | .multipleActions acs, outs => addOutputsL customs slot acs outs
    | .tapDance acs _ _, outs => addOutputsL customs slot acs outs
    | .fork l r _, outs => addOutputs customs slot r (addOutputs customs slot l outs)
    | .chords _ chs _, outs => addOutputsC customs slot chs outs
    | .switch cases, outs => addOutputsS customs slot cases outs
    | .custom id, outs => ((customs[id]?.getD []).flatMap customKeys).foldl addKc outs
    | .src, outs => addKc outs slot
    | _, outs => outs
  def addOutputsL (customs : List (List CAct)) (slot : Nat) : List Action → List Nat → List Nat
    | [], outs => outs
    | a :: rest, outs => addOutputsL customs slot rest (addOutputs customs slot a outs)
  def addOutputsC (customs : List (List CAct)) (slot : Nat) : List (Nat × Action) → List Nat → List Nat
    | [], outs => outs
    | (_, a) :: rest, outs => addOutputsC customs slot rest (addOutputs customs slot a outs)
  def addOutputsS (customs : List (List CAct)) (slot : Nat) : List (List Nat × Action × Bool) → List Nat → List Nat
    | [], outs => outs
    | (_, a, _) :: rest, outs => addOutputsS customs slot rest (addOutputs customs slot a outs)
end

/-- the table entry for one physical key on one layer (`none` when nothing was added: the Rust map
has no entry then) -/
def keyOutputs (customs : List (List CAct)) (slot : Nat) (a : Action) : List Nat :=
  addOutputs customs slot a []

/-- `Overrides::output_non_mods_for_input_non_mod`: the output keys of the overrides of `kc` -/
def overrideOuts (t : Override.Overrides) (kc : Nat) : List Nat :=
  match t.byOsc.find? (·.1 == kc) with
  | some (_, os) => os.map (·.outKey)
  | none => []

/-- `add_kc_output` with the override table: the key, then the output keys of its overrides.
Folding it over the list `keyOutputs` computes (the keys in the order of their first `add_kc_output`
call) gives the list the real function builds: a repeated call adds nothing that the first did not. -/
def withOverrides (t : Override.Overrides) (base : List Nat) : List Nat :=
  base.foldl (fun outs c => (overrideOuts t c).foldl addKc (addKc outs c)) []

mutual
  /-- key codes of the key-producing leaves of an action -/
  def possibleOutputs (customs : List (List CAct)) (slot : Nat) : Action → List Nat
    | .keyCode kc => [kc]
    | .multipleKeyCodes kcs => kcs
    | .holdTap _ hold tap ta _ _ =>
      possibleOutputs customs slot tap ++ possibleOutputs customs slot hold ++ possibleOutputs customs slot ta
    | .oneShot a _ _ => possibleOutputs customs slot a
    | .multipleActions acs => possibleOutputsL customs slot acs
    | .tapDance acs _ _ => possibleOutputsL customs slot acs
    | .fork l r _ => possibleOutputs customs slot l ++ possibleOutputs customs slot r
    | .chords _ chs _ => possibleOutputsC customs slot chs
    | .switch cases => possibleOutputsS customs slot cases
    | .custom id => (customs[id]?.getD []).flatMap customKeys
    | .src => [slot]
    | _ => []
  def possibleOutputsL (customs : List (List CAct)) (slot : Nat) : List Action → List Nat
    | [] => []
    | a :: rest => possibleOutputs customs slot a ++ possibleOutputsL customs slot rest
  def possibleOutputsC (customs : List (List CAct)) (slot : Nat) : List (Nat × Action) → List Nat
    | [] => []
    | (_, a) :: rest => possibleOutputs customs slot a ++ possibleOutputsC customs slot rest
  def possibleOutputsS (customs : List (List CAct)) (slot : Nat) : List (List Nat × Action × Bool) → List Nat
    | [] => []
    | (_, a, _) :: rest => possibleOutputs customs slot a ++ possibleOutputsS customs slot rest
end

end KVerif.KO
