/-
Model of zippychord:

* parser/src/subset.rs                      `SubsetMap` (`Ssm`, `ssmInsertKsorted`, `ssmGet`)
* parser/src/cfg/zippychord.rs              dictionary file → chord tree (`addLine`, `buildDict`),
                                            `ZchSortedChord::zch_insert`, `ZchOutput`
* src/kanata/output_logic/zippychord.rs     `ZchDynamicState`, `zch_press_key`, `zch_release_key`,
                                            `zch_tick` and their helpers
* src/kanata/output_logic.rs + mod.rs       how a pass-through layout feeds key presses/releases
                                            to zippychord, one queued event per tick (`Sim`)

Conventions.  Key codes are `Nat` (the `u16` value of `OsCode`).  The i16 counters are `Int`
(i16 overflow would need an expansion of more than 32767 characters and is not modelled; the
`for _ in 0..n` loop over a negative i16 runs zero times, which is `Int.toNat`).  The u16 tick
counters are `Nat`; `saturating_sub` is `Nat` subtraction; `zchd_ticks_since_state_change += 1`
cannot overflow because it is reset above 10000.

The chord tree.  In Rust a dictionary is a `SubsetMap` whose values carry
`Option<Arc<Mutex<ZchPossibleChords>>>` follow-up maps (a tree of maps, shared by pointer).  Here
the tree is a flat list of nodes, each with the path of chords that leads to it (`parent`) and its
own sorted key set; the map of follow-ups of a chord is "all nodes whose parent is that chord's
path" (`level`), `zch_followups.is_some()` is "that level is not empty" (a follow-up map is only
created while parsing a line that then inserts into it), and a pointer to a follow-up map
(`zchd_prioritized_chords`) is the path of its owner.  Every lookup goes through the faithful
`SubsetMap` model built from the level's entries in insertion order.
-/
import KVerif.Model.TextBuf
namespace KVerif.Zippy
open KVerif.TextBuf (OsEv KEY_BACKSPACE KEY_SPACE KEY_LEFTSHIFT KEY_RIGHTSHIFT KEY_RIGHTALT)

/-! ## SubsetMap (parser/src/subset.rs) -/

/-- `GetOrIsSubsetOfKnownKey<T>` -/
inductive Lookup (V : Type) where
  | hasValue (v : V)
  | isSubset
  | neither
  deriving DecidableEq, Repr

/-- A slice key `Box<[K]>`. -/
abbrev Key := List Nat

/-- `Ord for [K]`: lexicographic, a proper prefix is smaller. -/
def keyLt : Key → Key → Bool
  | [], [] => false
  | [], _ :: _ => true
  | _ :: _, [] => false
  | a :: as, b :: bs => a < b || (a == b && keyLt as bs)

/-- `SubsetMap.map : FxHashMap<K, Vec<SsmKeyValue<K, V>>>` as an association list
(hash-map iteration order is never observed by the code). -/
abbrev Ssm (V : Type) := List (Nat × List (Key × V))

/-- `binary_search_by(|probe| probe.key.cmp(key))` followed by replacement (`Ok(pos)`) or insertion
at the sorted position (`Err(pos)`).  Every vector of the map is built by this function only, hence
sorted and duplicate-free, which is what makes the binary search equal to this linear scan. -/
def vecInsert {V : Type} (key : Key) (v : V) : List (Key × V) → List (Key × V)
  | [] => [(key, v)]
  | (k', v') :: rest =>
    if k' = key then (key, v) :: rest
    else if keyLt key k' then (key, v) :: (k', v') :: rest
    else (k', v') :: vecInsert key v rest

/-- `self.map.entry(k).or_default()` then apply `f` to the vector. -/
def mapUpdate {V : Type} (k : Nat) (f : List (Key × V) → List (Key × V)) : Ssm V → Ssm V
  | [] => [(k, f [])]
  | (k', vec) :: rest => if k' = k then (k', f vec) :: rest else (k', vec) :: mapUpdate k f rest

/-- `SubsetMap::ssm_insert_ksorted` -/
def ssmInsertKsorted {V : Type} (m : Ssm V) (key : Key) (v : V) : Ssm V :=
  key.foldl (fun m k => mapUpdate k (vecInsert key v) m) m

/-- `self.map.get(&k)` -/
def mapGet {V : Type} (m : Ssm V) (k : Nat) : Option (List (Key × V)) :=
  match m with
  | [] => none
  | (k', vec) :: rest => if k' = k then some vec else mapGet rest k

/-- `get_key.iter().all(|kitem| kv.key.contains(kitem))` -/
def isSubsetOf (getKey key : Key) : Bool := getKey.all (fun x => key.contains x)

/-- `SubsetMap::ssm_get_or_is_subset_ksorted` -/
def ssmGet {V : Type} (m : Ssm V) (getKey : Key) : Lookup V :=
  match getKey with
  | [] => if m.isEmpty then .neither else .isSubset
  | k0 :: _ =>
    match mapGet m k0 with
    | none => .neither
    | some vec =>
      match vec.find? (fun kv => kv.1 = getKey) with
      | some kv => .hasValue kv.2
      | none => if vec.any (fun kv => isSubsetOf getKey kv.1) then .isSubset else .neither

/-- `SubsetMap::is_empty` -/
def ssmIsEmpty {V : Type} (m : Ssm V) : Bool := m.isEmpty

/-! ### Abstract view of a SubsetMap: the list of (key, value) pairs it stands for -/

/-- Insert-or-replace on the abstract entry list (an empty key inserts nothing, exactly as the loop
over the key's items does). -/
def absInsert {V : Type} (d : List (Key × V)) (key : Key) (v : V) : List (Key × V) :=
  if key = [] then d
  else if d.any (fun kv => kv.1 = key) then d.map (fun kv => if kv.1 = key then (key, v) else kv)
  else d ++ [(key, v)]

/-- What a lookup means: the value stored under exactly this key; else whether the key is a subset
of some stored key; else neither. -/
def absGet {V : Type} (d : List (Key × V)) (getKey : Key) : Lookup V :=
  match d.find? (fun kv => kv.1 = getKey) with
  | some kv => .hasValue kv.2
  | none => if d.any (fun kv => isSubsetOf getKey kv.1) then .isSubset else .neither

/-! ## Outputs and the chord tree (parser/src/cfg/zippychord.rs) -/

inductive OutKind | lower | upper | altGr | shiftAltGr
  deriving DecidableEq, Repr, Inhabited

/-- `ZchOutput`: the four variants and their `NoErase` twins. -/
structure ZchOut where
  kind : OutKind
  noErase : Bool
  osc : Nat
  deriving DecidableEq, Repr, Inhabited

/-- `ZchOutput::output_char_count` -/
def ZchOut.charCount (o : ZchOut) : Int :=
  if o.osc = KEY_BACKSPACE then -1 else if o.noErase then 0 else 1

/-- `ZchOutput::display_len` -/
def displayLen (outs : List ZchOut) : Int := outs.foldl (fun n o => n + o.charCount) 0

/-- `ZchSortedChord::zch_insert`: binary search; present → nothing, absent → insert in order. -/
def sortedInsert (k : Nat) : List Nat → List Nat
  | [] => [k]
  | x :: xs => if k < x then k :: x :: xs else if k = x then x :: xs else x :: sortedInsert k xs

/-- The sorted key set of a chord written as a list of keys. -/
def chordKey (cs : List Nat) : Key := cs.foldl (fun acc k => sortedInsert k acc) []

abbrev Path := List Key

/-- One chord of the tree: reached through `parent`, activated by `key`, typing `out`. -/
structure Node where
  parent : Path
  key : Key
  out : List ZchOut
  deriving DecidableEq, Repr

abbrev Dict := List Node

/-- The entries of one map of the tree (root: `p = []`), in insertion order. -/
def level (d : Dict) (p : Path) : List (Key × List ZchOut) :=
  (d.filter (fun n => n.parent = p)).map (fun n => (n.key, n.out))

/-- The `SubsetMap` of one level, built by the insertions the parser performed. -/
def levelSsm (d : Dict) (p : Path) : Ssm (List ZchOut) :=
  (level d p).foldl (fun m kv => ssmInsertKsorted m kv.1 kv.2) []

def lookupLevel (d : Dict) (p : Path) (keys : Key) : Lookup (List ZchOut) :=
  ssmGet (levelSsm d p) keys

/-- `zch_followups.is_some()` for the chord at path `p`. -/
def hasFollowups (d : Dict) (p : Path) : Bool := d.any (fun n => n.parent = p)

/-- One line of the dictionary file: chords as written (keys in file order), output column. -/
structure DLine where
  chords : List (List Nat)
  out : List ZchOut
  deriving Repr

inductive BuildErr | duplicate
  deriving DecidableEq, Repr

/-- The `while !input_left_to_parse.is_empty()` loop of `parse_zippy_inner` for one line. -/
def addChords (out : List ZchOut) (d : Dict) (parent : Path) : List (List Nat) → Except BuildErr Dict
  | [] => .ok d
  | [c] =>
    let k := chordKey c
    match lookupLevel d parent k with
    | .hasValue _ => .error .duplicate          -- "Found duplicate input chord"
    | _ => .ok (d ++ [⟨parent, k, out⟩])
  | c :: rest =>
    let k := chordKey c
    match lookupLevel d parent k with
    | .hasValue _ => addChords out d (parent ++ [k]) rest              -- existing chord: descend
    | _ => addChords out (d ++ [⟨parent, k, []⟩]) (parent ++ [k]) rest -- new chord with empty output

def addLine (d : Dict) (l : DLine) : Except BuildErr Dict := addChords l.out d [] l.chords

/-- A line whose text consists of spaces only (every chord is the space key alone and every output
is a plain space) is dropped by `.filter(|(_, line)| !line.trim().is_empty() && …)`. -/
def DLine.isBlank (l : DLine) : Bool :=
  l.chords.all (fun c => c.all (fun k => k = KEY_SPACE)) &&
    l.out.all (fun o => o.kind = .lower && !o.noErase && o.osc = KEY_SPACE)

/-- The lines the `try_fold` sees. -/
def effectiveLines (ls : List DLine) : List DLine := ls.filter (fun l => !l.isBlank)

/-- The `try_fold` over the lines of the file. -/
def buildDict (ls : List DLine) : Except BuildErr Dict :=
  (effectiveLines ls).foldlM addLine []

/-! ## Dynamic state (src/kanata/output_logic/zippychord.rs) -/

inductive EnabledState | enabled | waitEnable | disabled
  deriving DecidableEq, Repr, Inhabited
inductive LastPress | isChord | notChord
  deriving DecidableEq, Repr, Inhabited
inductive SmartSpaceState | inactive | sent
  deriving DecidableEq, Repr, Inhabited
inductive SmartSpaceCfg | full | addSpaceOnly | disabled
  deriving DecidableEq, Repr, Inhabited

/-- `ZchConfig` plus the chords (`ZchState.zch_chords`). -/
structure Cfg where
  dict : Dict
  ticksWaitEnable : Nat
  ticksChordDeadline : Nat
  smartSpace : SmartSpaceCfg
  punctuation : List ZchOut
  deriving Repr

/-- `ZchDynamicState` -/
structure Zchd where
  inputKeys : List Nat
  enabledState : EnabledState
  prioritized : Option Path
  priorActivationOutputCount : Int
  charsToDelete : Int
  priorActivation : Option (List ZchOut)
  ticksSinceStateChange : Nat
  ticksUntilEnabled : Nat
  ticksUntilDisable : Nat
  sameHoldActivationCount : Nat
  capsWord : Bool
  lsft : Bool
  rsft : Bool
  altgr : Bool
  lastPress : LastPress
  smartSpaceState : SmartSpaceState
  deriving DecidableEq, Repr

/-- `ZchDynamicState::default()` -/
def Zchd.default : Zchd :=
  { inputKeys := [], enabledState := .enabled, prioritized := none, priorActivationOutputCount := 0,
    charsToDelete := 0, priorActivation := none, ticksSinceStateChange := 0, ticksUntilEnabled := 0,
    ticksUntilDisable := 0, sameHoldActivationCount := 0, capsWord := false, lsft := false,
    rsft := false, altgr := false, lastPress := .isChord, smartSpaceState := .inactive }

def TICKS_UNTIL_FORCE_STATE_RESET : Nat := 10000

/-- `OsCode::is_zippy_ignored` -/
def zippyIgnored : List Nat := [42, 54, 125, 126, 29, 97, 56, 100, 1, 14, 111]
def isZippyIgnored (k : Nat) : Bool := zippyIgnored.contains k

/-- `zchd_clear_history` -/
def Zchd.clearHistory (s : Zchd) : Zchd :=
  { s with charsToDelete := 0, prioritized := none, priorActivation := none,
           priorActivationOutputCount := 0 }

/-- `zchd_soft_reset` -/
def Zchd.softReset (s : Zchd) : Zchd :=
  { s with lastPress := .notChord, enabledState := .disabled, inputKeys := [],
           ticksSinceStateChange := 0, ticksUntilDisable := 0, ticksUntilEnabled := 0,
           smartSpaceState := .inactive }.clearHistory

/-- `zchd_reset` -/
def Zchd.reset (s : Zchd) : Zchd :=
  { s.softReset with capsWord := false, lsft := false, rsft := false, altgr := false,
                     lastPress := .isChord, enabledState := .enabled }

/-- The `match self.zchd_enabled_state` of `zchd_tick`. -/
def Zchd.tickCore (s : Zchd) : Zchd :=
  match s.enabledState with
  | .waitEnable =>
    let s := { s with ticksUntilEnabled := s.ticksUntilEnabled - 1 }
    if s.ticksUntilEnabled = 0 then
      { s with enabledState := .enabled, ticksUntilDisable := 0 }
    else s
  | .enabled =>
    if s.ticksUntilDisable > 0 then
      let s := { s with ticksUntilDisable := s.ticksUntilDisable - 1 }
      if s.ticksUntilDisable = 0 then s.softReset else s
    else s
  | .disabled => s

/-- `zchd_tick` -/
def Zchd.tick (s : Zchd) (isCapsWordActive : Bool) : Zchd :=
  let s := { s with ticksSinceStateChange := s.ticksSinceStateChange + 1,
                    capsWord := isCapsWordActive }
  let s := s.tickCore
  if s.ticksSinceStateChange > TICKS_UNTIL_FORCE_STATE_RESET then s.reset else s

/-- `zchd_state_change` -/
def Zchd.stateChange (s : Zchd) (cfg : Cfg) : Zchd :=
  { s with ticksSinceStateChange := 0, ticksUntilEnabled := cfg.ticksWaitEnable }

/-- `zchd_activate_chord_deadline` -/
def Zchd.activateChordDeadline (s : Zchd) (deadline : Nat) : Zchd :=
  if s.ticksUntilDisable = 0 then { s with ticksUntilDisable := deadline } else s

/-- `zchd_release_key` -/
def Zchd.releaseKey (s : Zchd) (osc : Nat) : Zchd :=
  let s := { s with inputKeys := s.inputKeys.filter (fun k => k ≠ osc) }
  match s.lastPress, s.inputKeys.isEmpty with
  | .notChord, true => { s with enabledState := .waitEnable }.clearHistory
  | .notChord, false => s.softReset
  | .isChord, true =>
    let s := if s.prioritized.isNone then s.clearHistory else s
    { s with charsToDelete := 0, ticksUntilDisable := 0, enabledState := .enabled,
             sameHoldActivationCount := 0 }
  | .isChord, false => { s with ticksUntilDisable := 0 }

/-- `zchd_is_idle` -/
def Zchd.isIdle (s : Zchd) : Bool := s.enabledState = .enabled && s.inputKeys.isEmpty

/-! ### Typing an activation -/

/-- `type_osc`: a key the user is holding is released first and left pressed. -/
def typeOsc (inputKeys : List Nat) (osc : Nat) : List OsEv :=
  if inputKeys.contains osc then [.up osc, .down osc] else [.down osc, .up osc]

/-- The condition of `maybe_press_sft_during_activation` / `maybe_release_sft_during_activation`. -/
def sftDuring (s : Zchd) (released : Bool) : Bool :=
  -- (PENDING-2; before: `!s.capsWord && (released || (!s.lsft && !s.rsft))` - under caps-word an
  -- upper-case output got no shift at all when caps-word was not holding one)
  (!s.lsft && !s.rsft) || (!s.capsWord && released)

/-- The body of the `for key_to_send in …` loop for one output (without the counter update). -/
def sendOne (s : Zchd) (released : Bool) (o : ZchOut) : List OsEv :=
  let t := typeOsc s.inputKeys o.osc
  let ps : List OsEv := if sftDuring s released then [.down KEY_LEFTSHIFT] else []
  let rs : List OsEv := if sftDuring s released then [.up KEY_LEFTSHIFT] else []
  let core : List OsEv :=
    match o.kind with
    | .lower => t
    | .upper => ps ++ t ++ rs
    | .altGr => [.down KEY_RIGHTALT] ++ t ++ [.up KEY_RIGHTALT]
    | .shiftAltGr => [.down KEY_RIGHTALT] ++ ps ++ t ++ rs ++ [.up KEY_RIGHTALT]
  let rel : List OsEv :=
    if !released && !s.capsWord then
      (if s.lsft then [.up KEY_LEFTSHIFT] else []) ++ (if s.rsft then [.up KEY_RIGHTSHIFT] else [])
    else []
  core ++ rel

/-- The whole `for key_to_send in …` loop; `released` is `released_sft`. -/
def sendKeys (s : Zchd) : Bool → List ZchOut → List OsEv
  | _, [] => []
  | released, o :: os => sendOne s released o ++ sendKeys s (released || !s.capsWord) os

/-- The common-prefix loop of `zch_press_key`. -/
def commonPrefixLen : List ZchOut → List ZchOut → Nat
  | p :: ps, c :: cs =>
    if p.osc = KEY_BACKSPACE || c.osc = KEY_BACKSPACE || p ≠ c then 0 else commonPrefixLen ps cs + 1
  | _, _ => 0

def bspc : List OsEv := [.down KEY_BACKSPACE, .up KEY_BACKSPACE]

def bspcs : Nat → List OsEv
  | 0 => []
  | n + 1 => bspc ++ bspcs n

/-- The `ZchOutput` a pressed key is compared as against the punctuation set. -/
def puncOf (s : Zchd) (osc : Nat) : ZchOut :=
  match s.lsft || s.rsft, s.altgr with
  | false, false => ⟨.lower, false, osc⟩
  | true, false => ⟨.upper, false, osc⟩
  | false, true => ⟨.altGr, false, osc⟩
  | true, true => ⟨.shiftAltGr, false, osc⟩

/-- Whether smart space applies to this output (`a.zch_output.last()` is neither space nor
backspace; empty output: no). -/
def wantsSmartSpace (cfg : Cfg) (outs : List ZchOut) : Bool :=
  cfg.smartSpace ≠ .disabled &&
    match outs.getLast? with
    | some o => !(o.osc = KEY_SPACE || o.osc = KEY_BACKSPACE)
    | none => false

/-- The `HasValue(a)` arm of `zch_press_key`.  `ctx` is the path of the map the chord was found in
(`[]` = the top-level chords), `isPrio` whether that was the prioritised follow-up map. -/
def activate (cfg : Cfg) (s : Zchd) (osc : Nat) (outs : List ZchOut) (ctx : Path) (isPrio : Bool) :
    Zchd × List OsEv :=
  let cpl : Nat :=
    if !isPrio && s.sameHoldActivationCount = 0 then 0
    else match s.priorActivation with
      | some prior => commonPrefixLen prior outs
      | none => 0
  let s := { s with priorActivation := some outs,
                    sameHoldActivationCount := s.sameHoldActivationCount + 1,
                    ticksUntilDisable := cfg.ticksChordDeadline }
  let (s, ev1) :=
    if !outs.isEmpty then
      let n : Int := s.charsToDelete + (if isPrio then s.priorActivationOutputCount else 0) - cpl
      -- the re-used common prefix stays on screen and stays counted
      ({ s with charsToDelete := displayLen (outs.take cpl), priorActivationOutputCount := displayLen outs },
       bspcs n.toNat)
    else
      -- what a later follow-up has to erase: what earlier chords of the chain left, plus
      -- everything typed during this hold
      let ctd := s.charsToDelete + 1
      ({ s with charsToDelete := ctd,
                priorActivationOutputCount := (if isPrio then s.priorActivationOutputCount else 0) + ctd },
       [OsEv.down osc])
  let path := ctx ++ [s.inputKeys]
  let s := { s with prioritized := if hasFollowups cfg.dict path then some path else none }
  let evAltUp : List OsEv := if s.altgr && !outs.isEmpty then [.up KEY_RIGHTALT] else []
  -- with a re-used prefix the first character of the output is already on screen: a held shift
  -- must not capitalise what is typed now
  let released0 : Bool := decide (cpl > 0) && !s.capsWord
  let evSftUp : List OsEv :=
    if released0 then
      (if s.lsft then [.up KEY_LEFTSHIFT] else []) ++ (if s.rsft then [.up KEY_RIGHTSHIFT] else [])
    else []
  let toSend := outs.drop cpl
  let evKeys := sendKeys s released0 toSend
  let s := { s with charsToDelete := s.charsToDelete + displayLen toSend }
  let (s, evSpace) :=
    if wantsSmartSpace cfg outs then
      let s := if cfg.smartSpace = .full then { s with smartSpaceState := .sent } else s
      ({ s with priorActivationOutputCount := s.priorActivationOutputCount + 1,
                charsToDelete := s.charsToDelete + 1 },
       [OsEv.down KEY_SPACE, OsEv.up KEY_SPACE])
    else (s, [])
  let evSft : List OsEv :=
    if !s.capsWord then
      (if s.lsft then [.down KEY_LEFTSHIFT] else []) ++ (if s.rsft then [.down KEY_RIGHTSHIFT] else [])
    else []
  let evAltDown : List OsEv := if s.altgr && !outs.isEmpty then [.down KEY_RIGHTALT] else []
  ({ s with lastPress := .isChord }, ev1 ++ evAltUp ++ evSftUp ++ evKeys ++ evSpace ++ evSft ++ evAltDown)

/-- The smart-space part of `zch_press_key`: a punctuation key right after an activation that sent
a smart space erases that space.  The space is part of characters-to-delete only while the chord
that sent it is still (partly) held, and part of the prior output count kept for follow-ups. -/
def punctStage (cfg : Cfg) (s : Zchd) (osc : Nat) : Zchd × List OsEv :=
  if s.smartSpaceState = .sent && cfg.punctuation.contains (puncOf s osc) then
    let s := if !s.inputKeys.isEmpty then { s with charsToDelete := s.charsToDelete - 1 } else s
    let s := if s.prioritized.isSome then
      { s with priorActivationOutputCount := s.priorActivationOutputCount - 1 } else s
    (s, bspc)
  else (s, [])

/-- `zchd_activate_chord_deadline`, `zchd_state_change`, `zchd_press_key` in a row. -/
def enterKey (cfg : Cfg) (s : Zchd) (osc : Nat) : Zchd :=
  let s := s.activateChordDeadline cfg.ticksChordDeadline
  let s := s.stateChange cfg
  { s with inputKeys := sortedInsert osc s.inputKeys }

/-- The outcome of the two lookups of `zch_press_key`. -/
inductive Found
  | prio (p : Path) (a : List ZchOut)   -- `HasValue` in the prioritised follow-up map of path `p`
  | top (a : List ZchOut)               -- `HasValue` among the top-level chords
  | subset
  | neither
  deriving Repr

/-- The two lookups on a prioritised map (if any) and a key set. -/
def findChordK (cfg : Cfg) (prioritized : Option Path) (keys : Key) : Found :=
  let prio : Option (Path × List ZchOut) :=
    match prioritized with
    | some p =>
      match lookupLevel cfg.dict p keys with
      | .hasValue a => some (p, a)
      | _ => none
    | none => none
  let subsetOfFollowup : Bool :=
    match prioritized with
    | some p =>
      match lookupLevel cfg.dict p keys with
      | .isSubset => true
      | _ => false
    | none => false
  match prio with
  | some (p, a) => .prio p a
  | none =>
    match lookupLevel cfg.dict [] keys with
    | .hasValue a => .top a
    | .isSubset => .subset
    -- keys that are part of a possible follow-up chord must not disable zippychord only because
    -- no top-level chord contains them
    | .neither => if subsetOfFollowup then .subset else .neither

/-- `activation = pchords.get(keys)`; `if !HasValue { activation = zch_chords.get(keys); if it was
IsSubset and now Neither { activation = IsSubset } }`. -/
def findChord (cfg : Cfg) (s : Zchd) : Found := findChordK cfg s.prioritized s.inputKeys

/-- `ZchState::zch_press_key` -/
def zchPressKey (cfg : Cfg) (s : Zchd) (osc : Nat) : Zchd × List OsEv :=
  if ssmIsEmpty (levelSsm cfg.dict []) then (s, [.down osc])
  else if osc = KEY_LEFTSHIFT then ({ s with lsft := true }, [.down osc])
  else if osc = KEY_RIGHTSHIFT then ({ s with rsft := true }, [.down osc])
  else if osc = KEY_RIGHTALT then ({ s with altgr := true }, [.down osc])
  else if isZippyIgnored osc then (s, [.down osc])
  else
    let s1 := (punctStage cfg s osc).1
    let ev0 := (punctStage cfg s osc).2
    let s1 := { s1 with smartSpaceState := .inactive }
    if s1.enabledState ≠ .enabled then (s1, ev0 ++ [.down osc])
    else
      let s2 := enterKey cfg s1 osc
      match findChord cfg s2 with
      | .prio p a => ((activate cfg s2 osc a p true).1, ev0 ++ (activate cfg s2 osc a p true).2)
      | .top a => ((activate cfg s2 osc a [] false).1, ev0 ++ (activate cfg s2 osc a [] false).2)
      | .subset =>
        ({ s2 with lastPress := .notChord, charsToDelete := s2.charsToDelete + 1 }, ev0 ++ [.down osc])
      | .neither => (s2.softReset, ev0 ++ [.down osc])

/-! ### The pinned code (before the `fix:` commits), kept for the counterexample theorems only -/

/-- PINNED (before fix-class-4/5/7-8): the `HasValue(a)` arm of `zch_press_key`.  `ctx` is the path of the map the chord was found in
(`[]` = the top-level chords), `isPrio` whether that was the prioritised follow-up map. -/
def activatePinned (cfg : Cfg) (s : Zchd) (osc : Nat) (outs : List ZchOut) (ctx : Path) (isPrio : Bool) :
    Zchd × List OsEv :=
  let cpl : Nat :=
    if !isPrio && s.sameHoldActivationCount = 0 then 0
    else match s.priorActivation with
      | some prior => commonPrefixLen prior outs
      | none => 0
  let s := { s with priorActivation := some outs,
                    sameHoldActivationCount := s.sameHoldActivationCount + 1,
                    ticksUntilDisable := cfg.ticksChordDeadline }
  let (s, ev1) :=
    if !outs.isEmpty then
      let n : Int := s.charsToDelete + (if isPrio then s.priorActivationOutputCount else 0) - cpl
      ({ s with charsToDelete := 0, priorActivationOutputCount := displayLen outs }, bspcs n.toNat)
    else
      ({ s with charsToDelete := s.charsToDelete + 1,
                priorActivationOutputCount := s.priorActivationOutputCount + s.inputKeys.length },
       [OsEv.down osc])
  let path := ctx ++ [s.inputKeys]
  let s := { s with prioritized := if hasFollowups cfg.dict path then some path else none }
  let evAltUp : List OsEv := if s.altgr && !outs.isEmpty then [.up KEY_RIGHTALT] else []
  let toSend := outs.drop cpl
  let evKeys := sendKeys s false toSend
  let s := { s with charsToDelete := s.charsToDelete + displayLen toSend }
  let (s, evSpace) :=
    if wantsSmartSpace cfg outs then
      let s := if cfg.smartSpace = .full then { s with smartSpaceState := .sent } else s
      ({ s with priorActivationOutputCount := s.priorActivationOutputCount + 1,
                charsToDelete := s.charsToDelete + 1 },
       [OsEv.down KEY_SPACE, OsEv.up KEY_SPACE])
    else (s, [])
  let evSft : List OsEv :=
    if !s.capsWord then
      (if s.lsft then [.down KEY_LEFTSHIFT] else []) ++ (if s.rsft then [.down KEY_RIGHTSHIFT] else [])
    else []
  let evAltDown : List OsEv := if s.altgr && !outs.isEmpty then [.down KEY_RIGHTALT] else []
  ({ s with lastPress := .isChord }, ev1 ++ evAltUp ++ evKeys ++ evSpace ++ evSft ++ evAltDown)

/-- PINNED (before fix-class-6): the smart-space part of `zch_press_key`: a punctuation key right after an activation that sent
a smart space erases that space (and the erase counter is decremented). -/
def punctStagePinned (cfg : Cfg) (s : Zchd) (osc : Nat) : Zchd × List OsEv :=
  if s.smartSpaceState = .sent && cfg.punctuation.contains (puncOf s osc) then
    ({ s with charsToDelete := s.charsToDelete - 1 }, bspc)
  else (s, [])

/-- PINNED (before fix-class-1): `activation = pchords.get(keys)`; `if !HasValue { activation = zch_chords.get(keys) }`. -/
def findChordPinned (cfg : Cfg) (s : Zchd) : Found :=
  let prio : Option (Path × List ZchOut) :=
    match s.prioritized with
    | some p =>
      match lookupLevel cfg.dict p s.inputKeys with
      | .hasValue a => some (p, a)
      | _ => none
    | none => none
  match prio with
  | some (p, a) => .prio p a
  | none =>
    match lookupLevel cfg.dict [] s.inputKeys with
    | .hasValue a => .top a
    | .isSubset => .subset
    | .neither => .neither

/-- PINNED `ZchState::zch_press_key` (the code before the `fix:` commits for classes 1, 4, 5, 6, 7-8). -/
def zchPressKeyPinned (cfg : Cfg) (s : Zchd) (osc : Nat) : Zchd × List OsEv :=
  if ssmIsEmpty (levelSsm cfg.dict []) then (s, [.down osc])
  else if osc = KEY_LEFTSHIFT then ({ s with lsft := true }, [.down osc])
  else if osc = KEY_RIGHTSHIFT then ({ s with rsft := true }, [.down osc])
  else if osc = KEY_RIGHTALT then ({ s with altgr := true }, [.down osc])
  else if isZippyIgnored osc then (s, [.down osc])
  else
    let s1 := (punctStagePinned cfg s osc).1
    let ev0 := (punctStagePinned cfg s osc).2
    let s1 := { s1 with smartSpaceState := .inactive }
    if s1.enabledState ≠ .enabled then (s1, ev0 ++ [.down osc])
    else
      let s2 := enterKey cfg s1 osc
      match findChordPinned cfg s2 with
      | .prio p a => ((activatePinned cfg s2 osc a p true).1, ev0 ++ (activatePinned cfg s2 osc a p true).2)
      | .top a => ((activatePinned cfg s2 osc a [] false).1, ev0 ++ (activatePinned cfg s2 osc a [] false).2)
      | .subset =>
        ({ s2 with lastPress := .notChord, charsToDelete := s2.charsToDelete + 1 }, ev0 ++ [.down osc])
      | .neither => (s2.softReset, ev0 ++ [.down osc])

/-- `ZchState::zch_release_key` -/
def zchReleaseKey (cfg : Cfg) (s : Zchd) (osc : Nat) : Zchd × List OsEv :=
  if ssmIsEmpty (levelSsm cfg.dict []) then (s, [.up osc])
  else
    let s :=
      if osc = KEY_LEFTSHIFT then { s with lsft := false }
      else if osc = KEY_RIGHTSHIFT then { s with rsft := false }
      else if osc = KEY_RIGHTALT then { s with altgr := false }
      else s
    if isZippyIgnored osc then (s, [.up osc])
    else ((s.stateChange cfg).releaseKey osc, [.up osc])

/-- `ZchState::zch_tick` -/
def zchTick (s : Zchd) (isCapsWordActive : Bool) : Zchd := s.tick isCapsWordActive

/-- `ZchState::zch_configure`: new chords and options, `zchd_reset`. -/
def zchConfigure (s : Zchd) : Zchd := s.reset

/-! ## Zippychord-level histories (what the theorems quantify over) -/

inductive ZEv
  | press (k : Nat)
  | release (k : Nat)
  | tick
  deriving DecidableEq, Repr

def zStep (cfg : Cfg) (s : Zchd) : ZEv → Zchd × List OsEv
  | .press k => zchPressKey cfg s k
  | .release k => zchReleaseKey cfg s k
  | .tick => (zchTick s false, [])

def zRun (cfg : Cfg) : Zchd → List ZEv → Zchd × List OsEv
  | s, [] => (s, [])
  | s, e :: es =>
    let (s1, o1) := zStep cfg s e
    let (s2, o2) := zRun cfg s1 es
    (s2, o1 ++ o2)

/-- the pinned step / run (counterexample theorems only) -/
def zStepPinned (cfg : Cfg) (s : Zchd) : ZEv → Zchd × List OsEv
  | .press k => zchPressKeyPinned cfg s k
  | .release k => zchReleaseKey cfg s k
  | .tick => (zchTick s false, [])

def zRunPinned (cfg : Cfg) : Zchd → List ZEv → Zchd × List OsEv
  | s, [] => (s, [])
  | s, e :: es =>
    let (s1, o1) := zStepPinned cfg s e
    let (s2, o2) := zRunPinned cfg s1 es
    (s2, o1 ++ o2)

/-! ## The path from `Kanata` to zippychord for a pass-through layout
(src/kanata/mod.rs `handle_input_event`, `tick_states`, `handle_keystate_changes`;
src/kanata/output_logic.rs `press_key` / `release_key`; oskbd/simulated.rs `Outputs::push`).

With `(defsrc)(deflayer base)` every key is transparent: a queued press adds the key to the
layout's active key codes, a queued release removes it; the layout takes one queued event per
tick. -/

inductive InEv
  | press (k : Nat)
  | release (k : Nat)
  deriving DecidableEq, Repr

/-- An item of the simulated output log: elapsed ticks, or a key event. -/
inductive TraceItem
  | ticks (n : Nat)
  | ev (e : OsEv)
  deriving DecidableEq, Repr

structure Sim where
  queue : List InEv        -- keyberon event queue
  active : List Nat        -- `layout.keycodes()`: active keys in press order
  prevKeys : List Nat      -- `Kanata.prev_keys`
  zch : Zchd
  ticks : Nat              -- `Outputs.ticks`
  trace : List TraceItem   -- `Outputs.events`, most recent first
  deriving Repr

def KEY_IGNORE_MIN : Nat := 0x2a4
def KEY_IGNORE_MAX : Nat := 0x2ad

/-- `Outputs::push` -/
def Sim.emit1 (m : Sim) (e : OsEv) : Sim :=
  let tr := if m.ticks > 0 then TraceItem.ticks m.ticks :: m.trace else m.trace
  { m with trace := TraceItem.ev e :: tr, ticks := 0 }

/-- `Outputs::push` for a list of events -/
def Sim.emit (m : Sim) (evs : List OsEv) : Sim := evs.foldl Sim.emit1 m

/-- output_logic.rs `release_key` (mouse codes are outside the modelled alphabet) -/
def Sim.releaseKey (cfg : Cfg) (m : Sim) (k : Nat) : Sim :=
  if KEY_IGNORE_MIN ≤ k && k ≤ KEY_IGNORE_MAX then m
  else
    let (z, evs) := zchReleaseKey cfg m.zch k
    { m with zch := z }.emit evs

/-- output_logic.rs `press_key` -/
def Sim.pressKey (cfg : Cfg) (m : Sim) (k : Nat) : Sim :=
  if KEY_IGNORE_MIN ≤ k && k ≤ KEY_IGNORE_MAX then m
  else
    let (z, evs) := zchPressKey cfg m.zch k
    { m with zch := z }.emit evs

/-- `tick_states`: one layout tick (at most one queued event), releases, presses, `zippy_tick`,
`prev_keys := cur_keys`, `kbd_out.tick()`. -/
def Sim.tick (cfg : Cfg) (m : Sim) : Sim :=
  let m :=
    match m.queue with
    | [] => m
    | .press k :: q => { m with queue := q, active := m.active ++ [k] }
    | .release k :: q => { m with queue := q, active := m.active.filter (fun x => x ≠ k) }
  let cur := m.active
  -- release keys of prev_keys that are not current, in prev_keys order
  let m := m.prevKeys.foldl (fun m k => if cur.contains k then m else m.releaseKey cfg k) m
  -- press current keys that are not in prev_keys (which grows while pressing)
  let m := cur.foldl (fun m k =>
    if m.prevKeys.contains k then m
    else ({ m with prevKeys := m.prevKeys ++ [k] }).pressKey cfg k) m
  { m with zch := zchTick m.zch false, prevKeys := cur, ticks := m.ticks + 1 }

def Sim.ticksN (cfg : Cfg) (m : Sim) : Nat → Sim
  | 0 => m
  | n + 1 => (m.tick cfg).ticksN cfg n

/-- One item of a user history. -/
inductive HEv
  | press (k : Nat)
  | release (k : Nat)
  | ticks (n : Nat)
  deriving DecidableEq, Repr

def Sim.hist (cfg : Cfg) (m : Sim) : List HEv → Sim
  | [] => m
  | .press k :: r => ({ m with queue := m.queue ++ [InEv.press k] }).hist cfg r
  | .release k :: r => ({ m with queue := m.queue ++ [InEv.release k] }).hist cfg r
  | .ticks n :: r => (m.ticksN cfg n).hist cfg r

/-- `Kanata::new_from_str`: `zch_configure` resets the dynamic state. -/
def Sim.init : Sim :=
  { queue := [], active := [], prevKeys := [], zch := zchConfigure Zchd.default, ticks := 0, trace := [] }

end KVerif.Zippy
