/-
Model of keyberon/src/chord.rs (`ChordsV2`: global input chords, `defchordsv2`) and of the two places
where `Layout` uses it (`Layout::event`: events enter the chords-v2 queue first; `Layout::tick`: the
prologue that drains that queue into the layout queue and puts an activated chord's action on the
action queue).

Each definition names the Rust function it mirrors. Fixed-capacity containers are lists with the
container's overflow rule spelled out; `assert!` / `expect` / `debug_assert!` (the harness is built
with debug assertions) that can fail are `Crash.indexOOB "<message>"`.

This file follows the code AFTER the three chords-v2 fixes (a full `active_chords` is "no chord
activated" instead of a panic; releases reach the active chords during the cool-down; the block after
the loop of `process_presses` does not run when the loop already activated a chord). The behaviour
before those fixes is kept in Model/ChordsV2Pinned.lean for the counterexample theorems only.

Integration is by a wrapper (`LayoutV2` = layout + optional chords-v2 state) so that `Layout` and the
theorems about it are untouched.  One path is therefore NOT mirrored: a one-shot key evicted from
the full one-shot list (17 one-shot keys active) re-enters `Layout::event` from inside `do_action`;
in Rust that release goes to the chords-v2 queue when chords v2 is configured, in the model it goes
to the layout queue.
-/
import KVerif.Model.Layout
namespace KVerif.L

abbrev KEY_MAX : Nat := 850
abbrev SMOL_Q_LEN : Nat := 16
abbrev ACTIVE_CHORDS_CAP : Nat := 10
abbrev CHV2_COORDS : Nat := 50

/-- `ReleaseBehaviour` -/
inductive RelBeh | onFirstRelease | onLastRelease
  deriving DecidableEq, Repr, Inhabited

/-- `ChordV2` -/
structure ChordV2 where
  action : Action
  keys : List Nat               -- participating_keys (sorted by the parser, duplicates possible)
  pending : Nat                 -- pending_duration
  disabledLayers : List Nat
  release : RelBeh
  deriving Repr, Inhabited

/-- `ChordsForKeys` (hash map as association list; per key the chords in table order) and the
configured `chords-v2-min-idle` -/
structure ChV2Cfg where
  mapping : List (Nat × List ChordV2)
  minIdle : Nat
  deriving Repr, Inhabited

def ChV2Cfg.get (c : ChV2Cfg) (k : Nat) : Option (List ChordV2) := (c.mapping.find? (·.1 == k)).map (·.2)

/-- `ActiveChordStatus` -/
inductive AchStatus | unread | unreadReleased | releasable | released
  deriving DecidableEq, Repr, Inhabited

/-- `ActiveChord` -/
structure ActiveChord where
  coordinate : Nat
  remaining : List Nat          -- remaining_keys_to_release
  keys : List Nat
  action : Action
  status : AchStatus
  delay : Nat
  deriving Repr, Inhabited

/-- `ChordsV2` -/
structure ChV2 where
  cfg : ChV2Cfg
  queue : List Queued := []
  active : List ActiveChord := []
  ticksToIgnore : Nat := 0
  ticksUntilChange : Nat := 0
  prevActiveLayer : Nat := U16_MAX
  prevQueueLen : Nat := 255
  nextCoord : Nat := KEY_MAX + 1
  deriving Repr, Inhabited

/-- `ChordsV2::next_coord`: the coordinate handed out, and the counter afterwards -/
def nextCoordAfter (c : Nat) : Nat := if c + 1 > KEY_MAX + CHV2_COORDS then KEY_MAX + 1 else c + 1

/-- the loop of `ChordsV2::next_coord` (fix PENDING-1): a coordinate that an active chord still holds is
skipped - the coordinates wrap around after 50 activations, and a release at a shared coordinate would
release the older chord too. With at most 10 active chords the loop ends within 11 rounds; the fuel is
the number of coordinates. -/
def freeCoordFrom (active : List ActiveChord) : Nat → Nat → Nat
  | 0, c => c
  | fuel + 1, c => if active.all (fun a => a.coordinate != c) then c else freeCoordFrom active fuel (nextCoordAfter c)

/-- `ChordsV2::next_coord`: the coordinate handed out when the counter stands at `c` -/
def freeCoord (active : List ActiveChord) (c : Nat) : Nat := freeCoordFrom active CHV2_COORDS c

/-- whether the released key is a participant of the chord -/
def relHits (released : Option Nat) (cch : ChordV2) : Bool :=
  match released with
  | some j => cch.keys.contains j
  | none => false

/-- `get_active_chord`; `released` = the first queued release of a key pressed in the queue
(`relevant_release`). Fix PENDING-3: a first-release chord is created already released only when that
key is one of its participants. -/
def getActiveChord (cch : ChordV2) (since coord : Nat) (released : Option Nat) : ActiveChord :=
  { coordinate := coord,
    remaining := if cch.release == .onLastRelease then cch.keys.take SMOL_Q_LEN else [],
    keys := cch.keys, action := cch.action,
    status := if relHits released cch && cch.release == .onFirstRelease then .unreadReleased else .unread,
    delay := since }

/-- `self.active_chords.push(ach)` (heapless Vec of 10): `.error` = the push was refused; the callers
turn that into `no_chord_activations!` -/
def pushActive (active : List ActiveChord) (ach : ActiveChord) : Except Crash (List ActiveChord) :=
  if active.length < ACTIVE_CHORDS_CAP then .ok (active ++ [ach]) else .error (.indexOOB "active chords has room")

/-- the 16-slot hand-over queue of the code before the hand-over repair (`SmolQueue::push_back`,
Wrapping, overflow ignored); only Model/ChordsV2Pinned.lean uses it -/
def smolPush (q : List Queued) (x : Queued) : List Queued := (pushBackWrap SMOL_Q_LEN q x).1

/-- capacity of `DrainQueue`, what one tick hands over to the layout queue: the whole input queue
(32), a release per active chord (10), the two tap-hold trigger events -/
abbrev DRAIN_Q_LEN : Nat := 48

/-- `DrainQueue::push_back` (Wrapping, overflow ignored) -/
def drainPush (q : List Queued) (x : Queued) : List Queued := (pushBackWrap DRAIN_Q_LEN q x).1

/-- `DrainQueue::push_back` followed by `assert!(overflow.is_none(), "oops overflowed drain queue")` -/
def drainPushAssert (q : List Queued) (x : Queued) : Except Crash (List Queued) :=
  if q.length < DRAIN_Q_LEN then .ok (q ++ [x]) else .error (.indexOOB "oops overflowed drain queue")

/-- `drainq.extend(queue.drain(0..))`: `Extend` for a Wrapping ArrayDeque takes only as many
elements as there is room for; the rest of the drained queue is dropped -/
def drainExtend (dq q : List Queued) : List Queued := dq ++ q.take (DRAIN_Q_LEN - dq.length)

/-- the chord's key set equals the accumulated presses (both inclusions, as the code checks them) -/
def exactMatch (acc : List Nat) (pch : ChordV2) : Bool :=
  acc.all (pch.keys.contains ·) && pch.keys.all (acc.contains ·)

def enabledOn (layer : Nat) (pch : ChordV2) : Bool := !pch.disabledLayers.contains layer

/-- `ChordsV2::get_action_chv2` -/
def getActionChv2 : List ActiveChord → List ActiveChord × Option (Coord × Nat × Action)
  | [] => ([], none)
  | a :: rest =>
    match a.status with
    | .unread => ({ a with status := .releasable } :: rest, some ((0, a.coordinate), a.delay, a.action))
    | .unreadReleased => ({ a with status := .released } :: rest, some ((0, a.coordinate), a.delay, a.action))
    | _ => let (r, x) := getActionChv2 rest; (a :: r, x)

/-- `ChordsV2::drain_virtual_keys` -/
def drainVirtualKeys : List Queued → List Queued → Except Crash (List Queued × List Queued)
  | [], dq => .ok ([], dq)
  | qd :: rest, dq =>
    if qd.ev.coord.1 == 0 then
      match drainVirtualKeys rest dq with
      | .error c => .error c
      | .ok (k, dq) => .ok (qd :: k, dq)
    else
      match drainPushAssert dq qd with
      | .error c => .error c
      | .ok dq => drainVirtualKeys rest dq

/-- the effect of one release on the active chords, in `drain_releases` -/
def releaseInActive (j : Nat) (ach : ActiveChord) : ActiveChord :=
  if !ach.keys.contains j then ach else
  let rem := ach.remaining.filter (· != j)
  if rem.isEmpty then
    { ach with remaining := rem,
               status := match ach.status with
                 | .unread | .unreadReleased => .unreadReleased
                 | .releasable | .released => .released }
  else { ach with remaining := rem }

/-- `release_key_in_active_chords`: one released key applied to every active chord -/
def releaseKeyInActive (achs : List ActiveChord) (j : Nat) : List ActiveChord := achs.map (releaseInActive j)

/-- the releases of a queue applied to the active chords, in queue order (the loop at the top of
`drain_inputs` that runs during the cool-down) -/
def applyReleases (q : List Queued) (achs : List ActiveChord) : List ActiveChord :=
  q.foldl (fun achs qd => match qd.ev with
    | .release c => releaseKeyInActive achs c.2
    | .press _ => achs) achs

/-- `ChordsV2::drain_releases`; `npresses` = presses seen so far (a heapless Vec of 16 whose overflow
is ignored - only its emptiness is read; before fix 'chords v2 press lists' the overflow was a
`debug_assert`) -/
def drainReleases : List Queued → Nat → List ActiveChord → List Queued →
    Except Crash (List Queued × List ActiveChord × List Queued)
  | [], _, achs, dq => .ok ([], achs, dq)
  | qd :: rest, np, achs, dq =>
    match qd.ev with
    | .press _ =>
      match drainReleases rest (np + 1) achs dq with
      | .error c => .error c
      | .ok (k, achs, dq) => .ok (qd :: k, achs, dq)
    | .release c =>
      let achs := releaseKeyInActive achs c.2
      if np == 0 then drainReleases rest np achs (drainPush dq qd)
      else
        match drainReleases rest np achs dq with
        | .error c => .error c
        | .ok (k, achs, dq) => .ok (qd :: k, achs, dq)

/-- the first loop of `process_presses`: pressed keys in order, up to the first release of one of
them (`relevant_release`: the released key) -/
def collectPresses : List Queued → List Nat → Except Crash (List Nat × Option Nat)
  | [], ps => .ok (ps, none)
  | qd :: rest, ps =>
    match qd.ev with
    | .press c =>
      -- presses beyond the 16 slots of the heapless Vec are not recorded (a `debug_assert` before the fix)
      if ps.length ≥ SMOL_Q_LEN then collectPresses rest ps else collectPresses rest (ps ++ [c.2])
    | .release c => if ps.contains c.2 then .ok (ps, some c.2) else collectPresses rest ps

/-- loop state of `process_presses` -/
structure PP where
  acc : List Nat := []              -- accumulated_presses
  cands : List ChordV2 := []        -- chord_candidates (heapless Vec of 16, pushes beyond are dropped)
  prevCount : Option Nat := none    -- `usize::MAX` = none
  ticksUntil : Nat
  nextCoord : Nat
  active : List ActiveChord
  ticksToIgnore : Nat
  done : Bool := false              -- `break`
  deriving Repr

def minPending (l : List ChordV2) : Nat := l.foldl (fun m c => min m c.pending) U16_MAX

/-- the candidates after one more press: `(chord_candidates, count_possible, min_timeout)`. When the
previous count equals the length of the candidate list, the list is narrowed (`retain`); otherwise
it is rebuilt from the table (only the first 16 are stored, all are counted). -/
def ppCands (possible : List ChordV2) (layer : Nat) (st : PP) (press : Nat) : List ChordV2 × Nat × Nat :=
  if st.prevCount == some st.cands.length then
    let c := st.cands.filter (·.keys.contains press)
    (c, c.length, minPending c)
  else
    let f := possible.filter fun pch => enabledOn layer pch && (st.acc ++ [press]).all (pch.keys.contains ·)
    (f.take SMOL_Q_LEN, f.length, minPending f)

/-- one iteration of `for press in presses` -/
def ppStep (possible : List ChordV2) (layer since : Nat) (relFound : Option Nat) (minIdle : Nat) (st : PP) (press : Nat) :
    Except Crash PP :=
  if st.done then .ok st else
  let acc := st.acc ++ [press]
  let r := ppCands possible layer st press
  let cands := r.1
  let count := r.2.1
  let minTimeout := r.2.2
  let st := { st with acc, cands }
  let fin (st : PP) : PP := { st with ticksUntil := minTimeout - since, prevCount := some count }
  match count with
  | 1 =>
    let coord := freeCoord st.active st.nextCoord
    let st := { st with nextCoord := nextCoordAfter coord }
    match cands.head? with
    | none => .error (.indexOOB "chord_candidates[0]")
    | some cch =>
      if cch.keys.all (acc.contains ·) then
        match pushActive st.active (getActiveChord cch since coord relFound) with
        | .error _ => .ok { st with ticksToIgnore := minIdle, done := true }
        | .ok a => .ok { st with active := a, done := true }
      else .ok (fin st)
  | 0 =>
    let acc := acc.dropLast
    let st := { st with acc, cands := [] }
    match (possible.filter (enabledOn layer)).find? (exactMatch acc) with
    | some cch =>
      let coord := freeCoord st.active st.nextCoord
      match pushActive st.active (getActiveChord cch since coord relFound) with
      | .error _ => .ok { st with nextCoord := nextCoordAfter coord, ticksToIgnore := minIdle, done := true }
      | .ok a => .ok { st with nextCoord := nextCoordAfter coord, active := a, done := true }
    | none => .ok { st with ticksToIgnore := minIdle, done := true }
  | _ => .ok (fin st)

def ppLoop (possible : List ChordV2) (layer since : Nat) (relFound : Option Nat) (minIdle : Nat) :
    List Nat → PP → Except Crash PP
  | [], st => .ok st
  | p :: rest, st =>
    match ppStep possible layer since relFound minIdle st p with
    | .error c => .error c
    | .ok st => ppLoop possible layer since relFound minIdle rest st

/-- the block after the loop of `process_presses`: when the loop activated nothing and the window has
closed (or a participant was already released), activate the chord that matches the accumulated
presses exactly, else start the cool-down. `prevLen` = `prev_active_chords_len`. -/
def ppFinal (possible : List ChordV2) (layer since : Nat) (relFound : Option Nat) (minIdle prevLen : Nat) (st : PP) : PP :=
  if st.active.length == prevLen && (st.ticksUntil == 0 || relFound.isSome) then
    let pool := if st.cands.length ≥ SMOL_Q_LEN then possible else st.cands
    match (pool.filter (enabledOn layer)).find? (exactMatch st.acc) with
    | some cch =>
      let coord := freeCoord st.active st.nextCoord
      match pushActive st.active (getActiveChord cch since coord relFound) with
      | .error _ => { st with ticksToIgnore := minIdle, nextCoord := nextCoordAfter coord }
      | .ok a => { st with active := a, nextCoord := nextCoordAfter coord }
    | none => { st with ticksToIgnore := minIdle }
  else st

/-- the final `retain` of `process_presses`: the presses consumed by the activated chord leave the queue -/
def ppRetain (queue : List Queued) (acc : List Nat) : List Queued :=
  queue.filter fun qd => match qd.ev with
    | .press c => !acc.contains c.2
    | .release _ => true

/-- `ChordsV2::process_presses` -/
def processPresses (s : ChV2) (layer : Nat) : Except Crash ChV2 :=
  match collectPresses s.queue [] with
  | .error c => .error c
  | .ok (presses, relFound) =>
    match presses.head? with
    | none => .ok s
    | some starting =>
      match s.cfg.get starting with
      | none => .ok { s with ticksToIgnore := s.cfg.minIdle }
      | some possible =>
        let since := (s.queue.head?.map (·.since)).getD 0
        let st0 : PP := { ticksUntil := s.ticksUntilChange, nextCoord := s.nextCoord, active := s.active,
                          ticksToIgnore := s.ticksToIgnore }
        match ppLoop possible layer since relFound s.cfg.minIdle presses st0 with
        | .error c => .error c
        | .ok st =>
          let st := ppFinal possible layer since relFound s.cfg.minIdle s.active.length st
          .ok { s with queue := if st.active.length > s.active.length then ppRetain s.queue st.acc else s.queue,
                       active := st.active, ticksToIgnore := st.ticksToIgnore,
                       -- fix PENDING-4: an activation ends the wait for the chord's timeout
                       ticksUntilChange := if st.active.length > s.active.length then 0 else st.ticksUntil,
                       nextCoord := st.nextCoord }

/-- the events of row 0 (real inputs); the cool-down loop of `drain_inputs` looks at these only
(`Event::Release(0, j)`, fix PENDING-2: a virtual key's index is not a key code) -/
def realInputs (q : List Queued) : List Queued := q.filter fun qd => qd.ev.coord.1 == 0

/-- `ChordsV2::drain_inputs` -/
def drainInputs (s : ChV2) (dq : List Queued) (layer : Nat) : Except Crash (ChV2 × List Queued) :=
  if s.ticksToIgnore > 0 then
    -- fix PENDING-kanv2: the countdown of the scan that started the cool-down does not survive it
    .ok ({ s with queue := [], active := applyReleases (realInputs s.queue) s.active, ticksUntilChange := 0 },
         drainExtend dq s.queue)
  else if s.ticksUntilChange > 0 && s.prevActiveLayer == layer && s.prevQueueLen == s.queue.length then
    .ok ({ s with ticksUntilChange := s.ticksUntilChange - 1 }, dq)
  else
    let s := { s with ticksUntilChange := 0, prevActiveLayer := layer }
    match drainVirtualKeys s.queue dq with
    | .error c => .error c
    | .ok (q, dq) =>
      match drainReleases q 0 s.active dq with
      | .error c => .error c
      | .ok (q, achs, dq) =>
        match processPresses { s with queue := q, active := achs } layer with
        | .error c => .error c
        -- fix PENDING-4: the length is remembered AFTER events have left the queue
        | .ok s => .ok ({ s with prevQueueLen := s.queue.length % 256 }, dq)

/-- `ChordsV2::clear_released_chords` -/
def clearReleased : List ActiveChord → List Queued → Except Crash (List ActiveChord × List Queued)
  | [], dq => .ok ([], dq)
  | a :: rest, dq =>
    if a.status == .released then
      match drainPushAssert dq ⟨.release (0, a.coordinate), 0⟩ with
      | .error c => .error c
      | .ok dq => clearReleased rest dq
    else
      match clearReleased rest dq with
      | .error c => .error c
      | .ok (r, dq) => .ok (a :: r, dq)

/-- `ChordsV2::tick_chv2`: the new state and the events handed to the layout queue -/
def tickChv2 (s : ChV2) (layer : Nat) : Except Crash (ChV2 × List Queued) :=
  let s := { s with queue := s.queue.map fun (q : Queued) => { q with since := min (q.since + 1) U16_MAX },
                    active := s.active.map fun a => { a with delay := min (a.delay + 1) U16_MAX } }
  let prevLen := s.active.length
  match drainInputs s [] layer with
  | .error c => .error c
  | .ok (s, dq) =>
    let dq := if s.active.length != prevLen then drainPush dq ⟨.press (0, 0), 0⟩ else dq
    let dq := if s.active.any (fun a => a.status == .unreadReleased || a.status == .released) then
        drainPush dq ⟨.release (0, 0), 0⟩ else dq
    match clearReleased s.active dq with
    | .error c => .error c
    | .ok (achs, dq) => .ok ({ s with active := achs, ticksToIgnore := s.ticksToIgnore - 1 }, dq)

/-! ## Integration with the layout -/

structure LayoutV2 where
  lay : Layout
  chv2 : Option ChV2 := none
  deriving Repr, Inhabited

/-- `Layout::event` with chords v2: the event enters the chords-v2 queue; what falls out of that queue
(32 entries) is handled like an overflow of the layout queue -/
def LayoutV2.event (s : LayoutV2) (ev : Ev) : Except Crash LayoutV2 :=
  match s.chv2 with
  | none =>
    match s.lay.event ev with
    | .error c => .error c
    | .ok l => .ok { s with lay := l }
  | some ch =>
    let lay := match ev with
      | .press c => { s.lay with histInputs := histPush s.lay.histInputs c }
      | .release _ => s.lay
    let (q, ov) := pushBackWrap QUEUE_SIZE ch.queue ⟨ev, 0⟩
    let ch := { ch with queue := q }
    match ov with
    | none => .ok { lay, chv2 := some ch }
    | some overflow =>
      match flushWaitings FUEL lay (none :: (List.range EXTRA_WAITING_LEN).map some) with
      | .error c => .error c
      | .ok lay =>
        match dequeue FUEL lay overflow with
        | .error c => .error c
        | .ok (lay, _) => .ok { lay, chv2 := some ch }

/-- one handed-over event pushed onto the layout queue; a full queue is handled as in `Layout::event`:
the waiting keys are forced to hold and the oldest event is processed at once -/
def pushQueuedOv (lay : Layout) (x : Queued) : Except Crash Layout :=
  let (q, ov) := pushBackWrap QUEUE_SIZE lay.queue x
  let lay := { lay with queue := q }
  match ov with
  | none => .ok lay
  | some overflow =>
    match flushWaitings FUEL lay (none :: (List.range EXTRA_WAITING_LEN).map some) with
    | .error c => .error c
    | .ok lay =>
      match dequeue FUEL lay overflow with
      | .error c => .error c
      | .ok (lay, _) => .ok lay

/-- the loop of `Layout::tick` that forwards what `tick_chv2` drained -/
def handOver (lay : Layout) : List Queued → Except Crash Layout
  | [] => .ok lay
  | x :: rest =>
    match pushQueuedOv lay x with
    | .error c => .error c
    | .ok lay => handOver lay rest

/-- the chords-v2 prologue of `Layout::tick` -/
def tickV2Pre (s : LayoutV2) : Except Crash LayoutV2 :=
  match s.chv2 with
  | none => .ok s
  | some ch =>
    match tickChv2 ch s.lay.currentLayer with
    | .error c => .error c
    | .ok (ch, dq) =>
      let (achs, act) := getActionChv2 ch.active
      let ch := { ch with active := achs }
      match handOver s.lay dq with
      | .error c => .error c
      | .ok lay =>
        match act with
        | some a =>
          .ok { lay := { lay with actionQueue := (pushBackWrap ACTION_QUEUE_LEN lay.actionQueue a).1,
                                  oneshot := { lay.oneshot with pauseInputProcessingTicks := lay.oneshot.pauseInputProcessingDelay } },
                chv2 := some ch }
        | none => .ok { lay, chv2 := some ch }

/-- `Layout::tick` with chords v2 -/
def LayoutV2.tick (s : LayoutV2) : Except Crash (LayoutV2 × CustomEv) :=
  match tickV2Pre s with
  | .error c => .error c
  | .ok s =>
    match KVerif.L.tick s.lay with
    | .error c => .error c
    | .ok (l, cu) => .ok ({ s with lay := l }, cu)

end KVerif.L
