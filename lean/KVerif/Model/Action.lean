/-
Model of keyberon/src/action.rs: the action tree a configuration compiles to.

Rust references (`&'a Action`) are values here. `Custom(T)` carries an opaque identifier: keyberon
never looks inside it, the kanata layer (Model/Kanata.lean) interprets it.
-/
namespace KVerif.L

abbrev Coord := Nat × Nat     -- (row: 0 real key / 1 virtual key, column)
abbrev KeyCode := Nat

/-- `SequenceEvent` -/
inductive SeqEv
  | noOp
  | press (kc : KeyCode)
  | release (kc : KeyCode)
  | tap (kc : KeyCode)
  | delay (duration : Nat)
  | custom (id : Nat)
  | complete
  deriving DecidableEq, Repr, Inhabited

/-- `HoldTapConfig`; the two `Custom` closures kanata builds (parser/src/cfg/custom_tap_hold.rs)
are identified by probing (harness) and carried as data. -/
inductive HTConfig
  | default
  | holdOnOtherKeyPress
  | permissiveHold
  | customRelease (keys : List Nat)   -- custom_tap_hold_release
  | customExcept (keys : List Nat)    -- custom_tap_hold_except
  deriving DecidableEq, Repr, Inhabited

inductive OneShotEnd
  | firstPress | firstPressOrRepress | firstRelease | firstReleaseOrRepress
  deriving DecidableEq, Repr, Inhabited

/-- `ReleasableState` -/
inductive RelState
  | keyCode (kc : KeyCode)
  | layer (l : Nat)
  deriving DecidableEq, Repr, Inhabited

/-- `Action` (switch cases carry their opcodes raw, as in `Switch`). -/
inductive Action
  | noOp
  | trans
  | keyCode (kc : KeyCode)
  | multipleKeyCodes (kcs : List KeyCode)
  /-- `MultipleKeyCodes` whose slice is the layout's own repeat buffer (`rpt_multikey_key_buffer`):
  never in a configuration, only ever the saved repeat action -/
  | bufKeyCodes (kcs : List KeyCode)
  | multipleActions (acs : List Action)
  | layer (l : Nat)
  | defaultLayer (l : Nat)
  | sequence (events : List SeqEv)
  | repeatableSequence (events : List SeqEv)
  | cancelSequences
  | releaseState (rs : RelState)
  | holdTap (timeout : Nat) (hold tap timeoutAction : Action) (config : HTConfig) (tapHoldInterval : Nat)
  | custom (id : Nat)
  | oneShot (action : Action) (timeout : Nat) (endConfig : OneShotEnd)
  | oneShotIgnoreEventsTicks (ticks : Nat)
  | tapDance (actions : List Action) (timeout : Nat) (eager : Bool)
  | chords (coords : List (Coord × Nat)) (chords : List (Nat × Action)) (timeout : Nat)
  | repeat
  | fork (left right : Action) (rightTriggers : List KeyCode)
  | switch (cases : List (List Nat × Action × Bool))   -- (opcodes, action, is `break`)
  | src
  deriving Repr, Inhabited

/-- `ChordsGroup` as carried by a waiting state. -/
structure ChordsGroup where
  coords : List (Coord × Nat)
  chords : List (Nat × Action)
  timeout : Nat
  deriving Repr, Inhabited

/-- `ChordsGroup::get_keys` -/
def ChordsGroup.getKeys (g : ChordsGroup) (c : Coord) : Option Nat :=
  (g.coords.find? (·.1 == c)).map (·.2)

/-- `ChordsGroup::get_chord` -/
def ChordsGroup.getChord (g : ChordsGroup) (keys : Nat) : Option Action :=
  (g.chords.find? (·.1 == keys)).map (·.2)

/-- `ChordsGroup::get_chord_if_unambiguous`: `try_fold` that aborts (→ None) on a strict superset. -/
def ChordsGroup.getChordIfUnambiguous (g : ChordsGroup) (keys : Nat) : Option Action :=
  let rec go : List (Nat × Action) → Option Action → Option Action
    | [], res => res
    | (ck, a) :: rest, res =>
      if ck == keys then go rest (some a)
      else if ck ||| keys == ck then none
      else go rest res
  go g.chords none

end KVerif.L
