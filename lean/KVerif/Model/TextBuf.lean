/-
Specification side of C20: an application-side text buffer driven by OS key events.

This is the reading of "the text visible in the receiving application" adopted by the check: the
application sees key-down / key-up events.  It tracks the three modifiers zippychord manipulates
(left shift, right shift, AltGr); a key-down of Backspace deletes the last character; a key-down of
any other non-modifier key appends the character written by that key under the current shift/AltGr
state.  Key-up of a non-modifier key does nothing (auto-repeat is not part of zippychord's output
and is not modelled).  Space is the same character whatever the modifiers.

The text is kept most-recent-character-first (`rtext`), so that typing is `cons` and Backspace is
`tail`; `shown` is the text in reading order.
-/
namespace KVerif.TextBuf

/-- One OS key event as written to the output device (`KbdOut::press_key` / `release_key`). -/
inductive OsEv
  | down (code : Nat)
  | up (code : Nat)
  deriving DecidableEq, Repr, Inhabited

def KEY_BACKSPACE : Nat := 14
def KEY_SPACE : Nat := 57
def KEY_LEFTSHIFT : Nat := 42
def KEY_RIGHTSHIFT : Nat := 54
def KEY_RIGHTALT : Nat := 100

/-- Modifier keys other than shift/AltGr (ctrl, left alt, meta): they write no character.
The generated alphabet never contains them; they are listed so that the buffer is total. -/
def otherMods : List Nat := [29, 97, 56, 125, 126]

/-- A visible character: the key that wrote it and the shift / AltGr state it was written under. -/
structure Ch where
  code : Nat
  shift : Bool
  altgr : Bool
  deriving DecidableEq, Repr, Inhabited

/-- The character a key writes under a modifier state. -/
def mkCh (code : Nat) (shift altgr : Bool) : Ch :=
  if code = KEY_SPACE then ⟨code, false, false⟩ else ⟨code, shift, altgr⟩

structure Buf where
  rtext : List Ch      -- most recent character first
  lsft : Bool
  rsft : Bool
  ralt : Bool
  deriving DecidableEq, Repr, Inhabited

def Buf.empty : Buf := ⟨[], false, false, false⟩

/-- The visible text in reading order. -/
def Buf.shown (b : Buf) : List Ch := b.rtext.reverse

/-- One "keystroke" = what one key-down does to the text given the modifier state. -/
def stroke (rtext : List Ch) (code : Nat) (shift altgr : Bool) : List Ch :=
  if code = KEY_BACKSPACE then rtext.tail else mkCh code shift altgr :: rtext

def Buf.step (b : Buf) : OsEv → Buf
  | .down k =>
    if k = KEY_LEFTSHIFT then { b with lsft := true }
    else if k = KEY_RIGHTSHIFT then { b with rsft := true }
    else if k = KEY_RIGHTALT then { b with ralt := true }
    else if otherMods.contains k then b
    else { b with rtext := stroke b.rtext k (b.lsft || b.rsft) b.ralt }
  | .up k =>
    if k = KEY_LEFTSHIFT then { b with lsft := false }
    else if k = KEY_RIGHTSHIFT then { b with rsft := false }
    else if k = KEY_RIGHTALT then { b with ralt := false }
    else b

def Buf.run (b : Buf) (evs : List OsEv) : Buf := evs.foldl Buf.step b

/-- `n` Backspace keystrokes. -/
def erase (n : Nat) (rtext : List Ch) : List Ch := rtext.drop n

end KVerif.TextBuf
