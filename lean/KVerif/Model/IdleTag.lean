/-
Names for the conjuncts of `Kanata::is_idle` and `Kanata::can_block_update_idle_waiting`
(src/kanata/mod.rs).  The translator `gen/g_idle.py` reads the two functions from the current source
text and writes the conjuncts it finds, as a list of these names, to `Gen/IdleFields.lean`; a conjunct it
does not recognise becomes a constructor that does not exist here, so the generated file stops
elaborating.  `Lemmas/IdleInterp.lean` gives each name its meaning on the model state and
`Props/C07src.lean` proves that the model's `isIdle` / `canBlockUpdateIdleWaiting` are exactly the
conjunction of the listed conjuncts.  (No imports: the generated file imports this one.)
-/
namespace KVerif.K

/-- one conjunct of the expression `Kanata::is_idle` returns -/
inductive IdleTag
  | queueEmpty | zippyIdle | waitingNone | extraWaitingEmpty | quickTapWindowOver
  | oneshotKeysEmpty | rapidEventPauseOver | activeSequencesEmpty | tapDanceEagerNone
  | actionQueueEmpty | sequenceInactive | scrollNone | hscrollNone | moveVNone
  | macroCancelWindowOver | moveHNone | dynMacroReplayNone | capsWordNone
  | vkeysPendingReleaseEmpty | noSeqCustomOrCountedKeyState | chordsV2Idle
  deriving DecidableEq, Repr, Inhabited

/-- the `let` in front of that expression -/
inductive IdleLet
  | pressedKeysDef      -- pressed_keys_means_not_idle = !waiting_for_idle.is_empty() || live_reload_requested
  deriving DecidableEq, Repr, Inhabited

/-- one conjunct of the expression `Kanata::can_block_update_idle_waiting` returns -/
inductive BlockTag
  | cbIsIdle | cbNotCountingIdleTicks | cbPassedMaxSwitchTiming | cbChordsV2Accepts
  | cbNotRecordingDynMacro     -- fix ccfb98e: no dynamic macro is being recorded
  deriving DecidableEq, Repr, Inhabited

/-- the statements in front of it -/
inductive BlockLet
  | cbLetIsIdle | cbLetCounting | cbUpdateTicksSinceIdle | cbLetPassed | cbLetChordsV2 | cbLetRecording
  deriving DecidableEq, Repr, Inhabited

end KVerif.K
