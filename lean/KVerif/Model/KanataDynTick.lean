/-
Dynamic macros inside the kanata-level model, second half: `Kanata::tick_ms` of src/kanata/mod.rs.

    for _ in 0..ms_elapsed {
        self.tick_states()?;
        if let Some(event) = tick_replay_state(&mut self.dynamic_macro_replay_state, behaviour) {
            self.layout.bm().event(event.key_event());
            extra_ticks = extra_ticks.saturating_add(event.delay());
        }
    }
    for i in 0..(extra_ticks.saturating_sub(ms_elapsed as u16 | clamped)) {
        self.tick_states()?;
        if tick_replay_state(..).is_some() { log::error!("overshot ..."); break; }
    }

Without a replay (`dyn.rep = none`) `tickMs 1 k = tickStates k` (`tickMs_one_of_no_replay`).
-/
import KVerif.Model.Kanata
namespace KVerif.K
open KVerif KVerif.L

/-- `Event::Press(0, osc)` / `Event::Release(0, osc)` of a replay event -/
def replayEvent (e : DynMacro.KeyEv) : Ev :=
  if e.press then .press (0, e.osc) else .release (0, e.osc)

/-- `tick_replay_state` on the kanata state: the new state and the `ReplayEvent`, if any -/
def tickReplayK (k : KState) : KState × Option (DynMacro.KeyEv × Nat) :=
  match k.dyn.rep with
  | none => (k, none)
  | some r =>
    let res := DynMacro.tickReplay k.dyn.beh (some r)
    ({ k with dyn := { k.dyn with rep := res.1 } }, res.2)

/-- the body of the first loop of `tick_ms` after `tick_states`: the replay step; an event is handed
to `layout.event` (logged in `fed`) and its delay returned -/
def replayFeed (k : KState) : Except Crash (KState × Nat) :=
  match tickReplayK k with
  | (k1, none) => .ok (k1, 0)
  | (k1, some (e, d)) =>
    match k1.layout.event (replayEvent e) with
    | .error c => .error (.layout c)
    | .ok l => .ok ({ k1 with layout := l, dyn := { k1.dyn with fed := k1.dyn.fed ++ [e] } }, d)

/-- first loop of `tick_ms` -/
def msMainLoop : Nat → KState → Nat → Except Crash (KState × Nat)
  | 0, k, extra => .ok (k, extra)
  | n + 1, k, extra =>
    match tickStates k with
    | .error c => .error c
    | .ok k1 =>
      match replayFeed k1 with
      | .error c => .error c
      | .ok (k2, d) => msMainLoop n k2 (DynMacro.satAdd extra d)

/-- second loop of `tick_ms`, with its `break` when an event is popped (the event is dropped) -/
def msExtraLoop : Nat → KState → Except Crash KState
  | 0, k => .ok k
  | n + 1, k =>
    match tickStates k with
    | .error c => .error c
    | .ok k1 =>
      match tickReplayK k1 with
      | (k2, none) => msExtraLoop n k2
      | (k2, some (e, _)) => .ok { k2 with dyn := { k2.dyn with lost := k2.dyn.lost ++ [e] } }

/-- `Kanata::tick_ms` -/
def tickMs (ms : Nat) (k : KState) : Except Crash KState :=
  match msMainLoop ms k 0 with
  | .error c => .error c
  | .ok (k1, extra) => msExtraLoop (extra - DynMacro.msAsU16 k1.dyn.fix ms) k1

end KVerif.K
