/-
The kanata layer (Model/Kanata.lean) over the layout WITH chords v2 (`defchordsv2`): `KV2` = the
kanata state + the optional chords-v2 state of its layout (`Layout::chords_v2`), i.e. `KState.layout`
and `KV2.chv2` together are the `LayoutV2` of Model/ChordsV2.lean.

Every function of Model/Kanata.lean that reaches `Layout::event` or `Layout::tick` has a `…V2` twin
here that goes through `LayoutV2.event` / `LayoutV2.tick` instead (with chords v2 configured an event
enters the chords-v2 queue, and the tick starts with the chords-v2 prologue); everything that does not
touch those two entry points is REUSED from Model/Kanata.lean, not copied (`customPress.go` /
`customRelease.go` on single actions, `applyUnmodEvent`, `adjustKeys`, `handleScrolling`, `handleRepeat`
…). Model/Kanata.lean and the theorems about it are untouched: the drivers (Drv/Kan.lean `stepTick`,
`stepInput`, `stepCanBlock` …) run a configuration WITHOUT chords v2 through the original functions and
one WITH chords v2 through the twins, so both sets are validated against the real code. For the tick
without custom event the twin is proved to be the original next to one step of the chords-v2 machine
(`Lemmas/KanataV2Rest.lean: handleKeystateChangesV2_restO`, also for `chv2 = none`); the general
"twin = original when `chv2 = none`" lemma is not proved.

What src/kanata/mod.rs does with chords v2, all mirrored here:
* `is_idle`: the conjunct `chords_v2.map(is_idle_chv2).unwrap_or(true)` (`ChV2.isIdle`: input queue and
  active chords empty)
* `can_block_update_idle_waiting`: the conjunct `chords_v2.map(accepts_chords_chv2).unwrap_or(true)`
  (`ChV2.acceptsChords`: `ticks_to_ignore_chord == 0`, the `chords-v2-min-idle` cool-down)
* virtual keys (`handle_fakekey_action`, `hold-for-duration`, `on-idle-fakekey`, the release of
  `tick_held_vkeys`) go through `layout.event` and so into the chords-v2 queue; `drain_virtual_keys`
  hands everything that is not on row 0 to the layout queue at the next tick that is not skipped

Not mirrored (the wrapper design, see the header of Model/ChordsV2.lean): a one-shot key evicted from
the full one-shot list re-entering `Layout::event` from inside `do_action`. The drivers answer
`unsupported oneshot-evict-chv2` for a run in which the one-shot list ever holds 16 keys while
chords v2 is configured (`KV2.evictRisk`); the harness does the same on the real state.
-/
import KVerif.Model.Kanata
import KVerif.Model.ChordsV2
namespace KVerif.K
open KVerif.L

/-- `ChordsV2::is_idle_chv2` -/
def chv2IsIdle (c : ChV2) : Bool := c.queue.isEmpty && c.active.isEmpty

/-- `ChordsV2::accepts_chords_chv2` -/
def chv2Accepts (c : ChV2) : Bool := c.ticksToIgnore == 0

/-- kanata state + the chords-v2 state of its layout -/
structure KV2 where
  k : KState
  chv2 : Option ChV2 := none
  deriving Repr

/-- the layout as the code sees it: `Layout` with its `chords_v2` field -/
def KV2.lv (s : KV2) : LayoutV2 := { lay := s.k.layout, chv2 := s.chv2 }

def KV2.setLv (s : KV2) (v : LayoutV2) : KV2 := { k := { s.k with layout := v.lay }, chv2 := v.chv2 }

/-- `Layout::event` on kanata's layout -/
def KV2.event (s : KV2) (ev : Ev) : Except L.Crash KV2 :=
  match s.lv.event ev with
  | .error e => .error e
  | .ok v => .ok (s.setLv v)

/-- `handle_fakekey_action` -/
def fakeKeyActionV2 (s : KV2) (a : FkAction) (c : Coord) : Except L.Crash KV2 :=
  match a with
  | .press => s.event (.press c)
  | .release => s.event (.release c)
  | .tap => match s.event (.press c) with
    | .error e => .error e
    | .ok s => s.event (.release c)
  | .toggle => if statesHasCoord s.k.layout.states c then s.event (.release c) else s.event (.press c)

/-- the mouse button remembered by the press loop of `handle_keystate_changes` after one action -/
def prevBtnAfter (a : CAct) (pb : Option Nat) : Option Nat :=
  match a with
  | .mouse b => some b
  | _ => pb

/-- the `CustomEvent::Press` loop: the two arms that reach `layout.event` are spelled out, every other
action is the original arm (`customPress.go` on the one action) -/
def customPressV2Go : List CAct → KV2 → List KeyCode → Option Nat → Except Crash (KV2 × List KeyCode)
  | [], s, cur, _ => .ok (s, cur)
  | a :: rest, s, cur, pb =>
    match a with
    | .fakeKey c fa =>
      match fakeKeyActionV2 s fa c with
      | .error e => .error (.layout e)
      | .ok s => customPressV2Go rest s cur pb
    | .fakeKeyHold c dur =>
      if s.k.vkeysPendingRelease.any (·.1 == c) then
        let pend := s.k.vkeysPendingRelease.map (fun e => if e.1 == c then (c, dur) else e)
        customPressV2Go rest { s with k := { s.k with vkeysPendingRelease := pend } } cur pb
      else
        match s.event (.press c) with
        | .error e => .error (.layout e)
        | .ok s =>
          let pend := s.k.vkeysPendingRelease ++ [(c, dur)]
          customPressV2Go rest { s with k := { s.k with vkeysPendingRelease := pend } } cur pb
    | _ =>
      match customPress.go [a] s.k cur pb with
      | .error e => .error e
      | .ok (k, cur) => customPressV2Go rest { s with k } cur (prevBtnAfter a pb)

def customPressV2 (s : KV2) (acts : List CAct) (cur : List KeyCode) : Except Crash (KV2 × List KeyCode) :=
  customPressV2Go acts s cur none

/-- the `CustomEvent::Release` loop -/
def customReleaseV2Go : List CAct → KV2 → Option Nat → Except Crash KV2
  | [], s, pbtn => .ok (match pbtn with | some b => { s with k := s.k.emit (.btnUp b) } | none => s)
  | a :: rest, s, pbtn =>
    match a with
    | .mouse b => customReleaseV2Go rest s (some b)
    | .fakeKeyOnRelease c fa =>
      match fakeKeyActionV2 s fa c with
      | .error e => .error (.layout e)
      | .ok s => customReleaseV2Go rest s pbtn
    | _ =>
      match customRelease.go [a] s.k none with
      | .error e => .error e
      | .ok k => customReleaseV2Go rest { s with k } pbtn

def customReleaseV2 (s : KV2) (acts : List CAct) : Except Crash KV2 := customReleaseV2Go acts s none

/-- the custom event of the tick -/
def hkcCustomV2 (s : KV2) (cur : List KeyCode) (ce : CustomEv) : Except Crash (KV2 × List KeyCode) :=
  match ce with
  | .press id => match customActs s.k id with
    | .error c => .error c
    | .ok acts => customPressV2 s acts cur
  | .release id => match customActs s.k id with
    | .error c => .error c
    | .ok acts => match customReleaseV2 s acts with
      | .error c => .error c
      | .ok s => .ok (s, cur)
  | .noEvent => .ok (s, cur)

/-! [seq] the sequence hooks of Model/KanataSeq.lean over the layout with chords v2: the virtual-key
taps of `do_successful_sequence_termination` go through `layout.event`, i.e. into the chords-v2 queue
when chords v2 is configured; everything else is the original (`retainStates`, `engOf`, `emitSeq`) -/

/-- [seq] `layout.event(Press(1, j)); layout.event(Release(1, j))` for every tap -/
def tapVkeysV2 : List Nat → KV2 → Except L.Crash KV2
  | [], s => .ok s
  | j :: js, s =>
    match s.event (.press (1, j)) with
    | .error e => .error e
    | .ok s => match s.event (.release (1, j)) with
      | .error e => .error e
      | .ok s => tapVkeysV2 js s

/-- [seq] `applyEng` and `emitSeq` on `KV2` -/
def applyEngV2 (s : KV2) (e : Seq.Eng) : Except Crash KV2 :=
  let l : Layout := { s.k.layout with states := retainStates e.states s.k.layout.states }
  let sk : SeqK := { s.k.seq with st := e.st }
  let k : KState := { s.k with seq := sk, layout := l }
  match tapVkeysV2 e.taps { s with k := k } with
  | .error c => .error (.layout c)
  | .ok s' => .ok { s' with k := emitSeq s'.k e.out }

/-- [seq] `seqReleasedHook` -/
def seqReleasedHookV2 (s : KV2) (cur : List KeyCode) : Except Crash KV2 :=
  if cur.isEmpty && !s.k.prevKeys.isEmpty then
    if !s.k.seq.st.active then .ok s
    else applyEngV2 s (Seq.allReleasedHook s.k.seq.trie (engOf s.k.seq s.k.layout))
  else .ok s

/-- [seq] `pressLoop` -/
def pressLoopV2 (cur : List KeyCode) : List KeyCode → KV2 → Except Crash KV2
  | [], s => .ok s
  | x :: xs, s =>
    if s.k.prevKeys.contains x then pressLoopV2 cur xs s
    else
      let k := { s.k with prevKeys := s.k.prevKeys ++ [x], lastPressedKey := x }
      let k := { k with seq := k.seq.alwaysOnStep }
      if k.seq.st.active then
        match applyEngV2 { s with k } (Seq.doSeqPress k.seq.trie k.seq.modcancel (engOf k.seq k.layout) x (Seq.modMaskOf cur)) with
        | .error e => .error e
        | .ok s => pressLoopV2 cur xs s
      else pressLoopV2 cur xs { s with k := pressKey k x }

/-- `handle_keystate_changes` after `layout.tick()` returned `ce` (the text of `handleKeystateChanges`
from `applyUnmodEvent` on) -/
def hkcRestV2 (s : KV2) (ce : CustomEv) : Except Crash KV2 :=
  match applyUnmodEvent s.k ce with
  | .error c => .error c
  | .ok (k, reverse) =>
    match k.overrides.overrideKeys (adjustKeys k (k.curKeys ++ k.layout.keycodes)) k.overrideStates with
    | .error c => .error (.override c)
    | .ok (cur, ost) =>
      let k := eraseOverridden { k with overrideStates := ost } ost.toRemove
      let (cur, k) := applyCapsWord k cur
      -- [seq] was: `let k := pressNew (releaseOld k cur reverse) cur`
      match seqReleasedHookV2 { s with k := releaseOld k cur reverse } cur with
      | .error c => .error c
      | .ok s =>
      match pressLoopV2 cur cur s with
      | .error c => .error c
      | .ok s =>
      match hkcCustomV2 s cur ce with
      | .error c => .error c
      | .ok (s, cur) => .ok { s with k := { s.k with curKeys := cur } }

/-- `Kanata::handle_keystate_changes`: `layout.tick()` is the tick of the layout with chords v2 -/
def handleKeystateChangesV2 (s : KV2) : Except Crash KV2 :=
  match s.lv.tick with
  | .error e => .error (.layout e)
  | .ok (v, ce) => hkcRestV2 (s.setLv v) ce

/-- `Kanata::tick_idle_timeout` -/
def tickIdleTimeoutV2Go : List OnIdle → KV2 → List OnIdle → Except Crash KV2
  | [], s, kept => .ok { s with k := { s.k with waitingForIdle := kept.reverse } }
  | w :: rest, s, kept =>
    if s.k.ticksSinceIdle ≥ w.idle then
      match fakeKeyActionV2 s w.action w.coord with
      | .error e => .error (.layout e)
      | .ok s => tickIdleTimeoutV2Go rest s kept
    else tickIdleTimeoutV2Go rest s (w :: kept)

def tickIdleTimeoutV2 (s : KV2) : Except Crash KV2 := tickIdleTimeoutV2Go s.k.waitingForIdle s []

/-- `Kanata::tick_held_vkeys` -/
def tickHeldVkeysV2Go : List (Coord × Nat) → KV2 → List (Coord × Nat) → Except Crash KV2
  | [], s, kept => .ok { s with k := { s.k with vkeysPendingRelease := kept.reverse } }
  | (c, d) :: rest, s, kept =>
    if d - 1 == 0 then
      match s.event (.release c) with
      | .error e => .error (.layout e)
      | .ok s => tickHeldVkeysV2Go rest s kept
    else tickHeldVkeysV2Go rest s ((c, d - 1) :: kept)

def tickHeldVkeysV2 (s : KV2) : Except Crash KV2 := tickHeldVkeysV2Go s.k.vkeysPendingRelease s []

/-- the stages of `tick_states` between `handle_keystate_changes` and `tick_idle_timeout`; they do not
touch the layout -/
def tickMid (k : KState) : Except Crash KState :=
  match handleScrolling k with
  | .error c => .error c
  | .ok k =>
  match handleMoveMouse k with
  | .error c => .error c
  | .ok k => tickSequenceState k     -- [seq]

/-- the bookkeeping of `tick_states` between `tick_idle_timeout` and `tick_held_vkeys` -/
def tickBook (k : KState) : KState :=
  let k := { k with macroOnPressCancelDuration := k.macroOnPressCancelDuration - 1 }
  let k := dynTickRecord k   -- [dyn]
  { k with prevKeys := k.curKeys, curKeys := [] }

/-- `Kanata::tick_states` -/
def tickStatesV2 (s : KV2) : Except Crash KV2 :=
  match handleKeystateChangesV2 s with
  | .error c => .error c
  | .ok s =>
  match tickMid s.k with
  | .error c => .error c
  | .ok k =>
  match tickIdleTimeoutV2 { s with k } with
  | .error c => .error c
  | .ok s => tickHeldVkeysV2 { s with k := tickBook s.k }

/-- the macro cancellation at the top of a press in `handle_input_event` -/
def cancelMacroOnPress (k : KState) : KState :=
  if k.macroOnPressCancelDuration > 0 then
    let l := k.layout
    { k with macroOnPressCancelDuration := 0,
             layout := { l with activeSequences := [], states := l.states.filter (fun s =>
               match s with | .fakeKey _ | .repeatingSequence _ _ => false | _ => true) } }
  else k

/-- `Kanata::handle_input_event` -/
def handleInputEventV2 (s : KV2) (i : Input) : Except Crash KV2 :=
  let s := { s with k := { s.k with ticksSinceIdle := 0 } }
  match i with
  | .press code =>
    let s := { s with k := dynRecord s.k true code }   -- [dyn]
    match ({ s with k := cancelMacroOnPress s.k } : KV2).event (.press (0, code)) with
    | .error e => .error (.layout e)
    | .ok s => .ok s
  | .release code =>
    let s := { s with k := dynRecord s.k false code }   -- [dyn]
    match s.event (.release (0, code)) with
    | .error e => .error (.layout e)
    | .ok s => .ok s
  | .rep code =>
    match handleRepeat s.k code with
    | .error c => .error c
    | .ok k => .ok { s with k }
  | .tap code =>
    match s.event (.press (0, code)) with
    | .error e => .error (.layout e)
    | .ok s => match s.event (.release (0, code)) with
      | .error e => .error (.layout e)
      | .ok s => .ok s

/-- `Kanata::is_idle`: the conjuncts of `isIdle`, and the chords-v2 conjunct -/
def isIdleV2 (s : KV2) : Bool :=
  isIdle s.k && (match s.chv2 with | some c => chv2IsIdle c | none => true)

/-- `Kanata::can_block_update_idle_waiting` -/
def canBlockV2 (s : KV2) (msElapsed : Nat) : KV2 × Bool :=
  let idle := isIdleV2 s
  let counting := !s.k.waitingForIdle.isEmpty || s.k.liveReloadRequested
  let k := if !idle then { s.k with ticksSinceIdle := 0 }
    else if counting then { s.k with ticksSinceIdle := min (s.k.ticksSinceIdle + msElapsed) 65535 } else s.k
  let passed := match k.layout.histKeys.head? with
    | some (_, t) => t ≥ k.switchMaxKeyTiming
    | none => true
  let accepts := match s.chv2 with | some c => chv2Accepts c | none => true
  ({ s with k }, idle && !counting && passed && accepts && k.dyn.rcd.isNone)   -- [dyn] `!recording_dynamic_macro`

/-- the one path the wrapper does not mirror can only be taken when the one-shot list is full -/
def KV2.evictRisk (s : KV2) : Bool := s.chv2.isSome && s.k.layout.oneshot.keys.length ≥ 16

end KVerif.K
