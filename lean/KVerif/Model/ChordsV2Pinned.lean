/-
The chords-v2 machine as it was BEFORE the fixes <fix-capacity>, <fix-cooldown>, <fix-double>
(keyberon/src/chord.rs at 678db6b): `assert!(overflow.is_ok(), "active chords has room")` after every
push to `active_chords`; `drain_inputs` forwards the queue during the cool-down without applying the
releases to the active chords; the "exact match" block after the loop of `process_presses` runs even
when the loop has just activated a chord.

These definitions are used ONLY by the three kernel-evaluated counterexample theorems of Props/C09.lean,
which document the pinned defects. Everything that did not change is shared with Model/ChordsV2.lean.
-/
import KVerif.Model.ChordsV2
namespace KVerif.L.Pinned
open KVerif.L

/-- one iteration of `for press in presses` -/
def ppStep (possible : List ChordV2) (layer since : Nat) (relFound : Option Nat) (minIdle : Nat) (st : PP) (press : Nat) :
    Except Crash PP :=
  if st.done then .ok st else
  let acc := st.acc ++ [press]
  let (cands, count, minTimeout) :=
    if st.prevCount == some st.cands.length then
      let c := st.cands.filter (·.keys.contains press)
      (c, c.length, minPending c)
    else
      let f := possible.filter fun pch => enabledOn layer pch && acc.all (pch.keys.contains ·)
      (f.take SMOL_Q_LEN, f.length, minPending f)
  let st := { st with acc, cands }
  let fin (st : PP) : PP := { st with ticksUntil := minTimeout - since, prevCount := some count }
  match count with
  | 1 =>
    let coord := st.nextCoord
    let st := { st with nextCoord := nextCoordAfter st.nextCoord }
    match cands.head? with
    | none => .error (.indexOOB "chord_candidates[0]")
    | some cch =>
      if cch.keys.all (acc.contains ·) then
        match pushActive st.active (getActiveChord cch since coord relFound) with
        | .error c => .error c
        | .ok a => .ok { st with active := a, done := true }
      else .ok (fin st)
  | 0 =>
    let acc := acc.dropLast
    let st := { st with acc, cands := [] }
    match (possible.filter (enabledOn layer)).find? (exactMatch acc) with
    | some cch =>
      let coord := st.nextCoord
      match pushActive st.active (getActiveChord cch since coord relFound) with
      | .error c => .error c
      | .ok a => .ok { st with nextCoord := nextCoordAfter st.nextCoord, active := a, done := true }
    | none => .ok { st with ticksToIgnore := minIdle, done := true }
  | _ => .ok (fin st)

def ppLoop (possible : List ChordV2) (layer since : Nat) (relFound : Option Nat) (minIdle : Nat) :
    List Nat → PP → Except Crash PP
  | [], st => .ok st
  | p :: rest, st =>
    match ppStep possible layer since relFound minIdle st p with
    | .error c => .error c
    | .ok st => ppLoop possible layer since relFound minIdle rest st

/-- `ChordsV2::process_presses` -/
def processPresses (s : ChV2) (layer : Nat) : Except Crash ChV2 :=
  match collectPresses s.queue [] with
  | .error c => .error c
  | .ok (presses, relFound) =>
    match presses.head? with
    | none => .ok s
    | some starting =>
      match s.cfg.get starting with
      | none => .ok { s with ticksToIgnore := s.cfg.minIdle }
      | some possible =>
        let since := (s.queue.head?.map (·.since)).getD 0
        let st0 : PP := { ticksUntil := s.ticksUntilChange, nextCoord := s.nextCoord, active := s.active,
                          ticksToIgnore := s.ticksToIgnore }
        match ppLoop possible layer since relFound s.cfg.minIdle presses st0 with
        | .error c => .error c
        | .ok st =>
          let fin : Except Crash PP :=
            if st.ticksUntil == 0 || relFound.isSome then
              let pool := if st.cands.length ≥ SMOL_Q_LEN then possible else st.cands
              match (pool.filter (enabledOn layer)).find? (exactMatch st.acc) with
              | some cch =>
                match pushActive st.active (getActiveChord cch since st.nextCoord relFound) with
                | .error c => .error c
                | .ok a => .ok { st with active := a, nextCoord := nextCoordAfter st.nextCoord }
              | none => .ok { st with ticksToIgnore := s.cfg.minIdle }
            else .ok st
          match fin with
          | .error c => .error c
          | .ok st =>
            let queue := if st.active.length > s.active.length then
                s.queue.filter fun qd => match qd.ev with
                  | .press c => !st.acc.contains c.2
                  | .release _ => true
              else s.queue
            .ok { s with queue, active := st.active, ticksToIgnore := st.ticksToIgnore,
                         ticksUntilChange := st.ticksUntil, nextCoord := st.nextCoord }

/-- `ChordsV2::drain_inputs` -/
def drainInputs (s : ChV2) (dq : List Queued) (layer : Nat) : Except Crash (ChV2 × List Queued) :=
  if s.ticksToIgnore > 0 then .ok ({ s with queue := [] }, s.queue.foldl smolPush dq)
  else if s.ticksUntilChange > 0 && s.prevActiveLayer == layer && s.prevQueueLen == s.queue.length then
    .ok ({ s with ticksUntilChange := s.ticksUntilChange - 1 }, dq)
  else
    let s := { s with ticksUntilChange := 0, prevActiveLayer := layer, prevQueueLen := s.queue.length % 256 }
    match drainVirtualKeys s.queue dq with
    | .error c => .error c
    | .ok (q, dq) =>
      match drainReleases q 0 s.active dq with
      | .error c => .error c
      | .ok (q, achs, dq) =>
        match processPresses { s with queue := q, active := achs } layer with
        | .error c => .error c
        | .ok s => .ok (s, dq)

/-- `ChordsV2::tick_chv2`: the new state and the events handed to the layout queue -/
def tickChv2 (s : ChV2) (layer : Nat) : Except Crash (ChV2 × List Queued) :=
  let s := { s with queue := s.queue.map fun (q : Queued) => { q with since := min (q.since + 1) U16_MAX },
                    active := s.active.map fun a => { a with delay := min (a.delay + 1) U16_MAX } }
  let prevLen := s.active.length
  match drainInputs s [] layer with
  | .error c => .error c
  | .ok (s, dq) =>
    let dq := if s.active.length != prevLen then smolPush dq ⟨.press (0, 0), 0⟩ else dq
    let dq := if s.active.any (fun a => a.status == .unreadReleased || a.status == .released) then
        smolPush dq ⟨.release (0, 0), 0⟩ else dq
    match clearReleased s.active dq with
    | .error c => .error c
    | .ok (achs, dq) => .ok ({ s with active := achs, ticksToIgnore := s.ticksToIgnore - 1 }, dq)

/-- the chords-v2 prologue of `Layout::tick` -/
def tickV2Pre (s : LayoutV2) : Except Crash LayoutV2 :=
  match s.chv2 with
  | none => .ok s
  | some ch =>
    match tickChv2 ch s.lay.currentLayer with
    | .error c => .error c
    | .ok (ch, dq) =>
      let lay := { s.lay with queue := dq.foldl (fun q x => (pushBackWrap QUEUE_SIZE q x).1) s.lay.queue }
      let (achs, act) := getActionChv2 ch.active
      let ch := { ch with active := achs }
      match act with
      | some a =>
        .ok { lay := { lay with actionQueue := (pushBackWrap ACTION_QUEUE_LEN lay.actionQueue a).1,
                                oneshot := { lay.oneshot with pauseInputProcessingTicks := lay.oneshot.pauseInputProcessingDelay } },
              chv2 := some ch }
      | none => .ok { lay, chv2 := some ch }

/-- `Layout::tick` with chords v2 -/
def tickV2 (s : LayoutV2) : Except Crash (LayoutV2 × CustomEv) :=
  match tickV2Pre s with
  | .error c => .error c
  | .ok s =>
    match KVerif.L.tick s.lay with
    | .error c => .error c
    | .ok (l, cu) => .ok ({ s with lay := l }, cu)


/-- `ChordsV2::drain_releases` before the press-list repair: the heapless Vec of 16 presses had a
`debug_assert!(overflow.is_ok())`, which the 17th press queued between two ticks trips in debug builds -/
def drainReleasesDbg : List Queued → Nat → List ActiveChord → List Queued →
    Except Crash (List Queued × List ActiveChord × List Queued)
  | [], _, achs, dq => .ok ([], achs, dq)
  | qd :: rest, np, achs, dq =>
    match qd.ev with
    | .press _ =>
      if np ≥ SMOL_Q_LEN then .error (.indexOOB "drain_releases: presses overflow") else
      match drainReleasesDbg rest (np + 1) achs dq with
      | .error c => .error c
      | .ok (k, achs, dq) => .ok (qd :: k, achs, dq)
    | .release c =>
      let achs := releaseKeyInActive achs c.2
      if np == 0 then drainReleasesDbg rest np achs (smolPush dq qd)
      else
        match drainReleasesDbg rest np achs dq with
        | .error c => .error c
        | .ok (k, achs, dq) => .ok (qd :: k, achs, dq)

end KVerif.L.Pinned

/-! ## The cool-down branch before fix PENDING-kanv2 (stale scan countdown)

`drain_inputs` as it was up to 0b65add: during the cool-down the queue is forwarded and the function
returns WITHOUT touching `ticks_until_next_state_change`, so the countdown of the scan that started
the cool-down survives it. Everything else is the current code (Model/ChordsV2.lean). Used only by
`chv2_stale_countdown_counterexample` (Props/C09kan.lean). -/
namespace KVerif.L.PinnedStale
open KVerif.L

/-- `ChordsV2::drain_inputs` before the repair: the cool-down branch leaves the countdown alone -/
def drainInputs (s : ChV2) (dq : List Queued) (layer : Nat) : Except Crash (ChV2 × List Queued) :=
  if s.ticksToIgnore > 0 then
    .ok ({ s with queue := [], active := applyReleases (realInputs s.queue) s.active }, drainExtend dq s.queue)
  else KVerif.L.drainInputs s dq layer

/-- `ChordsV2::tick_chv2` over that `drain_inputs` -/
def tickChv2 (s : ChV2) (layer : Nat) : Except Crash (ChV2 × List Queued) :=
  let s := { s with queue := s.queue.map fun (q : Queued) => { q with since := min (q.since + 1) U16_MAX },
                    active := s.active.map fun a => { a with delay := min (a.delay + 1) U16_MAX } }
  let prevLen := s.active.length
  match drainInputs s [] layer with
  | .error c => .error c
  | .ok (s, dq) =>
    let dq := if s.active.length != prevLen then drainPush dq ⟨.press (0, 0), 0⟩ else dq
    let dq := if s.active.any (fun a => a.status == .unreadReleased || a.status == .released) then
        drainPush dq ⟨.release (0, 0), 0⟩ else dq
    match clearReleased s.active dq with
    | .error c => .error c
    | .ok (achs, dq) => .ok ({ s with active := achs, ticksToIgnore := s.ticksToIgnore - 1 }, dq)

/-- the chords-v2 prologue of `Layout::tick` over that `tick_chv2` -/
def tickV2Pre (s : LayoutV2) : Except Crash LayoutV2 :=
  match s.chv2 with
  | none => .ok s
  | some ch =>
    match tickChv2 ch s.lay.currentLayer with
    | .error c => .error c
    | .ok (ch, dq) =>
      let (achs, act) := getActionChv2 ch.active
      let ch := { ch with active := achs }
      match handOver s.lay dq with
      | .error c => .error c
      | .ok lay =>
        match act with
        | some a =>
          .ok { lay := { lay with actionQueue := (pushBackWrap ACTION_QUEUE_LEN lay.actionQueue a).1,
                                  oneshot := { lay.oneshot with pauseInputProcessingTicks := lay.oneshot.pauseInputProcessingDelay } },
                chv2 := some ch }
        | none => .ok { lay, chv2 := some ch }

/-- `Layout::tick` with chords v2, before the repair -/
def tickV2 (s : LayoutV2) : Except Crash (LayoutV2 × CustomEv) :=
  match tickV2Pre s with
  | .error c => .error c
  | .ok s =>
    match KVerif.L.tick s.lay with
    | .error c => .error c
    | .ok (l, cu) => .ok ({ s with lay := l }, cu)

end KVerif.L.PinnedStale
