/-
Model of keyberon/src/action/switch.rs (`OpCode`, `opcode_type`, `evaluate_boolean`,
`SwitchActions::next`) and of parser/src/cfg/switch.rs (`parse_switch_case_bool`).

Conventions: u16 values are `Nat`s below 65536; bit operations of the Rust code are written as
div/mod (`x & 0x0FFF = x % 4096`, `x >> 12 = x / 4096`, ...) so that `omega` can reason about them;
the correspondence check runs both on the opcodes produced by the real parser.
A Rust `assert!/expect/unreachable!` is a `Crash` outcome.
-/
namespace KVerif.Switch

inductive BOp | or | and | not
  deriving DecidableEq, Repr, Inhabited

inductive Crash
  | unreachableOpcode   -- `unreachable!("unexpected opcode")` / bad operator nibble
  | nextMissing         -- `next.expect(...)` on a 2-word opcode at the end of the array
  | stackFull           -- `assert!(res.is_ok(), "exceeded boolean op depth")`
  | fuelOut             -- the loop did not finish (only possible on malformed opcode arrays)
  deriving DecidableEq, Repr

/-- What the evaluator reads from the layout state. Historical lists are most-recent-first. -/
structure Env where
  activeKeys   : List Nat
  activeCoords : List (Nat × Nat)
  histKeys     : List (Nat × Nat)          -- (key code, ticks since occurrence)
  histCoords   : List ((Nat × Nat) × Nat)  -- (coord, ticks since occurrence)
  layers       : List Nat                  -- active layers, current layer first
  defaultLayer : Nat
  deriving Repr

def KEY_MAX : Nat := 850
def MAX_OPCODE_LEN : Nat := 4095
def MAX_BOOL_EXPR_DEPTH : Nat := 8
def OR_VAL : Nat := 0x1000
def AND_VAL : Nat := 0x2000
def NOT_VAL : Nat := 0x3000
def INPUT_VAL : Nat := 851
def HISTORICAL_INPUT_VAL : Nat := 852
def LAYER_VAL : Nat := 853
def BASE_LAYER_VAL : Nat := 854
def TICKS_SINCE_VAL_GT : Nat := 0x4000
def TICKS_SINCE_VAL_LT : Nat := 0x6000
def HISTORICAL_KEYCODE_VAL : Nat := 0x8000

def lossyCompress (t : Nat) : Nat :=
  if t ≤ 255 then t else if t ≤ 2303 then (t - 255) / 8 + 255 else (t - 2303) / 128 + 511

def lossyDecompress (t : Nat) : Nat :=
  if t ≤ 255 then t else if t ≤ 511 then (t - 255) * 8 + 255 else (t - 511) * 128 + 2303

/-- The threshold a `key-timing` test really compares with. -/
def effTicks (t : Nat) : Nat := lossyDecompress (lossyCompress t)

/-- `OpCodeType`. -/
inductive OpTy
  | boolOp (op : BOp) (endIdx : Nat)
  | keyCode (kc : Nat)
  | histKeyCode (kc back : Nat)
  | input (row y : Nat)
  | histInput (row y back : Nat)
  | ticksLt (nth ticks : Nat)
  | ticksGt (nth ticks : Nat)
  | layer (l : Nat)
  | baseLayer (l : Nat)
  deriving DecidableEq, Repr

def BOp.toVal : BOp → Nat
  | .or => OR_VAL | .and => AND_VAL | .not => NOT_VAL

/-- `OpCode::opcode_type`. -/
def decode (self : Nat) (next : Option Nat) : Except Crash OpTy :=
  if self < KEY_MAX then .ok (.keyCode self)
  else if self ≤ MAX_OPCODE_LEN then
    match next with
    | none => .error .nextMissing
    | some op2 =>
      if self = INPUT_VAL then .ok (.input ((op2 / 16384) % 4) (op2 % 1024))
      else if self = HISTORICAL_INPUT_VAL then
        .ok (.histInput ((op2 / 16384) % 4) (op2 % 1024) ((op2 / 2048) % 8))
      else if self = LAYER_VAL then .ok (.layer op2)
      else if self = BASE_LAYER_VAL then .ok (.baseLayer op2)
      else .error .unreachableOpcode
  else
    let top3 := self / 8192          -- (self & 0xE000) >> 13
    if top3 = 3 then .ok (.ticksLt ((self / 1024) % 8) (lossyDecompress (self % 1024)))
    else if top3 = 2 then .ok (.ticksGt ((self / 1024) % 8) (lossyDecompress (self % 1024)))
    else if top3 ≥ 4 then .ok (.histKeyCode (self % 4096) ((self / 4096) % 8))
    else
      let nib := self / 4096
      if nib = 1 then .ok (.boolOp .or (self % 4096))
      else if nib = 2 then .ok (.boolOp .and (self % 4096))
      else if nib = 3 then .ok (.boolOp .not (self % 4096))
      else .error .unreachableOpcode

/-- Leaf tests of `evaluate_boolean`. -/
def leafVal (env : Env) : OpTy → Bool
  | .boolOp _ _ => false
  | .keyCode kc => env.activeKeys.any (· == kc)
  | .histKeyCode kc back => match env.histKeys[back]? with
      | some (k, _) => k == kc | none => false
  | .ticksLt nth t => match env.histKeys[nth]? with
      | some (_, since) => decide (since ≤ t) | none => false
  | .ticksGt nth t => match env.histKeys[nth]? with
      | some (_, since) => decide (since > t) | none => false
  | .input row y => env.activeCoords.any (· == (row, y))
  | .histInput row y back => match env.histCoords[back]? with
      | some (c, _) => c == (row, y) | none => false
  | .layer l => match env.layers.head? with
      | some x => x == l | none => false
  | .baseLayer l => env.defaultLayer == l

def opWidth : OpTy → Nat
  | .input .. | .histInput .. | .layer _ | .baseLayer _ => 2
  | _ => 1

/-- A fetched opcode as the loop sees it: an operator with its end index, or a leaf with its width
and value. -/
inductive DOp
  | grp (op : BOp) (endIdx : Nat)
  | leaf (w : Nat) (v : Bool)
  deriving DecidableEq, Repr

def fetchRaw (ops : List Nat) (env : Env) (i : Nat) : Except Crash DOp :=
  match ops[i]? with
  | none => .error .fuelOut            -- never requested: the loop guard is `i < len`
  | some self =>
    match decode self ops[i+1]? with
    | .error c => .error c
    | .ok (.boolOp op e) => .ok (.grp op e)
    | .ok t => .ok (.leaf (opWidth t) (leafVal env t))

structure St where
  idx : Nat
  endIdx : Nat
  op : BOp
  stack : List (BOp × Nat)      -- head = back of the ArrayDeque
  ret : Bool
  deriving Repr

/-- short-circuit test in the pop branch -/
def scPop (ret : Bool) (op : BOp) : Bool :=
  match ret, op with
  | true, .or | true, .not | false, .and => true
  | _, _ => false

/-- short-circuit test after a leaf (the leaf's value is already negated under `not`) -/
def scLeaf (ret : Bool) (op : BOp) : Bool :=
  match ret, op with
  | true, .or | false, .and | false, .not => true
  | _, _ => false

def negIf (op : BOp) (b : Bool) : Bool := if op = .not then !b else b

/-- trailing `while let Some(op) = stack.pop_back()` -/
def finish (stack : List (BOp × Nat)) (ret : Bool) : Bool :=
  stack.foldl (fun r f => negIf f.1 r) ret

/-- The part of one loop iteration after the pop branch: fetch and act on `bool_expr[idx]`. -/
def body (fetch : Nat → Except Crash DOp) (s : St) : Except Crash St :=
  match fetch s.idx with
  | .error c => .error c
  | .ok (.grp op e) =>
    if s.stack.length ≥ MAX_BOOL_EXPR_DEPTH then .error .stackFull
    else .ok { idx := s.idx + 1, endIdx := e, op := op, stack := (s.op, s.endIdx) :: s.stack, ret := s.ret }
  | .ok (.leaf w v) =>
    let r := negIf s.op v
    if scLeaf r s.op then .ok { s with idx := s.endIdx, ret := r }
    else .ok { s with idx := s.idx + w, ret := r }

/-- `popFix = true` is the code after the `fix:` commit (`ret = !ret`), `false` the pinned code
(`ret = false`). -/
def popRet (popFix : Bool) (o : BOp) (ret : Bool) : Bool :=
  if o = .not then (if popFix then !ret else false) else ret

def run (popFix : Bool) (fetch : Nat → Except Crash DOp) (len : Nat) : Nat → St → Except Crash Bool
  | 0, _ => .error .fuelOut
  | fuel + 1, s =>
    if s.idx < len then
      if s.idx ≥ s.endIdx then
        match s.stack with
        | [] => .ok s.ret
        | (o, e) :: stk =>
          if scPop s.ret o || decide (s.idx ≥ e) then
            run popFix fetch len fuel { idx := e, endIdx := e, op := o, stack := stk, ret := popRet popFix o s.ret }
          else
            match body fetch { s with op := o, endIdx := e, stack := stk } with
            | .error c => .error c
            | .ok s' => run popFix fetch len fuel s'
      else
        match body fetch s with
        | .error c => .error c
        | .ok s' => run popFix fetch len fuel s'
    else .ok (finish s.stack s.ret)

def initSt (len : Nat) : St := { idx := 0, endIdx := len, op := .or, stack := [], ret := true }

/-- Every iteration consumes an opcode or pops a frame, and frames are pushed by opcodes. -/
def fuelFor (len : Nat) : Nat := 2 * len + 2

/-- `evaluate_boolean` as it is in the tree now. -/
def evalOps (ops : List Nat) (env : Env) : Except Crash Bool :=
  run true (fetchRaw ops env) ops.length (fuelFor ops.length) (initSt ops.length)

/-- `evaluate_boolean` of the pinned commit, before the `fix:` commit. -/
def evalOpsPinned (ops : List Nat) (env : Env) : Except Crash Bool :=
  run false (fetchRaw ops env) ops.length (fuelFor ops.length) (initSt ops.length)

/-! ## Source expressions and the compiler (`parse_switch_case_bool`) -/

inductive Leaf
  | key (kc : Nat)
  | keyHist (kc rec : Nat)          -- rec is 0-based (config value − 1)
  | ticksLt (nth t : Nat)
  | ticksGt (nth t : Nat)
  | input (row y : Nat)
  | inputHist (row y rec : Nat)
  | layer (l : Nat)
  | baseLayer (l : Nat)
  deriving DecidableEq, Repr

inductive BExpr
  | leaf : Leaf → BExpr
  | node : BOp → List BExpr → BExpr
  deriving Repr

def Leaf.encode : Leaf → List Nat
  | .key kc => [kc % 4096]
  | .keyHist kc r => [kc % 4096 + HISTORICAL_KEYCODE_VAL + r * 4096]
  | .ticksLt n t => [TICKS_SINCE_VAL_LT + lossyCompress t + n * 1024]
  | .ticksGt n t => [TICKS_SINCE_VAL_GT + lossyCompress t + n * 1024]
  | .input row y => [INPUT_VAL, (row % 4) * 16384 + y]
  | .inputHist row y r => [HISTORICAL_INPUT_VAL, (row % 4) * 16384 + r * 2048 + y]
  | .layer l => [LAYER_VAL, l]
  | .baseLayer l => [BASE_LAYER_VAL, l]

/-- Range conditions the `OpCode::new_*` constructors assert (and the parser guarantees). -/
def Leaf.InRange : Leaf → Prop
  | .key kc => kc < KEY_MAX
  | .keyHist kc r => kc < 4096 ∧ r ≤ 7
  | .ticksLt n t => n ≤ 7 ∧ t < 65536
  | .ticksGt n t => n ≤ 7 ∧ t < 65536
  | .input row y => row < 4 ∧ y < 1024
  | .inputHist row y r => row < 4 ∧ y < 1024 ∧ r < 8
  | .layer l => l < 60000
  | .baseLayer l => l < 60000

instance : (l : Leaf) → Decidable l.InRange := fun l => by
  cases l <;> unfold Leaf.InRange <;> infer_instance

/-- The opcode type a leaf decodes to. -/
def Leaf.toOpTy : Leaf → OpTy
  | .key kc => .keyCode kc
  | .keyHist kc r => .histKeyCode kc r
  | .ticksLt n t => .ticksLt n (effTicks t)
  | .ticksGt n t => .ticksGt n (effTicks t)
  | .input row y => .input row y
  | .inputHist row y r => .histInput row y r
  | .layer l => .layer l
  | .baseLayer l => .baseLayer l

mutual
  /-- Code for `e` when its first opcode is placed at absolute index `base`. -/
  def compileAt (base : Nat) : BExpr → List Nat
    | .leaf l => l.encode
    | .node op cs =>
      let bodyOps := compileListAt (base + 1) cs
      (op.toVal + (base + 1 + bodyOps.length)) :: bodyOps
  def compileListAt (base : Nat) : List BExpr → List Nat
    | [] => []
    | e :: es =>
      let c := compileAt base e
      c ++ compileListAt (base + c.length) es
end

mutual
  def BExpr.depth : BExpr → Nat
    | .leaf _ => 1
    | .node _ cs => 1 + BExpr.depthList cs
  def BExpr.depthList : List BExpr → Nat
    | [] => 0
    | e :: es => max e.depth (BExpr.depthList es)
end

inductive Diag | tooLong | tooDeep
  deriving DecidableEq, Repr

mutual
  /-- `parse_switch_case_bool(depth, e, ops)` with its two resource checks, in the order the Rust
  code performs them. -/
  def compileChk (depth : Nat) (ops : List Nat) : BExpr → Except Diag (List Nat)
    | .leaf l =>
      if ops.length > MAX_OPCODE_LEN then .error .tooLong
      else if depth > MAX_BOOL_EXPR_DEPTH then .error .tooDeep
      else .ok (ops ++ l.encode)
    | .node op cs =>
      if ops.length > MAX_OPCODE_LEN then .error .tooLong
      else if depth > MAX_BOOL_EXPR_DEPTH then .error .tooDeep
      else
        let ph := ops.length
        match compileChkList (depth + 1) (ops ++ [op.toVal + ph]) cs with
        | .error d => .error d
        | .ok ops' =>
          if ops'.length > MAX_OPCODE_LEN then .error .tooLong
          else .ok (ops'.set ph (op.toVal + ops'.length))
  def compileChkList (depth : Nat) (ops : List Nat) : List BExpr → Except Diag (List Nat)
    | [] => .ok ops
    | e :: es =>
      match compileChk depth ops e with
      | .error d => .error d
      | .ok ops' => compileChkList depth ops' es
end

/-- The opcodes the parser produces for a `switch` case's key-match list. -/
def compileTop (es : List BExpr) : Except Diag (List Nat) := compileChkList 1 [] es

/-! ## Denotation: what the configuration text means -/

def Leaf.den (env : Env) (l : Leaf) : Bool := leafVal env l.toOpTy

mutual
  def BExpr.den (env : Env) : BExpr → Bool
    | .leaf l => l.den env
    | .node .or cs => BExpr.anyDen env cs
    | .node .and cs => BExpr.allDen env cs
    | .node .not cs => !(BExpr.anyDen env cs)
  def BExpr.anyDen (env : Env) : List BExpr → Bool
    | [] => false
    | e :: es => e.den env || BExpr.anyDen env es
  def BExpr.allDen (env : Env) : List BExpr → Bool
    | [] => true
    | e :: es => e.den env && BExpr.allDen env es
end

/-- A case's key-match list: empty list is `true`, otherwise `or` of the items. -/
def denTop (env : Env) (es : List BExpr) : Bool :=
  match es with
  | [] => true
  | _ => BExpr.anyDen env es

/-! ## Case iteration (`SwitchActions::next`) and fork -/

inductive BrkFt | brk | ft deriving DecidableEq, Repr

/-- Indices of the cases whose action is yielded, in order. -/
def firing (eval : List Nat → Except Crash Bool) : Nat → List (List Nat × BrkFt) → Except Crash (List Nat)
  | _, [] => .ok []
  | i, (ops, bf) :: rest =>
    match eval ops with
    | .error c => .error c
    | .ok true =>
      match bf with
      | .brk => .ok [i]
      | .ft => match firing eval (i + 1) rest with
        | .error c => .error c
        | .ok l => .ok (i :: l)
    | .ok false => firing eval (i + 1) rest

end KVerif.Switch
