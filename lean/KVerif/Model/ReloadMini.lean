/-
A concrete `World` for the correspondence check of C15: the fragment of kanata/keyberon that the
simple cases of the harness use — plain keys, transparent and no-op keys, `layer-while-held`,
`layer-switch`, virtual keys (`on-press press/release/tap/toggle-vkey`), `unmod`, and every live
reload action.  Mirrors, for this fragment only:
  keyberon/src/layout.rs  `event`, `tick` (queue pop), `dequeue`, `do_action`, `resolve_coord`,
                          `current_layer`, `trans_resolution_layer_order`, `keycodes`
  src/kanata/mod.rs       `handle_keystate_changes` (unmod lists, release/press diff, custom actions),
                          `handle_fakekey_action`, the queue/NormalKey conjuncts of `is_idle`
No theorem depends on this file; the theorems quantify over every `World`.
-/
import KVerif.Model.Reload
namespace KVerif.Reload.Mini
open KVerif.Gen.Reload KVerif.Reload

inductive VkOp where
  | press | release | tap | toggle
  deriving DecidableEq, Repr

inductive Act where
  | key (k : Nat)
  | trans
  | noop
  | rl (r : ReloadAct)
  | layerHeld (l : Nat)
  | layerSwitch (l : Nat)
  | vk (op : VkOp) (v : Nat)
  | unmod (k : Nat)
  deriving DecidableEq, Repr

/-- a parsed simple configuration -/
structure Cfg where
  id : Nat
  /-- `layers[l][i]`: action of physical key `i` on layer `l` -/
  layers : List (List Act)
  /-- output key of each virtual key -/
  vkeys : List Nat
  /-- `linux-x11-repeat-delay-rate` is set -/
  x11 : Bool
  deriving DecidableEq, Repr

inductive Content where
  | ok (c : Cfg)
  | syn
  | sem
  deriving Repr

/-- `(row, column)`: row 0 physical keys (column = index into defsrc), row 1 virtual keys -/
abbrev Coord := Nat × Nat

inductive KState where
  | normal (kc : Nat) (c : Coord)
  | layerMod (l : Nat) (c : Coord)
  | custom (a : Act) (c : Coord)
  deriving DecidableEq, Repr

inductive Ev where
  | press (c : Coord)
  | release (c : Coord)
  deriving DecidableEq, Repr

structure Layout where
  layers : List (List Act)
  vkeys : List Nat
  defaultLayer : Nat
  states : List KState
  queue : List Ev
  deriving Repr

inductive Os where
  | down (k : Nat)
  | up (k : Nat)
  deriving DecidableEq, Repr

/-- value types of the fields the fragment uses; everything else is `Unit` -/
@[reducible] def Other : Field → Type
  | .layer_info => Nat × Nat          -- (config id, number of layers): names are `c<id>l<i>`
  | .unmodded_keys => List Nat
  | .G_MAPPED_KEYS => Nat             -- config id
  | .G_ZCH => Nat
  | .key_outputs => Nat
  | .sequences => Nat
  | .overrides => Nat
  | .virtual_keys => Nat
  | _ => Unit

def T : Types where
  Content := Content
  Cfg := Cfg
  Err := Unit
  Layout := Layout
  Os := Os
  OnIdle := Unit
  Input := Ev
  Other := Other

/-- code of the defsrc key in column `i` (defsrc is `a s d f g h`: KEY_A = 30 … KEY_H = 35) -/
def srcCode (i : Nat) : Nat := 30 + i

def initLayout (c : Cfg) : Layout := ⟨c.layers, c.vkeys, 0, [], []⟩

def stLayer : KState → Option Nat
  | .layerMod l _ => some l
  | _ => none

/-- `current_layer` -/
def currentLayer (l : Layout) : Nat := (l.states.reverse.findSome? stLayer).getD l.defaultLayer

/-- `trans_resolution_layer_order` (trans_resolution_behavior_v2, no delegate-to-first-layer) -/
def layerOrder (l : Layout) : List Nat := l.states.reverse.filterMap stLayer ++ [l.defaultLayer]

/-- `resolve_coord` for row 0 -/
def resolve (l : Layout) (col : Nat) : List Nat → Act
  | [] => .key (srcCode col)
  | ly :: rest =>
    match (l.layers.getD ly []).getD col .trans with
    | .trans => resolve l col rest
    | a => a

def stCoord : KState → Coord
  | .normal _ c => c
  | .layerMod _ c => c
  | .custom _ c => c

/-- `keycodes` -/
def keycodes (l : Layout) : List Nat := l.states.filterMap fun | .normal k _ => some k | _ => none

/-- custom event of one keyberon tick -/
inductive CEv where
  | none
  | press (a : Act)
  | release (a : Act)

/-- `dequeue` -/
def dequeue (l : Layout) : Ev → Layout × CEv
  | .release c =>
    let rel := l.states.filterMap fun | .custom a c' => if c' = c then some a else none | _ => none
    let l' := { l with states := l.states.filter (fun s => stCoord s ≠ c) }
    -- `custom.update(Release(..))`: once a Release is recorded a later one does not overwrite it
    (l', match rel.head? with | some a => .release a | none => .none)
  | .press c =>
    let a : Act := if c.1 = 0 then resolve l c.2 (layerOrder l) else
      match l.vkeys[c.2]? with
      | some k => .key k
      | none => .noop
    match a with
    | .key k => ({ l with states := l.states ++ [.normal k c] }, .none)
    | .layerHeld ly => ({ l with states := l.states ++ [.layerMod ly c] }, .none)
    | .layerSwitch ly => ((if ly < l.layers.length then { l with defaultLayer := ly } else l), .none)
    | .trans => (l, .none)
    | .noop => (l, .none)
    | a => ({ l with states := l.states ++ [.custom a c] }, .press a)

/-- `Layout::tick` for the fragment: pop one queued event -/
def ltick (l : Layout) : Layout × CEv :=
  match l.queue with
  | [] => (l, .none)
  | e :: q => dequeue { l with queue := q } e

/-- `Layout::event` -/
def levent (l : Layout) (e : Ev) : Layout := { l with queue := l.queue ++ [e] }

/-- `handle_fakekey_action` -/
def fakeKey (l : Layout) (op : VkOp) (v : Nat) : Layout :=
  let c : Coord := (1, v)
  match op with
  | .press => levent l (.press c)
  | .release => levent l (.release c)
  | .tap => levent (levent l (.press c)) (.release c)
  | .toggle => if l.states.any (fun s => stCoord s = c) then levent l (.release c) else levent l (.press c)

/-- the eight modifier key codes cleared by `(unmod ..)` with the default modifier list -/
def modCodes : List Nat := [42, 54, 56, 100, 29, 97, 125, 126]

abbrev MSt := St T

/-- `handle_keystate_changes` for the fragment -/
def ksc (s : MSt) : MSt × List (KAct T) × List Os :=
  let lay : Layout := s .layout
  let r := ltick lay
  let lay1 := r.1
  let um0 : List Nat := s .unmodded_keys
  -- unmodded bookkeeping comes before the key diff
  let um : List Nat := match r.2 with
    | .press (.unmod k) => um0 ++ [k]
    | .release (.unmod k) => um0.filter (· ≠ k)
    | _ => um0
  let cur0 := (s .cur_keys : List Nat) ++ keycodes lay1
  let cur := if um.isEmpty then cur0 else cur0.filter (fun k => !modCodes.contains k) ++ um
  let prev : List Nat := s .prev_keys
  let ups := (prev.filter (fun k => !cur.contains k)).map Os.up
  -- presses: a key already in prev_keys (which grows while iterating) is skipped
  let downs := (cur.foldl (fun (acc : List Nat × List Os) k =>
      if acc.1.contains k then acc else (acc.1 ++ [k], acc.2 ++ [Os.down k])) (prev, [])).2
  -- custom actions on press
  let (lay2, acts) : Layout × List (KAct T) := match r.2 with
    | .press (.rl a) => (lay1, [.reload a])
    | .press (.vk op v) => (fakeKey lay1 op v, [])
    | _ => (lay1, [])
  (((s.set .layout lay2).set .unmodded_keys um).set .cur_keys cur, acts, ups ++ downs)

def world : World where
  toTypes := T
  parse := fun
    | .ok c => .ok c
    | _ => .error ()
  cfgVal := fun f c => match f with
    | .layout => initLayout c
    | .layer_info => (c.id, c.layers.length)
    | .G_MAPPED_KEYS => c.id
    | .G_ZCH => c.id
    | .key_outputs => c.id
    | .sequences => c.id
    | .overrides => c.id
    | .virtual_keys => c.id
    | .cur_keys => ([] : List Nat)
    | .prev_keys => ([] : List Nat)
    | .cfg_paths => ([] : List Nat)
    | .cur_cfg_idx => (0 : Nat)
    | .prev_layer => (0 : Nat)
    | .ticks_since_idle => (0 : Nat)
    | .macro_on_press_cancel_duration => (0 : Nat)
    | .live_reload_requested => false
    | .waiting_for_idle => ([] : List Unit)
    | .unmodded_keys => ([] : List Nat)
    | .kbd_out | .scroll_state | .hscroll_state | .move_mouse_state_vertical
    | .move_mouse_state_horizontal | .move_mouse_speed_modifiers | .sequence_backtrack_modcancel
    | .sequence_always_on | .sequence_input_mode | .sequence_timeout | .sequence_state
    | .dynamic_macros | .dynamic_macro_replay_state | .dynamic_macro_record_state | .override_states
    | .last_tick | .time_remainder | .kbd_in_paths | .continue_if_no_devices | .include_names
    | .exclude_names | .log_layer_changes | .caps_word | .x11_repeat_rate | .device_detect_mode
    | .vkeys_pending_release | .movemouse_inherit_accel_state | .movemouse_smooth_diagonals
    | .movemouse_buffer | .override_release_on_activation | .dynamic_macro_max_presses
    | .dynamic_macro_replay_behaviour | .unmodded_mods | .unshifted_keys | .last_pressed_key
    | .switch_max_key_timing | .tcp_server_address | .allow_hardware_repeat
    | .saved_clipboard_content => ()
  init0 := fun f => match f with
    | .layout => ⟨[], [], 0, [], []⟩
    | .layer_info => (0, 0)
    | .G_MAPPED_KEYS => (0 : Nat)
    | .G_ZCH => (0 : Nat)
    | .key_outputs => (0 : Nat)
    | .sequences => (0 : Nat)
    | .overrides => (0 : Nat)
    | .virtual_keys => (0 : Nat)
    | .cur_keys => ([] : List Nat)
    | .prev_keys => ([] : List Nat)
    | .cfg_paths => ([] : List Nat)
    | .cur_cfg_idx => (0 : Nat)
    | .prev_layer => (0 : Nat)
    | .ticks_since_idle => (0 : Nat)
    | .macro_on_press_cancel_duration => (0 : Nat)
    | .live_reload_requested => false
    | .waiting_for_idle => ([] : List Unit)
    | .unmodded_keys => ([] : List Nat)
    | .kbd_out | .scroll_state | .hscroll_state | .move_mouse_state_vertical
    | .move_mouse_state_horizontal | .move_mouse_speed_modifiers | .sequence_backtrack_modcancel
    | .sequence_always_on | .sequence_input_mode | .sequence_timeout | .sequence_state
    | .dynamic_macros | .dynamic_macro_replay_state | .dynamic_macro_record_state | .override_states
    | .last_tick | .time_remainder | .kbd_in_paths | .continue_if_no_devices | .include_names
    | .exclude_names | .log_layer_changes | .caps_word | .x11_repeat_rate | .device_detect_mode
    | .vkeys_pending_release | .movemouse_inherit_accel_state | .movemouse_smooth_diagonals
    | .movemouse_buffer | .override_release_on_activation | .dynamic_macro_max_presses
    | .dynamic_macro_replay_behaviour | .unmodded_mods | .unshifted_keys | .last_pressed_key
    | .switch_max_key_timing | .tcp_server_address | .allow_hardware_repeat
    | .saved_clipboard_content => ()
  currentLayer := currentLayer
  layerName := fun (li : Nat × Nat) i => if i < li.2 then some s!"c{li.1}l{i}" else none
  ksc := ksc
  late := fun s => (s, [])
  replay := fun s => (s, none)
  inputEvent := fun s e => (s.set .layout (levent (s .layout) e), [])
  fireIdle := fun l _ => l
  idleDuration := fun _ => 0
  insertIdle := fun l _ => l
  coreIdle := fun s => ((s .layout : Layout).queue).isEmpty
  hasNormalKey := fun l => l.states.any fun | .normal _ _ => true | _ => false
  timingOk := fun _ => true

end KVerif.Reload.Mini
