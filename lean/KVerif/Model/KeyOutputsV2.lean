/-
Model of the WHOLE of parser/src/cfg/key_outputs.rs `create_key_outputs`: per layer, per physical key
position, `add_key_output_from_action_to_key_pos` (the key's own action) and then
`add_chordsv2_output_for_key_pos` (the outputs of every `defchordsv2` chord the key takes part in and
that is not disabled on that layer), with the `defoverrides` table threaded through `add_kc_output`
exactly as the code does; and of the loop of parser/src/cfg/chord.rs `parse_defchordv2` that registers
each chord under each of its participating keys (`ChordsForKeys.mapping`).

`Model/KeyOutputs.lean` has the action walk WITHOUT the override table (`addOutputs`) and applies
the overrides afterwards (`withOverrides`); here the walk carries the table (`addOutputsOv`), and
`Lemmas/KeyOutputsV2.lean` proves that the two agree (`addOutputsOv_withOverrides`).

Hash maps are association lists; `HashMap<OsCode, Vec<OsCode>>` (`Rows`) has an entry for a key exactly
when `add_kc_output` was called for it, and every call pushes, so "no entry" is the empty list.
-/
import KVerif.Model.KeyOutputs
import KVerif.Model.ChordsV2
namespace KVerif.KO
open KVerif.L KVerif.K

/-- `u16::MAX`, the bound asserted on the layer index -/
abbrev LAYER_IDX_MAX : Nat := 65535

/-- `add_kc_output`: push the key code if new, then the output key of each override of that key
code, if new -/
def addKcOv (t : Override.Overrides) (outs : List Nat) (kc : Nat) : List Nat :=
  (overrideOuts t kc).foldl addKc (addKc outs kc)

mutual
  /-- `add_key_output_from_action_to_key_pos` (the override table is passed down to `add_kc_output`).
  The hold-tap arm of the code skips the timeout action when it is the very same nested hold-tap
  object as the hold action; visiting it is a no-op then (`addOutputsOv_idem`), so the model visits
  it always. -/
  def addOutputsOv (t : Override.Overrides) (customs : List (List CAct)) (slot : Nat) : Action → List Nat → List Nat
    | .keyCode kc, outs => addKcOv t outs kc
    | .holdTap _ hold tap ta _ _, outs =>
      addOutputsOv t customs slot ta (addOutputsOv t customs slot hold (addOutputsOv t customs slot tap outs))
    | .oneShot a _ _, outs => addOutputsOv t customs slot a outs
    | .multipleKeyCodes kcs, outs => kcs.foldl (addKcOv t) outs
    | .multipleActions acs, outs => addOutputsOvL t customs slot acs outs
    | .tapDance acs _ _, outs => addOutputsOvL t customs slot acs outs
    | .fork l r _, outs => addOutputsOv t customs slot r (addOutputsOv t customs slot l outs)
    | .chords _ chs _, outs => addOutputsOvC t customs slot chs outs
    | .switch cases, outs => addOutputsOvS t customs slot cases outs
    | .custom id, outs => ((customs[id]?.getD []).flatMap customKeys).foldl (addKcOv t) outs
    | .src, outs => addKcOv t outs slot
    | _, outs => outs
  def addOutputsOvL (t : Override.Overrides) (customs : List (List CAct)) (slot : Nat) : List Action → List Nat → List Nat
    | [], outs => outs
    | a :: rest, outs => addOutputsOvL t customs slot rest (addOutputsOv t customs slot a outs)
  def addOutputsOvC (t : Override.Overrides) (customs : List (List CAct)) (slot : Nat) : List (Nat × Action) → List Nat → List Nat
    | [], outs => outs
    | (_, a) :: rest, outs => addOutputsOvC t customs slot rest (addOutputsOv t customs slot a outs)
  def addOutputsOvS (t : Override.Overrides) (customs : List (List CAct)) (slot : Nat) : List (List Nat × Action × Bool) → List Nat → List Nat
    | [], outs => outs
    | (_, a, _) :: rest, outs => addOutputsOvS t customs slot rest (addOutputsOv t customs slot a outs)
end

/-- `HashMap<OsCode, Vec<OsCode>>`: the rows of one layer -/
abbrev Rows := List (Nat × List Nat)

/-- the row of a key; no entry = nothing was ever pushed = `[]` -/
def Rows.get : Rows → Nat → List Nat
  | [], _ => []
  | e :: rest, k => if e.1 == k then e.2 else Rows.get rest k

/-- write a row back; an entry comes into being with the first push only -/
def Rows.put : Rows → Nat → List Nat → Rows
  | [], k, v => if v.isEmpty then [] else [(k, v)]
  | e :: rest, k, v => if e.1 == k then (k, v) :: rest else e :: Rows.put rest k v

/-- `add_key_output_from_action_to_key_pos(osc_slot, action, &mut layer_outputs, overrides)`: every
push goes to the row of `osc_slot` -/
def addOutputsAt (t : Override.Overrides) (customs : List (List CAct)) (slot : Nat) (a : Action) (m : Rows) : Rows :=
  m.put slot (addOutputsOv t customs slot a (m.get slot))

/-- the loop of `add_chordsv2_output_for_key_pos` over the chords registered for the key, on the
key's row: a chord whose `disabled_layers` holds the layer index is skipped -/
def addChordsRow (t : Override.Overrides) (customs : List (List CAct)) (slot layerIdx : Nat)
    (chords : List ChordV2) (outs : List Nat) : List Nat :=
  chords.foldl (fun o ch => if ch.disabledLayers.contains layerIdx then o else addOutputsOv t customs slot ch.action o) outs

inductive KoCrash
  | layerIdxAssert      -- `assert!(layer_idx <= usize::from(u16::MAX))`
  deriving Repr, DecidableEq

/-- `add_chordsv2_output_for_key_pos` -/
def addChordsV2At (t : Override.Overrides) (customs : List (List CAct)) (slot layerIdx : Nat)
    (chv2 : Option ChV2Cfg) (m : Rows) : Except KoCrash Rows :=
  if layerIdx > LAYER_IDX_MAX then .error .layerIdxAssert else
  match chv2 with
  | none => .ok m
  | some c =>
    match c.get slot with
    | none => .ok m
    | some chords => .ok (m.put slot (addChordsRow t customs slot layerIdx chords (m.get slot)))

/-- the inner loop of `create_key_outputs` over the positions of row 0 of one layer (`layer` lists
position and action in ascending position order); a position that is no `OsCode` is skipped
(`i.try_into()` fails) -/
def layerOutputs (t : Override.Overrides) (customs : List (List CAct)) (valid : Nat → Bool)
    (chv2 : Option ChV2Cfg) (layerIdx : Nat) : List (Nat × Action) → Rows → Except KoCrash Rows
  | [], m => .ok m
  | (i, a) :: rest, m =>
    if !valid i then layerOutputs t customs valid chv2 layerIdx rest m else
    match addChordsV2At t customs i layerIdx chv2 (addOutputsAt t customs i a m) with
    | .error e => .error e
    | .ok m' => layerOutputs t customs valid chv2 layerIdx rest m'

/-- the outer loop of `create_key_outputs` from layer index `li` on -/
def createFrom (t : Override.Overrides) (customs : List (List CAct)) (valid : Nat → Bool)
    (chv2 : Option ChV2Cfg) : Nat → List (List (Nat × Action)) → Except KoCrash (List Rows)
  | _, [] => .ok []
  | li, layer :: rest =>
    match layerOutputs t customs valid chv2 li layer [] with
    | .error e => .error e
    | .ok r =>
      match createFrom t customs valid chv2 (li + 1) rest with
      | .error e => .error e
      | .ok rs => .ok (r :: rs)

/-- `create_key_outputs` (`shrink_to_fit` does not change contents) -/
def createKeyOutputs (t : Override.Overrides) (customs : List (List CAct)) (valid : Nat → Bool)
    (chv2 : Option ChV2Cfg) (layers : List (List (Nat × Action))) : Except KoCrash (List Rows) :=
  createFrom t customs valid chv2 0 layers

/-! ### registration of the chords under their participating keys (`parse_defchordv2`) -/

/-- `mapping.entry(pkey).or_insert(ChordsForKey { chords: vec![] }).chords.push(chord)` -/
def pushChord : List (Nat × List ChordV2) → Nat → ChordV2 → List (Nat × List ChordV2)
  | [], k, ch => [(k, [ch])]
  | e :: rest, k, ch => if e.1 == k then (e.1, e.2 ++ [ch]) :: rest else e :: pushChord rest k ch

/-- `for pkey in chord.participating_keys` -/
def registerChord (m : List (Nat × List ChordV2)) (ch : ChordV2) : List (Nat × List ChordV2) :=
  ch.keys.foldl (fun m k => pushChord m k ch) m

/-- `for chord in successful` -/
def registerChords (chords : List ChordV2) : List (Nat × List ChordV2) :=
  chords.foldl registerChord []

/-! ### what the theorems relate the table to -/

/-- the chords registered for a key -/
def chordsFor (chv2 : Option ChV2Cfg) (k : Nat) : List ChordV2 :=
  match chv2 with
  | none => []
  | some c => (c.get k).getD []

/-- those not disabled on layer `layerIdx`, in table order -/
def enabledChords (layerIdx : Nat) (chs : List ChordV2) : List ChordV2 :=
  chs.filter fun c => !c.disabledLayers.contains layerIdx

/-- closed form of a row, in the terms of `Model/KeyOutputs.lean`: the outputs of the key's own
action, then those of each enabled chord in table order (first occurrence only), then the overrides -/
def rowV2 (t : Override.Overrides) (customs : List (List CAct)) (slot : Nat) (a : Action)
    (layerIdx : Nat) (chs : List ChordV2) : List Nat :=
  withOverrides t ((enabledChords layerIdx chs).foldl (fun o c => addOutputs customs slot c.action o) (keyOutputs customs slot a))

/-- `key_outputs[layer].get(&key)` as `handle_repeat` reads it (no entry = nothing listed) -/
def tableRow (tbl : List Rows) (layerIdx k : Nat) : List Nat :=
  Rows.get (tbl[layerIdx]?.getD []) k

end KVerif.KO
