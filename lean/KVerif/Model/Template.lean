/-
Model of parser/src/cfg/deftemplate.rs: `expand_templates`, `expand`, `visit_*`,
`evaluate_conditionals`, `if_equal_replacement` and friends.

`expand` is modelled twice:
* `expandPinned` — the pinned source: the `loop` re-scans the list until a pass replaces nothing;
  nothing bounds the number of passes, so the model takes fuel (one unit per pass and per recursive
  call) and `fuelOut` stands for "does not finish";
* `expand` — with fix-4 (`MAX_EXPANSION_DEPTH`, `MAX_EXPANDED_NODES`): defined by well-founded
  recursion on (depth still allowed, size of the list), so it is total by construction.
Everything else is shared.
-/
import KVerif.Model.SExpr
namespace KVerif.SExpr

/-- `struct Template` (`vars_substitute_names` = the names prefixed with `$`) -/
structure Template where
  name : Bytes
  vars : List Bytes
  content : List SExpr
  deriving Repr

def Template.subNames (t : Template) : List Bytes := t.vars.map (36 :: ·)

def isExpandName (a : Bytes) : Bool := a = kw "template-expand" || a = kw "t!"

/-! ## `deftemplate` collection and validation -/

mutual
/-- `visit_validate_all_atoms_peek_next` with the closure of `expand_templates`: inside a template,
`deftemplate` is refused and `template-expand`/`t!` must be followed by the name of an earlier
template (or by a list / nothing, which is left for later). -/
def validateContent (known : List Bytes) : List SExpr → Except Diag Unit
  | [] => .ok ()
  | x :: rest => validateOne known rest.head? x *> validateContent known rest
/-- one expression, with the expression that follows it in the same list -/
def validateOne (known : List Bytes) (next : Option SExpr) : SExpr → Except Diag Unit
  | .atom t sp =>
    if t = kw "deftemplate" then .error ⟨some sp, "deftemplate is not allowed within deftemplate"⟩
    else if isExpandName t then
      match next with
      | some nxt =>
        match nxt.atom? with
        | some n => if known.contains n then .ok () else .error ⟨some nxt.span, "unknown template name in template-expand"⟩
        | none => .ok ()
      | none => .ok ()
    else .ok ()
  | .list xs _ => validateContent known xs
end

/-- the atoms of the variable list of a `deftemplate` -/
def templateVars : List SExpr → Except Diag (List Bytes)
  | [] => .ok []
  | .atom t _ :: rest => (templateVars rest).map (t :: ·)
  | .list _ sp :: _ => .error ⟨some sp, "deftemplate variables must be strings"⟩

/-- first loop of `expand_templates`: "Find defined templates" -/
def collectTemplates : List TopLevel → List Template → Except Diag (List Template)
  | [], acc => .ok acc
  | tl :: rest, acc =>
    match tl.xs with
    | .atom h _ :: args =>
      if h ≠ kw "deftemplate" then collectTemplates rest acc
      else
        match args with
        | [] => .error ⟨some tl.sp, "deftemplate must have the template name as the first parameter"⟩
        | nameE :: args2 =>
          match nameE.atom? with
          | none => .error ⟨some nameE.span, "template name must be a string"⟩
          | some name =>
            if acc.any (·.name = name) then .error ⟨some nameE.span, "template name was already defined earlier"⟩
            else
              match args2 with
              | [] => .error ⟨some tl.sp, "deftemplate must have a list of template variables as the second parameter"⟩
              | varsE :: content =>
                match varsE.list? with
                | none => .error ⟨some varsE.span, "deftemplate must have a list of template variables the second parameter"⟩
                | some vl =>
                  match templateVars vl with
                  | .error d => .error d
                  | .ok vars =>
                    match validateContent (acc.map (·.name)) content with
                    | .error d => .error d
                    | .ok () => collectTemplates rest (acc ++ [⟨name, vars, content⟩])
    | _ => collectTemplates rest acc

/-! ## Substitution, `concat`, conditionals -/

def indexOf? (xs : List Bytes) (a : Bytes) : Option Nat :=
  match xs with
  | [] => none
  | x :: r => if x = a then some 0 else (indexOf? r a).map (· + 1)

mutual
/-- `visit_mut_all_atoms` with the substitution closure: an atom equal to `$var` becomes the
corresponding parameter (`expect("validated matching var lens")` if there is none). -/
def substitute (subNames : List Bytes) (args : List SExpr) : List SExpr → Except Crash (List SExpr)
  | [] => .ok []
  | x :: rest => do
    let e ← substituteOne subNames args x
    let r ← substitute subNames args rest
    pure (e :: r)
def substituteOne (subNames : List Bytes) (args : List SExpr) : SExpr → Except Crash SExpr
  | .atom t sp =>
    match indexOf? subNames t with
    | none => pure (SExpr.atom t sp)
    | some i => match args[i]? with
      | some a => pure a
      | none => .error .varLens
  | .list xs sp => do
    let xs' ← substitute subNames args xs
    pure (.list xs' sp)
end

mutual
/-- `visit_mut_all_lists` with `parse_list_var(l, &HashMap::default())`: every `(concat …)` list
becomes an atom; other lists are visited recursively. -/
def concatLists (fuel : Nat) : List SExpr → Except Crash (List SExpr)
  | [] => .ok []
  | x :: rest => do
    let e ← concatOne fuel x
    let r ← concatLists fuel rest
    pure (e :: r)
def concatOne (fuel : Nat) : SExpr → Except Crash SExpr
  | .atom t sp => pure (.atom t sp)
  | .list xs sp => do
    match ← parseListVar fuel [] xs sp with
    | .atom t s => pure (SExpr.atom t s)
    | .list _ _ => do
      let xs' ← concatLists fuel xs
      pure (.list xs' sp)
end

mutual
/-- all atoms below, left to right (`visit_validate_all_atoms`) -/
def atomsOf : List SExpr → List Bytes
  | [] => []
  | x :: rest => atomsOfOne x ++ atomsOf rest
def atomsOfOne : SExpr → List Bytes
  | .atom t _ => [t]
  | .list xs _ => atomsOf xs
end

/-- `strings_compare_replacement` / `string_list_compare_replacement` for the four operations:
`none` = not such a conditional; `some l` = the expressions that replace it. -/
def condReplacement (xs : List SExpr) (sp : Span) : Except Diag (Option (List SExpr)) :=
  match xs with
  | .atom op _ :: rest =>
    let strCmp (eq : Bool) : Except Diag (Option (List SExpr)) :=
      match rest with
      | [] => .error ⟨some sp, "expects a string comparand as the first parameter"⟩
      | a :: rest2 =>
        match a.atom? with
        | none => .error ⟨some a.span, "comparands must be strings"⟩
        | some x =>
          match rest2 with
          | [] => .error ⟨some sp, "expects a string comparand as the second parameter"⟩
          | b :: rest3 =>
            match b.atom? with
            | none => .error ⟨some b.span, "comparands must be strings"⟩
            | some y => .ok (some (if (x == y) == eq then rest3 else []))
    let listCmp (isIn : Bool) : Except Diag (Option (List SExpr)) :=
      match rest with
      | [] => .error ⟨some sp, "expects a string comparand as the first parameter"⟩
      | a :: rest2 =>
        match a.atom? with
        | none => .error ⟨some a.span, "the first parameter must be a string"⟩
        | some x =>
          match rest2 with
          | [] => .error ⟨some sp, "expects a list comparand as the second parameter"⟩
          | b :: rest3 =>
            match b.list? with
            | none => .error ⟨some b.span, "the second parameter must be a list"⟩
            | some l => .ok (some (if ((atomsOf l).contains x) == isIn then rest3 else []))
    if op = kw "if-equal" then strCmp true
    else if op = kw "if-not-equal" then strCmp false
    else if op = kw "if-in-list" then listCmp true
    else if op = kw "if-not-in-list" then listCmp false
    else .ok none
  | _ => .ok none

mutual
/-- `evaluate_conditionals`: one sweep; conditionals found directly in a list are replaced by their
selected contents, other lists are swept recursively.  Returns the new list and `ChangeOccurred`.
(The Rust code collects replacements and splices them in afterwards; doing it on the fly gives the
same list because a replacement does not look at its neighbours.) -/
def evalCond : List SExpr → Except Diag (List SExpr × Bool)
  | [] => .ok ([], false)
  | x :: rest => do
    let (e, c1) ← evalCondOne x
    let (r, c2) ← evalCond rest
    pure (e ++ r, c1 || c2)
/-- what one element becomes: itself, its swept version, or the contents a conditional selects -/
def evalCondOne : SExpr → Except Diag (List SExpr × Bool)
  | .atom t sp => .ok ([.atom t sp], false)
  | .list xs sp => do
    match ← condReplacement xs sp with
    | some repl => pure (repl, true)
    | none =>
      let (xs', c) ← evalCond xs
      pure ([.list xs' sp], c)
end

mutual
/-- number of nodes (`count_nodes` of fix-4) -/
def countNodes : List SExpr → Nat
  | [] => 0
  | x :: rest => countNode x + countNodes rest
def countNode : SExpr → Nat
  | .atom _ _ => 1
  | .list xs _ => 1 + countNodes xs
end

/-- `while evaluate_conditionals(&mut expanded_template)? {}`: every sweep that reports a change
removes at least the conditional's own node, so `countNodes + 1` sweeps always suffice
(`Lemmas/SExprTemplate.lean`); the bound is passed as fuel. -/
def evalCondLoop : Nat → List SExpr → Except Crash (Except Diag (List SExpr))
  | 0, _ => .error .fuelOut
  | fuel + 1, xs =>
    match evalCond xs with
    | .error d => pure (.error d)
    | .ok (xs', true) => evalCondLoop fuel xs'
    | .ok (xs', false) => pure (.ok xs')

/-- What `expand` does with one `(template-expand name args…)` list `xs` (span `sp`): look the
template up, check the number of parameters, substitute, evaluate `concat` and the conditionals. -/
def expandCall (ts : List Template) (xs : List SExpr) (sp : Span) : Except Crash (Except Diag (List SExpr)) :=
  match xs with
  | _ :: nameE :: args =>
    match nameE.atom? with
    | none => pure (.error ⟨some nameE.span, "template name must be a string"⟩)
    | some name =>
      match ts.find? (·.name = name) with
      | none => pure (.error ⟨some nameE.span, "template name was not defined in any deftemplate"⟩)
      | some t =>
        if args.length ≠ t.vars.length then pure (.error ⟨some sp, "template-expand needs a different number of parameters"⟩)
        else do
          let body ← substitute t.subNames args t.content
          let body ← concatLists (countNodes body + 1) body
          evalCondLoop (countNodes body + 1) body
  | _ => pure (.error ⟨some sp, "template-expand must have a template name as the first parameter"⟩)

def isExpandList (xs : List SExpr) : Bool :=
  match xs with
  | .atom h _ :: _ => isExpandName h
  | _ => false

/-! ## `expand`, pinned source -/

mutual
/-- the `loop` of `expand`: passes until one replaces nothing -/
def expandPinned (ts : List Template) : Nat → List SExpr → Except Crash (Except Diag (List SExpr))
  | 0, _ => .error .fuelOut
  | fuel + 1, exprs => do
    match ← passPinned ts fuel exprs with
    | .error d => pure (.error d)
    | .ok (exprs', true) => expandPinned ts fuel exprs'
    | .ok (exprs', false) => pure (.ok exprs')
/-- one `for` pass over the list: lists that are not expansions are expanded in place
(recursive call), expansions are replaced by the expanded template. -/
def passPinned (ts : List Template) : Nat → List SExpr → Except Crash (Except Diag (List SExpr × Bool))
  | _, [] => pure (.ok ([], false))
  | 0, _ :: _ => .error .fuelOut
  | fuel + 1, .atom t sp :: rest => do
    match ← passPinned ts fuel rest with
    | .error d => pure (.error d)
    | .ok (r, c) => pure (.ok (.atom t sp :: r, c))
  | fuel + 1, .list xs sp :: rest =>
    if !isExpandList xs then do
      match ← expandPinned ts fuel xs with
      | .error d => pure (.error d)
      | .ok xs' =>
        match ← passPinned ts fuel rest with
        | .error d => pure (.error d)
        | .ok (r, c) => pure (.ok (.list xs' sp :: r, c))
    else do
      match ← expandCall ts xs sp with
      | .error d => pure (.error d)
      | .ok body =>
        match ← passPinned ts fuel rest with
        | .error d => pure (.error d)
        | .ok (r, _) => pure (.ok (body ++ r, true))
end

/-! ## `expand`, with fix-4 -/

def MAX_EXPANSION_DEPTH : Nat := 256
def MAX_EXPANDED_NODES : Nat := 1000000

/-- `struct ExpansionLimits` -/
structure Limits where
  depth : Nat
  nodesLeft : Nat
  deriving Repr

/-- size used for termination: nodes of a list of expressions -/
abbrev sz (xs : List SExpr) : Nat := countNodes xs

theorem countNodes_append (a b : List SExpr) : countNodes (a ++ b) = countNodes a + countNodes b := by
  induction a with
  | nil => simp [countNodes]
  | cons x r ih => simp [countNodes, ih]; omega

mutual
/-- the `loop` of the repaired `expand`.  A pass that replaced something is followed by another
pass one level deeper; replacements only happen below `MAX_EXPANSION_DEPTH`, so the defensive
`unreachable` arm is never taken (`Lemmas/SExprTemplate.lean`). -/
def expand (ts : List Template) (lim : Limits) (exprs : List SExpr) :
    Except Crash (Except Diag (List SExpr × Nat)) := do
  match ← pass ts lim exprs with
  | .error d => pure (.error d)
  | .ok (exprs', nodesLeft, true) =>
    if h : lim.depth < MAX_EXPANSION_DEPTH then expand ts ⟨lim.depth + 1, nodesLeft⟩ exprs'
    else .error .unreachable
  | .ok (exprs', nodesLeft, false) => pure (.ok (exprs', nodesLeft))
termination_by (MAX_EXPANSION_DEPTH - lim.depth, sz exprs, 1)
decreasing_by
  all_goals first
    | (apply Prod.Lex.right; apply Prod.Lex.right; omega)
    | (apply Prod.Lex.left; omega)
/-- one pass; returns the new list, the remaining node budget, and whether anything was replaced -/
def pass (ts : List Template) (lim : Limits) (exprs : List SExpr) :
    Except Crash (Except Diag (List SExpr × Nat × Bool)) :=
  match exprs with
  | [] => pure (.ok ([], lim.nodesLeft, false))
  | .atom t sp :: rest => do
    match ← pass ts lim rest with
    | .error d => pure (.error d)
    | .ok (r, n, c) => pure (.ok (.atom t sp :: r, n, c))
  | .list xs sp :: rest =>
    if !isExpandList xs then do
      match ← expand ts lim xs with
      | .error d => pure (.error d)
      | .ok (xs', n) =>
        match ← pass ts ⟨lim.depth, n⟩ rest with
        | .error d => pure (.error d)
        | .ok (r, n', c) => pure (.ok (.list xs' sp :: r, n', c))
    else if lim.depth ≥ MAX_EXPANSION_DEPTH then
      pure (.error ⟨some sp, "template-expand is nested too deep"⟩)
    else do
      match ← expandCall ts xs sp with
      | .error d => pure (.error d)
      | .ok body =>
        let produced := max (countNodes body) 1
        if produced > lim.nodesLeft then pure (.error ⟨some sp, "template expansion produces too many items"⟩)
        else
          match ← pass ts ⟨lim.depth, lim.nodesLeft - produced⟩ rest with
          | .error d => pure (.error d)
          | .ok (r, n', _) => pure (.ok (body ++ r, n', true))
termination_by (MAX_EXPANSION_DEPTH - lim.depth, sz exprs, 0)
decreasing_by
  all_goals simp only [sz, countNodes, countNode]
  all_goals first
    | (apply Prod.Lex.right; apply Prod.Lex.left; omega)
    | (apply Prod.Lex.right; apply Prod.Lex.right; omega)
end

/-! ## `expand_templates` -/

/-- last step of `expand_templates`: every top-level item must still be a list -/
def toTopLevels : List SExpr → Except Diag (List TopLevel)
  | [] => .ok []
  | .list xs sp :: rest => (toTopLevels rest).map (⟨xs, sp⟩ :: ·)
  | .atom _ sp :: _ => .error ⟨some sp, "expansion created a string outside any list which is not allowed"⟩

/-- `tl.t.first().and_then(|expr| expr.atom(None)) == Some("deftemplate")` -/
def isDeftemplate (t : TopLevel) : Bool :=
  match t.xs with
  | .atom h _ :: _ => h = kw "deftemplate"
  | _ => false

/-- `expand_templates`.  `fuel` is only used on the pinned source. -/
def expandTemplates (fx : Fixes) (fuel : Nat) (tops : List TopLevel) : Except Crash (Except Diag (List TopLevel)) :=
  match collectTemplates tops [] with
  | .error d => pure (.error d)
  | .ok ts => do
    -- the deftemplate items are dropped before expansion (and are not part of the result)
    let lists := (tops.filter fun t => !isDeftemplate t).map fun t => SExpr.list t.xs t.sp
    let r ← if fx.tmplLimit then
        (do match ← expand ts ⟨0, MAX_EXPANDED_NODES⟩ lists with
            | .error d => pure (.error d)
            | .ok (l, _) => pure (.ok l))
      else expandPinned ts fuel lists
    match r with
    | .error d => pure (.error d)
    | .ok l => pure (toTopLevels l)

end KVerif.SExpr
