/-
Model of kanata's live-reload bookkeeping (src/kanata/mod.rs), C15.

The state of the model is the `Kanata` struct itself: one value per field of the struct (the list of
fields is regenerated from the source: `Gen.Reload.Field`), plus the process-global stores that the
constructors and `do_live_reload` write (`G_ZCH`, `G_MAPPED_KEYS`).  The fields that the reload
bookkeeping inspects have concrete types; every other field has an abstract type supplied by a
`World`, together with the parts of `tick_states`, `handle_input_event` and `is_idle` that are not
reload bookkeeping.  All theorems are universally quantified over `World`, so they hold whatever the
keyberon layout and the rest of kanata do.

`doLiveReload` INTERPRETS the generated statement list `Gen.Reload.reloadSteps`; `fresh` interprets
the generated constructor initialiser list.  Every Rust index / `len() - 1` / `unwrap` in the slice
is an explicit `Crash`.
-/
import KVerif.Gen.ReloadFields
namespace KVerif.Reload
open KVerif.Gen.Reload

inductive Crash where
  | indexOOB (site : String)
  | subOverflow (site : String)
  | badStep (text : String)
  deriving DecidableEq, Repr

/-- `kanata_tcp_protocol::ServerMessage`, the two variants sent by the reload path -/
inductive Msg where
  | configFileReload (path : Nat)
  | layerChange (name : String)
  deriving DecidableEq, Repr

/-- `CustomAction::LiveReload*` (parser/src/custom_action.rs); `num n` is 0-based as stored;
`file p` carries the path (paths are compared by identity, `PathBuf ==`) -/
inductive ReloadAct where
  | cur | next | prev
  | num (n : Nat)
  | file (p : Nat)
  deriving DecidableEq, Repr

/-- what reading a configuration path yields -/
inductive FileRead (C : Type) where
  | missing
  | unreadable
  | content (c : C)

/-- The types a `World` supplies. -/
structure Types where
  /-- text of a configuration file -/
  Content : Type
  /-- `kanata_parser::cfg::Cfg` -/
  Cfg : Type
  /-- parse diagnostics -/
  Err : Type
  /-- `cfg::KanataLayout` (the keyberon layout) -/
  Layout : Type
  /-- OS output events (`kbd_out`) -/
  Os : Type
  /-- `FakeKeyOnIdle` -/
  OnIdle : Type
  /-- an input event handed to `handle_input_event` -/
  Input : Type
  /-- value type of each field the bookkeeping does not look into -/
  Other : Field → Type

/-- value type of every field of `struct Kanata` (and of the global stores) -/
@[reducible] def Val (T : Types) : Field → Type
  | .layout => T.Layout
  | .cur_keys => List Nat
  | .prev_keys => List Nat
  | .cfg_paths => List Nat
  | .cur_cfg_idx => Nat
  | .prev_layer => Nat
  | .ticks_since_idle => Nat
  | .macro_on_press_cancel_duration => Nat
  | .live_reload_requested => Bool
  | .waiting_for_idle => List T.OnIdle
  | f => T.Other f

/-- a `Kanata` value: one value per field (a structure rather than a bare function so that compiled
code evaluates a state transformer once, not once per field read) -/
structure St (T : Types) where
  get : (f : Field) → Val T f

instance {T : Types} : CoeFun (St T) (fun _ => (f : Field) → Val T f) := ⟨St.get⟩

/-- `self.f = v` -/
def St.set {T : Types} (s : St T) (f : Field) (v : Val T f) : St T :=
  ⟨fun g => if h : g = f then h ▸ v else s.get g⟩

/-- custom actions that the model handles itself rather than leaving them to the abstract tick -/
inductive KAct (T : Types) where
  | reload (r : ReloadAct)
  /-- `CustomAction::FakeKeyOnIdle` -/
  | onIdle (w : T.OnIdle)

/-- Everything that is not reload bookkeeping. -/
structure World extends Types where
  /-- `cfg::new_from_file` applied to the text of a readable file -/
  parse : Content → Except Err Cfg
  /-- the value `do_live_reload` / the constructors compute from `cfg` for field `f` -/
  cfgVal : (f : Field) → Cfg → Val toTypes f
  /-- the constant a constructor stores in `f` when the initialiser does not mention `cfg` -/
  init0 : (f : Field) → Val toTypes f
  /-- `layout.bm().current_layer()` -/
  currentLayer : Layout → Nat
  /-- `layer_info[i].name`, `none` when `i` is out of bounds -/
  layerName : Other .layer_info → Nat → Option String
  /-- `handle_keystate_changes` (keyberon tick, key diff, all custom actions except the ones in
  `KAct`), `handle_scrolling`, `handle_move_mouse`, `tick_sequence_state` -/
  ksc : St toTypes → St toTypes × List (KAct toTypes) × List Os
  /-- `tick_record_state`, `zippy_tick`, `tick_held_vkeys` -/
  late : St toTypes → St toTypes × List Os
  /-- `tick_replay_state` + `layout.event`: the replayed event's delay, if an event was replayed -/
  replay : St toTypes → St toTypes × Option Nat
  /-- `handle_input_event` apart from `ticks_since_idle = 0` -/
  inputEvent : St toTypes → Input → St toTypes × List Os
  /-- `handle_fakekey_action(wfd.action, layout, x, y)` -/
  fireIdle : Layout → OnIdle → Layout
  /-- `wfd.idle_duration` -/
  idleDuration : OnIdle → Nat
  /-- `HashSet::insert` -/
  insertIdle : List OnIdle → OnIdle → List OnIdle
  /-- the conjuncts of `is_idle` other than the `NormalKey` one -/
  coreIdle : St toTypes → Bool
  /-- some state of the layout is a `State::NormalKey` -/
  hasNormalKey : Layout → Bool
  /-- `passed_max_switch_timing_check && chordsv2_accepts_chords` -/
  timingOk : St toTypes → Bool

variable {W : World}

abbrev KSt (W : World) := St W.toTypes

/-- The fields that only the modelled functions write (`Gen.Reload.writeSites` lists, from the
source, every function that writes them: `write_sites_as_modelled`).  The abstract parts of the tick
run inside this frame: whatever they return for these fields is discarded. -/
def framed : List Field :=
  [.live_reload_requested, .cur_cfg_idx, .cfg_paths, .prev_layer, .ticks_since_idle, .waiting_for_idle]

def frame (old new : KSt W) : KSt W :=
  ⟨fun f => if f ∈ framed then old f else new f⟩

/-- `tick_record_state`, `zippy_tick`, `tick_held_vkeys`, `tick_replay_state` and `handle_input_event`
do not touch the two key lists either (`handle_repeat` borrows `cur_keys` as scratch space and clears
it again). -/
def framedK : List Field := framed ++ [.cur_keys, .prev_keys]

def frameK (old new : KSt W) : KSt W :=
  ⟨fun f => if f ∈ framedK then old f else new f⟩

/-- what the environment answers during one `handle_time_ticks` call -/
structure Env (T : Types) where
  /-- file system, by path -/
  fs : Nat → FileRead T.Content
  /-- does the fallible call `callee(..)?` of `do_live_reload` fail for this configuration?
  (`Kanata::set_repeat_rate` fails when `linux-x11-repeat-delay-rate` is set and `xset` cannot be spawned) -/
  callFails : String → T.Cfg → Bool
  /-- `tx` is `Some(..)` -/
  tx : Bool

/-- `cfg::new_from_file(path)` -/
def newFromFile (env : Env W.toTypes) (p : Nat) : Option W.Cfg :=
  match env.fs p with
  | .content c => match W.parse c with
    | .ok cfg => some cfg
    | .error _ => none
  | _ => none

/-! ### file index selection — `handle_keystate_changes`, `CustomAction::LiveReload*` arms -/

/-- `paths.iter().enumerate().find(|(_, p)| **p == path)` -/
def findPath (paths : List Nat) (p : Nat) : Option Nat :=
  let i := paths.findIdx (· == p)
  if i < paths.length then some i else none

/-- new `cur_cfg_idx` and whether `live_reload_requested = true` was executed.  The `log::info!`
lines index `cfg_paths[cur_cfg_idx]` (evaluated at kanata's default log level). -/
def selectIndex (paths : List Nat) (idx : Nat) : ReloadAct → Except Crash (Nat × Bool)
  | .cur =>
    if idx < paths.length then .ok (idx, true) else .error (.indexOOB "LiveReload log cfg_paths[cur_cfg_idx]")
  | .next =>
    if paths.length = 0 then .error (.subOverflow "LiveReloadNext cfg_paths.len() - 1") else
    let idx' := if idx = paths.length - 1 then 0 else idx + 1
    if idx' < paths.length then .ok (idx', true) else .error (.indexOOB "LiveReloadNext log cfg_paths[cur_cfg_idx]")
  | .prev =>
    match idx with
    | 0 =>
      if paths.length = 0 then .error (.subOverflow "LiveReloadPrev cfg_paths.len() - 1") else
      .ok (paths.length - 1, true)
    | i + 1 =>
      if i < paths.length then .ok (i, true) else .error (.indexOOB "LiveReloadPrev log cfg_paths[cur_cfg_idx]")
  | .num n => if n < paths.length then .ok (n, true) else .ok (idx, true)
  | .file p =>
    match findPath paths p with
    | some i => .ok (i, true)
    | none => .ok (idx, false)

/-- one `KAct`, as the corresponding match arm of `handle_keystate_changes` executes it -/
def applyAct (s : KSt W) : KAct W.toTypes → Except Crash (KSt W)
  | .reload r =>
    match selectIndex (s .cfg_paths) (s .cur_cfg_idx) r with
    | .error c => .error c
    | .ok (i, req) =>
      let s := s.set .cur_cfg_idx i
      .ok (if req then s.set .live_reload_requested true else s)
  | .onIdle w =>
    .ok ((s.set .ticks_since_idle (0 : Nat)).set .waiting_for_idle (W.insertIdle (s .waiting_for_idle) w))

def applyActs (s : KSt W) : List (KAct W.toTypes) → Except Crash (KSt W)
  | [] => .ok s
  | a :: rest =>
    match applyAct s a with
    | .error c => .error c
    | .ok s' => applyActs s' rest

/-- `tick_idle_timeout` -/
def idleFold (tsi : Nat) : W.Layout → List W.OnIdle → W.Layout × List W.OnIdle
  | l, [] => (l, [])
  | l, w :: rest =>
    if tsi ≥ W.idleDuration w then idleFold tsi (W.fireIdle l w) rest
    else
      let r := idleFold tsi l rest
      (r.1, w :: r.2)

def tickIdleTimeout (s : KSt W) : KSt W :=
  match s .waiting_for_idle with
  | [] => s
  | ws =>
    let r := idleFold (W := W) (s .ticks_since_idle) (s .layout) ws
    (s.set .layout r.1).set .waiting_for_idle r.2

def KAct.isReload {T : Types} : KAct T → Bool
  | .reload _ => true
  | .onIdle _ => false

/-- `nr = true` is the reference run "no reload was requested": the live-reload actions do nothing -/
def selActs {T : Types} : Bool → List (KAct T) → List (KAct T)
  | false, acts => acts
  | true, acts => acts.filter (fun a => !a.isReload)

/-- `tick_states` (`nr`: see `selActs`; the code is `nr = false`) -/
def tickStatesG (nr : Bool) (s : KSt W) : Except Crash (KSt W × List W.Os) :=
  let r := W.ksc s
  let s1 := frame s r.1
  match applyActs s1 (selActs nr r.2.1) with
  | .error c => .error c
  | .ok s2 =>
    let s3 := tickIdleTimeout s2
    let s4 := s3.set .macro_on_press_cancel_duration ((s3 .macro_on_press_cancel_duration : Nat) - 1)
    let l := W.late s4
    let s5 := frameK s4 l.1
    -- self.prev_keys.clear(); self.prev_keys.append(&mut self.cur_keys);
    let s6 := (s5.set .prev_keys (s5 .cur_keys)).set .cur_keys ([] : List Nat)
    .ok (s6, r.2.2 ++ l.2)

/-- `tick_states` -/
abbrev tickStates (s : KSt W) : Except Crash (KSt W × List W.Os) := tickStatesG false s

def satAdd16 (a b : Nat) : Nat := min 65535 (a + b)

/-- first loop of `tick_ms`: `for _ in 0..ms_elapsed` -/
def tickLoop1G (nr : Bool) : Nat → KSt W → Nat → List W.Os → Except Crash (KSt W × Nat × List W.Os)
  | 0, s, extra, os => .ok (s, extra, os)
  | n + 1, s, extra, os =>
    match tickStatesG nr s with
    | .error c => .error c
    | .ok (s1, o1) =>
      let r := W.replay s1
      let s2 := frameK s1 r.1
      let extra' := match r.2 with
        | some d => satAdd16 extra d
        | none => extra
      tickLoop1G nr n s2 extra' (os ++ o1)

/-- second loop of `tick_ms`: `for i in 0..(extra_ticks.saturating_sub(ms_elapsed_u16))`, with its `break` -/
def tickLoop2G (nr : Bool) : Nat → KSt W → List W.Os → Except Crash (KSt W × List W.Os)
  | 0, s, os => .ok (s, os)
  | n + 1, s, os =>
    match tickStatesG nr s with
    | .error c => .error c
    | .ok (s1, o1) =>
      let r := W.replay s1
      let s2 := frameK s1 r.1
      match r.2 with
      | some _ => .ok (s2, os ++ o1)
      | none => tickLoop2G nr n s2 (os ++ o1)

/-- `tick_ms` -/
def tickMsG (nr : Bool) (ms : Nat) (s : KSt W) : Except Crash (KSt W × List W.Os) :=
  match tickLoop1G nr ms s 0 [] with
  | .error c => .error c
  | .ok (s1, extra, os) => tickLoop2G nr (extra - min ms 65535) s1 os    -- u16::try_from(ms_elapsed).unwrap_or(u16::MAX)

abbrev tickLoop1 (n : Nat) (s : KSt W) (extra : Nat) (os : List W.Os) := tickLoop1G false n s extra os
abbrev tickLoop2 (n : Nat) (s : KSt W) (os : List W.Os) := tickLoop2G false n s os
/-- `tick_ms` -/
abbrev tickMs (ms : Nat) (s : KSt W) : Except Crash (KSt W × List W.Os) := tickMsG false ms s

/-- `check_handle_layer_change` -/
def checkLayerChange (tx : Bool) (s : KSt W) : Except Crash (KSt W × List Msg) :=
  let cur := W.currentLayer (s .layout)
  if cur ≠ s .prev_layer then
    match W.layerName (s .layer_info) cur with
    | none => .error (.indexOOB "check_handle_layer_change layer_info[cur_layer]")
    | some name => .ok (s.set .prev_layer cur, if tx then [.layerChange name] else [])
  else .ok (s, [])

/-! ### `do_live_reload`, interpreted from the generated statement list -/

/-- result of `do_live_reload` -/
structure RRes (T : Types) where
  st : St T
  msgs : List Msg
  /-- `Ok(())` -/
  ok : Bool

/-- the constant a constructor stores in a field whose initialiser mentions neither `cfg` nor the
command line (`Gen.Reload.ctorConstRhs` lists the right-hand sides: `Vec::new()`, `None`, `0`,
`false`, `HashSet::default()` …) -/
def typedInit (W : World) : (f : Field) → Val W.toTypes f
  | .cfg_paths => ([] : List Nat)
  | .cur_cfg_idx => (0 : Nat)
  | .cur_keys => ([] : List Nat)
  | .prev_keys => ([] : List Nat)
  | .prev_layer => (0 : Nat)
  | .ticks_since_idle => (0 : Nat)
  | .macro_on_press_cancel_duration => (0 : Nat)
  | .live_reload_requested => false
  | .waiting_for_idle => ([] : List W.OnIdle)
  | f => W.init0 f

/-- the value stored by `self.f = rhs` when `rhs` does not mention `cfg`: `cur_layer` for
`prev_layer`, otherwise the same constant the constructors store (`reset_rhs_as_modelled` checks,
on the text regenerated from the source, that every such right-hand side IS the constructor's) -/
def resetVal (curLayer : Nat) : (f : Field) → Val W.toTypes f
  | .prev_layer => curLayer
  | f => typedInit W f

/-- outcome of one statement: early return, or continue with (the `let cur_layer` binding, state, channel) -/
inductive StepOut (T : Types) where
  | stop (r : RRes T)
  | cont (cur : Option Nat) (s : St T) (log : List Msg)

/-- one statement of `do_live_reload` after the parse step; `c` is the parsed configuration, `cur`
the `let cur_layer` binding, `log` what has been sent on `tx` so far -/
def stepOne (env : Env W.toTypes) (c : W.Cfg) (cur : Option Nat) (s : KSt W) (log : List Msg) :
    RStep → Except Crash (StepOut W.toTypes)
  | .parse => .error (.badStep "second parse")
  | .fallible callee =>
    if env.callFails callee c then .ok (.stop ⟨s, log, false⟩) else .ok (.cont cur s log)
  | .assign f true => .ok (.cont cur (s.set f (W.cfgVal f c)) log)
  | .assign f false =>
    if f = .prev_layer ∧ cur = none then .error (.badStep "cur_layer used before its binding")
    else .ok (.cont cur (s.set f (resetVal (W := W) (cur.getD 0) f)) log)
  | .bindCurLayer => .ok (.cont (some (W.currentLayer (s .layout))) s log)
  -- an infallible helper that writes no field (`Gen.Reload.effectWrites = []`): it only talks to the OS sink
  | .effect _ => .ok (.cont cur s log)
  | .notify m =>
    if m = "ConfigFileReload" then
      if env.tx then
        -- self.cfg_paths[self.cur_cfg_idx].to_str().unwrap().to_string()
        match (s .cfg_paths : List Nat)[(s .cur_cfg_idx : Nat)]? with
        | none => .error (.indexOOB "ConfigFileReload cfg_paths[cur_cfg_idx]")
        | some p => .ok (.cont cur s (log ++ [.configFileReload p]))
      else .ok (.cont cur s log)
    else if m = "LayerChange" then
      if env.tx then
        match cur with
        | none => .error (.badStep "cur_layer used before its binding")
        | some l =>
          -- self.layer_info[cur_layer].name.clone()
          match W.layerName (s .layer_info) l with
          | none => .error (.indexOOB "do_live_reload layer_info[cur_layer]")
          | some name => .ok (.cont cur s (log ++ [.layerChange name]))
      else .ok (.cont cur s log)
    else .error (.badStep m)
  | .unknown t => .error (.badStep t)

/-- the statements after the parse step, in order -/
def runSteps (env : Env W.toTypes) (c : W.Cfg) : List RStep → Option Nat → KSt W → List Msg → Except Crash (RRes W.toTypes)
  | [], _, s, log => .ok ⟨s, log, true⟩
  | st :: rest, cur, s, log =>
    match stepOne env c cur s log st with
    | .error e => .error e
    | .ok (.stop r) => .ok r
    | .ok (.cont cur' s' log') => runSteps env c rest cur' s' log'

/-- `do_live_reload` -/
def doLiveReloadWith (steps : List RStep) (env : Env W.toTypes) (s : KSt W) : Except Crash (RRes W.toTypes) :=
  match steps with
  | .parse :: rest =>
    match (s .cfg_paths : List Nat)[(s .cur_cfg_idx : Nat)]? with
    | none => .error (.indexOOB "do_live_reload cfg_paths[cur_cfg_idx]")
    | some p =>
      match newFromFile env p with
      | none => .ok ⟨s, [], false⟩          -- bail!("failed to parse config file")
      | some c => runSteps env c rest none s []
  | _ => .error (.badStep "do_live_reload does not start by parsing")

def doLiveReload (env : Env W.toTypes) (s : KSt W) : Except Crash (RRes W.toTypes) :=
  doLiveReloadWith reloadSteps env s

/-! ### `handle_time_ticks` -/

/-- the live-reload condition of `handle_time_ticks` -/
def reloadDue (s : KSt W) : Bool :=
  s .live_reload_requested &&
    (((s .prev_keys : List Nat).isEmpty && (s .cur_keys : List Nat).isEmpty) || decide ((s .ticks_since_idle : Nat) > 1000))

structure HRes (T : Types) where
  st : St T
  os : List T.Os
  msgs : List Msg
  /-- `none`: no reload attempted in this call; `some ok`: `do_live_reload` ran and returned `ok` -/
  attempt : Option Bool

/-- `handle_time_ticks` with `ms` milliseconds elapsed; `rl` is what runs in place of
`do_live_reload` (the driver also runs the loop with the restart specification in its place) -/
def handleTimeTicksWithG (nr : Bool) (rl : Env W.toTypes → KSt W → Except Crash (RRes W.toTypes))
    (env : Env W.toTypes) (ms : Nat) (s : KSt W) : Except Crash (HRes W.toTypes) :=
  match tickMsG nr ms s with
  | .error c => .error c
  | .ok (s1, os) =>
    match checkLayerChange env.tx s1 with
    | .error c => .error c
    | .ok (s2, m1) =>
      if reloadDue s2 then
        match rl env (s2.set .live_reload_requested false) with
        | .error c => .error c
        | .ok r => .ok ⟨r.st, os, m1 ++ r.msgs, some r.ok⟩
      else .ok ⟨s2, os, m1, none⟩

abbrev handleTimeTicksWith (rl : Env W.toTypes → KSt W → Except Crash (RRes W.toTypes))
    (env : Env W.toTypes) (ms : Nat) (s : KSt W) : Except Crash (HRes W.toTypes) :=
  handleTimeTicksWithG false rl env ms s

/-- `handle_time_ticks` (`nr`: see `selActs`) -/
def handleTimeTicksG (nr : Bool) (env : Env W.toTypes) (ms : Nat) (s : KSt W) : Except Crash (HRes W.toTypes) :=
  handleTimeTicksWithG nr doLiveReload env ms s

/-- `handle_time_ticks` -/
abbrev handleTimeTicks (env : Env W.toTypes) (ms : Nat) (s : KSt W) : Except Crash (HRes W.toTypes) :=
  handleTimeTicksG false env ms s

/-- the state in which `handle_time_ticks` takes the reload decision: after `tick_ms` and
`check_handle_layer_change` (with the OS events and the message produced so far) -/
def decisionStateG (nr : Bool) (env : Env W.toTypes) (ms : Nat) (s : KSt W) :
    Except Crash (KSt W × List W.Os × List Msg) :=
  match tickMsG nr ms s with
  | .error c => .error c
  | .ok (s1, os) =>
    match checkLayerChange env.tx s1 with
    | .error c => .error c
    | .ok (s2, m1) => .ok (s2, os, m1)

abbrev decisionState (env : Env W.toTypes) (ms : Nat) (s : KSt W) := decisionStateG false env ms s

/-! ### `is_idle`, `can_block_update_idle_waiting`, the processing loop -/

def pressedKeysMeanNotIdle (s : KSt W) : Bool :=
  !(s .waiting_for_idle : List W.OnIdle).isEmpty || s .live_reload_requested

/-- `is_idle` -/
def isIdle (s : KSt W) : Bool :=
  W.coreIdle s && !(pressedKeysMeanNotIdle s && W.hasNormalKey (s .layout))

/-- `can_block_update_idle_waiting(ms_elapsed)` -/
def canBlockUpdate (msPrev : Nat) (s : KSt W) : KSt W × Bool :=
  let idle := isIdle s
  let counting := pressedKeysMeanNotIdle s
  let s' :=
    if !idle then s.set .ticks_since_idle (0 : Nat)
    else if counting then s.set .ticks_since_idle (satAdd16 (s .ticks_since_idle) msPrev)
    else s
  (s', idle && !counting && W.timingOk s)

/-- `handle_input_event` -/
def handleInput (s : KSt W) (e : W.Input) : KSt W × List W.Os :=
  let s0 := s.set .ticks_since_idle (0 : Nat)
  let r := W.inputEvent s0 e
  (frameK s0 r.1, r.2)

structure IterRes (T : Types) where
  st : St T
  os : List T.Os
  msgs : List Msg
  attempt : Option Bool
  /-- the loop is parked in `rx.recv()`: nothing runs until the next input -/
  blocked : Bool
  /-- the `ms_elapsed` handed to the next `can_block_update_idle_waiting` -/
  msNext : Nat

/-- one iteration of the loop in `start_processing_loop`; `ms` is the time `handle_time_ticks`
sees (virtual time) -/
def loopIterWith (rl : Env W.toTypes → KSt W → Except Crash (RRes W.toTypes)) (env : Env W.toTypes) (inp : Option W.Input)
    (ms msPrev : Nat) (s : KSt W) : Except Crash (IterRes W.toTypes) :=
  let cb := canBlockUpdate msPrev s
  match inp with
  | some e =>
    let r := handleInput cb.1 e
    match handleTimeTicksWith rl env ms r.1 with
    | .error c => .error c
    | .ok h => .ok ⟨h.st, r.2 ++ h.os, h.msgs, h.attempt, false, ms % 65536⟩
  | none =>
    if cb.2 then .ok ⟨cb.1, [], [], none, true, msPrev⟩
    else
      match handleTimeTicksWith rl env ms cb.1 with
      | .error c => .error c
      | .ok h => .ok ⟨h.st, h.os, h.msgs, h.attempt, false, ms % 65536⟩

def loopIter (env : Env W.toTypes) (inp : Option W.Input) (ms msPrev : Nat) (s : KSt W) : Except Crash (IterRes W.toTypes) :=
  loopIterWith doLiveReload env inp ms msPrev s

/-! ### the loop without parking, over a whole script; the world without reload requests -/

/-- one iteration when the loop does not park in `rx.recv()` (it is `loopIter` with the blocked
branch removed; that parking is unobservable is property C07, not this one) -/
def loopIterNB (nr : Bool) (env : Env W.toTypes) (inp : Option W.Input) (ms msPrev : Nat) (s : KSt W) :
    Except Crash (IterRes W.toTypes) :=
  let cb := canBlockUpdate msPrev s
  let r : KSt W × List W.Os := match inp with
    | some e => handleInput cb.1 e
    | none => (cb.1, [])
  match handleTimeTicksG nr env ms r.1 with
  | .error c => .error c
  | .ok h => .ok ⟨h.st, r.2 ++ h.os, h.msgs, h.attempt, false, ms % 65536⟩

/-- what happens around one iteration: the file system and `xset` at that moment, the input event
(if any), the milliseconds `handle_time_ticks` sees -/
structure Tick (T : Types) where
  env : Env T
  inp : Option T.Input
  ms : Nat

/-- a whole history: final state and, per iteration, what went to the OS and to the clients -/
def runNB (nr : Bool) : List (Tick W.toTypes) → Nat → KSt W → Except Crash (KSt W × List (List W.Os × List Msg))
  | [], _, s => .ok (s, [])
  | t :: rest, msPrev, s =>
    match loopIterNB nr t.env t.inp t.ms msPrev s with
    | .error c => .error c
    | .ok r =>
      match runNB nr rest r.msNext r.st with
      | .error c => .error c
      | .ok (s', out) => .ok (s', (r.os, r.msgs) :: out)

/-! ### constructors -/

/-- `Kanata::new` / `new_from_str`, interpreted from a generated initialiser list: a field whose
initialiser mentions `cfg` gets `cfgVal`, `cfg_paths` and `cur_cfg_idx` come from the arguments
(`freshAt` lets the instance be positioned at any index of the same command line), every other field
its constant (`constVal`: `Gen.Reload.ctorConstRhs` lists the right-hand sides: `Vec::new()`, `None`,
`0`, `false`, `HashSet::default()` …). -/
def constVal (W : World) (paths : List Nat) (idx : Nat) : (f : Field) → Val W.toTypes f
  | .cfg_paths => paths
  | .cur_cfg_idx => idx
  | f => typedInit W f

def freshAt (ctor : List (Field × Bool)) (paths : List Nat) (idx : Nat) (c : W.Cfg) : KSt W :=
  ⟨fun f =>
    match ctor.lookup f with
    | some true => W.cfgVal f c
    | _ => constVal W paths idx f⟩

/-- `Kanata::new(args)` on a configuration that parsed to `c` -/
def fresh (paths : List Nat) (c : W.Cfg) : KSt W := freshAt ctorNew paths 0 c

/-! ### hand classification of every field (moved below) -/
/-! ### hand classification of every field (checked against the generated lists in Props/C15.lean) -/

inductive FClass where
  /-- computed from the configuration and used while processing keys: must be replaced on reload -/
  | cfgDerived
  /-- computed from the configuration but read only before the processing loop starts (device
  selection, OS set-up); documented as not reloadable -/
  | cfgStartupOnly
  /-- run-time state that `do_live_reload` (or the reload branch of `handle_time_ticks`) resets -/
  | runtimeReset
  /-- run-time state that survives a reload -/
  | runtimeRetained
  /-- plumbing: output sink, clock, command line -/
  | infrastructure
  deriving DecidableEq, Repr

/-- No wildcard: a new field of `struct Kanata` makes this definition fail to compile until it is
classified. -/
def classify : Field → FClass
  | .kbd_out => .infrastructure
  | .cfg_paths => .infrastructure
  | .cur_cfg_idx => .infrastructure
  | .last_tick => .infrastructure
  | .time_remainder => .infrastructure
  | .tcp_server_address => .infrastructure
  | .key_outputs => .cfgDerived
  | .layout => .cfgDerived
  | .layer_info => .cfgDerived
  | .sequence_backtrack_modcancel => .cfgDerived
  | .sequence_always_on => .cfgDerived
  | .sequence_input_mode => .cfgDerived
  | .sequence_timeout => .cfgDerived
  | .sequences => .cfgDerived
  | .overrides => .cfgDerived
  | .log_layer_changes => .cfgDerived
  | .movemouse_inherit_accel_state => .cfgDerived
  | .movemouse_smooth_diagonals => .cfgDerived
  | .override_release_on_activation => .cfgDerived
  | .dynamic_macro_max_presses => .cfgDerived
  | .dynamic_macro_replay_behaviour => .cfgDerived
  | .virtual_keys => .cfgDerived
  | .switch_max_key_timing => .cfgDerived
  | .G_ZCH => .cfgDerived
  | .G_MAPPED_KEYS => .cfgDerived
  | .kbd_in_paths => .cfgStartupOnly
  | .continue_if_no_devices => .cfgStartupOnly
  | .include_names => .cfgStartupOnly
  | .exclude_names => .cfgStartupOnly
  | .x11_repeat_rate => .cfgStartupOnly
  | .device_detect_mode => .cfgStartupOnly
  | .allow_hardware_repeat => .cfgStartupOnly
  | .prev_layer => .runtimeReset
  | .macro_on_press_cancel_duration => .runtimeReset
  | .live_reload_requested => .runtimeReset
  | .cur_keys => .runtimeRetained
  | .prev_keys => .runtimeRetained
  | .scroll_state => .runtimeReset
  | .hscroll_state => .runtimeReset
  | .move_mouse_state_vertical => .runtimeReset
  | .move_mouse_state_horizontal => .runtimeReset
  | .move_mouse_speed_modifiers => .runtimeReset
  | .sequence_state => .runtimeReset
  | .dynamic_macros => .runtimeRetained
  | .dynamic_macro_replay_state => .runtimeReset
  | .dynamic_macro_record_state => .runtimeReset
  | .override_states => .runtimeReset
  | .caps_word => .runtimeReset
  | .waiting_for_idle => .runtimeReset
  | .vkeys_pending_release => .runtimeReset
  | .ticks_since_idle => .runtimeReset
  | .movemouse_buffer => .runtimeReset
  | .unmodded_keys => .runtimeReset
  | .unmodded_mods => .runtimeReset
  | .unshifted_keys => .runtimeReset
  | .last_pressed_key => .runtimeReset
  | .saved_clipboard_content => .runtimeRetained

/-! ### specification: a successful reload is a restart -/

/-- The state a restart on configuration `c` leaves: every field as a freshly constructed instance
has it, except the plumbing (output sink, clock, command line and position in it), the start-up-only
settings (documented as not reloadable) and `prev_keys` (the keys still down at the OS, which the
next tick releases). -/
def restartState (s : KSt W) (c : W.Cfg) : KSt W :=
  let fr : KSt W := freshAt ctorNew (s .cfg_paths) (s .cur_cfg_idx) c
  ⟨fun f =>
    match classify f with
    | .infrastructure => s f
    | .cfgStartupOnly => s f
    | _ => if f = .prev_keys then s f else fr f⟩

/-- fallible callees of a statement list -/
def falliblesOf (steps : List RStep) : List String :=
  steps.filterMap fun | .fallible c => some c | _ => none

/-- The specification of `do_live_reload` (all-or-nothing): nothing at all if the file does not
parse or if one of the environment calls the reload depends on fails (`xset`); otherwise a restart plus
the two notifications. -/
def restartReload (env : Env W.toTypes) (s : KSt W) : Except Crash (RRes W.toTypes) :=
  match (s .cfg_paths : List Nat)[(s .cur_cfg_idx : Nat)]? with
  | none => .error (.indexOOB "do_live_reload cfg_paths[cur_cfg_idx]")
  | some p =>
    match newFromFile env p with
    | none => .ok ⟨s, [], false⟩
    | some c =>
      if (falliblesOf reloadSteps).any (fun callee => env.callFails callee c) then .ok ⟨s, [], false⟩ else
      if env.tx then
        match W.layerName (W.cfgVal .layer_info c) (W.currentLayer (W.cfgVal .layout c)) with
        | none => .error (.indexOOB "do_live_reload layer_info[cur_layer]")
        | some name => .ok ⟨restartState s c, [.configFileReload p, .layerChange name], true⟩
      else .ok ⟨restartState s c, [], true⟩

def fieldsOf (c : FClass) : List Field := allFields.filter (fun f => classify f == c)

/-- fields assigned by `do_live_reload` from `cfg` -/
def assignedFromCfg (steps : List RStep) : List Field :=
  steps.filterMap fun | .assign f true => some f | _ => none

/-- fields assigned by `do_live_reload` from something else -/
def assignedReset (steps : List RStep) : List Field :=
  steps.filterMap fun | .assign f false => some f | _ => none

/-- fields `do_live_reload` assigns at all -/
def assigned (steps : List RStep) : List Field :=
  steps.filterMap fun | .assign f _ => some f | _ => none

def stepKnown : RStep → Bool
  | .unknown _ => false
  | .notify m => m == "ConfigFileReload" || m == "LayerChange"
  | .effect m => m == "release_held_custom_outputs"
  | _ => true

end KVerif.Reload
