/-
The reference graph of `defvar` and the full expansion of variable references.

The cycle check that fix 8dc9082 added to `parse_vars` (parser/src/cfg/mod.rs) is already modelled
in Model/SExpr.lean and is reused here unchanged:

* `reachesVar vars target fuel pending visited`   the work list `pending` / `visited` of the check:
  a name is taken off `pending`, the `$name` atoms at every depth of its stored value
  (`SExpr.refs`; the Rust code walks the value with the explicit stack `values`) that are keys of
  the table (`vars.get_key_value`) are its references; a reference equal to the variable just
  defined refuses the definition; the others are queued once (`visited.insert`).
* `parseVarsPairs` runs it after every insertion, on the table that already holds the new variable
  (so a forward reference `$later` from an earlier definition takes part as soon as `later` is
  defined), starting from `pending = [name]`, `visited = []`.

This file adds what the theorems of Props/C03vars.lean speak about:

* `walkValue` / `checkLoop` / `selfRefCheck` — the same check once more, loop by loop as in the Rust
  text (proved to give the verdict of `reachesVar`);
* `varSuccs` — the successors of a variable in the reference graph restricted to defined names;
* `SExpr.expand` — the complete substitution of `$name` references inside an expression, at every
  depth.  In the Rust code there is no such single function: each consumer calls
  `SExpr::atom(vars)` / `SExpr::list(vars)` (Model/SExpr.lean `atomV`, `listV`) on the items it looks
  at and recurses into the lists it gets back, so `expand` is the union of everything any consumer
  can unfold.  Fuel is spent only on a hop from `$name` to the value of `name` (one Rust recursive
  call of `atom`/`list`); running out of fuel stands for the unbounded recursion.

Core Lean only.
-/
import KVerif.Model.SExpr
namespace KVerif.SExpr

/-- the references of variable `n` that are themselves defined: the edges `n → m` of the reference
graph (what the inner loop of the check in `parse_vars` collects for `n`) -/
def varSuccs (vars : Vars) (n : Bytes) : List Bytes :=
  match vars.lookup n with
  | none => []
  | some v => v.refs.filter (fun m => (vars.lookup m).isSome)

mutual
/-- one layer of the expansion: `hop v` is what happens to the value `v` of a referenced variable -/
def SExpr.expandW (hop : SExpr → Except Crash SExpr) (vars : Vars) : SExpr → Except Crash SExpr
  | .atom t sp =>
    match stripDollar t with
    | none => .ok (.atom t sp)
    | some n =>
      match vars.lookup n with
      | none => .ok (.atom t sp)
      | some v => hop v
  | .list xs sp =>
    match SExpr.expandWL hop vars xs with
    | .ok ys => .ok (.list ys sp)
    | .error c => .error c
def SExpr.expandWL (hop : SExpr → Except Crash SExpr) (vars : Vars) : List SExpr → Except Crash (List SExpr)
  | [] => .ok []
  | x :: r =>
    match x.expandW hop vars with
    | .error c => .error c
    | .ok a =>
      match SExpr.expandWL hop vars r with
      | .error c => .error c
      | .ok b => .ok (a :: b)
end

/-- the expression with every reference to a defined variable replaced by the (expanded) value of
that variable; `fuel` bounds the number of nested hops -/
def SExpr.expand : Nat → Vars → SExpr → Except Crash SExpr
  | 0, vars, e => e.expandW (fun _ => .error .fuelOut) vars
  | fuel + 1, vars, e => e.expandW (fun v => SExpr.expand fuel vars v) vars

/-! ## The cycle check of `parse_vars`, loop by loop

`reachesVar` (Model/SExpr.lean) treats one variable per round and takes the references of its value
from `SExpr.refs`.  The definitions below follow the Rust text more closely — the stack `values` of
the inner loop, one `visited.insert` per reference, the `vars[name]` index — and
Lemmas/VarCycle.lean shows that both give the same verdict (`selfRefCheck_eq_reachesVar`).

```rust
let mut pending = vec![var_name.as_str()];
let mut visited: HashSet<&str> = HashSet::default();
while let Some(name) = pending.pop() {
    let mut values = vec![&vars[name]];
    while let Some(value) = values.pop() {
        match value {
            SExpr::List(l) => values.extend(l.t.iter()),
            SExpr::Atom(a) => {
                let referenced = a.t.strip_prefix('$').and_then(|v| vars.get_key_value(v));
                if let Some((referenced, _)) = referenced {
                    if referenced == var_name { bail_expr!(..) }
                    if visited.insert(referenced) { pending.push(referenced); }
                } } } } }
```
-/

/-- `pending` (top of the stack first) and `visited` -/
structure ChkSt where
  pending : List Bytes
  visited : List Bytes

/-- how the check ends: `bail` = the definition is refused, `pass` = the loops ran to the end,
`indexPanic` = `vars[name]` for a name that is not a key, `fuelOut` = the outer loop did not finish -/
inductive ChkOut
  | bail | pass | indexPanic | fuelOut
  deriving DecidableEq, Repr

mutual
/-- the inner loop for the part of the stack `values` that `value` unfolds to; `none` = `bail_expr!`.
A list pushes its elements and the last one is popped first, so the sub-tree of a later element is
finished before an earlier element is looked at: the traversal is depth-first, right to left. -/
def walkValue (vars : Vars) (target : Bytes) : SExpr → ChkSt → Option ChkSt
  | .atom t _, st =>
    match stripDollar t with
    | none => some st
    | some n =>
      if (vars.lookup n).isSome then
        if n = target then none
        else if st.visited.contains n then some st
        else some ⟨n :: st.pending, n :: st.visited⟩
      else some st
  | .list xs _, st => walkValuesRev vars target xs st
def walkValuesRev (vars : Vars) (target : Bytes) : List SExpr → ChkSt → Option ChkSt
  | [], st => some st
  | x :: r, st =>
    match walkValuesRev vars target r st with
    | none => none
    | some st' => walkValue vars target x st'
end

/-- the outer loop `while let Some(name) = pending.pop()` -/
def checkLoop (vars : Vars) (target : Bytes) : Nat → List Bytes → List Bytes → ChkOut
  | _, [], _ => .pass
  | 0, _ :: _, _ => .fuelOut
  | fuel + 1, name :: pending, visited =>
    match vars.lookup name with
    | none => .indexPanic
    | some v =>
      match walkValue vars target v ⟨pending, visited⟩ with
      | none => .bail
      | some st => checkLoop vars target fuel st.pending st.visited

/-- the check for the variable `name` that was just inserted into `vars` -/
def selfRefCheck (vars : Vars) (name : Bytes) : ChkOut :=
  checkLoop vars name (vars.length + 1) [name] []

/-! ## Specification: the reference graph -/

/-- `n` is a key of the table -/
def Defined (vars : Vars) (n : Bytes) : Prop := (vars.lookup n).isSome = true

/-- `n → m`: the stored value of `n` mentions `$m` (at any depth) and `m` is defined -/
def Edge (vars : Vars) (n m : Bytes) : Prop := m ∈ varSuccs vars n

/-- `n` reaches `m` through one or more references -/
inductive Reaches (vars : Vars) : Bytes → Bytes → Prop
  | one {n m : Bytes} : Edge vars n m → Reaches vars n m
  | step {n k m : Bytes} : Edge vars n k → Reaches vars k m → Reaches vars n m

/-- no variable reaches itself through one or more references -/
def Acyclic (vars : Vars) : Prop := ∀ n, ¬ Reaches vars n n

end KVerif.SExpr
