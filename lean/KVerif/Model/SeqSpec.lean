/-
Specification side of C12 (what the theorems relate the model to, and what the driver prints as the
*spec output*).  Nothing here mirrors kanata code.

* `perms`            all permutations of a list, by insertion (no Heap's algorithm)
* `orderings`        the permitted orderings of an encoded key list: every `O-(…)` group in every
                     order of its members
* `PrefixFree`       no key is a prefix of another (two equal keys count)
* `lvs`, `AbsRes`, `absKey`   sequence mode as an automaton over what the user typed, for tables of
                     plain keys: the tracked word is the longest suffix of the typed word that can
                     still be continued to a defined sequence
-/
import KVerif.Model.Sequences
namespace KVerif.Seq

/-! ### permutations and orderings -/

def insertions {α : Type} (a : α) : List α → List (List α)
  | [] => [[a]]
  | b :: l => (a :: b :: l) :: (insertions a l).map (b :: ·)

def perms {α : Type} : List α → List (List α)
  | [] => [[]]
  | a :: l => (perms l).flatMap (insertions a)

/-- The permitted orderings of an encoded key list `seq` (output of `parseSequenceKeys`): a value
without the overlap bit stays where it is; a group (a value with the overlap bit, up to the next
bare marker) is replaced by any permutation of its members followed by the marker.  `none` where the
parser rejects the list (a bare marker where a group should start, a group of fewer than 2 or more
than 6 members).  Fuelled by the length of the list (structural recursion). -/
def orderingsF : Nat → List Nat → Option (List (List Nat))
  | _, [] => some [[]]
  | 0, _ :: _ => some [[]]
  | f + 1, v :: rest =>
    if v &&& KEY_OVERLAP_MARKER = 0 then
      (orderingsF f rest).map (fun os => os.map (v :: ·))
    else if v = KEY_OVERLAP_MARKER then none
    else
      let grp := v :: rest.takeWhile (fun x => !isMarker x)
      let rest' := (rest.dropWhile (fun x => !isMarker x)).drop 1
      if grp.length < 2 ∨ grp.length > 6 then none
      else
        (orderingsF f rest').map (fun os =>
          (perms grp).flatMap fun g => os.map fun o => g ++ [KEY_OVERLAP_MARKER] ++ o)

def orderings (seq : List Nat) : Option (List (List Nat)) := orderingsF seq.length seq

/-- No key of the list is a prefix of a key at another position (so equal keys at two positions
violate it as well). -/
def PrefixFree (ks : List Key) : Prop :=
  ks.Pairwise (fun p q => ¬ p <+: q ∧ ¬ q <+: p)

def prefixFreeB : List Key → Bool
  | [] => true
  | p :: ks => ks.all (fun q => !p.isPrefixOf q && !q.isPrefixOf p) && prefixFreeB ks

/-- The encoding of a key list as the specification reads it: the parser's own bit encoding
(`parseSequenceKeys`), undefined where the parser rejects the list. -/
def encOf (is : List Item) : Option (List Nat) :=
  if is.isEmpty then none else
  match parseSequenceKeys is with
  | .ok s => some s
  | .error _ => none

/-- All (ordering, virtual key) pairs a table denotes, in table order; `none` if some key list is
rejected for a reason other than a conflict (`enc` is the encoding of a key list). -/
def tableOrderings (enc : List Item → Option (List Nat)) : List (Nat × List Item) → Option (List (Key × Nat))
  | [] => some []
  | e :: es =>
    match enc e.2 with
    | none => none
    | some seq =>
      match orderings seq, tableOrderings enc es with
      | some os, some rest => some (os.map (fun o => (o, e.1)) ++ rest)
      | _, _ => none

/-! ### sequence mode over the typed word, for tables of plain keys -/

/-- `w` can still be continued to (or is) a defined sequence. -/
def viable (tbl : List (Key × Nat)) (w : Key) : Bool := tbl.any (fun e => w.isPrefixOf e.1)

/-- longest suffix of `w` that is viable (`[]` if none is; the empty word never counts) -/
def lvs (tbl : List (Key × Nat)) : Key → Key
  | [] => []
  | x :: w => if viable tbl (x :: w) then x :: w else lvs tbl w

def lookupKey (tbl : List (Key × Nat)) (w : Key) : Option Nat :=
  (tbl.find? (fun e => e.1 == w)).map (·.2)

/-- What one more typed key does to sequence mode when `tracked` is the word tracked so far. -/
inductive AbsRes
  /-- mode continues, tracking this word -/
  | continues (tracked : Key)
  /-- the tracked word is a defined sequence: its virtual key is tapped, mode ends -/
  | fired (vk : Nat) (matched : Key)
  /-- nothing defined can match any more: mode ends, nothing is tapped -/
  | failed
  deriving DecidableEq, Repr

def absKey (tbl : List (Key × Nat)) (tracked : Key) (k : Nat) : AbsRes :=
  let w := lvs tbl (tracked ++ [k])
  if w.isEmpty then .failed
  else match lookupKey tbl w with
    | some j => .fired j w
    | none => .continues w

/-- the word tracked after typing `ks` from `w`, if sequence mode neither fired nor failed on the way -/
def absTrack (tbl : List (Key × Nat)) : Key → List Nat → Option Key
  | w, [] => some w
  | w, k :: ks =>
    match absKey tbl w k with
    | .continues w' => absTrack tbl w' ks
    | _ => none

/-- a typed key the plain-table theorems speak about: a key code (no modifier bits) that is not a
modifier key, not in the ignored range and not the overlap pseudo-key -/
def plainKey (k : Nat) : Bool := k < 1024 && !isModifier k && !isIgnored k && k != KC_OVERLAP

def plainTable (tbl : List (Key × Nat)) : Bool := tbl.all (fun e => e.1.all plainKey && !e.1.isEmpty)

end KVerif.Seq
