/-
Dynamic macros inside the kanata-level model (`Model/Kanata.lean`), first half: the slice of `Kanata`
that belongs to dynamic macros (`dynamic_macro_record_state`, `dynamic_macro_replay_state`,
`dynamic_macros`, `dynamic_macro_max_presses`, `dynamic_macro_replay_behaviour`) as one structure
`Dyn`, and the calls that src/kanata/mod.rs makes on it, expressed with the functions of
`Model/DynMacro.lean` (the transcription of src/kanata/dynamic_macro.rs):

* `Dyn.recordPress` / `Dyn.recordRelease`  - `handle_input_event` (`record_press`, `record_release`)
* `Dyn.doAct`                               - the `CustomAction::DynamicMacro*` arms of `handle_keystate_changes`
* `Dyn.tickRecord`                          - `tick_states` (`tick_record_state`)

The second half (`tick_ms`: `tick_replay_state` feeding `layout.event`, the `extra_ticks` loop) needs
the layout and lives in `Model/KanataDynTick.lean`.

Every function is the identity when nothing is being recorded (`rcd = none`), so the kanata-level
definitions are unchanged for configurations without dynamic macros.

`HashSet` iteration order (`add_release_for_all_unreleased_presses`): `hints` is a list of orders
observed on the real code (newest first); the order used for a set `u` is the first hint whose
last `u.length` entries are a permutation of `u`, else insertion order (`DynMacro.orderBy`).
`fed` / `lost` are ghost logs (events handed to `layout.event` by the replay; events popped by the
`extra_ticks` loop and dropped).
-/
import KVerif.Model.DynMacro
namespace KVerif.K
open KVerif

structure Dyn where
  rcd : Option DynMacro.Rec := none
  rep : Option DynMacro.Replay := none
  store : DynMacro.Store := []
  maxPresses : Nat := 128
  beh : DynMacro.Beh := .recorded
  fix : Bool := true
  hints : List (List Nat) := []
  fed : List DynMacro.KeyEv := []
  lost : List DynMacro.KeyEv := []
  deriving Repr

/-- the hash-set order hint to use for the unreleased keys of `items` -/
def Dyn.hintFor (d : Dyn) (items : List DynMacro.Item) : List Nat :=
  let u := DynMacro.unreleased items
  match d.hints.find? (fun h => (h.drop (h.length - u.length)).isPerm u) with
  | some h => h
  | none => []

/-- the items `begin_record_macro` appends releases to -/
def beginItems (r : DynMacro.Rec) : List DynMacro.Item := r.flushItems.dropLast

/-- the items `stop_macro` appends releases to -/
def stopItems (n : Nat) (r : DynMacro.Rec) : List DynMacro.Item :=
  r.flushItems.dropLast.take (r.flushItems.dropLast.length - n)

/-- `record_press(&mut self.dynamic_macro_record_state, event.code, self.dynamic_macro_max_presses)`
and the `dynamic_macros.insert` that follows -/
def Dyn.recordPress (d : Dyn) (osc : Nat) : Dyn :=
  match d.rcd with
  | none => d
  | some r =>
    let res := DynMacro.recordPress (d.hintFor r.items) d.maxPresses osc (some r)
    { d with rcd := res.1, store := d.store.save res.2 }

/-- `record_release(&mut self.dynamic_macro_record_state, event.code)` -/
def Dyn.recordRelease (d : Dyn) (osc : Nat) : Dyn :=
  match d.rcd with
  | none => d
  | some r => { d with rcd := DynMacro.recordRelease osc (some r) }

/-- `tick_record_state(&mut self.dynamic_macro_record_state)` -/
def Dyn.tickRecord (d : Dyn) : Dyn :=
  match d.rcd with
  | none => d
  | some r => { d with rcd := DynMacro.tickRecord (some r) }

/-- one `CustomAction::DynamicMacro*` arm of `handle_keystate_changes` -/
def Dyn.doAct (d : Dyn) : DynMacro.Act → Except DynMacro.Crash Dyn
  | .record id =>
    let hint := match d.rcd with | some r => d.hintFor (beginItems r) | none => []
    match DynMacro.beginRecord d.fix hint id d.rcd with
    | .error e => .error e
    | .ok (r, saved) => .ok { d with rcd := r, store := d.store.save saved }
  | .stop n =>
    let hint := match d.rcd with | some r => d.hintFor (stopItems n r) | none => []
    match DynMacro.stopMacro d.fix hint n d.rcd with
    | .error e => .error e
    | .ok (r, saved) => .ok { d with rcd := r, store := d.store.save saved }
  | .play id => .ok { d with rep := DynMacro.playMacro id d.store d.rep }

end KVerif.K
