/-
Sequence mode inside the kanata-level model: the glue between `Model/Sequences.lean` (the
stand-alone model of src/kanata/sequences.rs: `do_sequence_press_logic`,
`do_successful_sequence_termination`, `cancel_sequence`, `add_noerase`, and of the sequence hooks of
src/kanata/mod.rs) and `Model/Kanata.lean` (the model of `Kanata` around the full keyberon `Layout`).

`Kanata` owns `sequence_state`, `sequences`, `sequence_backtrack_modcancel`, `sequence_always_on`,
`sequence_input_mode`, `sequence_timeout` (here: `SeqK`).  The functions of sequences.rs read and
write three things besides that state: `kbd_out` (OS events, in order), `layout.states` (`retain`
with a predicate on `State::NormalKey { keycode, .. }`; every other variant is kept) and
`layout.event(Press(1, j)); layout.event(Release(1, j))`.  `Model/Sequences.lean` describes exactly
these three channels on its `Eng` record (`out`, `states`, `taps`), over a two-variant view of
`State` (`NormalKey` with its key code and coordinate / anything else).  The hooks below run the
stand-alone functions on the view of the real layout (`engOf`) and carry the three effects back
(`applyEng`):

* the OS events are returned to the caller, which sends them through `press_key`/`release_key` of
  output_logic.rs (`Kanata.lean: emitSeq`);
* a state of the real layout is kept iff its view is kept (a `retain` predicate that depends on the
  key code only treats equal views alike, so membership of the view in the retained list *is* the
  predicate);
* the virtual-key taps go through the full `Layout.event` (queue of 32, overflow handling and all),
  after the `retain`s, in the order of the Rust code.

Within one call the three channels are independent in the Rust code (no function of sequences.rs
reads `kbd_out` or the layout queue), so replaying them channel by channel after the call is the
same as interleaving them; across calls the order is kept because every call is applied before the
next one starts.
-/
import KVerif.Model.Layout
import KVerif.Model.Sequences
namespace KVerif.K
open KVerif.L

/-- the sequence-related fields of `Kanata` -/
structure SeqK where
  /-- `sequences` (the trie, as the finite map it represents; values are the `j` of `(1, j)`) -/
  trie : Seq.Trie Nat := ⟨[]⟩
  /-- `sequence_backtrack_modcancel` -/
  modcancel : Bool := false
  /-- `sequence_always_on` -/
  alwaysOn : Bool := false
  /-- `sequence_input_mode` (default mode, used by always-on) -/
  defMode : Seq.Mode := .hiddenSuppressed
  /-- `sequence_timeout` (default timeout, used by always-on) -/
  defTimeout : Nat := 0
  /-- `sequence_state` -/
  st : Seq.SeqState := {}
  deriving Repr

/-- `sequence_state.is_active()` -/
def SeqK.active (s : SeqK) : Bool := s.st.active

/-- nothing of the sequence machinery can run in the key diff of this tick: sequence mode is off
and `sequence-always-on` is not configured -/
def SeqK.off (s : SeqK) : Bool := !s.st.active && !s.alwaysOn

/-- the view of a `State` that sequences.rs distinguishes -/
def viewSt : St → Seq.KState
  | .normalKey kc c _ => .normalKey kc c
  | _ => .custom (0, 0)

/-- the record the stand-alone functions work on, for the real layout -/
def engOf (s : SeqK) (l : Layout) : Seq.Eng :=
  { st := s.st, states := l.states.map viewSt, out := [], taps := [] }

/-- `layout.states.retain(..)` as decided on the view -/
def retainStates (kept : List Seq.KState) (states : List St) : List St :=
  states.filter fun s => kept.contains (viewSt s)

/-- `layout.event(Event::Press(1, j)); layout.event(Event::Release(1, j));` for every tap, in order -/
def tapVkeys : List Nat → Layout → Except L.Crash Layout
  | [], l => .ok l
  | j :: js, l =>
    match l.event (.press (1, j)) with
    | .error e => .error e
    | .ok l => match l.event (.release (1, j)) with
      | .error e => .error e
      | .ok l => tapVkeys js l

/-- carry the effects of a stand-alone call back: new sequence state, the layout after `retain` and
the virtual-key taps, and the OS events for the caller to send -/
def applyEng (s : SeqK) (l : Layout) (e : Seq.Eng) : Except L.Crash (SeqK × Layout × List Seq.Out) :=
  match tapVkeys e.taps { l with states := retainStates e.states l.states } with
  | .error c => .error c
  | .ok l' => .ok ({ s with st := e.st }, l', e.out)

/-- `self.sequence_state.activate(self.sequence_input_mode, self.sequence_timeout)` -/
def SeqK.activateDefault (s : SeqK) : SeqK := { s with st := s.st.activate s.defMode s.defTimeout }

/-- `if self.sequence_always_on && self.sequence_state.is_inactive() { activate(default) }` in the
press loop of `handle_keystate_changes` -/
def SeqK.alwaysOnStep (s : SeqK) : SeqK := if s.alwaysOn && !s.st.active then s.activateDefault else s

/-- `do_sequence_press_logic(state, k, mod_mask, kbd_out, sequences, modcancel, layout)`, called in
the press loop for a newly pressed key while sequence mode is on -/
def seqKeyPress (s : SeqK) (l : Layout) (k : KeyCode) (modMask : Nat) :
    Except L.Crash (SeqK × Layout × List Seq.Out) :=
  applyEng s l (Seq.doSeqPress s.trie s.modcancel (engOf s l) k modMask)

/-- the block of `handle_keystate_changes` run when the last held key has just been released
(`cur_keys.is_empty() && !self.prev_keys.is_empty()`) -/
def seqAllReleased (s : SeqK) (l : Layout) : Except L.Crash (SeqK × Layout × List Seq.Out) :=
  if !s.st.active then .ok (s, l, []) else applyEng s l (Seq.allReleasedHook s.trie (engOf s l))

/-- the custom actions `SequenceLeader(timeout, mode)`, `SequenceCancel`, `SequenceNoerase(n)` (the
arms of the `CustomEvent::Press` loop); they touch `sequence_state` and `kbd_out` only (neither
`activate`, `cancel_sequence` nor `add_noerase` is handed the layout) -/
def seqCustom (s : SeqK) (a : Seq.Act) : Except Seq.Crash (SeqK × List Seq.Out) :=
  match Seq.customPress { st := s.st, states := [] } (some a) with
  | .error c => .error c
  | .ok e => .ok ({ s with st := e.st }, e.out)

/-- `Kanata::tick_sequence_state` (`cancel_sequence` is not handed the layout) -/
def seqTick (s : SeqK) : Except Seq.Crash (SeqK × List Seq.Out) :=
  match Seq.tickSeq { st := s.st, states := [] } with
  | .error c => .error c
  | .ok e => .ok ({ s with st := e.st }, e.out)

end KVerif.K
