/-! A binary search tree over `Nat` keys.  The translator emits such trees next to the big tables as
*proof hints* only: a lookup in the tree is logarithmic, so a kernel-checked `decide` over a whole
table stays fast.  Nothing is assumed about a generated tree — every fact used about it is proved
against the list it was built from (Lemmas/KeyId.lean). -/
namespace KVerif

inductive NatTree where
  | leaf
  | node (l : NatTree) (k v : Nat) (r : NatTree)

namespace NatTree

def find : NatTree → Nat → Option Nat
  | leaf, _ => none
  | node l k v r, x => if x < k then l.find x else if k < x then r.find x else some v

def toList : NatTree → List (Nat × Nat)
  | leaf => []
  | node l k v r => l.toList ++ (k, v) :: r.toList

end NatTree
end KVerif
