/-
Model of keyberon/src/layout.rs (`Layout::event`, `Layout::tick`, `do_action`, waiting states for
tap-hold / tap-dance / chords v1, one-shot, sequences (macros), action queue, history).

Each definition names the Rust function it mirrors. Fixed-capacity containers are lists with the
capacity rule of the Rust container spelled out. A Rust panic is a `Crash`. Recursion through
`do_action` (nested actions, `Src`, `Repeat`, one-shot overflow → `event` → `waiting_into_hold`) takes
fuel; running out of fuel stands for a stack overflow.
Not modelled here: chords v2 (`chords_v2 = None` is assumed; see Model/ChordsV2.lean when present).
-/
import KVerif.Model.Action
import KVerif.Model.Switch
namespace KVerif.L

/-! ## Capacities (tied to the source by `consts_from_source` in Props) -/
abbrev QUEUE_SIZE : Nat := 32
abbrev ACTION_QUEUE_LEN : Nat := 8
abbrev EXTRA_WAITING_LEN : Nat := 8
abbrev HISTORICAL_EVENT_LEN : Nat := 8
abbrev ONE_SHOT_MAX_ACTIVE : Nat := 16
abbrev STATES_CAP : Nat := 64
abbrev ACTIVE_SEQ_CAP : Nat := 4
abbrev MAX_ACTIVE_LAYERS : Nat := 12
abbrev BUFCAP : Nat := 20
abbrev NORMAL_KEY_FLAG_CLEAR_ON_NEXT_ACTION : Nat := 1
abbrev NORMAL_KEY_FLAG_CLEAR_ON_NEXT_RELEASE : Nat := 2
abbrev U16_MAX : Nat := 65535

inductive Crash
  | fuelOut                 -- unbounded recursion (stack overflow)
  | transUnresolved         -- `unreachable!("Trans action should have been resolved earlier")`
  | layerStackOverflow      -- heapless `Vec::from_iter overflow` (more than 12 layers collected)
  | indexOOB (site : String)
  | switchCrash (c : Switch.Crash)
  deriving Repr, DecidableEq

inductive Ev
  | press (c : Coord)
  | release (c : Coord)
  deriving DecidableEq, Repr, Inhabited

def Ev.coord : Ev → Coord
  | .press c => c
  | .release c => c
def Ev.isPress : Ev → Bool
  | .press _ => true
  | .release _ => false

structure Queued where
  ev : Ev
  since : Nat
  deriving DecidableEq, Repr, Inhabited

/-- `CustomEvent` -/
inductive CustomEv
  | noEvent
  | press (id : Nat)
  | release (id : Nat)
  deriving DecidableEq, Repr, Inhabited

/-- `CustomEvent::update` -/
def CustomEv.update (self e : CustomEv) : CustomEv :=
  match e, self with
  | .release _, .noEvent => e
  | .release _, .press _ => e
  | .press _, .noEvent => e
  | _, _ => self

/-- `State` -/
inductive St
  | normalKey (kc : KeyCode) (coord : Coord) (flags : Nat)
  | layerModifier (value : Nat) (coord : Coord)
  | custom (id : Nat) (coord : Coord)
  | fakeKey (kc : KeyCode)
  | repeatingSequence (events : List SeqEv) (coord : Coord)
  | seqCustomPending (id : Nat)
  | seqCustomActive (id : Nat)
  | tombstone
  deriving DecidableEq, Repr, Inhabited

def St.keycode : St → Option KeyCode
  | .normalKey kc _ _ => some kc
  | .fakeKey kc => some kc
  | _ => none

def St.coord : St → Option Coord
  | .normalKey _ c _ | .layerModifier _ c | .custom _ c | .repeatingSequence _ c => some c
  | _ => none

def St.getLayer : St → Option Nat
  | .layerModifier v _ => some v
  | _ => none

def St.clearOnNextRelease : St → Bool
  | .normalKey _ _ flags => (flags / 2) % 2 == 1
  | _ => false

def St.clearOnNextAction : St → Bool
  | .normalKey _ _ flags => flags % 2 == 1
  | _ => false

/-- `State::release`: `none` if released by coordinate `c`; a released `Custom` reports its release. -/
def St.release (s : St) (c : Coord) (custom : CustomEv) : Option St × CustomEv :=
  match s with
  | .normalKey _ coord _ | .layerModifier _ coord | .repeatingSequence _ coord =>
    if coord == c then (none, custom) else (some s, custom)
  | .custom id coord =>
    if coord == c then (none, custom.update (.release id)) else (some s, custom)
  | _ => (some s, custom)

/-- `State::release_state` -/
def St.releaseState (s : St) (rs : RelState) : Bool :=   -- true = keep
  match s, rs with
  | .normalKey k1 _ _, .keyCode k2 => k1 != k2
  | .fakeKey k1, .keyCode k2 => k1 != k2
  | .layerModifier l1 _, .layer l2 => l1 != l2
  | _, _ => true

/-- `State::seq_release` (true = keep) -/
def St.seqRelease (s : St) (kc : KeyCode) : Bool :=
  match s with
  | .fakeKey k => k != kc
  | _ => true

/-! ## Container rules -/

/-- `ArrayDeque<_, cap, Wrapping>::push_back`: when full, the front is popped and returned. -/
def pushBackWrap {α} (cap : Nat) (l : List α) (x : α) : List α × Option α :=
  if l.length < cap then (l ++ [x], none)
  else match l with
    | [] => ([], some x)
    | h :: t => (t ++ [x], some h)

/-- `ArrayDeque<_, cap, Wrapping>::push_front`: when full, the back is dropped. -/
def pushFrontWrap {α} (cap : Nat) (l : List α) (x : α) : List α :=
  (x :: l).take cap

/-- heapless `Vec::push`: refused when full. -/
def pushCap {α} (cap : Nat) (l : List α) (x : α) : List α :=
  if l.length < cap then l ++ [x] else l

/-! ## Waiting states -/

inductive WAct | hold | tap | timeout | noOp
  deriving DecidableEq, Repr, Inhabited

inductive WCfg
  | holdTap (c : HTConfig)
  | tapDance (actions : List Action) (timeout : Nat) (numTaps : Nat)
  | chord (g : ChordsGroup)
  deriving Repr, Inhabited

/-- `WaitingState` -/
structure Waiting where
  coord : Coord
  timeout : Nat
  delay : Nat
  ticks : Nat
  hold : Action
  tap : Action
  timeoutAction : Action
  config : WCfg
  layerStack : List Nat
  prevQueueLen : Nat
  deriving Repr, Inhabited

abbrev ActionQueue := List (Coord × Nat × Action)

def isCorrespondingRelease (w : Waiting) (e : Ev) : Bool := e == .release w.coord
def isCorrespondingPress (w : Waiting) (e : Ev) : Bool := e == .press w.coord

/-- the `PermissiveHold` scan: a press whose release appears later in the queue -/
def permissiveHoldHit : List Queued → Bool
  | [] => false
  | q :: rest =>
    (q.ev.isPress && rest.any (fun r => r.ev == .release q.ev.coord)) || permissiveHoldHit rest

/-- `custom_tap_hold_release` -/
def customRelease (keys : List Nat) : List Queued → Option WAct
  | [] => none
  | q :: rest =>
    if q.ev.isPress then
      if keys.contains q.ev.coord.2 then some .tap
      else if rest.any (fun r => r.ev == .release q.ev.coord) then some .hold
      else customRelease keys rest
    else customRelease keys rest

/-- `custom_tap_hold_except`: result and the skip-timeout flag -/
def customExcept (keys : List Nat) : List Queued → Option WAct × Bool
  | [] => (none, true)
  | q :: rest =>
    if q.ev.isPress then
      if keys.contains q.ev.coord.2 then (some .tap, false) else (none, false)
    else customExcept keys rest

/-- the variant-specific part of `handle_hold_tap`: an early decision, and whether the timeout is
to be skipped -/
def earlyTrigger (cfg : HTConfig) (queued : List Queued) : Option WAct × Bool :=
  match cfg with
  | .default => (none, false)
  | .holdOnOtherKeyPress => (if queued.any (·.ev.isPress) then some .hold else none, false)
  | .permissiveHold => (if permissiveHoldHit queued then some .hold else none, false)
  | .customRelease keys => (customRelease keys queued, false)
  | .customExcept keys => customExcept keys queued

/-- [t8:while-down] the `while_down` closure of `handle_hold_tap`: the queued events that precede the
key's own release (all of them when it has not been released) -/
def whileDown (c : Coord) : List Queued → List Queued
  | [] => []
  | s :: rest => if s.ev == .release c then [] else s :: whileDown c rest

/-- `WaitingState::handle_hold_tap`; the early triggers look only at `whileDown` (repair
PENDING-1; the pinned earlier behaviour - the whole queue - is `handleHoldTapPinned`) -/
def handleHoldTap (w : Waiting) (cfg : HTConfig) (queued : List Queued) : Waiting × Option WAct :=
  if queued.length % 256 == w.prevQueueLen && w.timeout > 0 then (w, none)
  else
    let w' := { w with prevQueueLen := queued.length % 256 }
    match earlyTrigger cfg (whileDown w.coord queued) with
    | (some a, _) => (w', some a)
    | (none, skipTimeout) =>
      match queued.find? (fun s => isCorrespondingRelease w' s.ev) with
      | some q =>
        if w'.timeout > w'.delay - q.since then (w', some .tap) else (w', some .timeout)
      | none =>
        if w'.timeout == 0 && !skipTimeout then (w', some .timeout) else (w', none)

/-- [t8:while-down] `handle_hold_tap` as it was before the repair: the early triggers scanned the whole
queue, also what was queued after the key's own release (kept for the counterexample theorems) -/
def handleHoldTapPinned (w : Waiting) (cfg : HTConfig) (queued : List Queued) : Waiting × Option WAct :=
  if queued.length % 256 == w.prevQueueLen && w.timeout > 0 then (w, none)
  else
    let w := { w with prevQueueLen := queued.length % 256 }
    match earlyTrigger cfg queued with
    | (some a, _) => (w, some a)
    | (none, skipTimeout) =>
      match queued.find? (fun s => isCorrespondingRelease w s.ev) with
      | some q =>
        if w.timeout > w.delay - q.since then (w, some .tap) else (w, some .timeout)
      | none =>
        if w.timeout == 0 && !skipTimeout then (w, some .timeout) else (w, none)

/-- the `retain` inside the `evict_same_coord_events` closure of `handle_tap_dance`, with its two
counters: releases / presses of the key still to remove.  Only the presses that were counted as taps
are evicted; a later press of the key stays queued (and begins a new tap-dance). -/
def evictSameCoord (w : Waiting) : Nat → Nat → List Queued → List Queued
  | _, _, [] => []
  | relToRemove, prToRemove, s :: rest =>
    if isCorrespondingRelease w s.ev then
      if relToRemove > 0 then evictSameCoord w (relToRemove - 1) prToRemove rest
      else s :: evictSameCoord w relToRemove prToRemove rest
    else if isCorrespondingPress w s.ev && prToRemove > 0 then evictSameCoord w relToRemove (prToRemove - 1) rest
    else s :: evictSameCoord w relToRemove prToRemove rest

/-- the closure itself: `evict_same_coord_events(num_taps, queued)`; both counters start at
`num_taps.saturating_sub(1)` -/
def evictTaps (w : Waiting) (numTaps : Nat) (queued : List Queued) : List Queued :=
  evictSameCoord w (numTaps - 1) (numTaps - 1) queued

/-- behaviour of the pinned commit, before the `fix:` commit (used only by counterexample theorems):
EVERY queued press of the key was evicted, counted or not -/
def evictSameCoordPinned (w : Waiting) : Nat → List Queued → List Queued
  | _, [] => []
  | toRemove, s :: rest =>
    if isCorrespondingRelease w s.ev then
      if toRemove > 0 then evictSameCoordPinned w (toRemove - 1) rest
      else s :: evictSameCoordPinned w toRemove rest
    else if isCorrespondingPress w s.ev then evictSameCoordPinned w toRemove rest
    else s :: evictSameCoordPinned w toRemove rest

/-- the `try_fold` of `handle_tap_dance`: `.ok n` / `.error n` (another key was pressed) -/
def countTaps (w : Waiting) : Nat → List Queued → Except Nat Nat
  | n, [] => .ok n
  | n, s :: rest =>
    if isCorrespondingPress w s.ev then countTaps w (n + 1) rest
    else if s.ev.isPress then .error n
    else countTaps w n rest

/-- the `in_this_dance` closure of `handle_tap_dance` (since fix PENDING-1): a dance never has more
taps than it has actions; presses of the key queued beyond that are not counted (and so not evicted) -/
def inThisDance (numTaps maxTaps : Nat) : Nat := min numTaps maxTaps

/-- `WaitingState::handle_tap_dance` -/
def handleTapDance (w : Waiting) (numTaps maxTaps : Nat) (queued : List Queued) :
    List Queued × Option WAct × Nat :=
  if queued.length % 256 == w.prevQueueLen && w.timeout > 0 then (queued, none, numTaps)
  else if w.timeout == 0 then (evictTaps w numTaps queued, some .tap, numTaps)
  else
    match countTaps w 1 queued with
    | .ok n =>
      if n ≥ maxTaps then (evictTaps w (inThisDance n maxTaps) queued, some .tap, inThisDance n maxTaps)
      else (queued, none, n)
    | .error n => (evictTaps w (inThisDance n maxTaps) queued, some .tap, inThisDance n maxTaps)

/-- behaviour before fix PENDING-1 (used only by a counterexample theorem): the dance was decided on
every press of the key that was queued, also beyond the list length, and all of them were evicted -/
def handleTapDanceUncapped (w : Waiting) (numTaps maxTaps : Nat) (queued : List Queued) :
    List Queued × Option WAct × Nat :=
  if queued.length % 256 == w.prevQueueLen && w.timeout > 0 then (queued, none, numTaps)
  else if w.timeout == 0 then (evictTaps w numTaps queued, some .tap, numTaps)
  else
    match countTaps w 1 queued with
    | .ok n =>
      if n ≥ maxTaps then (evictTaps w n queued, some .tap, n) else (queued, none, n)
    | .error n => (evictTaps w n queued, some .tap, n)

/-- state of the `try_fold` in `handle_chord` -/
structure ChordFold where
  active : Nat
  handled : Nat
  released : Option Coord
  deriving Repr

/-- the `try_fold` of `handle_chord`; `true` = `Ok` (chording may continue) -/
def chordFold (w : Waiting) (g : ChordsGroup) : ChordFold → List Queued → ChordFold × Bool
  | st, [] => (st, true)
  | st, s :: rest =>
    if w.delay - s.since > w.timeout then chordFold w g st rest
    else match g.getKeys s.ev.coord with
      | some ck =>
        match s.ev with
        | .press _ => chordFold w g { st with handled := st.handled + 1, active := st.active ||| ck } rest
        | .release c => ({ st with released := some c }, false)
      | none =>
        if s.ev.isPress then (st, false) else chordFold w g st rest

/-- the final `retain` of `handle_chord`: (kept queue, coordinates pushed to the pressed queue) -/
def chordRetain (w : Waiting) (g : ChordsGroup) : Nat → List Queued → List Queued × List Coord
  | _, [] => ([], [])
  | handled, s :: rest =>
    if w.delay - s.since > w.timeout then
      let (k, p) := chordRetain w g handled rest; (s :: k, p)
    else if s.ev.isPress && (g.getKeys s.ev.coord).isSome && handled > 0 then
      let (k, p) := chordRetain w g (handled - 1) rest; (k, s.ev.coord :: p)
    else
      let (k, p) := chordRetain w g handled rest; (s :: k, p)

/-- the `try_fold` of `decompose_chord_into_action_queue`: masks in press order, and the coordinate
of an early release -/
def decomposeFold (w : Waiting) (g : ChordsGroup) :
    Nat → List Nat → Coord → List Queued → List Nat × Coord
  | _, order, dflt, [] => (order, dflt)
  | active, order, dflt, s :: rest =>
    if w.delay - s.since > w.timeout then decomposeFold w g active order dflt rest
    else match g.getKeys s.ev.coord with
      | some ck =>
        match s.ev with
        | .press _ =>
          let order := if active ||| ck != active then order ++ [ck] else order
          decomposeFold w g (active ||| ck) order dflt rest
        | .release c => (order, c)
      | none =>
        if s.ev.isPress then (order, dflt) else decomposeFold w g active order dflt rest

def orMasks (l : List Nat) : Nat := l.foldl (· ||| ·) 0

/-- `get_coord_for_chord` -/
def coordForChord (w : Waiting) (g : ChordsGroup) (dflt : Coord) (queued : List Queued) (mask : Nat) : Coord :=
  if (g.getKeys dflt).getD 0 &&& mask > 0 then dflt
  else if w.coord != dflt && (g.getKeys w.coord).getD 0 &&& mask > 0 then w.coord
  else
    match queued.find? (fun q => (g.getKeys q.ev.coord).getD 0 &&& mask != 0) with
    | some q => q.ev.coord
    | none => dflt

/-- the inner `while end > start` of the decomposition: largest defined prefix `[start, end)` -/
def shrinkEnd (g : ChordsGroup) (keys : List Nat) (start : Nat) : Nat → Option (Nat × Action)
  | 0 => none
  | e + 1 =>
    if e + 1 > start then
      match g.getChord (orMasks ((keys.drop start).take (e + 1 - start))) with
      | some a => some (e + 1, a)
      | none => shrinkEnd g keys start e
    else none

/-- the outer `while start < len` loop (fuel = len is enough: `start` strictly increases) -/
def decomposeLoop (w : Waiting) (g : ChordsGroup) (dflt : Coord) (queued : List Queued)
    (keys : List Nat) (delay : Nat) : Nat → Nat → ActionQueue → ActionQueue
  | 0, _, aq => aq
  | fuel + 1, start, aq =>
    let len := keys.length
    if start < len then
      match g.getChord (orMasks (keys.drop start)) with
      | some a =>
        let aq := (pushBackWrap ACTION_QUEUE_LEN aq (coordForChord w g dflt queued (orMasks (keys.drop start)), delay, a)).1
        decomposeLoop w g dflt queued keys delay fuel len aq
      | none =>
        match shrinkEnd g keys start (len - 1) with
        | some (e, a) =>
          let mask := orMasks ((keys.drop start).take (e - start))
          let aq := (pushBackWrap ACTION_QUEUE_LEN aq (coordForChord w g dflt queued mask, delay, a)).1
          decomposeLoop w g dflt queued keys delay fuel (if e ≤ start then start + 1 else e) aq
        | none => decomposeLoop w g dflt queued keys delay fuel (start + 1) aq
    else aq

/-- `decompose_chord_into_action_queue` -/
def decomposeChord (w : Waiting) (g : ChordsGroup) (queued : List Queued) (aq : ActionQueue) : ActionQueue :=
  let starting := (g.getKeys w.coord).getD 0
  let (order, dflt) := decomposeFold w g starting [starting] w.coord queued
  decomposeLoop w g dflt queued order (min (w.delay + w.ticks) U16_MAX) order.length 0 aq

/-- `WaitingState::handle_chord` -/
def handleChord (w : Waiting) (g : ChordsGroup) (queued : List Queued) (aq : ActionQueue) :
    Waiting × List Queued × ActionQueue × Option (WAct × Action × List Coord) :=
  if queued.length % 256 == w.prevQueueLen && w.timeout - w.delay > 0 then (w, queued, aq, none)
  else
    let w := { w with prevQueueLen := queued.length % 256 }
    let startCoord := w.coord
    let (st, ok) := chordFold w g ⟨(g.getKeys w.coord).getD 0, 0, none⟩ queued
    let ok := ok && !(w.timeout - w.delay == 0)
    let finish (w : Waiting) (aq : ActionQueue) (r : WAct × Action) :=
      let (kept, pressed) := chordRetain w g st.handled queued
      (w, kept, aq, some (r.1, r.2, (startCoord :: pressed).take QUEUE_SIZE))
    if ok then
      match g.getChordIfUnambiguous st.active with
      | some a =>
        let w := match st.released with | some c => { w with coord := c } | none => w
        finish w aq (.tap, a)
      | none => (w, queued, aq, none)
    else
      match g.getChord st.active with
      | some a =>
        let w := match st.released with | some c => { w with coord := c } | none => w
        finish w aq (.tap, a)
      | none =>
        let aq := decomposeChord w g queued aq
        finish w aq (.noOp, .noOp)

/-- the action selection of the `TapDance` arm of `tick_wt`:
`tds.actions[min(num_taps, len).saturating_sub(1)]` (`none` = index out of bounds) -/
def tdPick (actions : List Action) (numTaps : Nat) : Option Action :=
  actions[min numTaps actions.length - 1]?

/-- the `TapDance` arm of `WaitingState::tick_wt` (`w` already has its countdown advanced): the
count and eviction of `handle_tap_dance`, then the chosen action is stored in `tap`, the countdown
restarts if the count grew, and the new count is stored in the configuration -/
def tickWtTd (w : Waiting) (actions : List Action) (tdTimeout tdNumTaps : Nat) (queued : List Queued) :
    Except Crash (Waiting × List Queued × Option WAct) :=
  match handleTapDance w tdNumTaps actions.length queued with
  | (queued, none, numTaps) =>
    .ok ({ w with prevQueueLen := queued.length % 256,
                  timeout := if numTaps > tdNumTaps then tdTimeout else w.timeout,
                  config := .tapDance actions tdTimeout numTaps }, queued, none)
  | (queued, some r, numTaps) =>
    match tdPick actions numTaps with
    | none => .error (.indexOOB "tap-dance actions")
    | some a =>
      .ok ({ w with prevQueueLen := queued.length % 256, tap := a,
                    timeout := if numTaps > tdNumTaps then tdTimeout else w.timeout,
                    config := .tapDance actions tdTimeout numTaps }, queued, some r)

/-- `WaitingState::tick_wt` -/
def tickWt (w : Waiting) (queued : List Queued) (aq : ActionQueue) :
    Except Crash (Waiting × List Queued × ActionQueue × Option (WAct × Option (List Coord))) :=
  let w := { w with timeout := w.timeout - 1, ticks := min (w.ticks + 1) U16_MAX }
  match w.config with
  | .holdTap htc =>
    let (w, r) := handleHoldTap w htc queued
    .ok (w, queued, aq, r.map (·, none))
  | .tapDance actions tdTimeout tdNumTaps =>
    match tickWtTd w actions tdTimeout tdNumTaps queued with
    | .error c => .error c
    | .ok (w, queued, ret) => .ok (w, queued, aq, ret.map (·, none))
  | .chord g =>
    match handleChord w g queued aq with
    | (w, queued, aq, some (r, a, pq)) => .ok ({ w with tap := a }, queued, aq, some (r, some pq))
    | (w, queued, aq, none) => .ok (w, queued, aq, none)

/-! ## One-shot -/

structure OneShotState where
  keys : List Coord := []
  releasedKeys : List Coord := []
  otherPressedKeys : List Coord := []
  timeout : Nat := 0
  endConfig : OneShotEnd := .firstPress
  releaseOnNextTick : Bool := false
  pauseInputProcessingDelay : Nat := 0
  pauseInputProcessingTicks : Nat := 0
  ticksToIgnoreEvents : Nat := 0
  deriving Repr, Inhabited, DecidableEq

/-- `OneShotState::tick_osh` -/
def OneShotState.tick (o : OneShotState) : OneShotState × Option (List Coord) :=
  if o.keys.isEmpty then (o, none)
  else
    let o := { o with ticksToIgnoreEvents := o.ticksToIgnoreEvents - 1, timeout := o.timeout - 1 }
    if o.releaseOnNextTick || o.timeout == 0 then
      ({ o with releaseOnNextTick := false, timeout := 0, pauseInputProcessingTicks := 0,
                ticksToIgnoreEvents := 0, keys := [], otherPressedKeys := [], releasedKeys := [] },
       some o.releasedKeys)
    else (o, none)

/-- `Action::OneShotIgnoreEventsTicks` arm of `do_action` as repaired by fix PENDING-t5-1: the
countdown only runs (`tick_osh`) and is only cleared while a one-shot is active, so it is only
started then. -/
def OneShotState.armIgnore (o : OneShotState) (ticks : Nat) : OneShotState :=
  if o.keys.isEmpty then o else { o with ticksToIgnoreEvents := ticks }

/-- the pinned behaviour before that repair: armed unconditionally (kept for the counterexample
theorem `stale_pause_counter_counterexample` of Props/C06) -/
def OneShotState.armIgnorePinned (o : OneShotState) (ticks : Nat) : OneShotState :=
  { o with ticksToIgnoreEvents := ticks }

inductive OshKey | oneShotKey (c : Coord) | other (c : Coord)

/-- `OneShotState::handle_press` -/
def OneShotState.handlePress (o : OneShotState) (key : OshKey) : OneShotState × List Coord :=
  if o.keys.isEmpty || o.ticksToIgnoreEvents > 0 then (o, [])
  else
    match key with
    | .oneShotKey c =>
      let hit := (o.endConfig == .firstReleaseOrRepress || o.endConfig == .firstPressOrRepress) &&
        o.keys.contains c
      let o := if hit then { o with releaseOnNextTick := true } else o
      ({ o with releasedKeys := o.releasedKeys.filter (· != c) }, if hit then o.keys else [])
    | .other c =>
      if o.endConfig == .firstPress || o.endConfig == .firstPressOrRepress then
        ({ o with timeout := min o.pauseInputProcessingDelay o.timeout,
                  pauseInputProcessingTicks := o.pauseInputProcessingDelay }, o.keys)
      else
        ({ o with otherPressedKeys := (pushBackWrap ONE_SHOT_MAX_ACTIVE o.otherPressedKeys c).1 }, o.keys)

/-- `OneShotState::handle_release` -/
def OneShotState.handleRelease (o : OneShotState) (c : Coord) : OneShotState × Bool × Option Coord :=
  if o.keys.isEmpty then (o, true, none)
  else if !o.keys.contains c then
    if (o.endConfig == .firstRelease || o.endConfig == .firstReleaseOrRepress) &&
        o.otherPressedKeys.contains c then
      ({ o with releaseOnNextTick := true }, true, none)
    else (o, true, none)
  else
    let (rk, ov) := pushBackWrap ONE_SHOT_MAX_ACTIVE o.releasedKeys c
    ({ o with releasedKeys := rk }, false, ov)

/-! ## Sequences (macros) -/

/-- `SequenceState` -/
structure SeqState where
  curEvent : Option SeqEv := none
  delay : Nat := 0
  tapped : Option KeyCode := none
  remaining : List SeqEv
  deriving Repr, Inhabited, DecidableEq

/-- `TapDanceEagerState` -/
structure TDE where
  coord : Coord
  actions : List Action
  timeout : Nat
  origTimeout : Nat
  numTaps : Nat
  deriving Repr, Inhabited

def TDE.isExpired (t : TDE) : Bool := t.timeout == 0 || t.numTaps ≥ t.actions.length
/-- `tick_tde` -/
def TDE.tick (t : TDE) : TDE := { t with timeout := t.timeout - 1 }
/-- `incr_taps` -/
def TDE.incrTaps (t : TDE) : TDE := { t with numTaps := t.numTaps + 1, timeout := t.origTimeout }
/-- `set_expired` -/
def TDE.setExpired (t : TDE) : TDE := { t with timeout := 0 }
/-- the eager tap-dance step of `tick`: count down, forget the state once expired -/
def tdeTick (t : TDE) : Option TDE := if t.tick.isExpired then none else some t.tick

/-! ## The layout -/

/-- The static part: layer tables and the defsrc row. Positions not listed hold `Trans`
(layers) / `NoOp` (src_keys); the harness serialises every position a case can touch. -/
structure LCfg where
  layers : List (List (Coord × Action))
  srcKeys : List (Nat × Action)
  rows : Nat := 2
  cols : Nat := 767
  /-- behaviour of the pinned commit, before the `fix:` commits (used only by counterexample theorems) -/
  pinnedRepeat : Bool := false
  pinnedLayerStack : Bool := false
  deriving Repr, Inhabited

structure Layout where
  cfg : LCfg
  defaultLayer : Nat := 0
  states : List St := []
  waiting : Option Waiting := none
  extraWaiting : List Waiting := []
  tapDanceEager : Option TDE := none
  queue : List Queued := []
  oneshot : OneShotState := {}
  lptCoord : Coord := (0, 0)
  lptTapHoldTimeout : Nat := 0
  activeSequences : List SeqState := []
  actionQueue : ActionQueue := []
  rptAction : Option Action := none
  histKeys : List (KeyCode × Nat) := []
  histInputs : List (Coord × Nat) := []
  quickTapHoldTimeout : Bool := false
  transV2 : Bool := true
  delegateToFirstLayer : Bool := false
  deriving Repr, Inhabited

def LCfg.srcKey (c : LCfg) (y : Nat) : Action :=
  match c.srcKeys.find? (·.1 == y) with
  | some (_, a) => a
  | none => .noOp

def LCfg.layerAction (c : LCfg) (l : Nat) (co : Coord) : Except Crash Action :=
  match c.layers[l]? with
  | none => .error (.indexOOB "layers[layer]")
  | some tbl =>
    if co.1 ≥ c.rows then .error (.indexOOB "layers[l][x]")
    else if co.2 ≥ c.cols then .error (.indexOOB "layers[l][x][y]")
    else match tbl.find? (·.1 == co) with
      | some (_, a) => .ok a
      | none => .ok .trans

/-- `Layout::keycodes` -/
def Layout.keycodes (s : Layout) : List KeyCode := s.states.filterMap St.keycode

/-- `Layout::current_layer` -/
def Layout.currentLayer (s : Layout) : Nat :=
  match s.states.reverse.findSome? St.getLayer with
  | some l => l
  | none => s.defaultLayer

/-- `Layout::active_held_layers` (most recently activated first) -/
def Layout.activeHeldLayers (s : Layout) : List Nat := (s.states.filterMap St.getLayer).reverse

/-- `Layout::trans_resolution_layer_order` (heapless Vec of 12: `collect` panics beyond, `push` is
refused silently) -/
def Layout.transOrder (s : Layout) : Except Crash (List Nat) :=
  let cur := s.currentLayer
  if s.transV2 then
    -- before the `fix:` commit every held layer was collected and a 13th one panicked
    let held := if s.cfg.pinnedLayerStack then s.activeHeldLayers else s.activeHeldLayers.take MAX_ACTIVE_LAYERS
    if held.length > MAX_ACTIVE_LAYERS then .error .layerStackOverflow
    else
      let v := pushCap MAX_ACTIVE_LAYERS held s.defaultLayer
      let v := if s.delegateToFirstLayer && cur != 0 && s.defaultLayer != 0 then pushCap MAX_ACTIVE_LAYERS v 0 else v
      .ok v
  else
    let v := [cur]
    .ok (if s.delegateToFirstLayer && cur != 0 then v ++ [0] else v)

/-- `Layout::resolve_coord`: first non-`Trans` action down the stack; returns the rest of the stack. -/
def Layout.resolveCoord (s : Layout) (coord : Coord) : List Nat → Except Crash (Action × List Nat)
  | [] =>
    if coord.1 > s.cfg.rows then .error (.indexOOB "resolve_coord assert x")
    else if coord.2 > s.cfg.cols then .error (.indexOOB "resolve_coord assert y")
    else if coord.1 == 0 then
      if coord.2 ≥ s.cfg.cols then .error (.indexOOB "src_keys[y]") else .ok (s.cfg.srcKey coord.2, [])
    else .ok (.noOp, [])
  | l :: rest =>
    if coord.1 > s.cfg.rows then .error (.indexOOB "resolve_coord assert x")
    else if coord.2 > s.cfg.cols then .error (.indexOOB "resolve_coord assert y")
    else match s.cfg.layerAction l coord with
      | .error c => .error c
      | .ok .trans => s.resolveCoord coord rest
      | .ok a => .ok (a, rest)

def histPush {α} (h : List (α × Nat)) (x : α) : List (α × Nat) := pushFrontWrap HISTORICAL_EVENT_LEN h (x, 0)
def histTick {α} (h : List (α × Nat)) : List (α × Nat) := h.map fun (x, t) => (x, min (t + 1) U16_MAX)

def Layout.pushState (s : Layout) (st : St) : Layout := { s with states := pushCap STATES_CAP s.states st }

def Layout.oshPress (s : Layout) (k : OshKey) : Layout × List Coord :=
  let (o, cs) := s.oneshot.handlePress k
  ({ s with oneshot := o }, cs)

def updateCoord (s : Layout) (coord : Coord) : Layout :=
  if coord.1 == 0 then { s with lptCoord := coord } else s

/-- `State::keycode_in_coords` over all states -/
def keycodesInCoords (states : List St) (coords : List Coord) : List KeyCode :=
  states.filterMap fun st => match st with
    | .normalKey kc c _ => if coords.contains c then some kc else none
    | _ => none

/-- the action `rpt_multikey_key_buffer.get_ref()` yields -/
def rptBuffer (kcs : List KeyCode) : Action := .bufKeyCodes (kcs.take BUFCAP)

/-- Rebuilding the repeat buffer while the action being performed IS the buffer (`rpt-any` repeating a
one-shot-modified key while a one-shot is active): the Rust code clears the buffer, pushes the
one-shot keys `p`, then pushes `for &keycode in *v` — but `v` aliases the buffer it is writing, so
from position `|p|` on it reads what it has just written: the result is `p` repeated periodically,
`|p| + |old|` long (capacity 20). With no one-shot key (`p = []`) the old content is re-read intact. -/
def aliasRebuild (p old : List KeyCode) : List KeyCode :=
  let p := p.take BUFCAP
  if p.isEmpty then old.take BUFCAP
  else (List.range (min (p.length + old.length) BUFCAP)).map fun j => p[j % p.length]!

def switchEnv (s : Layout) (order : List Nat) : Switch.Env :=
  { activeKeys := s.states.filterMap St.keycode, activeCoords := s.states.filterMap St.coord,
    histKeys := s.histKeys, histCoords := s.histInputs, layers := order,
    defaultLayer := s.defaultLayer % 65536 }

/-- the cases of a `switch` whose action is yielded by `SwitchActions::next`, in order -/
def switchActions (eval : List Nat → Except Switch.Crash Bool) :
    List (List Nat × Action × Bool) → Except Switch.Crash (List Action)
  | [] => .ok []
  | (ops, a, brk) :: rest =>
    match eval ops with
    | .error c => .error c
    | .ok true => if brk then .ok [a] else
        match switchActions eval rest with
        | .error c => .error c
        | .ok l => .ok (a :: l)
    | .ok false => switchActions eval rest

/-- release by coordinate in `dequeue`: `retain(|s| !s.clear_on_next_release() && s.release(..).is_some())` -/
def releaseStates (clearFlagged : Bool) (c : Coord) : List St → CustomEv → List St × CustomEv
  | [], cu => ([], cu)
  | st :: rest, cu =>
    if clearFlagged && st.clearOnNextRelease then releaseStates clearFlagged c rest cu
    else
      let (r, cu) := st.release c cu
      let (rest', cu) := releaseStates clearFlagged c rest cu
      match r with
      | some st' => (st' :: rest', cu)
      | none => (rest', cu)

/-- the waiting state at index `idx` (−1 = `waiting`, ≥ 0 = `extra_waiting[idx]`) and the layout
with it removed; `Int`-free: `none` stands for −1 -/
def Layout.clearWaiting (s : Layout) : Layout := { s with waiting := none }

def takeWaiting (s : Layout) (idx : Option Nat) : Option (Waiting × Layout) :=
  match idx with
  | none => s.waiting.map fun w => (w, s.clearWaiting)
  | some i => (s.extraWaiting[i]?).map fun w => (w, { s with extraWaiting := s.extraWaiting.eraseIdx i })

def waitingDelay (w : Waiting) : Nat :=
  match w.config with
  | .holdTap _ | .chord _ => min (w.delay + w.ticks) U16_MAX  -- `w.delay.saturating_add(w.ticks)`
  | .tapDance .. => 0

/-! ### The arms of `do_action` that do not recurse, as separate functions (so that lemmas can be
stated per arm) -/

/-- top of `do_action` after `Trans` resolution: reset the quick-tap tracker for another key and
drop the keys flagged clear-on-next-action -/
def prelude (s : Layout) (coord : Coord) : Layout :=
  let s := if s.lptCoord != coord then { s with lptTapHoldTimeout := 0 } else s
  { s with states := s.states.filter (fun st => !st.clearOnNextAction) }

/-- `if !is_oneshot { self.oneshot.handle_press(Other(coord)) }` -/
def oshOther (s : Layout) (isOneshot : Bool) (coord : Coord) : Layout × List Coord :=
  if !isOneshot then s.oshPress (.other coord) else (s, [])

def armNoOp (s : Layout) (action : Action) (coord : Coord) (isOneshot : Bool) : Layout :=
  let s := if !isOneshot && coord != (0, 0) then (s.oshPress (.other coord)).1 else s
  { s with rptAction := some action }

def armKeyCode (s : Layout) (action : Action) (kc : KeyCode) (coord : Coord) (isOneshot : Bool) : Layout :=
  let s := updateCoord s coord
  let s := { s with histKeys := histPush s.histKeys kc }
  let s := s.pushState (.normalKey kc coord 0)
  let (s, oc) := oshOther s isOneshot coord
  if oc.isEmpty then { s with rptAction := some action }
  else { s with rptAction := some (rptBuffer (keycodesInCoords s.states oc ++ [kc])) }

def pushKeyCodes (s : Layout) (kcs : List KeyCode) (coord : Coord) (flags : Nat) : Layout :=
  kcs.foldl (fun s kc =>
    ({ s with histKeys := histPush s.histKeys kc } : Layout).pushState (.normalKey kc coord flags)) s

def armMultipleKeyCodes (s : Layout) (action : Action) (kcs : List KeyCode) (coord : Coord) (isOneshot : Bool) : Layout :=
  let s := updateCoord s coord
  let s := pushKeyCodes s kcs coord (if isOneshot then 0 else NORMAL_KEY_FLAG_CLEAR_ON_NEXT_ACTION)
  let (s, oc) := oshOther s isOneshot coord
  if oc.isEmpty then { s with rptAction := some action }
  else { s with rptAction := some (rptBuffer (keycodesInCoords s.states oc ++ kcs)) }

/-- the `MultipleKeyCodes` arm when the slice is the repeat buffer itself -/
def armBufKeyCodes (s : Layout) (action : Action) (kcs : List KeyCode) (coord : Coord) (isOneshot : Bool) : Layout :=
  let s := updateCoord s coord
  let s := pushKeyCodes s kcs coord (if isOneshot then 0 else NORMAL_KEY_FLAG_CLEAR_ON_NEXT_ACTION)
  let (s, oc) := oshOther s isOneshot coord
  if oc.isEmpty then { s with rptAction := some action }
  else { s with rptAction := some (.bufKeyCodes (aliasRebuild (keycodesInCoords s.states oc) kcs)) }

def armLayer (s : Layout) (value : Nat) (coord : Coord) (isOneshot : Bool) : Layout :=
  let s := updateCoord s coord
  let s := s.pushState (.layerModifier value coord)
  (oshOther s isOneshot coord).1

def armDefaultLayer (s : Layout) (value : Nat) (coord : Coord) (isOneshot : Bool) : Layout :=
  let s := updateCoord s coord
  let s := if value < s.cfg.layers.length then { s with defaultLayer := value } else s
  (oshOther s isOneshot coord).1

def armReleaseState (s : Layout) (action : Action) (rs : RelState) (coord : Coord) (isOneshot : Bool) : Layout :=
  let s := { s with states := s.states.filter (fun st => st.releaseState rs) }
  let s := (oshOther s isOneshot coord).1
  { s with rptAction := some action }

def armCustom (s : Layout) (action : Action) (id : Nat) (coord : Coord) (isOneshot : Bool) : Layout × CustomEv :=
  let s := updateCoord s coord
  let s := (oshOther s isOneshot coord).1
  let s := { s with rptAction := some action }
  if s.states.length < STATES_CAP then (s.pushState (.custom id coord), .press id) else (s, .noEvent)

/-- keys a sequence would still release: the tapped one, then every remaining `Release`, in order -/
def seqOwedKeys (q : SeqState) : List KeyCode :=
  q.tapped.toList ++ q.remaining.filterMap (fun e => match e with | .release k => some k | _ => none)

/-- the `if let Some(seq) = evicted { … }` part of `Layout::start_sequence`: every key the dropped
sequence would still have released is released now -/
def releaseEvicted (states : List St) (q : SeqState) : List St :=
  (seqOwedKeys q).foldl (fun st k => st.filter (·.seqRelease k)) states

/-- `Layout::start_sequence`: the sequence is pushed on the ring of 4; a sequence the full ring
drops for it can no longer release what it pressed, so that is released at once -/
def startSequence (s : Layout) (events : List SeqEv) : Layout :=
  let r := pushBackWrap ACTIVE_SEQ_CAP s.activeSequences { remaining := events }
  { s with activeSequences := r.1,
           states := match r.2 with
             | some q => releaseEvicted s.states q
             | none => s.states }

def armSequence (s : Layout) (action : Action) (events : List SeqEv) (coord : Coord) (isOneshot : Bool)
    (repeatable : Bool) : Layout :=
  let s := startSequence s events
  let s := if repeatable then s.pushState (.repeatingSequence events coord) else s
  let s := (oshOther s isOneshot coord).1
  { s with rptAction := some action }

/-- the `Sequence` / `RepeatableSequence` arms of the pinned commit, before the `fix:` commit that
introduced `start_sequence`: the sequence the full ring drops is forgotten together with the keys it
holds (used only by the counterexample theorem of C08) -/
def armSequencePinned (s : Layout) (action : Action) (events : List SeqEv) (coord : Coord) (isOneshot : Bool)
    (repeatable : Bool) : Layout :=
  let s := { s with activeSequences := (pushBackWrap ACTIVE_SEQ_CAP s.activeSequences { remaining := events }).1 }
  let s := if repeatable then s.pushState (.repeatingSequence events coord) else s
  let s := (oshOther s isOneshot coord).1
  { s with rptAction := some action }

def armCancelSequences (s : Layout) (action : Action) (coord : Coord) (isOneshot : Bool) : Layout :=
  let s := { s with activeSequences := [], states := s.states.filter (fun st => !(match st with | .fakeKey _ => true | _ => false)) }
  let s := (oshOther s isOneshot coord).1
  { s with rptAction := some action }

/-- the new-waiting-state branch of the `HoldTap` arm -/
def armHoldTapWait (s : Layout) (coord : Coord) (delay timeout : Nat) (hold tap timeoutAction : Action)
    (config : HTConfig) (tapHoldInterval : Nat) (layerStack : List Nat) : Layout :=
  let w : Waiting :=
    { coord, timeout := if s.quickTapHoldTimeout then timeout - delay else timeout,
      delay := if s.quickTapHoldTimeout then 0 else delay, ticks := 0, hold, tap, timeoutAction,
      config := .holdTap config, layerStack, prevQueueLen := 255 }
  let s := match s.waiting with
    | some _ => { s with extraWaiting := (pushBackWrap EXTRA_WAITING_LEN s.extraWaiting w).1 }
    | none => { s with waiting := some w }
  let s := { s with lptTapHoldTimeout := tapHoldInterval }
  updateCoord s coord

/-- a fresh waiting state for lazy tap-dance / chords -/
def armWait (s : Layout) (coord : Coord) (delay timeout : Nat) (config : WCfg) (layerStack : List Nat) : Layout :=
  let s := updateCoord s coord
  let w : Waiting :=
    { coord, timeout, delay, ticks := 0, hold := .noOp, tap := .noOp, timeoutAction := .noOp,
      config, layerStack, prevQueueLen := 255 }
  { s with waiting := some w }

/-- the bookkeeping of the eager `TapDance` arm before its first action runs: a fresh eager state
unless one for the same coordinate exists -/
def armEager (s : Layout) (coord : Coord) (actions : List Action) (timeout : Nat) : Layout :=
  let s := updateCoord s coord
  let fresh : TDE := { coord, actions, timeout, origTimeout := timeout, numTaps := 1 }
  match s.tapDanceEager with
  | none => { s with tapDanceEager := some fresh }
  | some tde => if tde.coord != coord then { s with tapDanceEager := some fresh } else s

/-- one-shot bookkeeping after the inner action of the `OneShot` arm; returns the overflowing key -/
def armOneShotPost (s : Layout) (action : Action) (coord : Coord) (timeout : Nat) (endConfig : OneShotEnd) :
    Layout × Option Coord :=
  let s := { s with rptAction := some action }
  let s := (s.oshPress (.oneShotKey coord)).1
  let s := { s with oneshot := { s.oneshot with timeout := timeout, endConfig := endConfig } }
  let (ks, ov) := pushBackWrap ONE_SHOT_MAX_ACTIVE s.oneshot.keys coord
  ({ s with oneshot := { s.oneshot with keys := ks } }, ov)

def forkHit (s : Layout) (triggers : List KeyCode) : Bool :=
  s.states.any fun st => match st with
    | .normalKey kc _ _ | .fakeKey kc => triggers.contains kc
    | _ => false

/-- bookkeeping of `waiting_into_hold` before the hold action runs: the quick-tap tracker is reset
if this is the last pressed key, and input processing pauses for the rapid-event delay -/
def holdPrep (s : Layout) (w : Waiting) : Layout :=
  let s := if w.coord == s.lptCoord then { s with lptTapHoldTimeout := 0 } else s
  { s with oneshot := { s.oneshot with pauseInputProcessingTicks := s.oneshot.pauseInputProcessingDelay } }

/-- bookkeeping of `waiting_into_timeout` before the timeout action runs -/
def timeoutPrep (s : Layout) (w : Waiting) : Layout :=
  if w.coord == s.lptCoord then { s with lptTapHoldTimeout := 0 } else s

/-- after the tap action(s): input processing pauses for the rapid-event delay -/
def tapPost (s : Layout) : Layout :=
  { s with oneshot := { s.oneshot with pauseInputProcessingTicks := s.oneshot.pauseInputProcessingDelay } }

mutual
  /-- `Layout::do_action` -/
  def doAction : Nat → Layout → Action → Coord → Nat → Bool → List Nat → Except Crash (Layout × CustomEv)
    | 0, _, _, _, _, _, _ => .error .fuelOut
    | fuel + 1, s, action, coord, delay, isOneshot, layerStack =>
      match (match action with
        | .trans => s.resolveCoord coord layerStack
        | a => .ok (a, layerStack)) with
      | .error c => .error c
      | .ok (action, layerStack) => dispatch fuel (prelude s coord) action coord delay isOneshot layerStack

  /-- the `match action` of `do_action`, after `Trans` resolution and the prelude -/
  def dispatch : Nat → Layout → Action → Coord → Nat → Bool → List Nat → Except Crash (Layout × CustomEv)
    | 0, _, _, _, _, _, _ => .error .fuelOut
    | fuel + 1, s, action, coord, delay, isOneshot, layerStack =>
      match action with
      | .noOp => .ok (armNoOp s action coord isOneshot, .noEvent)
      | .src =>
        if coord.2 ≥ s.cfg.cols then .error (.indexOOB "src_keys[coord.1]") else
        match doAction fuel s (s.cfg.srcKey coord.2) coord delay isOneshot [] with
        | .error c => .error c
        | .ok r => .ok (r.1, .noEvent)
      | .trans => .error .transUnresolved
      | .repeat =>
        match s.rptAction with
        | some ac =>
          if s.cfg.pinnedRepeat then
            -- before the `fix:` commit the saved action stayed in place while it ran
            match doAction fuel s ac coord delay isOneshot [] with
            | .error c => .error c
            | .ok r => .ok (r.1, .noEvent)
          else
            match doAction fuel { s with rptAction := none } ac coord delay isOneshot [] with
            | .error c => .error c
            | .ok r => .ok (if r.1.rptAction.isNone then { r.1 with rptAction := some ac } else r.1, .noEvent)
        | none => .ok (s, .noEvent)
      | .holdTap timeout hold tap timeoutAction config tapHoldInterval =>
        if tapHoldInterval == 0 || coord != s.lptCoord || s.lptTapHoldTimeout == 0 then
          if layerStack.length > MAX_ACTIVE_LAYERS then .error .layerStackOverflow else
          .ok (armHoldTapWait s coord delay timeout hold tap timeoutAction config tapHoldInterval layerStack, .noEvent)
        else
          let s := { s with lptTapHoldTimeout := 0 }
          match doAction fuel s tap coord delay isOneshot layerStack with
          | .error c => .error c
          | .ok (s, cu) => .ok (updateCoord s coord, CustomEv.noEvent.update cu)
      | .oneShot inner timeout endConfig =>
        let s := updateCoord s coord
        match doAction fuel s inner coord delay true [] with
        | .error c => .error c
        | .ok (s, cu) =>
          match armOneShotPost s action coord timeout endConfig with
          | (s, some c) =>
            match event fuel s (.release c) with
            | .error e => .error e
            | .ok s => .ok (s, cu)
          | (s, none) => .ok (s, cu)
      | .oneShotIgnoreEventsTicks ticks =>
        let s := updateCoord s coord
        .ok ({ s with rptAction := some action, oneshot := s.oneshot.armIgnore ticks }, .noEvent)
      | .tapDance actions timeout eager =>
        if !eager then
          if layerStack.length > MAX_ACTIVE_LAYERS then .error .layerStackOverflow else
          .ok (armWait s coord delay timeout (.tapDance actions timeout 1) layerStack, .noEvent)
        else
          let s := armEager s coord actions timeout
          match actions[0]? with
          | none => .error (.indexOOB "td.actions[0]")
          | some a0 =>
            match doAction fuel s a0 coord delay false layerStack with
            | .error c => .error c
            | .ok r => .ok (r.1, .noEvent)
      | .chords coords chs timeout =>
        if layerStack.length > MAX_ACTIVE_LAYERS then .error .layerStackOverflow else
        .ok (armWait s coord delay timeout (.chord ⟨coords, chs, timeout⟩) layerStack, .noEvent)
      | .keyCode kc => .ok (armKeyCode s action kc coord isOneshot, .noEvent)
      | .multipleKeyCodes kcs => .ok (armMultipleKeyCodes s action kcs coord isOneshot, .noEvent)
      | .bufKeyCodes kcs => .ok (armBufKeyCodes s action kcs coord isOneshot, .noEvent)
      | .multipleActions acs =>
        let s := updateCoord s coord
        match doActions fuel s acs coord delay isOneshot layerStack .noEvent with
        | .error c => .error c
        | .ok (s, cu) => .ok ({ s with rptAction := some action }, cu)
      | .sequence events => .ok (armSequence s action events coord isOneshot false, .noEvent)
      | .repeatableSequence events => .ok (armSequence s action events coord isOneshot true, .noEvent)
      | .cancelSequences => .ok (armCancelSequences s action coord isOneshot, .noEvent)
      | .layer value => .ok (armLayer s value coord isOneshot, .noEvent)
      | .defaultLayer value => .ok (armDefaultLayer s value coord isOneshot, .noEvent)
      | .custom id => .ok (armCustom s action id coord isOneshot)
      | .releaseState rs => .ok (armReleaseState s action rs coord isOneshot, .noEvent)
      | .fork left right triggers =>
        match doAction fuel s (if forkHit s triggers then right else left) coord delay false layerStack with
        | .error c => .error c
        | .ok (s, cu) => .ok ({ s with rptAction := some action }, cu)
      | .switch cases =>
        match s.transOrder with
        | .error c => .error c
        | .ok order =>
          match switchActions (fun ops => Switch.evalOps ops (switchEnv s order)) cases with
          | .error c => .error (.switchCrash c)
          | .ok acs =>
            let aq := acs.foldl (fun aq a => (pushBackWrap ACTION_QUEUE_LEN aq (coord, 0, a)).1) s.actionQueue
            .ok ({ s with actionQueue := aq }, .noEvent)

  /-- the loop of the `MultipleActions` arm -/
  def doActions : Nat → Layout → List Action → Coord → Nat → Bool → List Nat → CustomEv →
      Except Crash (Layout × CustomEv)
    | 0, _, _, _, _, _, _, _ => .error .fuelOut
    | _ + 1, s, [], _, _, _, _, cu => .ok (s, cu)
    | fuel + 1, s, a :: rest, coord, delay, isOneshot, layerStack, cu =>
      match doAction fuel s a coord delay isOneshot layerStack with
      | .error c => .error c
      | .ok (s, c1) => doActions fuel s rest coord delay isOneshot layerStack (cu.update c1)

  /-- `Layout::waiting_into_hold` (the custom event is dropped by the only caller that matters
  inside this mutual block, `event`) -/
  def waitingIntoHold : Nat → Layout → Option Nat → Except Crash (Layout × CustomEv)
    | 0, _, _ => .error .fuelOut
    | fuel + 1, s, idx =>
      match takeWaiting s idx with
      | none => .ok (s, .noEvent)
      | some (w, s) => doAction fuel (holdPrep s w) w.hold w.coord (waitingDelay w) false w.layerStack

  /-- the `for i in -1..EXTRA_WAITING_LEN` loop of `event` on queue overflow -/
  def flushWaitings : Nat → Layout → List (Option Nat) → Except Crash Layout
    | 0, _, _ => .error .fuelOut
    | _ + 1, s, [] => .ok s
    | fuel + 1, s, i :: rest => do
      let (s, _) ← waitingIntoHold fuel s i
      flushWaitings fuel s rest

  /-- `Layout::dequeue` -/
  def dequeue : Nat → Layout → Queued → Except Crash (Layout × CustomEv)
    | 0, _, _ => .error .fuelOut
    | fuel + 1, s, q =>
      match q.ev with
      | .release c =>
        let (o, doRelease, overflow) := s.oneshot.handleRelease c
        let s := { s with oneshot := o }
        let (states, cu) := if doRelease then releaseStates true c s.states .noEvent else (s.states, .noEvent)
        let (states, cu) := match overflow with
          | some c2 => releaseStates false c2 states cu
          | none => (states, cu)
        .ok ({ s with states := states }, cu)
      | .press c => do
        let order ← s.transOrder
        match s.tapDanceEager with
        | some tde =>
          if c == s.lptCoord && !tde.isExpired then
            match tde.actions[tde.numTaps]? with
            | none => throw (.indexOOB "tde.actions[num_taps]")
            | some a =>
              let (s, cu) ← doAction fuel s a c q.since false (order.drop 1)
              pure ({ s with tapDanceEager := s.tapDanceEager.map TDE.incrTaps }, cu)
          else
            let s := if c.1 == 0 then { s with tapDanceEager := some tde.setExpired } else s
            doAction fuel s .trans c q.since false order
        | none => doAction fuel s .trans c q.since false order

  /-- `Layout::event` (without chords v2) -/
  def event : Nat → Layout → Ev → Except Crash Layout
    | 0, _, _ => .error .fuelOut
    | fuel + 1, s, ev => do
      let s := match ev with
        | .press c => { s with histInputs := histPush s.histInputs c }
        | .release _ => s
      let (q, ov) := pushBackWrap QUEUE_SIZE s.queue ⟨ev, 0⟩
      let s := { s with queue := q }
      match ov with
      | none => pure s
      | some overflow =>
        let s ← flushWaitings fuel s (none :: (List.range EXTRA_WAITING_LEN).map some)
        let (s, _) ← dequeue fuel s overflow
        pure s
end

/-- recursion budget: far above any finite nesting the parser can produce, far below what the
driver needs to stay fast; exhausting it stands for the stack overflow of unbounded recursion -/
def FUEL : Nat := 4000
theorem FUEL_succ : FUEL = 3999 + 1 := rfl

def simpleAction (a : Action) : Bool :=
  match a with
  | .keyCode _ | .multipleKeyCodes _ | .oneShot .. | .layer _ => true
  | _ => false

/-- `for other_coord in pq { self.do_action(ac, other_coord, ..) }` -/
def repeatForCoords (ac : Action) (delay : Nat) (ls : List Nat) : List Coord → Layout → Except Crash Layout
  | [], s => .ok s
  | c :: rest, s =>
    match doAction FUEL s ac c delay false ls with
    | .error e => .error e
    | .ok (s, _) => repeatForCoords ac delay ls rest s

/-- the chord-participants part of `waiting_into_tap` for a `MultipleActions` tap action -/
def repeatSimpleActions (acs : List Action) (pq : List Coord) (delay : Nat) (ls : List Nat) : List Action → Layout → Except Crash Layout
  | [], s => .ok s
  | ac :: rest, s =>
    if simpleAction ac then
      match repeatForCoords ac delay ls pq s with
      | .error e => .error e
      | .ok s => repeatSimpleActions acs pq delay ls rest s
    else repeatSimpleActions acs pq delay ls rest s

/-- the `if let Some(pq) = pq { match tap { … } }` part of `waiting_into_tap`: a chord's action of a
simple kind is performed again on every coordinate of the pressed queue, so that it stays active
while any participating key is held -/
def chordRepeat (tap : Action) (pq : List Coord) (delay : Nat) (ls : List Nat) (s : Layout) : Except Crash Layout :=
  if simpleAction tap then repeatForCoords tap delay ls pq s
  else match tap with
    | .multipleActions acs => repeatSimpleActions acs pq delay ls acs s
    | _ => .ok s

/-- `Layout::waiting_into_tap` -/
def waitingIntoTap (s : Layout) (pq : Option (List Coord)) (idx : Option Nat) : Except Crash (Layout × CustomEv) :=
  match takeWaiting s idx with
  | none => .ok (s, .noEvent)
  | some (w, s) =>
    match doAction FUEL s w.tap w.coord (waitingDelay w) false w.layerStack with
    | .error e => .error e
    | .ok (s, ret) =>
      match pq with
      | none => .ok (tapPost s, ret)
      | some pq =>
        match chordRepeat w.tap pq (waitingDelay w) w.layerStack s with
        | .error e => .error e
        | .ok s => .ok (tapPost s, ret)

/-- `Layout::waiting_into_timeout` -/
def waitingIntoTimeout (s : Layout) (idx : Option Nat) : Except Crash (Layout × CustomEv) :=
  match takeWaiting s idx with
  | none => .ok (s, .noEvent)
  | some (w, s) => doAction FUEL (timeoutPrep s w) w.timeoutAction w.coord (waitingDelay w) false w.layerStack

def applyWaitingAction (s : Layout) (r : Option (WAct × Option (List Coord))) (idx : Option Nat)
    (dflt : CustomEv) : Except Crash (Layout × CustomEv) :=
  match r with
  | some (.hold, _) => waitingIntoHold FUEL s idx
  | some (.tap, pq) => waitingIntoTap s pq idx
  | some (.timeout, _) => waitingIntoTimeout s idx
  | some (.noOp, _) => .ok ({ s with waiting := none }, .noEvent)     -- drop_waiting
  | none => .ok (s, dflt)

/-- one sequence of `process_sequences` advanced by one tick -/
def stepSequence (s : Layout) (seq : SeqState) : Layout × SeqState :=
  if seq.delay > 0 then (s, { seq with delay := seq.delay - 1 })
  else match seq.tapped with
    | some kc => ({ s with states := s.states.filter (·.seqRelease kc) }, { seq with tapped := none })
    | none =>
      let seq := match seq.remaining with
        | e :: tail => { seq with curEvent := some e, remaining := tail }
        | [] => seq
      match seq.curEvent with
      | some .complete => (s, { seq with remaining := [] })
      | some (.press kc) =>
        let s := s.pushState (.fakeKey kc)
        let s := { s with histKeys := histPush s.histKeys kc }
        ((s.oshPress (.other (0, 0))).1, seq)
      | some (.tap kc) =>
        let s := s.pushState (.fakeKey kc)
        let s := { s with histKeys := histPush s.histKeys kc }
        ((s.oshPress (.other (0, 0))).1, { seq with tapped := some kc })
      | some (.release kc) =>
        let s := { s with oneshot := (s.oneshot.handleRelease (0, 0)).1 }
        ({ s with states := s.states.filter (·.seqRelease kc) }, seq)
      | some (.delay d) => (s, if d > 0 then { seq with delay := d - 1 } else seq)
      | some (.custom id) => (s.pushState (.seqCustomPending id), seq)
      | _ => (s, seq)

/-- `Layout::process_sequences` -/
def processSequences (s : Layout) : Layout :=
  let rec go : Nat → Layout → Layout
    | 0, s => s
    | n + 1, s =>
      match s.activeSequences with
      | [] => s
      | seq :: rest =>
        let s := { s with activeSequences := rest }
        let (s, seq) := stepSequence s seq
        let s := if !seq.remaining.isEmpty then
            { s with activeSequences := (pushBackWrap ACTIVE_SEQ_CAP s.activeSequences seq).1 } else s
        go n s
  let s := go s.activeSequences.length s
  if s.activeSequences.isEmpty then
    match s.states.reverse.findSome? (fun st => match st with | .repeatingSequence evs _ => some evs | _ => none) with
    | some evs => { s with activeSequences := [{ remaining := evs }] }
    | none => s
  else s

/-- the scan of `process_extra_waitings`: the first extra waiting state that decides, with all
earlier ones ticked -/
def tickExtraWaitings : List Waiting → List Queued → ActionQueue → List Waiting →
    Except Crash (List Waiting × List Queued × ActionQueue × Option (Nat × (WAct × Option (List Coord))))
  | [], q, aq, done => .ok (done.reverse, q, aq, none)
  | w :: rest, q, aq, done =>
    match tickWt w q aq with
    | .error c => .error c
    | .ok (w, q, aq, none) => tickExtraWaitings rest q aq (w :: done)
    | .ok (w, q, aq, some r) => .ok (done.reverse ++ w :: rest, q, aq, some (done.length, r))

/-- `Layout::process_extra_waitings` -/
def processExtraWaitings (s : Layout) (cur : CustomEv) : Except Crash (Layout × CustomEv) :=
  if cur != .noEvent then .ok (s, cur) else
  match tickExtraWaitings s.extraWaiting s.queue s.actionQueue [] with
  | .error c => .error c
  | .ok (ews, q, aq, r) =>
    let s := { s with extraWaiting := ews, queue := q, actionQueue := aq }
    match r with
    | none => .ok (s, cur)
    | some (i, wa) => applyWaitingAction s (some wa) (some i) cur

/-- `Layout::process_sequence_custom` -/
def processSequenceCustom (s : Layout) (cur : CustomEv) : Layout × CustomEv :=
  if s.states.isEmpty || cur != .noEvent then (s, cur) else
  let states := s.states.filter (· != .tombstone)
  let rec go : List St → List St × CustomEv
    | [] => ([], cur)
    | .seqCustomPending id :: rest => (.seqCustomActive id :: rest, cur.update (.press id))
    | .seqCustomActive id :: rest => (.tombstone :: rest, cur.update (.release id))
    | st :: rest => let (r, c) := go rest; (st :: r, c)
  let (states, cu) := go states
  ({ s with states := states }, cu)

/-- first part of `tick`: age the queue, tick the quick-tap tracker and the eager tap-dance, advance
sequences, age the histories -/
def tickPre (s : Layout) : Layout :=
  let s := { s with queue := s.queue.map fun (q : Queued) => { q with since := min (q.since + 1) U16_MAX } }
  let s := { s with lptTapHoldTimeout := s.lptTapHoldTimeout - 1 }
  let s := match s.tapDanceEager with
    | some tde => { s with tapDanceEager := tdeTick tde }
    | none => s
  let s := processSequences s
  { s with histKeys := histTick s.histKeys, histInputs := histTick s.histInputs }

/-- `for key in released_keys { custom.update(self.dequeue(Release key)) }` -/
def releaseOneshotKeys : List Coord → Layout → CustomEv → Except Crash (Layout × CustomEv)
  | [], s, cu => .ok (s, cu)
  | k :: rest, s, cu =>
    match dequeue FUEL s ⟨.release k, 0⟩ with
    | .error c => .error c
    | .ok (s, c1) => releaseOneshotKeys rest s (cu.update c1)

/-- second part: one-shot expiry -/
def tickOneshot (s : Layout) : Except Crash (Layout × CustomEv) :=
  match s.oneshot.tick with
  | (o, some keys) => releaseOneshotKeys keys { s with oneshot := o } .noEvent
  | (o, none) => .ok ({ s with oneshot := o }, .noEvent)

def Layout.setQueue (s : Layout) (q : List Queued) : Layout := { s with queue := q }

/-- third part: the waiting state decides, or one queued event is processed -/
def tickMain (s : Layout) : Except Crash (Layout × CustomEv) :=
  match s.waiting with
  | some w =>
    match tickWt w s.queue s.actionQueue with
    | .error c => .error c
    | .ok (w, q, aq, r) =>
      applyWaitingAction { s with waiting := some w, queue := q, actionQueue := aq } r none .noEvent
  | none =>
    if s.extraWaiting.isEmpty then
      if s.oneshot.pauseInputProcessingTicks > 0 then
        .ok ({ s with oneshot := { s.oneshot with pauseInputProcessingTicks := s.oneshot.pauseInputProcessingTicks - 1 } }, .noEvent)
      else match s.queue with
        | q :: rest => dequeue FUEL (s.setQueue rest) q
        | [] => .ok (s, .noEvent)
    else .ok (s, .noEvent)

/-- `Layout::tick` (without chords v2) -/
def tick (s : Layout) : Except Crash (Layout × CustomEv) :=
  match s.actionQueue with
  | (coord, delay, action) :: rest =>
    let s := { s with actionQueue := rest }
    match s.transOrder with
    | .error c => .error c
    | .ok order => doAction FUEL s action coord delay false (order.drop 1)
  | [] =>
    match tickOneshot (tickPre s) with
    | .error c => .error c
    | .ok (s, c1) =>
      match tickMain s with
      | .error c => .error c
      | .ok (s, c2) =>
        match processExtraWaitings s (c1.update c2) with
        | .error c => .error c
        | .ok (s, c3) => .ok (processSequenceCustom s c3)

/-- `Layout::event` at top level -/
def Layout.event (s : Layout) (ev : Ev) : Except Crash Layout := KVerif.L.event FUEL s ev

end KVerif.L
