/-
Model of the macro-cancellation glue of src/kanata/mod.rs, as far as C08 needs it:

* `CustomAction::CancelMacroOnRelease` (release arm of `handle_keystate_changes`),
* `CustomAction::CancelMacroOnNextPress(duration)` (press arm: sets
  `macro_on_press_cancel_duration`), the countdown in `tick_states`, and the cancellation at the
  top of the `KeyValue::Press` arm of `handle_input_event`,

all of which do `layout.active_sequences.clear()` followed by
`layout.states.retain(|s| !matches!(s, State::FakeKey{..} | State::RepeatingSequence{..}))`.

The rest of `handle_keystate_changes` (key diffing, overrides, unmod, the other custom actions)
does not touch `active_sequences`, and on configurations of plain keys and macros it does not touch
`layout.states` either; it is not modelled here. `KState.tick` returns the key-code list the
layout shows right after `Layout::tick`, which is what `handle_keystate_changes` hands to the OS
diffing (`cur_keys`) *before* it processes the custom event of that tick.
-/
import KVerif.Model.Layout
import KVerif.Model.MacroExpand
namespace KVerif.Macro
open KVerif.L

def isFakeOrRepeating : St → Bool
  | .fakeKey _ | .repeatingSequence _ _ => true
  | _ => false

/-- `layout.active_sequences.clear(); layout.states.retain(|s| !matches!(s, FakeKey | RepeatingSequence))` -/
def cancelAll (l : Layout) : Layout :=
  { l with activeSequences := [], states := l.states.filter (fun st => !isFakeOrRepeating st) }

/-- the slice of `Kanata` that matters: the layout and `macro_on_press_cancel_duration` -/
structure KState where
  lay : Layout
  cancelDur : Nat := 0
  deriving Inhabited

/-- top of the `KeyValue::Press` arm of `handle_input_event` -/
def KState.prePress (k : KState) : KState :=
  if k.cancelDur > 0 then { lay := cancelAll k.lay, cancelDur := 0 } else k

/-- `handle_input_event` for a press / a release of the physical key at `c` -/
def KState.press (k : KState) (c : Coord) : Except Crash KState :=
  let k := k.prePress
  match k.lay.event (.press c) with
  | .error e => .error e
  | .ok l => .ok { k with lay := l }

/-- `layout.event(e)` with nothing else (a release; any event of the bare layout) -/
def KState.rawEvent (k : KState) (e : Ev) : Except Crash KState :=
  match k.lay.event e with
  | .error e => .error e
  | .ok l => .ok { k with lay := l }

def KState.release (k : KState) (c : Coord) : Except Crash KState := k.rawEvent (.release c)

/-- the press arm (`CancelMacroOnNextPress`) and the release arm (`CancelMacroOnRelease`) of the
custom-action loops in `handle_keystate_changes`; `tbl id` is the custom action list named `id` -/
def customEffects (tbl : Nat → List CAct) (k : KState) : CustomEv → KState
  | .noEvent => k
  | .press id => (tbl id).foldl (fun k a => match a with
      | .cancelMacroOnNextPress d => { k with cancelDur := max k.cancelDur d }  -- fix PENDING-t5-3 (was `:= d`: the last one won)
      | _ => k) k
  | .release id => (tbl id).foldl (fun k a => match a with
      | .cancelMacroOnRelease => { lay := cancelAll k.lay, cancelDur := 0 }
      | _ => k) k

/-- one `tick_states`: `Layout::tick`, the key list of that tick, the custom actions, the countdown -/
def KState.tick (tbl : Nat → List CAct) (k : KState) : Except Crash (KState × List KeyCode) :=
  match L.tick k.lay with
  | .error e => .error e
  | .ok (l, ce) =>
    let k := customEffects tbl { k with lay := l } ce
    .ok ({ k with cancelDur := k.cancelDur - 1 }, l.keycodes)

end KVerif.Macro
