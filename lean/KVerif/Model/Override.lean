/-
Model of parser/src/cfg/key_override.rs (`mask_for_key`, `Override::try_new`, `get_mod_mask`,
`add_override_keys`, `add_removed_keys`, `Overrides::new`, `override_keys`, `update_keys`,
`OverrideStates`, `mark_overridden_nonmodkeys_for_eager_erasure`) and of the slice of
src/kanata/mod.rs (`handle_input_event`, `tick_states`, `handle_keystate_changes`) and
keyberon/src/layout.rs (`event`, `tick`, `dequeue`, `do_action` for plain key actions, `keycodes`)
through which an override reaches the OS.

Conventions.  A key is its `OsCode` value as a `Nat` (`KeyCode`↔`OsCode` conversion is the identity
on key identity — that is C11's subject).  `u8` masks are `Nat`s built with `|||`/`&&&`.
`HashMap<OsCode, Vec<Override>>` is an association list: the code only uses `get`, `entry` and
`is_empty`, so hash iteration order is unobservable.  The one reachable `expect` of the slice
(`get_mod_mask`) is the crash outcome `Crash.modOnly`.
-/
namespace KVerif.Override

inductive Crash
  | modOnly      -- `mask_for_key(osc).expect("mod only")` in `Override::get_mod_mask`
  deriving DecidableEq, Repr

/-- The four `bail!`/`ok_or_else` diagnostics of `Override::try_new`, in the order they are tested. -/
inductive NewErr
  | inNone | inMultiple | outNone | outMultiple
  deriving DecidableEq, Repr

/-- `mask_for_key`: `Some(1 << i)` for the eight modifiers, `None` otherwise. -/
def maskForKey (osc : Nat) : Option Nat :=
  if osc = 29 then some 1            -- KEY_LEFTCTRL   1 << 0
  else if osc = 42 then some 2       -- KEY_LEFTSHIFT  1 << 1
  else if osc = 56 then some 4       -- KEY_LEFTALT    1 << 2
  else if osc = 125 then some 8      -- KEY_LEFTMETA   1 << 3
  else if osc = 97 then some 16      -- KEY_RIGHTCTRL  1 << 4
  else if osc = 54 then some 32      -- KEY_RIGHTSHIFT 1 << 5
  else if osc = 100 then some 64     -- KEY_RIGHTALT   1 << 6
  else if osc = 126 then some 128    -- KEY_RIGHTMETA  1 << 7
  else none

/-- `mask_for_key(osc).is_some()`; `OsCode::is_modifier` is the same set (checked against the
generated tables in `Props/C13.lean`). -/
def isMod (osc : Nat) : Bool := (maskForKey osc).isSome

/-- `struct Override`. -/
structure Override where
  inKey : Nat            -- in_non_mod_osc
  outKey : Nat           -- out_non_mod_osc
  inMods : List Nat      -- in_mod_oscs
  outMods : List Nat     -- out_mod_oscs
  deriving DecidableEq, Repr

/-- `Override::try_new`. -/
def Override.tryNew (inOscs outOscs : List Nat) : Except NewErr Override :=
  match inOscs.filter (fun o => !isMod o) with
  | [] => .error .inNone
  | _ :: _ :: _ => .error .inMultiple
  | [i] =>
    match outOscs.filter (fun o => !isMod o) with
    | [] => .error .outNone
    | _ :: _ :: _ => .error .outMultiple
    | [o] => .ok { inKey := i, outKey := o, inMods := inOscs.filter isMod,
                   outMods := outOscs.filter isMod }

/-- loop of `Override::get_mod_mask` -/
def orMasks : List Nat → Nat → Except Crash Nat
  | [], mask => .ok mask
  | osc :: rest, mask =>
    match maskForKey osc with
    | some m => orMasks rest (mask ||| m)
    | none => .error .modOnly

/-- `Override::get_mod_mask`. -/
def Override.getModMask (o : Override) : Except Crash Nat := orMasks o.inMods 0

/-- `if !v.contains(&x) { v.push(x) }` -/
def pushUnique (l : List Nat) (x : Nat) : List Nat := if x ∈ l then l else l ++ [x]

/-- `Override::add_override_keys`. -/
def Override.addOverrideKeys (o : Override) (toAdd : List Nat) : List Nat :=
  pushUnique (o.outMods.foldl pushUnique toAdd) o.outKey

/-- `Override::add_removed_keys`. -/
def Override.addRemovedKeys (o : Override) (toRemove : List Nat) : List Nat :=
  pushUnique (o.inMods.foldl pushUnique toRemove) o.inKey

/-- `struct Overrides { overrides_by_osc }`. -/
structure Overrides where
  byOsc : List (Nat × List Override)
  deriving Repr

/-- `entry(o.in_non_mod_osc).and_modify(|v| v.push(o)).or_insert_with(|| vec![o])` -/
def insertOvr : List (Nat × List Override) → Override → List (Nat × List Override)
  | [], o => [(o.inKey, [o])]
  | (k, v) :: rest, o => if k = o.inKey then (k, v ++ [o]) :: rest else (k, v) :: insertOvr rest o

/-- `Overrides::new`. -/
def Overrides.new (os : List Override) : Overrides := ⟨os.foldl insertOvr []⟩

/-- `overrides_by_osc.get(&osc)` -/
def Overrides.get (t : Overrides) (osc : Nat) : Option (List Override) :=
  match t.byOsc.find? (fun e => e.1 == osc) with
  | some e => some e.2
  | none => none

def Overrides.isEmpty (t : Overrides) : Bool := t.byOsc.isEmpty

/-- `ovds.iter().filter(<closure with mutable cur_chord_size>).last()` of `update_keys`:
`cur` is `cur_chord_size`, `best` the last element that passed the filter so far.  The closure
(and with it `get_mod_mask`) runs on every element because `last` drains the iterator. -/
def selectLoop (activeMask : Nat) : List Override → Nat → Option Override →
    Except Crash (Option Override)
  | [], _, best => .ok best
  | ovd :: rest, cur, best =>
    match ovd.getModMask with
    | .error c => .error c
    | .ok mask =>
      if mask &&& activeMask = mask then
        let chordSize := ovd.inMods.length + 1
        if chordSize ≤ cur then selectLoop activeMask rest cur best
        else selectLoop activeMask rest chordSize (some ovd)
      else selectLoop activeMask rest cur best

/-- `struct OverrideStates`. -/
structure OverrideStates where
  modsPressed : Nat
  toRemove : List Nat     -- oscs_to_remove
  toAdd : List Nat        -- oscs_to_add
  deriving DecidableEq, Repr

/-- `OverrideStates::new` and the state after `cleanup`. -/
def OverrideStates.new : OverrideStates := ⟨0, [], []⟩

/-- `Overrides::update_keys`: returns the new `(oscs_to_add, oscs_to_remove)`. -/
def Overrides.updateKeys (t : Overrides) (activeOsc activeMask : Nat) (toAdd toRemove : List Nat) :
    Except Crash (List Nat × List Nat) :=
  match t.get activeOsc with
  | none => .ok (toAdd, toRemove)
  | some ovds =>
    match selectLoop activeMask ovds 0 none with
    | .error c => .error c
    | .ok none => .ok (toAdd, toRemove)
    | .ok (some ovd) => .ok (ovd.addOverrideKeys toAdd, ovd.addRemovedKeys toRemove)

/-- `OverrideStates::update`. -/
def OverrideStates.update (st : OverrideStates) (osc : Nat) (t : Overrides) :
    Except Crash OverrideStates :=
  match maskForKey osc with
  | some m => .ok { st with modsPressed := st.modsPressed ||| m }
  | none =>
    match t.updateKeys osc st.modsPressed st.toAdd st.toRemove with
    | .error c => .error c
    | .ok (a, r) => .ok { st with toAdd := a, toRemove := r }

/-- `for kc in kcs.iter().copied() { states.update(kc.into(), self) }` -/
def pass (t : Overrides) : List Nat → OverrideStates → Except Crash OverrideStates
  | [], st => .ok st
  | k :: ks, st =>
    match st.update k t with
    | .error c => .error c
    | .ok st' => pass t ks st'

/-- `Overrides::override_keys`: the new key list and the scratch state left behind (which
`mark_overridden_nonmodkeys_for_eager_erasure` and release-on-activation read afterwards). -/
def Overrides.overrideKeys (t : Overrides) (kcs : List Nat) (st : OverrideStates) :
    Except Crash (List Nat × OverrideStates) :=
  if t.isEmpty then .ok (kcs, st)
  else
    match pass t kcs OverrideStates.new with
    | .error c => .error c
    | .ok st' => .ok (kcs.filter (fun k => !(st'.toRemove.contains k)) ++ st'.toAdd, st')

/-! ### From the key list to the OS: the layout slice and `handle_keystate_changes` -/

def NKF_CLEAR_ON_NEXT_ACTION : Nat := 1
def NKF_CLEAR_ON_NEXT_RELEASE : Nat := 2
def QUEUE_SIZE : Nat := 32
def STATES_CAP : Nat := 64

/-- `State::NormalKey { keycode, coord: (0, coord), flags }` — the only state kind a configuration
of plain keys produces. -/
structure NKey where
  kc : Nat
  coord : Nat
  flags : Nat
  deriving DecidableEq, Repr

def NKey.clearOnNextAction (s : NKey) : Bool :=
  s.flags &&& NKF_CLEAR_ON_NEXT_ACTION == NKF_CLEAR_ON_NEXT_ACTION
def NKey.clearOnNextRelease (s : NKey) : Bool :=
  s.flags &&& NKF_CLEAR_ON_NEXT_RELEASE == NKF_CLEAR_ON_NEXT_RELEASE

/-- keyberon `Event::Press(0, k)` / `Event::Release(0, k)`. -/
inductive Ev
  | press (k : Nat)
  | release (k : Nat)
  deriving DecidableEq, Repr

/-- `Layout::dequeue` for a layout in which every key is mapped to itself (`Action::KeyCode`):
press = `do_action`: drop the states flagged clear-on-next-action, push a fresh `NormalKey`
(`let _ = states.push(..)`: silently refused at capacity); release = drop the states flagged
clear-on-next-release and the states of that coordinate. -/
def dequeue (states : List NKey) : Ev → List NKey
  | .press k =>
    let s := states.filter (fun s => !s.clearOnNextAction)
    if s.length < STATES_CAP then s ++ [⟨k, k, 0⟩] else s
  | .release k => states.filter (fun s => !s.clearOnNextRelease && s.coord != k)

/-- `mark_overridden_nonmodkeys_for_eager_erasure`. -/
def markEager (removed : List Nat) (states : List NKey) : List NKey :=
  states.map fun s =>
    if removed.any (fun r => !isMod r && r == s.kc) then
      { s with flags := s.flags ||| (NKF_CLEAR_ON_NEXT_ACTION ||| NKF_CLEAR_ON_NEXT_RELEASE) }
    else s

/-- the `override_release_on_activation` block of `handle_keystate_changes`. -/
def releaseOnActivation (removed : List Nat) (states : List NKey) : List NKey :=
  states.filter fun s => !(removed.any (fun r => !isMod r && r == s.kc))

/-- An OS key event written to `kbd_out`. -/
inductive OsEv
  | up (k : Nat)
  | down (k : Nat)
  deriving DecidableEq, Repr

/-- "Release keys that do not exist in the current state but exist in the previous state." -/
def emitReleases (prev cur : List Nat) : List OsEv :=
  (prev.filter (fun k => !cur.contains k)).map OsEv.up

/-- "Press keys that exist in the current state but are missing from the previous state."
`prev_keys` grows while the loop runs, which is what de-duplicates `cur_keys`. -/
def emitPresses : List Nat → List Nat → List OsEv
  | [], _ => []
  | k :: cur, prev =>
    if prev.contains k then emitPresses cur prev
    else OsEv.down k :: emitPresses cur (prev ++ [k])

structure Pipe where
  queue : List Ev            -- layout.queue
  states : List NKey         -- layout.states
  prev : List Nat            -- prev_keys
  ost : OverrideStates       -- override_states
  deriving Repr

def Pipe.init : Pipe := ⟨[], [], [], OverrideStates.new⟩

/-- `handle_input_event` → `Layout::event`: `queue.push_back`; the `Wrapping` deque hands back its
oldest element when full and `event` dequeues that one on the spot. -/
def Pipe.input (p : Pipe) (e : Ev) : Pipe :=
  if p.queue.length < QUEUE_SIZE then { p with queue := p.queue ++ [e] }
  else
    match p.queue with
    | o :: rest => { p with states := dequeue p.states o, queue := rest ++ [e] }
    | [] => { p with queue := [e] }

/-- One `tick_states`: `layout.tick()` (at most one queued event), `cur_keys = keycodes()`,
`override_keys`, eager-erasure marks, release-on-activation, the release loop, the press loop,
`prev_keys = cur_keys`.  Returns the new state and the OS events of this tick. -/
def Pipe.tick (t : Overrides) (roa : Bool) (p : Pipe) : Except Crash (Pipe × List OsEv) :=
  let (states, queue) := match p.queue with
    | [] => (p.states, [])
    | e :: rest => (dequeue p.states e, rest)
  let cur := states.map (·.kc)
  match t.overrideKeys cur p.ost with
  | .error c => .error c
  | .ok (cur', ost) =>
    let states := markEager ost.toRemove states
    let states := if roa then releaseOnActivation ost.toRemove states else states
    .ok ({ queue := queue, states := states, prev := cur', ost := ost },
         emitReleases p.prev cur' ++ emitPresses cur' p.prev)

/-- A step of a history: an input event, or one millisecond. -/
inductive Step
  | ev (e : Ev)
  | tick
  deriving DecidableEq, Repr

/-- Runs a history; returns the final state and the OS events with the tick number (1-based) in
which they were written. -/
def Pipe.run (t : Overrides) (roa : Bool) : List Step → Pipe → Nat →
    Except Crash (Pipe × List (Nat × OsEv))
  | [], p, _ => .ok (p, [])
  | .ev e :: rest, p, n => Pipe.run t roa rest (p.input e) n
  | .tick :: rest, p, n =>
    match p.tick t roa with
    | .error c => .error c
    | .ok (p', evs) =>
      match Pipe.run t roa rest p' (n + 1) with
      | .error c => .error c
      | .ok (pf, more) => .ok (pf, evs.map (fun e => (n + 1, e)) ++ more)

/-- What the OS holds down after an event. -/
def osApply (held : List Nat) : OsEv → List Nat
  | .down k => if k ∈ held then held else held ++ [k]
  | .up k => held.filter (· ≠ k)

/-! ## Specification: what the property statement says (order-free, at the level of key sets)

"While the keys kanata is about to hold down contain an override's input combination (its
modifiers plus its one non-modifier key), the OS sees the override's output keys in place of that
key and those modifiers; when several overrides of the same key match, the one with the most
modifiers wins; keys outside the combination are unaffected."  The statement does not say which of
two equally long matching overrides wins, nor how a modifier written twice is counted; in those
cases the specification is silent (`none`). -/

/-- the input combination: its modifiers plus its one non-modifier key -/
def Override.combo (o : Override) : List Nat := o.inMods ++ [o.inKey]
/-- the output keys -/
def Override.outs (o : Override) : List Nat := o.outMods ++ [o.outKey]

/-- "the keys contain the override's input combination" -/
def Override.containedIn (o : Override) (ks : List Nat) : Bool := o.combo.all (ks.contains ·)

def sameSet (a b : List Nat) : Bool := a.all (b.contains ·) && b.all (a.contains ·)
def sameEffect (a b : Override) : Bool := sameSet a.combo b.combo && sameSet a.outs b.outs

def hasDup : List Nat → Bool
  | [] => false
  | x :: xs => xs.contains x || hasDup xs

/-- the overrides of key `k` whose combination is contained in `ks` -/
def candidates (tbl : List Override) (ks : List Nat) (k : Nat) : List Override :=
  tbl.filter (fun o => o.inKey == k && o.containedIn ks)

def maxLen (cs : List Override) : Nat := cs.foldl (fun m o => max m o.inMods.length) 0

/-- "the one with the most modifiers wins": `some none` = no override of `k` matches,
`some (some w)` = `w` wins, `none` = the statement does not determine the winner. -/
def specWinner (tbl : List Override) (ks : List Nat) (k : Nat) : Option (Option Override) :=
  let cs := candidates tbl ks k
  match cs.filter (fun o => o.inMods.length == maxLen cs) with
  | [] => some none
  | w :: rest =>
    if cs.all (fun o => !hasDup o.inMods) && rest.all (sameEffect w) then some (some w) else none

def insertSorted (x : Nat) : List Nat → List Nat
  | [] => [x]
  | y :: ys => if x < y then x :: y :: ys else if x = y then y :: ys else y :: insertSorted x ys

/-- canonical form of a key set: strictly increasing list -/
def sortDedup (l : List Nat) : List Nat := l.foldr insertSorted []

/-- The set of keys the OS must see held when kanata is about to hold `ks`, or `none` where the
statement is silent. -/
def specHeld (tbl : List Override) (ks : List Nat) : Option (List Nat) :=
  let ws := ks.map (specWinner tbl ks)
  if ws.any (·.isNone) then none
  else
    let winners := ws.filterMap (fun w => w.join)
    let removed := winners.flatMap Override.combo
    let added := winners.flatMap Override.outs
    some (sortDedup (ks.filter (fun k => !removed.contains k) ++ added))

/-- Some override's combination is among the keys but one of its modifiers does not come before an
occurrence of its key (the class of inputs on which `update_keys` and the statement part ways). -/
def lateAt (o : Override) : List Nat → List Nat → Bool
  | _, [] => false
  | pre, k :: ks => (k == o.inKey && !(o.inMods.all (pre.contains ·))) || lateAt o (pre ++ [k]) ks

def lateMod (tbl : List Override) (ks : List Nat) : Bool :=
  tbl.any (fun o => o.containedIn ks && lateAt o [] ks)

end KVerif.Override
