import KVerif.Drv.Kan
import KVerif.Model.CfgWF
namespace KVerif.Drv.C02
open KVerif.Drv KVerif.Drv.Kan

/-- model output as for every kanata-level case; specification: an accepted configuration whose
serialised form meets `CfgWF` is processed without a crash ("ok"); a configuration the parser
accepted that violates `CfgWF` is itself the failing input -/
def run (line : String) : String × String :=
  match runP (Kan.case "KAN") line with
  | .error e => (s!"bad-case {e}", "-")
  | .ok c =>
    let spec := match c.k with
      | none => "-"
      | some k => match KVerif.WF.cfgWF k with
        | some why => s!"fail parser accepted a configuration the run-time is not safe for: {why}"
        | none => "ok"
    (Kan.modelOut c, spec)

end KVerif.Drv.C02
