/-
C17 driver.  `run`: the layout model on the case (shared `Lay.modelOut`).
`runOracle` (`C17o`): judges the IMPLEMENTATION's trace against a reference machine written from
the statement of the property: events are taken in arrival order, one per tick; a press of the
dance key opens a dance; every further press of that key seen before the deadline (T ticks after the
previous one was seen) counts and moves the deadline; the dance ends at the deadline, when another
key's press is seen, or when the count reaches the list length; the N-th listed action (the last
one beyond the list) is then pressed once and stays pressed until the release that belongs to the
last counted tap is processed; whatever was not counted stays queued and is processed afterwards,
in order (so an interrupting key comes after the chosen action, and a later tap opens a new dance).
Eager form: every press performs the next listed action at once.
-/
import KVerif.Drv.Trace
namespace KVerif.Drv.C17
open KVerif.L KVerif.Drv KVerif.Drv.Cfg KVerif.Drv.Trace

/-- what a listed action does, as far as the reference machine follows it -/
inductive Out
  | key (k : Nat)
  | layer (l : Nat)
  | tapHold (tap hold : Nat)     -- the reference machine stops being exact once this is chosen
  deriving Repr, DecidableEq, Inhabited

structure Dance where
  coord : Coord
  T : Nat
  eager : Bool
  acts : List Out
  deriving Repr

/-- a plain key: its key code on the base layer and on layer 1 -/
structure Plain where
  coord : Coord
  k0 : Nat
  k1 : Nat
  deriving Repr

def outOf : Action → Option Out
  | .keyCode k => some (.key k)
  | .layer l => some (.layer l)
  | .holdTap _ (.keyCode h) (.keyCode t) _ _ _ => some (.tapHold t h)
  | _ => none

def allSome {α} : List (Option α) → Option (List α)
  | [] => some []
  | none :: _ => none
  | some x :: r => (allSome r).map (x :: ·)

/-- the configuration shapes the oracle understands: one tap-dance key and plain keys on the base
layer; layer 1 may give the plain keys another code -/
def recognise (l : Layout) : Option (Dance × List Plain) :=
  match l.cfg.layers with
  | l0 :: rest =>
    let l1 := rest.head?.getD []
    let dances := l0.filterMap fun (c, a) => match a with
      | .tapDance acts T eager => (allSome (acts.map outOf)).map fun os => ({ coord := c, T, eager, acts := os } : Dance)
      | _ => none
    let nDance := (l0.filter fun (_, a) => match a with | .tapDance .. => true | _ => false).length
    let plains := l0.filterMap fun (c, a) => match a with
      | .keyCode k =>
        let k1 := match l1.find? (·.1 == c) with
          | some (_, .keyCode k') => k'
          | _ => k
        some ({ coord := c, k0 := k, k1 } : Plain)
      | _ => none
    match dances with
    | [d] => if nDance == 1 && plains.length + 1 == l0.length && rest.length ≤ 1 then some (d, plains) else none
    | _ => none
  | [] => none

/-- remove the first `n` elements satisfying `p` -/
def removeFirstN {α} (p : α → Bool) : Nat → List α → List α
  | _, [] => []
  | 0, l => l
  | n + 1, e :: r => if p e then removeFirstN p n r else e :: removeFirstN p (n + 1) r

structure R where
  q : List Ev := []
  pause : Nat := 0
  lazy : Option (Nat × Nat) := none      -- (taps counted, ticks to the deadline)
  eag : Option (Nat × Nat) := none       -- (taps done, ticks to expiry)
  held : List (Coord × Out) := []
  lost : Bool := false                   -- an uncounted press of the dance key was queued at a decision
  stop : Option Nat := none              -- tick at which a tap-hold was chosen
  overflow : Bool := false
  unknownKey : Bool := false
  tick : Nat := 0
  prev : List Nat := []
  trace : Array (Nat × List Nat) := #[]
  deriving Inhabited

def R.keys (r : R) : List Nat := r.held.filterMap fun (_, o) => match o with | .key k => some k | _ => none

def perform (r : R) (c : Coord) (o : Option Out) : R :=
  match o with
  | some (.tapHold ..) => { r with stop := some r.tick }
  | some o => { r with held := r.held ++ [(c, o)] }
  | none => r

def isPressOf (c : Coord) (e : Ev) : Bool := e == .press c
def isReleaseOf (c : Coord) (e : Ev) : Bool := e == .release c

/-- the dance ends with `n` taps counted.  `evictAll` = what the pinned commit did instead of the
statement (every queued press of the key dropped, counted or not): kept so that a regression to it
is named `lost-press` in the verdict. -/
def decide (evictAll : Bool) (d : Dance) (osd : Nat) (r : R) (n : Nat) : R :=
  let nPress := (r.q.filter (isPressOf d.coord)).length
  let q := if evictAll then r.q.filter (fun e => !isPressOf d.coord e) else removeFirstN (isPressOf d.coord) (n - 1) r.q
  let q := removeFirstN (isReleaseOf d.coord) (n - 1) q
  let r := { r with q, lazy := none, pause := osd, lost := r.lost || nPress > n - 1 }
  perform r d.coord d.acts[min n d.acts.length - 1]?

/-- taps in the queue: 1 + presses of the key before the first press of another key; and whether
another key's press is queued -/
def countQueue (d : Dance) : List Ev → Nat → Nat × Bool
  | [], n => (n, false)
  | e :: rest, n =>
    if isPressOf d.coord e then countQueue d rest (n + 1)
    else if e.isPress then (n, true)
    else countQueue d rest n

def processEvent (d : Dance) (plains : List Plain) (r : R) (e : Ev) : R :=
  match e with
  | .release c => { r with held := r.held.filter (·.1 != c) }
  | .press c =>
    if c == d.coord then
      if !d.eager then { r with lazy := some (1, d.T) }
      else match r.eag with
        | some (n, _) => perform { r with eag := some (n + 1, d.T) } c d.acts[n]?
        | none => perform { r with eag := some (1, d.T) } c d.acts[0]?
    else match plains.find? (·.coord == c) with
      | some p =>
        let onL1 := r.held.any fun (_, o) => match o with | .layer 1 => true | _ => false
        { r with eag := r.eag.map fun (n, _) => (n, 0), held := r.held ++ [(c, .key (if onL1 then p.k1 else p.k0))] }
      | none => { r with unknownKey := true }

def stepTick (evictAll : Bool) (d : Dance) (plains : List Plain) (osd : Nat) (r : R) : R :=
  if r.stop.isSome then r else
  let r := { r with tick := r.tick + 1 }
  let r := { r with eag := match r.eag with
    | some (n, rem) => if rem - 1 == 0 || n ≥ d.acts.length then none else some (n, rem - 1)
    | none => none }
  let r :=
    match r.lazy with
    | some (n, rem) =>
      if rem - 1 == 0 then decide evictAll d osd r n
      else
        let (n', other) := countQueue d r.q 1
        -- "the count ends when ... the list is exhausted": a dance never counts more taps than the
        -- list is long; presses of the key queued beyond that are not part of it (they stay queued
        -- and open the next dance) - also when several taps arrive between two ticks
        if other || n' ≥ d.acts.length then decide evictAll d osd r (min n' (max d.acts.length 1))
        else { r with lazy := some (n', if n' > n then d.T else rem - 1) }
    | none =>
      if r.pause > 0 then { r with pause := r.pause - 1 }
      else match r.q with
        | e :: rest => processEvent d plains { r with q := rest } e
        | [] => r
  if r.stop.isSome then r else
  let ks := r.keys
  if ks != r.prev then { r with prev := ks, trace := r.trace.push (r.tick, ks) } else r

def runRef (evictAll : Bool) (d : Dance) (plains : List Plain) (osd : Nat) : List HEv → R → R
  | [], r => r
  | .press c :: rest, r =>
    runRef evictAll d plains osd rest { r with q := r.q ++ [.press c], overflow := r.overflow || r.q.length ≥ 31 || c.1 != 0 }
  | .release c :: rest, r =>
    runRef evictAll d plains osd rest { r with q := r.q ++ [.release c], overflow := r.overflow || r.q.length ≥ 31 || c.1 != 0 }
  | .tick n :: rest, r => runRef evictAll d plains osd rest (Nat.rec r (fun _ r => stepTick evictAll d plains osd r) n)

/-- physically consistent: every press is of a key that is up, every release of a key that is down -/
def consistent (h : List HEv) : Bool :=
  let rec go : List Coord → List HEv → Bool
    | _, [] => true
    | down, .press c :: r => !down.contains c && go (c :: down) r
    | down, .release c :: r => down.contains c && go (down.erase c) r
    | down, .tick _ :: r => go down r
  go [] h

def fmtTrace (t : List (Nat × List Nat)) : String :=
  " ".intercalate (t.map fun (k, ks) => s!"@{k}:{ks}")

def oracle (l : Layout) (hist : List HEv) (impl : String) : String :=
  match recognise l with
  | none => "skip"
  | some (d, plains) =>
    if !consistent hist then "skip" else
    if impl.startsWith "crash" then
      (if d.acts.isEmpty then "fail crash-empty-list: " else "fail crash: ") ++ (impl.take 80).toString
    else
    -- `parse_tap_dance` must not accept an empty list or a zero timeout (Lean: `Accepted`)
    if d.acts.isEmpty then "fail accepted-empty-list: the parser accepted a tap-dance with no actions" else
    if d.T == 0 then "fail accepted-zero-timeout: the parser accepted a tap-dance with timeout 0" else
    match Trace.parse impl with
    | none => "skip"
    | some items =>
      if items.any (·.custom.isSome) then "skip" else
      let osd := l.oneshot.pauseInputProcessingDelay
      let good := runRef false d plains osd hist {}
      if good.overflow || good.unknownKey then "skip" else
      let cut (t : List (Nat × List Nat)) (stop : Option Nat) := match stop with
        | some s => t.filter (·.1 < s)
        | none => t
      let got := items.map fun it => (it.tick, it.keys)
      let judge (ref : R) : Option String :=
        let exp := ref.trace.toList
        if cut got ref.stop != cut exp ref.stop then
          some s!"expected {fmtTrace (cut exp ref.stop)} got {fmtTrace (cut got ref.stop)}"
        else match ref.stop with
          | none => none
          | some s =>
            -- a tap-hold was chosen at tick s: it must resolve to its tap or hold marker later on
            let marks := d.acts.flatMap fun o => match o with | .tapHold t h => [t, h] | _ => []
            let later := (downs items).filter fun (t, k) => t ≥ s && marks.contains k
            -- … unless the history ends before it can resolve
            let tailLong := match hist.getLast? with | some (.tick n) => n ≥ 100 | _ => false
            if later.isEmpty && tailLong then some s!"tap-hold chosen at tick {s} never produced its tap or hold key" else none
      match judge good with
      | none => "ok"
      | some why =>
        let bad := runRef true d plains osd hist {}
        if good.lost && (judge bad).isNone then s!"fail lost-press: {why}" else s!"fail {why}"

def run (line : String) : String × String :=
  match runP (Cfg.case "LAY") line with
  | .error e => (s!"bad-case {e}", "-")
  | .ok c => (Lay.modelOut c, "-")

/-- `<case> ### <impl trace>` → ok | fail … | skip -/
def runOracle (line : String) : String × String :=
  let (cs, impl) := splitOracleLine line
  match runP (Cfg.case "LAY") cs with
  | .error _ => ("skip", "-")
  | .ok c =>
    match c.layout with
    | some l => (oracle l c.hist impl.trimAscii.toString, "-")
    | none => ("skip", "-")

end KVerif.Drv.C17
