import KVerif.Drv.Tok
import KVerif.Model.DynMacro
/-! Line-protocol driver for C19 (formats documented in harness/src/c19.rs). No proofs here. -/
namespace KVerif.Drv.C19
open KVerif.DynMacro KVerif.Drv

inductive Op
  | b (id : Nat) (h : List Nat) | p (osc : Nat) (h : List Nat) | r (osc : Nat)
  | s (n : Nat) (h : List Nat) | y (id : Nat) | t | x

inductive Step
  | d (osc : Nat) | u (osc : Nat) | t (n : Nat) | w (n : Nat) | m | h (l : List Nat)
  deriving BEq, Inhabited

structure KD where
  osc : Nat
  kind : Nat
  a1 : Nat
  a2 : Nat
  a3 : Nat
  acts : List Act

structure KCase where
  beh : Nat
  max : Nat
  keys : List KD
  steps : List Step

def hintP : P (List Nat) := do let k ← num; rep k num

def opP : P Op := do
  match (← tok) with
  | "b" => return .b (← num) (← hintP)
  | "p" => return .p (← num) (← hintP)
  | "r" => return .r (← num)
  | "s" => return .s (← num) (← hintP)
  | "y" => return .y (← num)
  | "t" => return .t
  | "x" => return .x
  | z => throw s!"bad op {z}"

def actP : P Act := do
  match (← tok) with
  | "b" => return .record (← num)
  | "s" => return .stop (← num)
  | "y" => return .play (← num)
  | z => throw s!"bad act {z}"

def kdP : P KD := do
  let osc ← num; let kind ← num; let a1 ← num; let a2 ← num; let a3 ← num
  let n ← num
  let acts ← rep n actP
  return { osc, kind, a1, a2, a3, acts }

def stepP : P Step := do
  match (← tok) with
  | "d" => return .d (← num)
  | "u" => return .u (← num)
  | "t" => return .t (← num)
  | "w" => return .w (← num)
  | "m" => return .m
  | "h" => return .h (← hintP)
  | z => throw s!"bad step {z}"

def behOf (b : Nat) : Beh := if b = 0 then .constant else .recorded

/-! ### rendering -/

def itemStr : Item → String
  | .press o d => s!"P{o}.{d}"
  | .release o d => s!"R{o}.{d}"
  | .endMacro i => s!"E{i}"

def itemsStr (l : List Item) : String := joinWith "," (l.map itemStr)

def sortNat (l : List Nat) : List Nat := l.mergeSort (· ≤ ·)

def storeStr (s : Store) : String :=
  let ids := sortNat (s.map (·.1))
  joinWith ";" (ids.map fun i => s!"{i}=[{itemsStr ((s.get i).getD [])}]")

def waitStr : Option (Nat × Wt) → String
  | none => "-"
  | some (o, .press) => s!"P{o}"
  | some (o, .release) => s!"R{o}"

def recDigest : Option Rec → String
  | none => "-"
  | some r => s!"{r.id};{waitStr r.waiting};{r.delay};{",".intercalate (r.items.map itemStr)}"

def repDigest : Option Replay → String
  | none => "-"
  | some r =>
    s!"{",".intercalate ((sortNat r.active).map toString)};{r.delay};{",".intercalate (r.queue.map itemStr)}"

def recSummary : Option Rec → String
  | none => "r-"
  | some r => s!"r{r.id}:{waitStr r.waiting}:{r.delay}:{r.items.length}"

def repSummary : Option Replay → String
  | none => "q-"
  | some r => s!"q{".".intercalate ((sortNat r.active).map toString)}:{r.delay}:{r.queue.length}"

def crashStr : Crash → String
  | _ => "crash panic attempt to subtract with overflow"

/-- canonical form for the specification output: the trailing zero-delay releases sorted by key -/
def canonItems (l : List Item) : List Item :=
  let rv := l.reverse
  let tail := rv.takeWhile (fun i => match i with | .release _ 0 => true | _ => false)
  let body := (rv.drop tail.length).reverse
  let oscs := sortNat (tail.map fun i => match i with | .release o _ => o | _ => 0)
  body ++ oscs.map (Item.release · 0)

def canonStoreStr (s : Store) : String :=
  let ids := sortNat (s.map (·.1))
  "st " ++ joinWith ";" (ids.map fun i => s!"{i}=[{itemsStr (canonItems ((s.get i).getD []))}]")

/-! ### unit level -/

structure US where
  rcd : Option Rec := none
  rep : Option Replay := none
  store : Store := []
  out : List String := []

def uStep (beh : Beh) (max : Nat) (s : US) : Op → Except Crash US
  | .b id h =>
    match beginRecord true h id s.rcd with
    | .error c => .error c
    | .ok (r, sv) => .ok { s with rcd := r, store := s.store.save sv,
                                  out := s.out ++ (match sv with | some (i, _) => [s!"S{i}"] | none => []) }
  | .p o h =>
    let (r, sv) := recordPress h max o s.rcd
    .ok { s with rcd := r, store := s.store.save sv,
                 out := s.out ++ (match sv with | some (i, _) => [s!"S{i}"] | none => []) }
  | .r o => .ok { s with rcd := recordRelease o s.rcd }
  | .s n h =>
    match stopMacro true h n s.rcd with
    | .error c => .error c
    | .ok (r, sv) => .ok { s with rcd := r, store := s.store.save sv,
                                  out := s.out ++ (match sv with | some (i, _) => [s!"S{i}"] | none => []) }
  | .y id => .ok { s with rep := playMacro id s.store s.rep }
  | .t => .ok { s with rcd := tickRecord s.rcd }
  | .x =>
    let (r, ev) := tickReplay beh s.rep
    let o := match ev with
      | none => "e."
      | some (e, d) => if e.press then s!"e+{e.osc}.{d}" else s!"e-{e.osc}.{d}"
    .ok { s with rep := r, out := s.out ++ [o] }

def uRun (beh : Beh) (max : Nat) : US → List Op → Except Crash US
  | s, [] => .ok s
  | s, o :: r => match uStep beh max s o with
    | .error c => .error c
    | .ok s' => uRun beh max s' r

/-- the specification of what ends up stored, computed from the typed events with `timed` -/
structure SpecS where
  cur : Option (Nat × List RecEv) := none
  store : Store := []

def specSave (st : Store) (id : Nat) (body : List Item) : Store :=
  st.insert id (body ++ (sortNat (leftDown body)).map (Item.release · 0))

def specStep (max : Nat) (s : SpecS) : Op → SpecS
  | .b id _ =>
    match s.cur with
    | none => { s with cur := some (id, []) }
    | some (i0, evs) =>
      { cur := if i0 = id then none else some (id, []), store := specSave s.store i0 (specBody 0 evs) }
  | .p o _ =>
    match s.cur with
    | none => s
    | some (i0, evs) =>
      if keyCount evs ≥ 2 * max + 2 then
        -- the limit: everything typed so far except the last event (still waiting) is stored
        { cur := none, store := specSave s.store i0 (specBody 0 evs) }
      else { s with cur := some (i0, evs ++ [.press o]) }
  | .r o => match s.cur with
    | none => s
    | some (i0, evs) => { s with cur := some (i0, evs ++ [.release o]) }
  | .t => match s.cur with
    | none => s
    | some (i0, evs) => { s with cur := some (i0, evs ++ [.tick]) }
  | .s n _ => match s.cur with
    | none => s
    | some (i0, evs) => { cur := none, store := specSave s.store i0 (specBody n evs) }
  | .y _ => s
  | .x => s

def runU : P (String × String) := do
  let beh ← num; let max ← num; let n ← num
  let ops ← rep n opP
  let spec := canonStoreStr (ops.foldl (specStep max) {}).store
  match uRun (behOf beh) max {} ops with
  | .error c => return (crashStr c, spec)
  | .ok s =>
    return (s!"U {joinWith " " s.out} # rec {recDigest s.rcd} # rep {repDigest s.rep} # st {storeStr s.store}", spec)

/-! ### end to end -/

def toKeyDef (k : KD) : KeyDef :=
  { osc := k.osc, out := if k.kind = 1 then some k.a1 else none, acts := if k.kind = 2 then [] else k.acts }

structure KS where
  k : K Flat
  held : List Nat := []
  segs : List String := []
  marks : List Nat := []
  printed : List (Nat × String) := []   -- what was last printed per macro id

def osStr (opq : Bool) (evs : List (Nat × OsEv)) : String :=
  if opq then "~" else
  joinWith "," (evs.map fun (t, e) => s!"{if e.down then "+" else "-"}{e.code}@{t}")

def storeDelta (printed : List (Nat × String)) (st : Store) : String × List (Nat × String) :=
  let ids := sortNat (st.map (·.1))
  ids.foldl (fun (acc : String × List (Nat × String)) i =>
    let s := itemsStr ((st.get i).getD [])
    if (acc.2.lookup i) == some s then acc
    else (acc.1 ++ s!";S{i}=[{s}]", (i, s) :: acc.2.filter (·.1 != i))) ("", printed)

def waitLoop (I : LayoutI Flat) (c : Cfg) : Nat → K Flat → Except Crash (Option (K Flat))
  | 0, _ => .ok none
  | f + 1, k =>
    if k.rep.isSome then
      match tickMs I c 1 k with
      | .error e => .error e
      | .ok k' => waitLoop I c f k'
    else .ok (some k)

def tickN (I : LayoutI Flat) (c : Cfg) : Nat → K Flat → Except Crash (K Flat)
  | 0, k => .ok k
  | n + 1, k => match tickMs I c 1 k with
    | .error e => .error e
    | .ok k' => tickN I c n k'

inductive Res | ok (s : KS) | crash (c : Crash) | hang

def seg (opq : Bool) (s : KS) (k' : K Flat) (held : List Nat) : KS :=
  let newOs := k'.os.drop s.k.os.length
  let (delta, printed) := storeDelta s.printed k'.store
  let sg := s!"{osStr opq newOs};{recSummary k'.rcd};{repSummary k'.rep}{delta}"
  { s with k := { k' with hint := [] }, held := held, segs := s.segs ++ [sg], printed := printed }

def doWait (I : LayoutI Flat) (c : Cfg) (n : Nat) (k : K Flat) : Except Crash (Option (K Flat)) :=
  match waitLoop I c 200001 k with
  | .error e => .error e
  | .ok none => .ok none
  | .ok (some k1) => match tickN I c n k1 with
    | .error e => .error e
    | .ok k2 => .ok (some k2)

def kStep (I : LayoutI Flat) (c : Cfg) (opq : Bool) (s : KS) : Step → Res
  | .h l => .ok { s with k := { s.k with hint := l } }
  | .m => .ok { s with marks := s.marks ++ [s.k.os.length] }
  | .d o => .ok (seg opq s (handleInput I c s.k ⟨true, o⟩) (s.held.filter (· != o) ++ [o]))
  | .u o => .ok (seg opq s (handleInput I c s.k ⟨false, o⟩) (s.held.filter (· != o)))
  | .t n => match tickMs I c n s.k with
    | .error e => .crash e
    | .ok k' => .ok (seg opq s k' s.held)
  | .w n => match doWait I c n s.k with
    | .error e => .crash e
    | .ok none => .hang
    | .ok (some k') => .ok (seg opq s k' s.held)

def kRun (I : LayoutI Flat) (c : Cfg) (opq : Bool) : KS → List Step → Res
  | s, [] => .ok s
  | s, st :: r => match kStep I c opq s st with
    | .ok s' => kRun I c opq s' r
    | x => x

def finalStep (I : LayoutI Flat) (c : Cfg) (opq : Bool) (s : KS) : Res :=
  let k1 := (sortNat s.held).foldl (fun k o => handleInput I c k ⟨false, o⟩) s.k
  match doWait I c 300 k1 with
  | .error e => .crash e
  | .ok none => .hang
  | .ok (some k') => .ok (seg opq s k' [])

/-- the rule of `same_applicable` in harness/src/c19.rs -/
def sameApplicable (c : KCase) : Bool := Id.run do
  let steps := (c.steps.filter fun s => match s with | .h _ => false | _ => true).toArray
  let mut marks : Array Nat := #[]
  for i in [0:steps.size] do
    if steps[i]! == Step.m then marks := marks.push i
  if marks.size != 4 then return false
  let (a, b, cc, d) := (marks[0]!, marks[1]!, marks[2]!, marks[3]!)
  let kd := fun (o : Nat) => c.keys.find? (·.osc == o)
  let hasOut := fun (o : Nat) => match kd o with | some k => k.kind != 0 | none => true
  let heldAt := fun (pos : Nat) => Id.run do
    let mut h : List Nat := []
    for i in [0:pos] do
      match steps[i]! with
      | .d o => h := h.filter (· != o) ++ [o]
      | .u o => h := h.filter (· != o)
      | _ => pure ()
    return h
  let qlenAt := fun (pos : Nat) => Id.run do
    let mut q : Nat := 0
    for i in [0:pos] do
      match steps[i]! with
      | .d _ => q := q + 1
      | .u _ => q := q + 1
      | .t n => q := q - n
      | .w n => q := q - n
      | _ => pure ()
    return q
  if a < 2 then return false
  if !(match steps[a-1]! with | .t n => n ≥ 1 | _ => false) then return false
  let recId : Option Nat := match steps[a-2]! with
    | .d o => match kd o with
      | some k => if k.kind == 0 then (match k.acts with | [.record id] => some id | _ => none) else none
      | none => none
    | _ => none
  if recId.isNone then return false
  if qlenAt (a - 2) != 0 then return false
  let mut recording := false
  for i in [0:a-2] do
    match steps[i]! with
    | .d o =>
      match kd o with
      | some k =>
        for x in k.acts do
          match x with
          | .record _ =>
            if recording then return false
            recording := true
          | .stop _ => recording := false
          | .play _ => pure ()
      | none => pure ()
    | _ => pure ()
  if recording then return false
  if (heldAt a).any hasOut || (heldAt cc).any hasOut then return false
  let isTick := fun (i : Nat) => match steps[i]? with | some (.t n) => n ≥ 1 | _ => false
  let opq := c.keys.any (·.kind == 2)
  -- typed window
  let mut nev := 0
  for i in [a+1:b] do
    match steps[i]! with
    | .d o =>
      nev := nev + 1
      match kd o with
      | none => return false
      | some k =>
        if k.acts.any (fun x => match x with | .play _ => false | _ => true) then return false
        if !isTick (i + 1) then return false
        if !k.acts.isEmpty then
          match steps[i+2]? with
          | some (.w _) => pure ()
          | _ => return false
    | .u o =>
      nev := nev + 1
      match kd o with
      | none => return false
      | some _ => if !isTick (i + 1) then return false
    | .m => return false
    | _ => pure ()
  -- B .. C
  let mut ntrunc := 0
  let mut stopN : Option Nat := none
  for i in [b+1:cc] do
    match steps[i]! with
    | .d o =>
      match kd o with
      | none => return false
      | some k =>
        if stopN.isNone then
          if !isTick (i + 1) then return false
          let isStop := match k.acts with
            | [.stop _] => k.kind == 0
            | _ => false
          if isStop then
            stopN := match k.acts with | [.stop n] => some n | _ => none
          else
            if !k.acts.isEmpty then return false
            ntrunc := ntrunc + 1
        else if !k.acts.isEmpty then return false
    | .u _ =>
      if stopN.isNone then
        if !isTick (i + 1) then return false
        ntrunc := ntrunc + 1
    | _ => pure ()
  match stopN with
  | some n => if n != ntrunc then return false
  | none => return false
  if nev + ntrunc + 1 > 2 * c.max then return false
  -- replay window
  if qlenAt cc != 0 then return false
  let mut playKeys := 0
  let mut waited := false
  for i in [cc+1:d] do
    match steps[i]! with
    | .w _ => waited := true
    | .u o =>
      if opq && !waited then return false
      if hasOut o then return false
    | .d o =>
      match kd o with
      | none => return false
      | some k =>
        let ok := match k.acts with | [.play id] => k.kind == 0 && some id == recId | _ => false
        if !ok then return false
        playKeys := playKeys + 1
    | _ => pure ()
  if playKeys != 1 then return false
  if opq then
    if c.beh != 1 || ntrunc != 0 then return false
    let mut nTh := 0
    for i in [a+1:b] do
      match steps[i]! with
      | .d o => if (match kd o with | some k => k.kind == 2 | none => false) then nTh := nTh + 1
      | _ => pure ()
    let need := 250 * (nTh + 1)
    if c.keys.any (fun k => k.kind == 2 && k.a3 > 200) then return false
    if !(match steps[b-1]! with | .t n => n ≥ need | _ => false) then return false
    let mut okW := false
    for i in [cc+1:d] do
      match steps[i]! with
      | .w n => if n ≥ need then okW := true
      | _ => pure ()
    if !okW then return false
  return true

def downAfter (t : List (Nat × OsEv)) : List Nat :=
  t.foldl (fun dn e => let d := dn.filter (· != e.2.code); if e.2.down then d ++ [e.2.code] else d) []

def dedupSorted : List Nat → List Nat
  | a :: b :: r => if a == b then dedupSorted (b :: r) else a :: dedupSorted (b :: r)
  | l => l

/-- `same_verdict` of the harness, on the model's trace (key events only) -/
def sameVerdict (t r : List (Nat × OsEv)) : Bool :=
  if r.length < t.length then false else
  let common := (r.take t.length).map (·.2) == t.map (·.2)
  let rest := r.drop t.length
  common && rest.all (fun e => !e.2.down) &&
    sortNat (downAfter t) == dedupSorted (sortNat (rest.map (·.2.code)))

def runK : P (String × String) := do
  let beh ← num; let max ← num; let nk ← num
  let keys ← rep nk kdP
  let ns ← num
  let steps ← rep ns stepP
  let kc : KCase := { beh, max, keys, steps }
  let opq := keys.any (·.kind == 2)
  let I := flatI (keys.map toKeyDef)
  let c : Cfg := { fix := true, beh := behOf beh, maxPresses := max }
  let appl := sameApplicable kc
  let spec := s!"V same={if appl then "1" else "na"} clean=1"
  let res := match kRun I c opq { k := { lay := {} } } steps with
    | .ok s => finalStep I c opq s
    | x => x
  match res with
  | .crash e => return (crashStr e, spec)
  | .hang => return ("hang", spec)
  | .ok s =>
    let tr := s.k.os
    let clean := if opq then true else (downAfter tr).isEmpty
    let same :=
      if !appl then "na"
      else if opq then "1"
      else match s.marks with
        | [m0, m1, m2, m3] =>
          if sameVerdict ((tr.take m1).drop m0) ((tr.take m3).drop m2) then "1" else "0"
        | _ => "na"
    return (s!"K {" | ".intercalate s.segs} # rec {recDigest s.k.rcd} # st {storeStr s.k.store} # V same={same} clean={if clean then 1 else 0}", spec)

def parseCase : P (String × String) := do
  expect "C19"
  match (← tok) with
  | "U" => runU
  | "K" => runK
  -- L lines: key shapes outside the one-layer model (dynamic-macro actions that fire late); the
  -- real run is judged by the runner's model-free oracle (runner/props.py `_c19_free_oracle`)
  | "L" => return ("L", "-")
  | z => throw s!"bad kind {z}"

def run (line : String) : String × String :=
  match runP parseCase line with
  | .error e => (s!"bad-case {e}", "-")
  | .ok r => r

end KVerif.Drv.C19
