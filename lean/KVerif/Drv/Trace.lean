/- Parsing of an implementation trace (`@t Kkeys [cpN|crN] ... D digest`) for the oracle passes. -/
import KVerif.Drv.Lay
namespace KVerif.Drv.Trace
open KVerif.Drv

structure Item where
  tick : Nat
  keys : List Nat
  custom : Option String := none
  deriving Repr

def parseKeys (s : String) : List Nat :=
  if s == "-" then [] else (s.splitOn ",").filterMap (·.toNat?)

partial def parseGo : List String → List Item → Option (List Item)
  | [], acc => some acc.reverse
  | "D" :: _, acc => some acc.reverse
  | t :: k :: rest, acc =>
    if t.startsWith "@" && k.startsWith "K" then
      match (t.drop 1).toNat? with
      | some tick =>
        let keys := parseKeys (k.drop 1).toString
        match rest with
        | c :: rest' =>
          if c.startsWith "cp" || c.startsWith "cr" then parseGo rest' ({ tick, keys, custom := some c } :: acc)
          else parseGo rest ({ tick, keys } :: acc)
        | [] => parseGo rest ({ tick, keys } :: acc)
      | none => none
    else if t.startsWith "#" then parseGo rest acc   -- debug digest lines: "#t digest"
    else none
  | _, _ => none

/-- items up to the digest; `none` if the trace is a rejection / crash / malformed -/
def parse (out : String) : Option (List Item) :=
  let toks := (out.trimAscii.toString.splitOn " ").filter (· ≠ "")
  if out.startsWith "rej" || out.startsWith "crash" || out.startsWith "unsupported" then none
  else parseGo toks []

/-- split `<case> ### <impl output>` -/
def splitOracleLine (line : String) : String × String :=
  match line.splitOn " ### " with
  | [a, b] => (a, b)
  | a :: rest => (a, " ### ".intercalate rest)
  | [] => (line, "")

def count (l : List Nat) (x : Nat) : Nat := (l.filter (· == x)).length

/-- down-transitions `(tick, key)` in trace order: each time the multiplicity of a key in the list
grows, in list order within a tick -/
def downsGo : List Nat → List Item → List (Nat × Nat)
  | _, [] => []
  | prev, it :: rest =>
    let news := it.keys.eraseDups.filter (fun k => count it.keys k > count prev k)
    (news.flatMap fun k => List.replicate (count it.keys k - count prev k) (it.tick, k)) ++ downsGo it.keys rest

def downs (items : List Item) : List (Nat × Nat) := downsGo [] items

end KVerif.Drv.Trace
