import KVerif.Drv.Tok
import KVerif.Model.SeqSpec
/-!
Line protocol of C12 (one case per line; every line is self-contained).

  C12 Q <nk> key*nk <nq> key*nq                       key := <len> code*len
  C12 T <tbl>                                         tbl := <nent> (<vk> <nitems> item*nitems)*nent
  C12 R <mode> <T> <alwayson> <modcancel> <lmode> <lT> <tbl> H <n> ev*n
      item := k <code> | c <nm> mod*nm <code> | h <nm> mod*nm <n> item*n | s <n> item*n
      ev   := p <code> | r <code> | t <ticks>
      mode := 0 hidden-suppressed | 1 hidden-delay-type | 2 visible-backspaced

Fixed conventions of R cases (the harness renders the same configuration as kanata text): every
typed key of `typedKeys` is mapped to itself; F1 = `sldr`, F2 = `(sequence lT lmode)`, F3 = `scnl`,
F4 = `(sequence-noerase 1)`; virtual key `j` outputs key code `2 + j`.
-/
namespace KVerif.Drv.C12
open KVerif.Seq KVerif.Drv

partial def item : P Item := do
  let t ← tok
  match t with
  | "k" => return .key (← num)
  | "c" => do let nm ← num; let mods ← rep nm num; return .chord mods (← num)
  | "h" => do let nm ← num; let mods ← rep nm num; let n ← num; return .held mods (← rep n item)
  | "s" => do let n ← num; return .sub (← rep n item)
  | x => throw s!"bad item token {x}"

def table : P (List (Nat × List Item)) := do
  let n ← num
  rep n (do let vk ← num; let ni ← num; let is ← rep ni item; pure (vk, is))

def keyP : P Key := do let n ← num; rep n num

inductive HEv | p (c : Nat) | r (c : Nat) | t (n : Nat)

def hev : P HEv := do
  let t ← tok
  match t with
  | "p" => return .p (← num)
  | "r" => return .r (← num)
  | "t" => return .t (← num)
  | x => throw s!"bad event token {x}"

def modeOf : Nat → Mode
  | 0 => .hiddenSuppressed
  | 1 => .hiddenDelayType
  | _ => .visibleBackspaced

structure RCase where
  mode : Mode
  timeout : Nat
  alwaysOn : Bool
  modcancel : Bool
  lmode : Mode
  lT : Nat
  tbl : List (Nat × List Item)
  hist : List HEv

inductive Case
  | q (keys : List Key) (queries : List Key)
  | t (tbl : List (Nat × List Item))
  | r (c : RCase)

def parseCase : P Case := do
  expect "C12"
  let k ← tok
  match k with
  | "Q" => do
    let nk ← num; let ks ← rep nk keyP
    let nq ← num; let qs ← rep nq keyP
    return .q ks qs
  | "T" => return .t (← table)
  | "R" => do
    let mode ← num; let timeout ← num; let ao ← num; let mc ← num; let lmode ← num; let lT ← num
    let tbl ← table
    expect "H"
    let n ← num
    let hist ← rep n hev
    return .r { mode := modeOf mode, timeout, alwaysOn := ao != 0, modcancel := mc != 0,
                lmode := modeOf lmode, lT, tbl, hist }
  | x => throw s!"bad case kind {x}"

/-! ### formatting -/

def csv (l : List Nat) : String := joinWith "," (l.map toString)

def keyLe : List Nat → List Nat → Bool
  | [], _ => true
  | _ :: _, [] => false
  | a :: as, b :: bs => if a < b then true else if b < a then false else keyLe as bs

def pairLe (x y : Key × Nat) : Bool :=
  if x.1 == y.1 then x.2 ≤ y.2 else keyLe x.1 y.1

def fmtPairs (l : List (Key × Nat)) : String :=
  joinWith " " ((l.mergeSort pairLe).map fun e => s!"{csv e.1}:{e.2}")

def crashName : Crash → String
  | .expectPressed => "expectPressed"
  | .timeoutUnderflow => "timeoutUnderflow"
  | .noeraseOverflow => "noeraseOverflow"

def errName : PErr → String
  | .overlapCombined => "rej overlapCombined"
  | .overlapMin => "rej overlapMin"
  | .overlapMax => "rej overlapMax"
  | .emptyKeyList => "rej emptyKeyList"
  | .badItem => "rej badItem"
  | .conflictAncestor => "rej conflictAncestor"
  | .conflictDescendant => "rej conflictDescendant"
  | .crash c => s!"crash {crashName c}"

def fmtParse : Except PErr (Trie Nat) → String
  | .error e => errName e
  | .ok t => s!"ok {fmtPairs t.entries}"

/-- specification of the table side: the table denotes a prefix-free set of orderings ⇒ exactly
those are stored; otherwise it must be rejected as a conflict; `-` if a key list is rejected for
another reason -/
def specParse (tbl : List (Nat × List Item)) : String :=
  match tableOrderings encOf tbl with
  | none => "-"
  | some pairs => if prefixFreeB (pairs.map (·.1)) then s!"ok {fmtPairs pairs}" else "rej conflict"

/-! ### Q cases -/

def fmtRes : Trie.GetRes Nat → String
  | .notInTrie => "N"
  | .inTrie => "I"
  | .hasValue v => s!"V{v}"

def runQ (keys queries : List Key) : String :=
  let t := (keys.zipIdx).foldl (fun (t : Trie Nat) (kv : Key × Nat) => t.insert kv.1 kv.2) Trie.empty
  joinWith " " (queries.map fun q =>
    s!"a{if t.ancestorExists q then 1 else 0}d{if t.descendantExists q then 1 else 0}g{fmtRes (t.getOrDescendant q)}")

/-! ### R cases -/

def typedKeys : List Nat :=
  [30, 48, 46, 32, 18, 33, 34, 35, 23, 36, 45, 21, 44, 57, 42, 54, 29, 97, 56, 100, 125, 126, 676]

def K_LEADER : Nat := 59
def K_LEADER2 : Nat := 60
def K_CANCEL : Nat := 61
def K_NOERASE : Nat := 62
def vkOut (j : Nat) : Nat := 2 + j
def NVK : Nat := 10

def mkCfg (c : RCase) (trie : Trie Nat) : Cfg :=
  { trie := trie, modcancel := c.modcancel, alwaysOn := c.alwaysOn, defMode := c.mode,
    defTimeout := c.timeout,
    keymap := typedKeys.map (fun k => (k, Act.key k)) ++
      [(K_LEADER, .leader c.timeout c.mode), (K_LEADER2, .leader c.lT c.lmode), (K_CANCEL, .cancel),
       (K_NOERASE, .noerase 1)],
    vkeys := (List.range NVK).map vkOut }

def fmtOut : Out → String
  | .down k => s!"d{k}"
  | .up k => s!"u{k}"

def vflags (k : Kan) : List String :=
  k.states.filterMap fun s => if s.coord.1 = 1 then some s!"V{s.coord.2}" else none

/-- run `n` ticks; accumulates trace tokens (reversed) -/
def runTicks (cfg : Cfg) : Nat → Kan → Nat → List String → Except Crash (Kan × Nat × List String)
  | 0, k, tk, acc => .ok (k, tk, acc)
  | n + 1, k, tk, acc =>
    match tick cfg k with
    | .error c => .error c
    | .ok (k', outs) =>
      let toks := outs.map fmtOut ++ vflags k'
      let acc := if toks.isEmpty then acc else toks.reverse ++ (s!"@{tk + 1}" :: acc)
      runTicks cfg n k' (tk + 1) acc

def runHist (cfg : Cfg) : List HEv → Kan → Nat → List String → Except Crash (Kan × Nat × List String)
  | [], k, tk, acc => .ok (k, tk, acc)
  | .p c :: es, k, tk, acc => runHist cfg es (k.input (.press (0, c))) tk acc
  | .r c :: es, k, tk, acc => runHist cfg es (k.input (.release (0, c))) tk acc
  | .t n :: es, k, tk, acc =>
    match runTicks cfg n k tk acc with
    | .error c => .error c
    | .ok (k', tk', acc') => runHist cfg es k' tk' acc'

def fmtState (s : KState) : String :=
  match s with
  | .normalKey kc co => s!"K{kc}@{co.1}.{co.2}"
  | .custom co => s!"C@{co.1}.{co.2}"

def fmtFinal (k : Kan) : String :=
  s!"{if k.seq.active then "A" else "I"} s={csv k.seq.sequence} o={csv k.seq.overlapped} tk={k.seq.ticksUntilTimeout} st={joinWith "," (k.states.map fmtState)}"

/-! ### the specification of R cases: sequence mode over the typed word (plain tables, disciplined
histories: a tap of the leader, then taps of plain keys, every press and release followed by at
least 3 ticks so that no event waits in the queue) -/

def MIN_GAP : Nat := 3

/-- taps `p k, t a, r k, t b` → `(k, a + b)` (the number of ticks from this key's press to the next
event's processing) -/
def discTaps : List HEv → Option (List (Nat × Nat))
  | [] => some []
  | .p k :: .t a :: .r k' :: .t b :: rest =>
    if k = k' ∧ a ≥ MIN_GAP ∧ b ≥ MIN_GAP then (discTaps rest).map ((k, a + b) :: ·) else none
  | _ => none

/-- consecutive `t` events are one waiting period -/
def mergeT : List HEv → List HEv
  | .t a :: .t b :: rest => mergeT (.t (a + b) :: rest)
  | e :: rest => e :: mergeT rest
  | [] => []
termination_by l => l.length

structure SS where
  /-- tracked word and raw typed keys while sequence mode is on -/
  cur : Option (Key × List Nat) := none
  downs : List Nat := []
  taps : List Nat := []
  bs : Nat := 0

def ssEnd (mode : Mode) (s : SS) : SS :=
  match s.cur with
  | none => s
  | some (_, raw) =>
    { s with cur := none, downs := if mode = .hiddenDelayType then s.downs ++ raw else s.downs }

def ssKey (tbl : List (Key × Nat)) (mode : Mode) (ao : Bool) (s : SS) (k : Nat) : SS :=
  let s := if s.cur.isNone && ao then { s with cur := some ([], []) } else s
  match s.cur with
  | none => { s with downs := s.downs ++ [k] }
  | some (w, raw) =>
    let raw := raw ++ [k]
    let s := if mode = .visibleBackspaced then { s with downs := s.downs ++ [k] } else s
    match absKey tbl w k with
    | .continues w' => { s with cur := some (w', raw) }
    | .failed => ssEnd mode { s with cur := some (w, raw) }
    | .fired j m =>
      let s := { s with cur := none, taps := s.taps ++ [j],
                        bs := if mode = .visibleBackspaced then s.bs + m.length else s.bs }
      -- one tick later the virtual key's output key is pressed
      let o := vkOut j
      if ao then
        -- it is itself taken as the first key of a new sequence, which cannot match
        match mode with
        | .hiddenSuppressed => s
        | _ => { s with downs := s.downs ++ [o] }
      else { s with downs := s.downs ++ [o] }

/-- keys with the gap *after* each; `g0` = gap between the leader and the first key -/
def ssRun (tbl : List (Key × Nat)) (mode : Mode) (ao : Bool) (T : Nat) : SS → Nat → List (Nat × Nat) → SS
  | s, g, [] => if g ≥ T then ssEnd mode s else s
  | s, g, (k, g') :: rest =>
    let s := if g ≥ T then ssEnd mode s else s
    ssRun tbl mode ao T (ssKey tbl mode ao s k) g' rest

def fmtSummary (taps downs : List Nat) (bs : Nat) (act : Bool) : String :=
  s!"taps={csv taps} down={csv downs} bs={bs} act={if act then "A" else "I"}"

def specRun (c : RCase) (pairs : List (Key × Nat)) : String :=
  let outs := (List.range NVK).map vkOut
  let okTable := plainTable pairs && pairs.all (fun e => e.1.all (fun k => !outs.contains k))
  if !okTable then "-" else
  let body? : Option (SS × Nat × List HEv) :=
    if c.alwaysOn then some ({}, 0, mergeT c.hist)
    else match mergeT c.hist with
      | .p l :: .t a :: .r l' :: .t b :: rest =>
        if l = K_LEADER ∧ l' = K_LEADER ∧ a ≥ MIN_GAP ∧ b ≥ MIN_GAP then
          some ({ cur := some ([], []) }, a + b, rest) else none
      | _ => none
  match body? with
  | none => "-"
  | some (s0, g0, rest) =>
    match discTaps rest with
    | none => "-"
    | some taps =>
      if !(taps.all fun kg => plainKey kg.1 && typedKeys.contains kg.1) then "-" else
      let s := ssRun pairs c.mode c.alwaysOn c.timeout s0 g0 taps
      fmtSummary s.taps s.downs s.bs s.cur.isSome

/-- returns (model output, spec output) -/
def run (line : String) : String × String :=
  -- `C12 P …`: OS key-repeat events inside sequence mode (handle_repeat_actual) - outside the model;
  -- the runner's model-free oracle judges the real trace
  if line.startsWith "C12 P " then ("unsupported", "-") else
  match runP parseCase line with
  | .error e => (s!"bad-case {e}", "-")
  | .ok (.q ks qs) => (runQ ks qs, "-")
  | .ok (.t tbl) => (fmtParse (parseSequences tbl), specParse tbl)
  | .ok (.r c) =>
    match parseSequences c.tbl with
    | .error e => (errName e, "-")
    | .ok trie =>
      let cfg := mkCfg c trie
      let model :=
        match runHist cfg c.hist {} 0 [] with
        | .error cr => s!"crash {crashName cr}"
        | .ok (k, _, acc) => s!"ok {fmtPairs trie.entries} | {joinWith " " acc.reverse} | {fmtFinal k}"
      let spec := match tableOrderings encOf c.tbl with
        | some pairs => if prefixFreeB (pairs.map (·.1)) then specRun c pairs else "-"
        | none => "-"
      (model, spec)

end KVerif.Drv.C12
