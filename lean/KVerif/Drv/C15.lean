import KVerif.Drv.Tok
import KVerif.Model.ReloadMini
/-! Line-protocol driver for C15 (see harness/src/c15.rs for the case format).

`C15 S …`  model output: the per-iteration trace of the processing loop run on the Mini world with
           `do_live_reload` interpreted from the generated statement list; spec output: the same
           loop with the restart specification (`restartReload`) in its place.
`C15 R …`  relational cases evaluated on the real code only; model = spec = the verdict the theorems
           predict for that kind of new file content. -/
namespace KVerif.Drv.C15
open KVerif.Drv KVerif.Reload KVerif.Reload.Mini KVerif.Gen.Reload

inductive FContent where
  | ok (c : Mini.Cfg)
  | syn | sem | mis | unr

inductive Step where
  | p (k : Nat) (ms : Nat)
  | r (k : Nat) (ms : Nat)
  | t (n : Nat)
  | j (ms : Nat)
  | w (f : Nat) (c : FContent)

def act : P Act := do
  match (← tok) with
  | "k" => return .key (← num)
  | "_" => return .trans
  | "xx" => return .noop
  | "rl" => return .rl .cur
  | "rn" => return .rl .next
  | "rp" => return .rl .prev
  | "r#" => do let n ← num; return .rl (.num (n - 1))   -- the parser stores `num - 1`
  | "rf" => return .rl (.file (← num))
  | "lh" => return .layerHeld (← num)
  | "ls" => return .layerSwitch (← num)
  | "vp" => return .vk .press (← num)
  | "vr" => return .vk .release (← num)
  | "vt" => return .vk .tap (← num)
  | "vg" => return .vk .toggle (← num)
  | "um" => return .unmod (← num)
  | x => throw s!"bad act {x}"

def nKeys : Nat := 6

def cfg (x11 : Bool) : P Mini.Cfg := do
  expect "cfg"
  let id ← num
  expect "L"
  let nl ← num
  let layers ← rep nl (rep nKeys act)
  expect "V"
  let nv ← num
  let vk ← rep nv num
  return { id := id, layers := layers, vkeys := vk, x11 := x11 }

def content : P FContent := do
  match (← tok) with
  | "ok" => return .ok (← cfg false)
  | "okx" => return .ok (← cfg true)
  | "syn" => return .syn
  | "sem" => return .sem
  | "mis" => return .mis
  | "unr" => return .unr
  | x => throw s!"bad content {x}"

def step : P Step := do
  match (← tok) with
  | "p" => do let k ← num; let ms ← num; return .p k ms
  | "r" => do let k ← num; let ms ← num; return .r k ms
  | "t" => return .t (← num)
  | "j" => return .j (← num)
  | "w" => do let f ← num; let c ← content; return .w f c
  | x => throw s!"bad step {x}"

def toRead : FContent → FileRead Mini.Content
  | .ok c => .content (.ok c)
  | .syn => .content .syn
  | .sem => .content .sem
  | .mis => .missing
  | .unr => .unreadable

abbrev MW : World := Mini.world

def mkEnv (files : List FContent) : Env MW.toTypes where
  fs := fun p => match files[p]? with
    | some c => toRead c
    | none => .missing
  -- PATH holds no `xset` in the harness: the call fails exactly when the option is set
  callFails := fun callee (c : Mini.Cfg) => callee == "Kanata::set_repeat_rate" && c.x11
  tx := true

def crashStr : Crash → String
  | .indexOOB s => "crash indexOOB " ++ s.replace " " "_"
  | .subOverflow s => "crash subOverflow " ++ s.replace " " "_"
  | .badStep s => "crash badStep " ++ s.replace " " "_"

def osTok : Mini.Os → Option String
  | .down k => some s!"d{k}"
  | .up k => some s!"u{k}"

def msgTok : Msg → String
  | .configFileReload p => s!"M.reload.{p}"
  | .layerChange n => s!"M.layer.{n}"

/-- the request log lines of one `tick_states`: recomputed from the state before the tick
(at most one custom action fires per tick in the fragment) -/
def reqNote (s : KSt MW) : List String :=
  let lay : Mini.Layout := s .layout
  match (Mini.ltick lay).2 with
  | .press (.rl a) =>
    match selectIndex (s .cfg_paths) (s .cur_cfg_idx) a with
    | .ok (i, true) =>
      match a with
      | .num n => if n < (s .cfg_paths : List Nat).length then [s!"rq{i}"] else ["rqbad"]
      | _ => [s!"rq{i}"]
    | .ok (_, false) => ["rqnop"]
    | .error _ => []
  | _ => []

/-- the request notes of the ticks of one `tick_ms` call (no dynamic macros in the fragment: exactly `ms` ticks) -/
def notesOf : Nat → KSt MW → List String
  | 0, _ => []
  | n + 1, s =>
    match tickStates (W := MW) s with
    | .error _ => reqNote s
    | .ok (s', _) => reqNote s ++ notesOf n s'

structure Acc where
  st : KSt MW
  files : List FContent
  iter : Nat
  msPrev : Nat
  trace : List String
  err : Option String
  /-- [t7:in-use] index of the file whose configuration is running: only a SUCCESSFUL reload moves it -/
  inUse : Nat := 0
  /-- [t7:in-use] specification side: a failed reload leaves no trace, in particular the file index is
  the one of the configuration in use again ("behaves exactly as if no reload had been requested") -/
  specIdx : Bool := false

def emit (a : Acc) (toks : List String) : List String := a.trace ++ toks.map (fun t => s!"{a.iter}:{t}")

/-- identity on states: re-tabulates the closure chain so that field reads stay O(1) over long runs -/
def freeze (s : KSt MW) : KSt MW :=
  let vals : Array (Sigma (Val MW.toTypes)) := allFields.toArray.map (fun f => ⟨f, s f⟩)
  ⟨fun f => match vals[f.ctorIdx]? with
    | some ⟨g, v⟩ => if h : g = f then h ▸ v else s f
    | none => s f⟩

abbrev RL := Env MW.toTypes → KSt MW → Except Crash (RRes MW.toTypes)

/-- one loop iteration, harness-shaped output -/
def iterate (rl : RL) (a : Acc) (inp : Option Mini.Ev) (ms : Nat) : Acc × Bool :=
  let env := mkEnv a.files
  -- notes are computed on the state `handle_time_ticks` starts from
  let cb := canBlockUpdate (W := MW) a.msPrev a.st
  let s0 : KSt MW := match inp with
    | some e => (handleInput (W := MW) cb.1 e).1
    | none => cb.1
  match loopIterWith (W := MW) rl env inp ms a.msPrev a.st with
  | .error c => ({ a with err := some (crashStr c) }, false)
  | .ok r =>
    if r.blocked then (a, true) else
    let toks := r.os.filterMap osTok ++ notesOf ms s0 ++
      (match r.attempt with | some true => ["ok"] | some false => ["fail"] | none => []) ++
      r.msgs.map msgTok
    -- [t7:in-use]
    let inUse' : Nat := match r.attempt with
      | some true => (r.st .cur_cfg_idx : Nat)
      | _ => a.inUse
    let st' : KSt MW := match r.attempt with
      | some false => if a.specIdx then r.st.set .cur_cfg_idx a.inUse else r.st
      | _ => r.st
    ({ a with st := freeze st', msPrev := r.msNext, trace := emit a toks, iter := a.iter + 1, inUse := inUse' }, false)

def idleN (rl : RL) : Nat → Acc → Acc
  | 0, a => a
  | n + 1, a =>
    if a.err.isSome then a else
    let (a', blocked) := iterate rl a none 1
    if blocked then { a with trace := emit a [s!"blk{n + 1}"], iter := a.iter + (n + 1) }
    else idleN rl n a'

def setFile (files : List FContent) (f : Nat) (c : FContent) : List FContent := files.set f c

def runStep (rl : RL) (a : Acc) : Step → Acc
  | .p k ms => (iterate rl a (some (.press (0, k))) ms).1
  | .r k ms => (iterate rl a (some (.release (0, k))) ms).1
  | .t n => idleN rl n a
  | .j ms =>
    let (a', blocked) := iterate rl a none ms
    if blocked then { a with trace := emit a ["blk1"], iter := a.iter + 1 } else a'
  | .w f c => { a with files := setFile a.files f c }

def runSteps' (rl : RL) : List Step → Acc → Acc
  | [], a => a
  | s :: rest, a => if a.err.isSome then a else runSteps' rl rest (runStep rl a s)

/-- `withTsi := false` for the specification side: a restart resets the idle counter, the code keeps
it (it is dead until the next input zeroes it) -/
def summary (withTsi : Bool) (s : KSt MW) : String :=
  let pk : List Nat := s .prev_keys
  let lay : Mini.Layout := s .layout
  s!"layer={Mini.currentLayer lay} pl={(s .prev_layer : Nat)} idx={(s .cur_cfg_idx : Nat)} " ++
  s!"req={if (s .live_reload_requested : Bool) then 1 else 0} " ++
  (if withTsi then s!"tsi={(s .ticks_since_idle : Nat)} " else "") ++
  s!"pk={joinWith "," (pk.map toString)}"

def runS (rl : RL) (withTsi : Bool) (specIdx : Bool) (files : List FContent) (steps : List Step) : String :=
  match files.head? with
  | some (.ok c0) =>
    let paths := List.range files.length
    let st : KSt MW := fresh (W := MW) paths c0
    let a := runSteps' rl steps { st := st, files := files, iter := 0, msPrev := 0, trace := [], err := none, inUse := 0, specIdx := specIdx }
    let tr := if a.trace.isEmpty then "-" else " ".intercalate a.trace
    match a.err with
    | some e => s!"{tr} | {e}"
    | none => s!"{tr} | {summary withTsi a.st}"
  | _ => "startfail"

def caseS : P (List FContent × List Step) := do
  expect "nf"
  let n ← num
  let files ← rep n content
  expect "steps"
  let m ← num
  let steps ← rep m step
  return (files, steps)

/-- verdict expected from the relational oracles, by kind of new content -/
def verdictR (kind : String) : String :=
  if kind == "ok" then "applied=1 msgs=reload,layer pressed=- idle=ok quiet=ok fresh=eq"
  else "applied=0 msgs=- noop=eq"

def run (line : String) : String × String :=
  match tokens line with
  | "C15" :: "S" :: rest =>
    match caseS.run rest with
    | .error e => (s!"bad-case {e}", "-")
    | .ok ((files, steps), _) =>
      (runS (doLiveReload (W := MW)) true false files steps, runS (restartReload (W := MW)) false true files steps)
  | "C15" :: "R" :: _old :: _hist :: kind :: _ => (verdictR kind, verdictR kind)
  | _ => ("bad-case", "-")

end KVerif.Drv.C15
