import KVerif.Drv.Trace
import KVerif.Spec.OneShot
namespace KVerif.Drv.C06
open KVerif.L KVerif.Drv KVerif.Drv.Cfg KVerif.Drv.Trace KVerif.Spec.OneShot

/-- a one-shot key of the base layer -/
structure OsKey where
  coord : Coord
  timeout : Nat
  variant : OneShotEnd
  markers : List Nat      -- key codes of the inner action (empty for a layer)
  layer : Option Nat
  deriving Repr

def osKeys (l : Layout) : List OsKey :=
  match l.cfg.layers with
  | tbl :: _ =>
    tbl.filterMap fun (c, a) => match a with
      | .oneShot (.keyCode k) T v => some { coord := c, timeout := T, variant := v, markers := [k], layer := none }
      | .oneShot (.multipleKeyCodes ks) T v => some { coord := c, timeout := T, variant := v, markers := ks, layer := none }
      | .oneShot (.layer ly) T v => some { coord := c, timeout := T, variant := v, markers := [], layer := some ly }
      | _ => none
  | [] => []

/-- plain keys of the base layer: coordinate ↦ base key code -/
def plainKeys (l : Layout) : List (Coord × Nat) :=
  match l.cfg.layers with
  | tbl :: _ => tbl.filterMap fun (c, a) => match a with | .keyCode k => some (c, k) | _ => none
  | [] => []

/-- every key code a plain key can produce (base layer and the layers above) -/
def plainCodes (l : Layout) (plains : List (Coord × Nat)) : List Nat :=
  (l.cfg.layers.flatMap fun tbl => tbl.filterMap fun (c, a) =>
    match a with
    | .keyCode k => if plains.any (·.1 == c) then some k else none
    | _ => none).eraseDups

/-- the fragment the specification speaks about: base layer of plain keys and one-shot keys, upper
layers of plain keys and transparent entries, default `defcfg` resolution options -/
def inFragment (l : Layout) : Bool :=
  l.transV2 && !l.delegateToFirstLayer &&
  (match l.cfg.layers with
   | [] => false
   | base :: upper =>
     base.all (fun (_, a) => match a with
       | .keyCode _ => true
       | .oneShot (.keyCode _) _ _ | .oneShot (.multipleKeyCodes _) _ _ | .oneShot (.layer _) _ _ => true
       | .oneShotIgnoreEventsTicks _ => true   -- t5: `one-shot-pause-processing` keys (O1, O2 only)
       | .noOp => true                         -- t5: `XX` keys and unmapped positions
       | _ => false) &&
     upper.all (fun tbl => tbl.all fun (_, a) => match a with | .keyCode _ | .trans | .noOp => true | _ => false))

def nEvents (h : List HEv) : Nat :=
  (h.filter fun e => match e with | .tick _ => false | _ => true).length

/-- physically consistent and balanced: a press is of a key that is up, a release of a key that is
down, and everything is released at the end; every coordinate is known to the base layer -/
def consistentBalanced (known : List Coord) (h : List HEv) : Bool :=
  let rec go : List Coord → List HEv → Bool
    | down, [] => down.isEmpty
    | down, .press c :: r => known.contains c && !down.contains c && go (c :: down) r
    | down, .release c :: r => down.contains c && go (down.erase c) r
    | down, .tick _ :: r => go down r
  go [] h

def sortNat (l : List Nat) : List Nat := (l.toArray.qsort (· < ·)).toList

/-- key lists after every tick on which the (sorted) list changed -/
def changes (items : List (Nat × List Nat)) : List (Nat × List Nat) :=
  let rec go : List Nat → List (Nat × List Nat) → List (Nat × List Nat)
    | _, [] => []
    | prev, (t, ks) :: rest => if ks == prev then go prev rest else (t, ks) :: go ks rest
  go [] items

structure SpecRun where
  s : Sp := {}
  t : Nat := 0
  out : Array (Nat × List Nat) := #[]

def specTicks (cfg : LCfg) (d : Nat) : Nat → SpecRun → SpecRun
  | 0, r => r
  | n + 1, r =>
    let t := r.t + 1
    let s := step cfg d t r.s
    specTicks cfg d n { s, t, out := r.out.push (t, sortNat (keys s)) }

def specRun (cfg : LCfg) (d : Nat) : List HEv → SpecRun → SpecRun
  | [], r => r
  | .press c :: rest, r => specRun cfg d rest { r with s := input r.s (.press c) }
  | .release c :: rest, r => specRun cfg d rest { r with s := input r.s (.release c) }
  | .tick n :: rest, r => specRun cfg d rest (specTicks cfg d n r)

def fmtCh (l : List (Nat × List Nat)) : String :=
  " ".intercalate (l.map fun (t, ks) => s!"@{t} K{Lay.fmtKeys ks}")

/-! ### t5: per-one-shot-key reading of "exactly the next key" (O2)

The statement speaks about each one-shot key separately: "its key or layer stays active until the
first following non-one-shot key is pressed (released) ... and it affects nothing after that point:
... the second following key is never modified".  So for a plain press P and a one-shot key k: when a
plain key was pressed (press variants) / pressed and released (release variants) between the last
press of k and P - or k was never pressed - and no one-shot key is physically down, then P must not
carry the markers of k.  (The earlier version only spoke when this held for ALL one-shot keys at
once, i.e. it forgot everything at each one-shot press: a one-shot activated between the first and
the second following key hid a lingering earlier one.)

`one-shot-pause-processing p` keys of the base layer ("pause one-shot processing of new input
keypresses for a time", docs/config.adoc): a plain press up to `p` (+ the queue latency bound `slack`)
ticks after the press of such a key is not counted as a following key - the oracle is silent about
what it does to the one-shot.  A press after that window counts.

chords v2 whose action is a one-shot of keys: the participants are neither plain keys nor one-shot
keys for the oracle (no verdict for them; while one is physically down no verdict at all - the chord
may be held as a one-shot key), the chord's own markers are never forbidden. -/

structure PauseKey where
  coord : Coord
  ticks : Nat

/-- keys of the base layer that do nothing (`XX`, unmapped positions): following non-one-shot keys
without an output of their own -/
def noopKeys (l : Layout) : List Coord :=
  match l.cfg.layers with
  | tbl :: _ => tbl.filterMap fun (c, a) => match a with | .noOp => some c | _ => none
  | [] => []

def pauseKeys (l : Layout) : List PauseKey :=
  match l.cfg.layers with
  | tbl :: _ => tbl.filterMap fun (c, a) => match a with
      | .oneShotIgnoreEventsTicks p => some { coord := c, ticks := p }
      | _ => none
  | [] => []

/-- per one-shot key: pressed at all, plain presses since its last press, one of those released -/
structure OsTrack where
  key : OsKey
  seen : Bool := false
  since : List Coord := []
  rel : Bool := false

def OsTrack.forbidden (pressV : Bool) (k : OsTrack) : Bool :=
  !k.seen || (if pressV then !k.since.isEmpty else k.rel)

structure Verdict where
  coord : Coord
  /-- markers that must not be down when this press comes out -/
  noMarkers : List Nat
  /-- it must come out as its base-layer key code (every layer one-shot key is over) -/
  base : Bool
  deriving Repr

/-- for each plain press of the history (in order) what must hold of it; `none`: nothing is required
(a one-shot key or a chord participant is physically down) -/
def mustBePlain (oss : List OsKey) (plains : List (Coord × Nat)) (pauses : List PauseKey)
    (noops : List Coord) (parts : List Coord) (slack : Nat) (pressV : Bool) (h : List HEv) : List (Coord × Option Verdict) :=
  let isOs (c : Coord) := oss.any (·.coord == c)
  let isPlain (c : Coord) := plains.any (·.1 == c)
  let markers := (oss.flatMap (·.markers)).eraseDups
  let rec go : List Coord → List OsTrack → Nat → Nat → List HEv → List (Coord × Option Verdict)
    | _, _, _, _, [] => []
    | osDown, tr, now, pauseUntil, .press c :: r =>
      if isOs c then
        go (c :: osDown) (tr.map fun k => if k.key.coord == c then { k with seen := true, since := [], rel := false } else k)
          now pauseUntil r
      else if parts.contains c then go (c :: osDown) tr now pauseUntil r
      else if isPlain c then
        let verdict : Option Verdict :=
          if !osDown.isEmpty then none
          else
            let fb := tr.filter (·.forbidden pressV)
            let live := tr.filter (!·.forbidden pressV)
            some { coord := c,
                   noMarkers := markers.filter fun m => !live.any (·.key.markers.contains m),
                   base := !live.any (·.key.layer.isSome) && !fb.isEmpty }
        let tr := if now > pauseUntil then tr.map fun k => { k with since := k.since ++ [c] } else tr
        (c, verdict) :: go osDown tr now pauseUntil r
      else if noops.contains c then
        -- a following key like any other; it has no output, so there is no verdict for it
        let tr := if now > pauseUntil then tr.map fun k => { k with since := k.since ++ [c] } else tr
        go osDown tr now pauseUntil r
      else
        match pauses.find? (·.coord == c) with
        | some p => go osDown tr now (max pauseUntil (now + p.ticks + slack)) r
        | none => go osDown tr now pauseUntil r
    | osDown, tr, now, pauseUntil, .release c :: r =>
      if isOs c || parts.contains c then go (osDown.erase c) tr now pauseUntil r
      else go osDown (tr.map fun k => { k with rel := k.rel || k.since.contains c }) now pauseUntil r
    | osDown, tr, now, pauseUntil, .tick n :: r => go osDown tr (now + n) pauseUntil r
  go [] (oss.map fun k => { key := k }) 0 0 h

/-- chords v2 inside the fragment: every chord action is a one-shot of key codes; returns the
participating coordinates (row 0), the chords' markers, their variants, and the largest pending
duration + one-shot timeout -/
def chv2Info (v2 : Option ChV2Cfg) : Option (List Coord × List Nat × List OneShotEnd × Nat) :=
  match v2 with
  | none => some ([], [], [], 0)
  | some cfg =>
    let chords := cfg.mapping.flatMap (·.2)
    let infos := chords.map fun ch => match ch.action with
      | .oneShot (.keyCode k) T v => some ([k], v, T + ch.pending)
      | .oneShot (.multipleKeyCodes ks) T v => some (ks, v, T + ch.pending)
      | _ => none
    if infos.any (·.isNone) then none else
    let infos := infos.filterMap id
    some ((chords.flatMap fun ch => ch.keys.map fun y => ((0, y) : Coord)).eraseDups,
          (infos.flatMap (·.1)).eraseDups, infos.map (·.2.1), infos.foldl (fun m x => max m x.2.2) 0)

def oracle (l : Layout) (v2 : Option ChV2Cfg) (hist : List HEv) (items : List Trace.Item) : String :=
  let oss := osKeys l
  if oss.isEmpty || !inFragment l then "skip" else
  match chv2Info v2 with
  | none => "skip"
  | some (parts, chMarkers, chVariants, chMax) =>
  let pauses := pauseKeys l
  let plains0 := plainKeys l
  -- chord participants must be plain keys of the base layer; they are not `plains` for the oracle
  if !parts.all (fun c => plains0.any (·.1 == c)) then "skip" else
  let plains := plains0.filter fun p => !parts.contains p.1
  let partCodes := (plains0.filter fun p => parts.contains p.1).map (·.2)
  let noops := noopKeys l
  let known := oss.map (·.coord) ++ plains0.map (·.1) ++ pauses.map (·.coord) ++ noops
  if !consistentBalanced known hist then "skip" else
  let d := l.oneshot.pauseInputProcessingDelay
  let maxT := max (oss.foldl (fun m k => max m k.timeout) 0) chMax
  let nEv := nEvents hist
  let tail := match hist.getLast? with | some (.tick n) => n | _ => 0
  let markers := (oss.flatMap (·.markers)).eraseDups
  let pcodes := plainCodes l plains
  let disjoint := (markers ++ chMarkers ++ partCodes).all (fun m => !pcodes.contains m) &&
    chMarkers.all (fun m => !markers.contains m)
  let v0 := (oss.head?.map (·.variant)).getD .firstPress
  let uniform := oss.all (fun k => k.variant == v0) && chVariants.all (· == v0)
  -- O1: nothing is down at the end of a balanced history
  let settled := tail ≥ maxT + 2 + nEv * (d + 1)
  let o1 : Option String :=
    if settled then
      match items.getLast? with
      | some it => if it.keys.isEmpty then none else some s!"keys {it.keys} still down at the end of a balanced history"
      | none => none
    else none
  -- O2: a key that must be unaffected comes out unmodified
  let o2 : List String :=
    if !uniform || !disjoint || nEv > 32 then [] else
    let pressV := isPressVariant ((oss.head?.map (·.variant)).getD .firstPress)
    let verdicts := mustBePlain oss plains pauses noops parts (nEv * (d + 1) + 2) pressV hist
    let ds := (downs items).filter fun dn => pcodes.contains dn.2
    if ds.length != verdicts.length then
      (if settled then [s!"{verdicts.length} plain key presses but {ds.length} plain key outputs"] else [])
    else
      (verdicts.zip ds).filterMap fun ((c, v), (t, k)) =>
        match v with
        | none => none
        | some v =>
          let base := ((plains.find? (·.1 == c)).map (·.2)).getD 0
          let ks := ((items.find? (·.tick == t)).map (·.keys)).getD []
          let mods := ks.filter v.noMarkers.contains
          if v.base && k != base then
            some s!"plain key {c.2} came out as {k} at tick {t} although every one-shot key's activation was over before it (it is not the first key after any of them, or none was pressed)"
          else if !mods.isEmpty then
            some s!"one-shot keys {mods} are down when plain key {c.2} goes down at tick {t} although it is not the first key pressed (released) after their one-shot keys"
          else none
  -- O3: the whole trace against the specification, where it is not silent
  let o3 : Option String :=
    if !uniform || v2.isSome || !pauses.isEmpty then none else
    let r := specRun l.cfg d hist {}
    if r.s.silent then none else
    let exp := changes r.out.toList
    let got := changes (items.map fun it => (it.tick, sortNat it.keys))
    if exp == got then none else some s!"specification expects [{fmtCh exp}] but the trace is [{fmtCh got}]"
  match o1.toList ++ o2 ++ o3.toList with
  | [] => "ok"
  | e :: _ => s!"fail {e}"

def run (line : String) : String × String :=
  match runP (Cfg.case "LAY") line with
  | .error e => (s!"bad-case {e}", "-")
  | .ok c => (Lay.modelOut c, "-")

/-- `<case> ### <impl trace>` → ok | fail … | skip -/
def runOracle (line : String) : String × String :=
  let (cs, impl) := splitOracleLine line
  match runP (Cfg.case "LAY") cs with
  | .error _ => ("skip", "-")
  | .ok c =>
    match c.layout, Trace.parse impl with
    | some l, some items => (oracle l c.chv2 c.hist items, "-")
    | _, _ => ("skip", "-")

end KVerif.Drv.C06
