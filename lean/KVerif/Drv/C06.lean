import KVerif.Drv.Trace
import KVerif.Spec.OneShot
namespace KVerif.Drv.C06
open KVerif.L KVerif.Drv KVerif.Drv.Cfg KVerif.Drv.Trace KVerif.Spec.OneShot

/-- a one-shot key of the base layer -/
structure OsKey where
  coord : Coord
  timeout : Nat
  variant : OneShotEnd
  markers : List Nat      -- key codes of the inner action (empty for a layer)
  layer : Option Nat
  deriving Repr

def osKeys (l : Layout) : List OsKey :=
  match l.cfg.layers with
  | tbl :: _ =>
    tbl.filterMap fun (c, a) => match a with
      | .oneShot (.keyCode k) T v => some { coord := c, timeout := T, variant := v, markers := [k], layer := none }
      | .oneShot (.multipleKeyCodes ks) T v => some { coord := c, timeout := T, variant := v, markers := ks, layer := none }
      | .oneShot (.layer ly) T v => some { coord := c, timeout := T, variant := v, markers := [], layer := some ly }
      | _ => none
  | [] => []

/-- plain keys of the base layer: coordinate ↦ base key code -/
def plainKeys (l : Layout) : List (Coord × Nat) :=
  match l.cfg.layers with
  | tbl :: _ => tbl.filterMap fun (c, a) => match a with | .keyCode k => some (c, k) | _ => none
  | [] => []

/-- every key code a plain key can produce (base layer and the layers above) -/
def plainCodes (l : Layout) (plains : List (Coord × Nat)) : List Nat :=
  (l.cfg.layers.flatMap fun tbl => tbl.filterMap fun (c, a) =>
    match a with
    | .keyCode k => if plains.any (·.1 == c) then some k else none
    | _ => none).eraseDups

/-- the fragment the specification speaks about: base layer of plain keys and one-shot keys, upper
layers of plain keys and transparent entries, default `defcfg` resolution options -/
def inFragment (l : Layout) : Bool :=
  l.transV2 && !l.delegateToFirstLayer &&
  (match l.cfg.layers with
   | [] => false
   | base :: upper =>
     base.all (fun (_, a) => match a with
       | .keyCode _ => true
       | .oneShot (.keyCode _) _ _ | .oneShot (.multipleKeyCodes _) _ _ | .oneShot (.layer _) _ _ => true
       | _ => false) &&
     upper.all (fun tbl => tbl.all fun (_, a) => match a with | .keyCode _ | .trans => true | _ => false))

def nEvents (h : List HEv) : Nat :=
  (h.filter fun e => match e with | .tick _ => false | _ => true).length

/-- physically consistent and balanced: a press is of a key that is up, a release of a key that is
down, and everything is released at the end; every coordinate is known to the base layer -/
def consistentBalanced (known : List Coord) (h : List HEv) : Bool :=
  let rec go : List Coord → List HEv → Bool
    | down, [] => down.isEmpty
    | down, .press c :: r => known.contains c && !down.contains c && go (c :: down) r
    | down, .release c :: r => down.contains c && go (down.erase c) r
    | down, .tick _ :: r => go down r
  go [] h

def sortNat (l : List Nat) : List Nat := (l.toArray.qsort (· < ·)).toList

/-- key lists after every tick on which the (sorted) list changed -/
def changes (items : List (Nat × List Nat)) : List (Nat × List Nat) :=
  let rec go : List Nat → List (Nat × List Nat) → List (Nat × List Nat)
    | _, [] => []
    | prev, (t, ks) :: rest => if ks == prev then go prev rest else (t, ks) :: go ks rest
  go [] items

structure SpecRun where
  s : Sp := {}
  t : Nat := 0
  out : Array (Nat × List Nat) := #[]

def specTicks (cfg : LCfg) (d : Nat) : Nat → SpecRun → SpecRun
  | 0, r => r
  | n + 1, r =>
    let t := r.t + 1
    let s := step cfg d t r.s
    specTicks cfg d n { s, t, out := r.out.push (t, sortNat (keys s)) }

def specRun (cfg : LCfg) (d : Nat) : List HEv → SpecRun → SpecRun
  | [], r => r
  | .press c :: rest, r => specRun cfg d rest { r with s := input r.s (.press c) }
  | .release c :: rest, r => specRun cfg d rest { r with s := input r.s (.release c) }
  | .tick n :: rest, r => specRun cfg d rest (specTicks cfg d n r)

def fmtCh (l : List (Nat × List Nat)) : String :=
  " ".intercalate (l.map fun (t, ks) => s!"@{t} K{Lay.fmtKeys ks}")

/-- for each plain press of the history (in order): must it come out unmodified?  `some why` when
 (press variants) an earlier plain press, (release variants) an earlier press-and-release of a plain
 key, lies between the last one-shot key press and this press — or no one-shot key was pressed
 before at all — and no one-shot key is physically down. -/
def mustBePlain (oss : List OsKey) (plains : List (Coord × Nat)) (pressV : Bool) (h : List HEv) :
    List (Coord × Option String) :=
  let isOs (c : Coord) := oss.any (·.coord == c)
  let isPlain (c : Coord) := plains.any (·.1 == c)
  -- state: os keys down, whether any os press seen, plain presses since last os press,
  --        whether a plain key pressed since the last os press has been released since
  let rec go : List Coord → Bool → List Coord → Bool → List HEv → List (Coord × Option String)
    | _, _, _, _, [] => []
    | osDown, seen, since, rel, .press c :: r =>
      if isOs c then go (c :: osDown) true [] false r
      else if isPlain c then
        let verdict : Option String :=
          if !osDown.isEmpty then none
          else if !seen then some "no one-shot key was pressed before it"
          else if pressV then (if since.isEmpty then none else some "it is not the first key pressed after the one-shot key")
          else (if rel then some "a key pressed after the one-shot key was released before it" else none)
        (c, verdict) :: go osDown seen (since ++ [c]) rel r
      else go osDown seen since rel r
    | osDown, seen, since, rel, .release c :: r =>
      if isOs c then go (osDown.erase c) seen since rel r
      else go osDown seen since (rel || since.contains c) r
    | osDown, seen, since, rel, .tick _ :: r => go osDown seen since rel r
  go [] false [] false h

def oracle (l : Layout) (hist : List HEv) (items : List Trace.Item) : String :=
  let oss := osKeys l
  if oss.isEmpty || !inFragment l then "skip" else
  let plains := plainKeys l
  let known := oss.map (·.coord) ++ plains.map (·.1)
  if !consistentBalanced known hist then "skip" else
  let d := l.oneshot.pauseInputProcessingDelay
  let maxT := oss.foldl (fun m k => max m k.timeout) 0
  let nEv := nEvents hist
  let tail := match hist.getLast? with | some (.tick n) => n | _ => 0
  let markers := (oss.flatMap (·.markers)).eraseDups
  let pcodes := plainCodes l plains
  let disjoint := markers.all fun m => !pcodes.contains m
  let uniform := oss.all fun k => k.variant == (oss.head?.map (·.variant)).getD .firstPress
  -- O1: nothing is down at the end of a balanced history
  let settled := tail ≥ maxT + 2 + nEv * (d + 1)
  let o1 : Option String :=
    if settled then
      match items.getLast? with
      | some it => if it.keys.isEmpty then none else some s!"keys {it.keys} still down at the end of a balanced history"
      | none => none
    else none
  -- O2: a key that must be unaffected comes out unmodified
  let o2 : List String :=
    if !uniform || !disjoint || nEv > 32 then [] else
    let pressV := isPressVariant ((oss.head?.map (·.variant)).getD .firstPress)
    let verdicts := mustBePlain oss plains pressV hist
    let ds := (downs items).filter fun dn => pcodes.contains dn.2
    if ds.length != verdicts.length then
      (if settled then [s!"{verdicts.length} plain key presses but {ds.length} plain key outputs"] else [])
    else
      (verdicts.zip ds).filterMap fun ((c, v), (t, k)) =>
        match v with
        | none => none
        | some why =>
          let base := ((plains.find? (·.1 == c)).map (·.2)).getD 0
          let ks := ((items.find? (·.tick == t)).map (·.keys)).getD []
          let mods := ks.filter markers.contains
          if k != base then some s!"plain key {c.2} came out as {k} at tick {t} although {why}"
          else if !mods.isEmpty then some s!"one-shot keys {mods} are down when plain key {c.2} goes down at tick {t} although {why}"
          else none
  -- O3: the whole trace against the specification, where it is not silent
  let o3 : Option String :=
    if !uniform then none else
    let r := specRun l.cfg d hist {}
    if r.s.silent then none else
    let exp := changes r.out.toList
    let got := changes (items.map fun it => (it.tick, sortNat it.keys))
    if exp == got then none else some s!"specification expects [{fmtCh exp}] but the trace is [{fmtCh got}]"
  match o1.toList ++ o2 ++ o3.toList with
  | [] => "ok"
  | e :: _ => s!"fail {e}"

def run (line : String) : String × String :=
  match runP (Cfg.case "LAY") line with
  | .error e => (s!"bad-case {e}", "-")
  | .ok c => (Lay.modelOut c, "-")

/-- `<case> ### <impl trace>` → ok | fail … | skip -/
def runOracle (line : String) : String × String :=
  let (cs, impl) := splitOracleLine line
  match runP (Cfg.case "LAY") cs with
  | .error _ => ("skip", "-")
  | .ok c =>
    match c.layout, Trace.parse impl with
    | some l, some items => (oracle l c.hist items, "-")
    | _, _ => ("skip", "-")

end KVerif.Drv.C06
