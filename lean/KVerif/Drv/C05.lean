import KVerif.Drv.Trace
namespace KVerif.Drv.C05
open KVerif.L KVerif.Drv KVerif.Drv.Cfg KVerif.Drv.Trace

/-- a tap-hold key whose three actions are plain marker keys -/
structure THKey where
  coord : Coord
  timeout : Nat
  interval : Nat
  cfg : HTConfig
  tap : Nat
  hold : Nat
  to : Nat
  deriving Repr

partial def keyCodesOf : Action → List Nat
  | .keyCode k => [k]
  | .multipleKeyCodes ks => ks
  | .multipleActions as => as.flatMap keyCodesOf
  | .holdTap _ h t ta _ _ => keyCodesOf h ++ keyCodesOf t ++ keyCodesOf ta
  | .oneShot a _ _ => keyCodesOf a
  | .tapDance as _ _ => as.flatMap keyCodesOf
  | .fork l r _ => keyCodesOf l ++ keyCodesOf r
  | .switch cs => cs.flatMap fun c => keyCodesOf c.2.1
  | .chords _ cs _ => cs.flatMap fun c => keyCodesOf c.2
  | _ => []

def thKeys (l : Layout) : List THKey :=
  match l.cfg.layers with
  | [tbl] =>
    tbl.filterMap fun (c, a) => match a with
      | .holdTap T (.keyCode h) (.keyCode t) (.keyCode ta) cfg i =>
        some { coord := c, timeout := T, interval := i, cfg, tap := t, hold := h, to := ta }
      | _ => none
  | _ => []

def presses (h : List HEv) (c : Coord) : Nat :=
  (h.filter fun e => match e with | .press c' => c' == c | _ => false).length

def nEvents (h : List HEv) : Nat :=
  (h.filter fun e => match e with | .tick _ => false | _ => true).length

/-- physically consistent: every press is of a key that is up, every release of a key that is down -/
def consistent (h : List HEv) : Bool :=
  let rec go : List Coord → List HEv → Bool
    | _, [] => true
    | down, .press c :: r => !down.contains c && go (c :: down) r
    | down, .release c :: r => down.contains c && go (down.erase c) r
    | down, .tick _ :: r => go down r
  go [] h

/-- plain keys of the single layer: coordinate ↦ its own key code -/
def plainKeys (l : Layout) : List (Coord × Nat) :=
  match l.cfg.layers with
  | [tbl] => tbl.filterMap fun (c, a) => match a with | .keyCode k => some (c, k) | _ => none
  | _ => []

-- [t8:released-early] begin
/-- the key events of a history with their physical time (sum of the tick gaps before them) -/
def timed : Nat → List HEv → List (Nat × HEv)
  | _, [] => []
  | t, .tick n :: r => timed (t + n) r
  | t, e :: r => (t, e) :: timed t r

def isRelOf (c : Coord) : Nat × HEv → Bool
  | (_, .release c') => c' == c
  | _ => false

def isPressEv : Nat × HEv → Bool
  | (_, .press _) => true
  | _ => false

/-- for every press of coordinate `c`, in order: `some (ticks until its release, was any key pressed
in between)`, or `none` when the key is not released in the history -/
def pressSpans (c : Coord) : List (Nat × HEv) → List (Option (Nat × Bool))
  | [] => []
  | (t, .press c') :: r =>
    if c' == c then
      let span := r.takeWhile fun e => !isRelOf c e
      let rel := (r.dropWhile fun e => !isRelOf c e).head?
      (rel.map fun e => (e.1 - t, span.any isPressEv)) :: pressSpans c r
    else pressSpans c r
  | _ :: r => pressSpans c r

/-- O4 (statement: "tap if the key is released before the hold timeout has elapsed"; the early
triggers are presses of *other* keys *while the key is undecided*): a press of a tap-hold key that
is released well inside its hold timeout (2 ticks of slack for queue latency), with no key pressed
between its press and its release, must resolve to the tap action - whatever was pending before it,
whatever is typed after its release. Judged on the implementation trace; the i-th tap/hold/timeout
effect of a key belongs to its i-th press (O1 holds the counts equal). -/
def releasedEarly (k : THKey) (quick : Bool) (hist : List HEv) (effects : List (Nat × Nat)) : Option String :=
  let spans := pressSpans k.coord (timed 0 hist)
  let idx := List.range spans.length
  (idx.filterMap fun i =>
    match spans[i]?, effects[i]? with
    | some (some (dur, false)), some d =>
      if dur + 2 < k.timeout && d.2 != k.tap then
        some s!"key {k.coord.1}.{k.coord.2} press #{i + 1}: released after {dur} ticks (hold timeout {k.timeout}{if quick then ", concurrent-tap-hold" else ""}), no key pressed in between: expected tap {k.tap}, got {d.2} at {d.1}"
      else none
    | _, _ => none).head?
-- [t8:released-early] end

def oracle (l : Layout) (hist : List HEv) (items : List Trace.Item) : String :=
  let ths := thKeys l
  let allCodes := (l.cfg.layers.flatMap fun tbl => tbl.flatMap fun e => keyCodesOf e.2)
  let ds := downs items
  if ths.isEmpty then "skip" else
  let longTail := match hist.getLast? with | some (.tick n) => n ≥ 300 | _ => false
  if nEvents hist > 30 || !consistent hist || !longTail then "skip" else
  -- O1: exactly one of tap / hold / timeout per press
  let o1 := ths.filterMap fun k =>
    let markers := [k.tap, k.hold, k.to].eraseDups
    -- markers must be produced by nothing else
    let uniq := markers.all fun m => Trace.count allCodes m == Trace.count [k.tap, k.hold, k.to] m
    if !uniq then none else
    let n := presses hist k.coord
    let got := (ds.filter fun d => markers.contains d.2).length
    if got == n then none else some s!"key {k.coord.1}.{k.coord.2}: {n} presses but {got} tap/hold/timeout effects"
  -- O2: a lone tap-hold key: which action, and on which tick
  let o2 : Option String :=
    match hist, ths with
    | [.press c, .tick j, .release c', .tick _], [k] =>
      if c == k.coord && c' == c then
        let quick := l.quickTapHoldTimeout
        let skip := match k.cfg with | .customExcept _ => true | _ => false
        -- press processed at tick 1 after 1 tick in the queue; release seen at tick j + 1 after 1 tick
        let isTap := if quick then j < k.timeout - 1 else j < k.timeout
        -- except-keys (documented): nothing is output until the key is released or another key is
        -- pressed; the decision is taken when the release is seen
        let expect : Nat × Nat :=
          if isTap then (j + 1, k.tap)
          else if skip then (j + 1, k.to)
          else if quick then (max (k.timeout - 1) 1 + 1, k.to) else (max k.timeout 1 + 1, k.to)
        match ds.head? with
        | some d => if d == expect then none else some s!"lone key: expected first effect {expect}, got {d}"
        | none => some s!"lone key: expected effect {expect}, got none"
      else none
    | [.press c, .release c', .tick _], [k] =>
      if c == k.coord && c' == c then
        -- released before the first tick: seen by the waiting state on its first tick
        match ds.head? with
        | some d =>
          let skip := match k.cfg with | .customExcept _ => true | _ => false
          let T' := if l.quickTapHoldTimeout then k.timeout - 1 else k.timeout
          let expKey := if T' > 1 then k.tap else k.to
          if d == (2, expKey) then none else some s!"lone key j=0: expected (2,{expKey}), got {d}"
        | none => some "lone key j=0: no effect"
      else none
    | _, _ => none
  -- O3: plain keys come out in the order they were pressed
  let plains := plainKeys l
  let plainCodes := plains.map (·.2)
  let uniqPlain := plainCodes.all fun m => Trace.count allCodes m == 1
  let o3 : Option String :=
    if !uniqPlain then none else
    let pressedSeq := hist.filterMap fun e => match e with
      | .press c => (plains.find? (·.1 == c)).map (·.2)
      | _ => none
    let outSeq := (ds.filter fun d => plainCodes.contains d.2).map (·.2)
    if pressedSeq == outSeq then none else some s!"plain keys pressed {pressedSeq} but output {outSeq}"
  -- O4 [t8:released-early]
  let o4 := ths.filterMap fun k =>
    let markers := [k.tap, k.hold, k.to].eraseDups
    let uniq := markers.all fun m => Trace.count allCodes m == Trace.count [k.tap, k.hold, k.to] m
    let effects := ds.filter fun d => markers.contains d.2
    if !uniq || k.tap == k.hold || k.tap == k.to || effects.length != presses hist k.coord then none
    else releasedEarly k l.quickTapHoldTimeout hist effects
  match o1 ++ o2.toList ++ o3.toList ++ o4 with
  | [] => "ok"
  | e :: _ => s!"fail {e}"

def run (line : String) : String × String :=
  match runP (Cfg.case "LAY") line with
  | .error e => (s!"bad-case {e}", "-")
  | .ok c => (Lay.modelOut c, "-")

/-- `<case> ### <impl trace>` → ok | fail … | skip -/
def runOracle (line : String) : String × String :=
  let (cs, impl) := splitOracleLine line
  match runP (Cfg.case "LAY") cs with
  | .error _ => ("skip", "-")
  | .ok c =>
    match c.layout, Trace.parse impl with
    | some l, some items => (oracle l c.hist items, "-")
    | _, _ => ("skip", "-")

end KVerif.Drv.C05
