/- Token-stream helpers for the line protocol (no proofs here). -/
namespace KVerif.Drv

abbrev P := StateT (List String) (Except String)

def tok : P String := do
  match (← get) with
  | [] => throw "unexpected end of line"
  | t :: ts => set ts; pure t

def peek? : P (Option String) := do
  match (← get) with
  | [] => pure none
  | t :: _ => pure (some t)

def num : P Nat := do
  let t ← tok
  match t.toNat? with
  | some n => pure n
  | none => throw s!"expected a number, got {t}"

def expect (s : String) : P Unit := do
  let t ← tok
  if t == s then pure () else throw s!"expected {s}, got {t}"

/-- run `p` exactly `n` times -/
def rep {α} (n : Nat) (p : P α) : P (List α) :=
  match n with
  | 0 => pure []
  | n + 1 => do
    let x ← p
    let xs ← rep n p
    pure (x :: xs)

def tokens (line : String) : List String :=
  (line.trimAscii.toString.splitOn " ").filter (· ≠ "")

def runP {α} (p : P α) (line : String) : Except String α :=
  match p.run (tokens line) with
  | .ok (a, _) => .ok a
  | .error e => .error e

def joinWith (sep : String) (xs : List String) : String :=
  match xs with
  | [] => "-"
  | _ => sep.intercalate xs

end KVerif.Drv
