import KVerif.Drv.C14
namespace KVerif.Drv.C01o
open KVerif.L KVerif.K KVerif.Drv KVerif.Drv.Kan KVerif.Drv.C14

/-- the OS key / button state is a set: a second press of something already down changes nothing
and one release lets it go -/
def applyAll (down : List String) (e : String) : List String :=
  let add (x : String) := if down.contains x then down else x :: down
  let del (x : String) := down.filter (· != x)
  if e.startsWith "d" then add (e.drop 1).toString
  else if e.startsWith "u" then del (e.drop 1).toString
  else if e.startsWith "bd" then add s!"btn{(e.drop 2).toString}"
  else if e.startsWith "bu" then del s!"btn{(e.drop 2).toString}"
  else down

def latching (k : KState) : Bool :=
  k.customs.any fun l => l.any fun a => match a with
    | .fakeKey _ .press | .fakeKey _ .toggle | .fakeKeyOnRelease _ .press | .fakeKeyOnRelease _ .toggle => true
    | .fakeKeyOnIdle _ .press _ | .fakeKeyOnIdle _ .toggle _ => true
    | _ => false

/-- components that keep changing over the next `n` ticks of the model -/
def busyOver : Nat → KState → List String → List String
  | 0, _, acc => acc
  | n + 1, k, acc =>
    let nq := nonQuiescent k
    let nq := if !k.layout.actionQueue.isEmpty then nq ++ ["action_queue"] else nq
    let acc := nq.foldl (fun a x => if a.contains x then a else a ++ [x]) acc
    match tickStates k with
    | .error _ => acc
    | .ok k' => busyOver n k' acc

/-- what the model's final state says about why the run did not come to rest -/
def diagnose (c : Kan.Case) (k : KState) (down : List String) : String :=
  match runHist false (isLoop c.hist) false c.hist { c.run0 k with sched := c.sched1 } with
  | .error e => s!"model: crash {crashName e}"
  | .ok r =>
    -- a recorded finding is a defect of the code as modelled: the model must end in the same
    -- stuck OS state. If the model lets go of what the implementation keeps down, this is something else.
    let mitems := parseTrace (((finish r false).splitOn " ").filter (· ≠ "")) []
    let mdown := mitems.foldl (fun d it => it.evs.foldl applyAll d) ([] : List String)
    if !(down.all mdown.contains && mdown.all down.contains) then
      s!"model: does-not-reproduce (the model ends with {mdown} down at the OS)"
    else
    let k := r.k
    let hasCustom := k.layout.states.any fun s => match s with | .custom .. => true | _ => false
    let stale := (k.unmoddedKeys ++ k.unshiftedKeys).map toString
    let mouseBusy := k.scroll.isSome || k.hscroll.isSome || k.moveV.isSome || k.moveH.isSome
    -- a stale unmod/unshift key that caps-word capitalises keeps caps-word alive (every tick finds a
    -- key to capitalise and restarts its timeout): LShift then stays down with it and kanata never
    -- reports idle - the same lost release, one step further
    let capsShift := if k.capsWord.isSome then [toString k.mods.lsft] else []
    if !hasCustom && ((!stale.isEmpty && down.all fun d => stale.contains d || capsShift.contains d || d.startsWith "btn") ||
        (stale.isEmpty && !down.isEmpty && down.all (·.startsWith "btn")) ||
        (down.isEmpty && mouseBusy)) then
      "model: lost-custom-release (an effect of a custom action - unmod/unshift key, mouse button, wheel or pointer movement - is still active with no custom state left to release it)"
    else if k.layout.activeSequences.isEmpty && k.layout.states.any (fun s => match s with | .fakeKey _ => true | _ => false) then
      "model: orphaned-macro-key (FakeKey state left with no active sequence)"
    else if !isIdle k then
      s!"model: never-rests busy={",".intercalate (busyOver 16 k [])} waiting={if k.layout.waiting.isSome then 1 else 0} states={k.layout.states.length}"
    else "model: at rest"

/-- after a balanced history and a long quiet tail: nothing is down at the OS, nothing was emitted
during the last part of the tail, and kanata reports idle -/
def runOracle (line : String) : String × String :=
  let (cs, impl) := Trace.splitOracleLine line
  match runP (Kan.case "KAN") cs with
  | .error _ => ("skip", "-")
  | .ok c =>
    match c.k with
    | none => ("skip", "-")
    | some k =>
      if impl.startsWith "rej" || impl.startsWith "crash" || impl.startsWith "unsupported" then ("skip", "-") else
      if latching k then ("skip", "-") else
      -- balanced: every physical press released; tail ≥ 2000
      let rec balanced : List KEv → List Coord → Bool
        | [], d => d.isEmpty
        | .press c :: r, d => balanced r (c :: d)
        | .release c :: r, d => balanced r (d.erase c)
        | .fake .. :: _, _ => false
        | _ :: r, d => balanced r d
      let tail := match c.hist.getLast? with | some (.tick n) => n | _ => 0
      if !balanced c.hist [] || tail < 2000 then ("skip", "-") else
      let total := c.hist.foldl (fun t e => match e with | .tick n => t + n | _ => t) 0
      let items := parseTrace ((impl.splitOn " ").filter (· ≠ "")) []
      let down := items.foldl (fun d it => it.evs.foldl applyAll d) ([] : List String)
      let lastT := (items.getLast?.map (·.vt)).getD 0
      let idle := ((" " ++ impl).splitOn " I idle=").getLast?.map (fun s => s.startsWith "1")
      if !down.isEmpty then (s!"fail still down at the OS {tail} ms after the last release: {down}; {diagnose c k down}", "-")
      else if lastT + 500 > total then (s!"fail still emitting at {lastT}, {lastT - (total - tail)} ms after the last input; {diagnose c k down}", "-")
      else if idle != some true then (s!"fail kanata does not report idle although nothing is held; {diagnose c k down}", "-")
      else ("ok", "-")

end KVerif.Drv.C01o
