import KVerif.Drv.Tok
import KVerif.Model.ZippySpec
namespace KVerif.Drv.C20
open KVerif.Zippy KVerif.TextBuf KVerif.Drv

def outOf (kind code : Nat) : ZchOut :=
  let k := match kind % 4 with
    | 0 => OutKind.lower | 1 => OutKind.upper | 2 => OutKind.altGr | _ => OutKind.shiftAltGr
  ⟨k, kind ≥ 4, code⟩

def pOut : P ZchOut := do
  let k ← num
  let c ← num
  return outOf k c

/-- `ZchConfig::default().zch_cfg_smart_space_punctuation` -/
def defaultPunctuation : List ZchOut := [⟨.lower, false, 52⟩, ⟨.lower, false, 51⟩, ⟨.lower, false, 39⟩]

structure ZCase where
  we : Nat
  dl : Nat
  ss : SmartSpaceCfg
  pn : List ZchOut
  lines : List DLine
  hist : List HEv

def pLine : P DLine := do
  expect "L"
  let nc ← num
  let chords ← rep nc (do let nk ← num; rep nk num)
  expect "O"
  let no ← num
  let outs ← rep no pOut
  return ⟨chords, outs⟩

def pEv : P HEv := do
  let t ← tok
  let n ← num
  match t with
  | "p" => return .press n
  | "r" => return .release n
  | "t" => return .ticks n
  | x => throw s!"bad event {x}"

def pZch : P ZCase := do
  expect "we"; let we ← num
  expect "dl"; let dl ← num
  expect "ss"; let ssn ← num
  let ss := match ssn with | 0 => SmartSpaceCfg.disabled | 1 => .addSpaceOnly | _ => .full
  expect "pn"
  let pt ← tok
  let pn ← if pt == "-" then pure defaultPunctuation else
    match pt.toNat? with
    | some n => rep n pOut
    | none => throw "bad pn"
  expect "D"; let nl ← num
  let lines ← rep nl pLine
  expect "H"; let nh ← num
  let hist ← rep nh pEv
  return ⟨we, dl, ss, pn, lines, hist⟩

def fmtTrace (tr : List TraceItem) : String :=
  joinWith " " (tr.reverse.map fun
    | .ticks n => s!"t{n}"
    | .ev (.down k) => s!"d{k}"
    | .ev (.up k) => s!"u{k}")

def fmtCh (c : Ch) : String :=
  (if c.shift then "S" else "") ++ (if c.altgr then "G" else "") ++ toString c.code

def fmtReq (r : Required) : String :=
  "text " ++ joinWith "," (r.rtext.reverse.map fmtCh) ++ " mods " ++ joinWith "," (r.mods.map toString)

def runZch (c : ZCase) : String × String :=
  match buildDict c.lines with
  | .error .duplicate => ("rej dup", "-")
  | .ok d =>
    let cfg : Cfg := ⟨d, c.we, c.dl, c.ss, c.pn⟩
    let m := Sim.init.hist cfg c.hist
    let sp := match spec cfg (effectiveLines c.lines) c.hist with
      | some r => fmtReq r
      | none => "-"
    (fmtTrace m.trace, sp)

structure SCase where
  ins : List (Key × Nat)
  qs : List Key

def pSsm : P SCase := do
  expect "I"; let ni ← num
  let ins ← rep ni (do let nk ← num; let k ← rep nk num; let v ← num; pure (k, v))
  expect "Q"; let nq ← num
  let qs ← rep nq (do let nk ← num; rep nk num)
  return ⟨ins, qs⟩

def fmtLookup : Lookup Nat → String
  | .hasValue v => s!"v{v}"
  | .isSubset => "sub"
  | .neither => "no"

def runSsm (c : SCase) : String × String :=
  let m : Ssm Nat := c.ins.foldl (fun m kv => ssmInsertKsorted m kv.1 kv.2) []
  let a : List (Key × Nat) := c.ins.foldl (fun d kv => absInsert d kv.1 kv.2) []
  let mo := " ".intercalate (c.qs.map (fun q => fmtLookup (ssmGet m q)) ++ [if ssmIsEmpty m then "e1" else "e0"])
  let so := " ".intercalate (c.qs.map (fun q => fmtLookup (absGet a q)) ++ [if a.isEmpty then "e1" else "e0"])
  (mo, so)

def parseCase : P (String × String) := do
  expect "C20"
  let fam ← tok
  match fam with
  | "zch" => return runZch (← pZch)
  | "ssm" => return runSsm (← pSsm)
  -- caps-word slice: outside the model; the runner's model-free oracle judges the real trace
  | "zcw" => do let _ ← pZch; return ("unsupported", "-")
  | x => throw s!"unknown family {x}"

/-- returns (model output, spec output) -/
def run (line : String) : String × String :=
  match runP parseCase line with
  | .error e => (s!"bad-case {e}", "-")
  | .ok r => r

end KVerif.Drv.C20
