import KVerif.Drv.Tok
import KVerif.Model.Template
namespace KVerif.Drv.C03
open KVerif.SExpr KVerif.Drv

def hexVal (c : Char) : Option Nat :=
  if '0' ≤ c ∧ c ≤ '9' then some (c.toNat - '0'.toNat)
  else if 'a' ≤ c ∧ c ≤ 'f' then some (c.toNat - 'a'.toNat + 10)
  else none

/-- `-` is the empty byte string -/
def unhex (s : String) : Option (List Nat) :=
  if s == "-" then some [] else
  let rec go : List Char → List Nat → Option (List Nat)
    | [], acc => some acc.reverse
    | [_], _ => none
    | a :: b :: r, acc => match hexVal a, hexVal b with
      | some x, some y => go r ((x * 16 + y) :: acc)
      | _, _ => none
  go s.toList []

def hexDigit (n : Nat) : Char := if n < 10 then Char.ofNat (48 + n) else Char.ofNat (87 + n)

def hex (bs : List Nat) : String :=
  if bs.isEmpty then "-" else String.ofList (bs.foldr (fun b acc => hexDigit (b / 16) :: hexDigit (b % 16) :: acc) [])

/-- FNV-1a, 64 bit -/
def fnv (s : String) : UInt64 :=
  s.toUTF8.foldl (fun h b => (h ^^^ b.toUInt64) * 0x100000001b3) 0xcbf29ce484222325

def hex64 (x : UInt64) : String := String.ofList ((List.range 16).map fun i => hexDigit ((x.toNat / 16 ^ (15 - i)) % 16))

def spanStr (sp : Span) : String := s!"{sp.start.abs}-{sp.stop.abs}"

def lineSum (sp : Span) : UInt64 :=
  (sp.start.line + 3 * sp.start.lineBeg + 5 * sp.stop.line + 7 * sp.stop.lineBeg).toUInt64

mutual
partial def canon : SExpr → String × UInt64
  | .atom t sp => (s!"A{hex t}@{spanStr sp}", lineSum sp)
  | .list xs sp => let (s, l) := canonList xs; (s!"L{spanStr sp}({s})", l + lineSum sp)
partial def canonList (xs : List SExpr) : String × UInt64 :=
  xs.foldl (fun (acc : String × UInt64) x => let (s, l) := canon x; ((if acc.1.isEmpty then s else acc.1 ++ " " ++ s), acc.2 + l)) ("", 0)
end

def canonTops (tops : List TopLevel) : String :=
  let (s, l) := canonList (tops.map fun t => .list t.xs t.sp)
  let s := if s.length > 3000 then "#" ++ hex64 (fnv s) else s
  s!"{tops.length} lines={l} {s}"

def crashName : Crash → String
  | .posAssert => "posAssert" | .spanAssert => "spanAssert" | .coverFile => "coverFile"
  | .sliceRange => "sliceRange" | .sliceBoundary => "sliceBoundary" | .bomUtf8 => "bomUtf8"
  | .stackEmpty => "stackEmpty" | .debugUnderflow => "debugUnderflow" | .varLens => "varLens"
  | .unreachable => "unreachable" | .fuelOut => "fuelOut"

def msgName : Msg → String
  | .lex .untermString => "untermString" | .lex .untermMlString => "untermMlString"
  | .lex .untermMlComment => "untermMlComment" | .unexpectedClose => "unexpectedClose"
  | .unclosedOpen => "unclosedOpen" | .notInList => "notInList"

def posStr (p : Pos) : String := s!"{p.abs} {p.line} {p.lineBeg}"

structure Case where
  mode : String
  tag : String
  text : List Nat
  incs : List (List Nat × List Nat)

def parseCase (line : String) : Except String Case :=
  match tokens line with
  | "C03" :: mode :: tag :: t :: incs =>
    match unhex t with
    | none => .error "bad hex"
    | some text =>
      let incs := incs.filterMap fun i => match i.splitOn ":" with
        | [n, c] => match unhex n, unhex c with
          | some n, some c => some (n, c)
          | _, _ => none
        | _ => none
      .ok ⟨mode, tag, text, incs⟩
  | _ => .error "not a C03 line"

def bytesLe : Bytes → Bytes → Bool
  | [], _ => true
  | _ :: _, [] => false
  | a :: r, b :: t => if a < b then true else if a > b then false else bytesLe r t

def insertSorted (x : Bytes × SExpr) : List (Bytes × SExpr) → List (Bytes × SExpr)
  | [] => [x]
  | y :: r => if bytesLe x.1 y.1 then x :: y :: r else y :: insertSorted x r

def sortVars (vs : Vars) : Vars := vs.foldl (fun acc x => insertSorted x acc) []

def shorten (s : String) : String := if s.length > 3000 then "#" ++ hex64 (fnv s) else s

def diagStr (d : Diag) : String :=
  match d.span with
  | some sp => s!"err {sp.start.abs} {sp.stop.abs}"
  | none => "err nospan"

def headIs (names : List String) (t : TopLevel) : Bool :=
  match t.xs with
  | .atom h _ :: _ => names.any (fun n => h == kw n)
  | _ => false

/-- variables: definitions, then what `$name` resolves to as an atom and as a list -/
def varsStr (fx : Fixes) (tops : List TopLevel) : String :=
  let items := (tops.filter (headIs ["defvar"])).map (·.xs)
  match parseVars fx 100000 items [] with
  | .error c => s!"crash {crashName c}"
  | .ok (.error d) => diagStr d
  | .ok (.ok vars) =>
    let body := " ".intercalate ((sortVars vars).map fun (n, v) =>
      let ref := SExpr.atom (36 :: n) Span.default
      let a := match ref.atomV (vars.length + 1) (some vars) with
        | .error c => s!"crash-{crashName c}"
        | .ok none => "~"
        | .ok (some t) => hex t
      let l := match ref.listV (vars.length + 1) (some vars) with
        | .error c => s!"crash-{crashName c}"
        | .ok none => "~"
        | .ok (some xs) => s!"({(canonList xs).1})"
      s!"{hex n}={(canon v).1};{a};{l}")
    s!"ok {vars.length} {shorten body}"

/-- returns (model output, spec output) -/
def run (line : String) : String × String :=
  match parseCase line with
  | .error e => (s!"bad-case {e}", "-")
  | .ok c =>
    let fx := Fixes.fixed
    let out : String := match parse fx true c.text with
      | .error cr => s!"fe crash {crashName cr} | pre - | tp skip | vr skip | load crash {crashName cr}"
      | .ok (.error e) =>
        s!"fe err {posStr e.span.start} {posStr e.span.stop} {msgName e.msg} | pre - | tp skip | vr skip | load diag in main {e.span.start.abs} {e.span.stop.abs}"
      | .ok (.ok (tops, _)) =>
        let pre := tops.any (headIs ["include", "platform", "environment"])
        let preS := if pre then "1" else "0"
        let fe := s!"fe ok {canonTops tops}"
        match expandTemplates fx 0 tops with
        | .error cr => s!"{fe} | pre {preS} | tp crash {crashName cr} | vr skip | load crash {crashName cr}"
        | .ok (.error d) =>
          let load := if pre then "load total" else match d.span with
            | some sp => s!"load diag in main {sp.start.abs} {sp.stop.abs}"
            | none => "load diag none"
          s!"{fe} | pre {preS} | tp {diagStr d} | vr skip | {load}"
        | .ok (.ok tops') => s!"{fe} | pre {preS} | tp ok {canonTops tops'} | vr {varsStr fx tops'} | load total"
    (out, "total")

end KVerif.Drv.C03
