/-
C14, table level with chords v2 (`KOTX …` lines written by harness/src/c14.rs `expand_kot`):
  model output : the key-output table `Model/KeyOutputsV2.lean: createKeyOutputs` builds from the
                 serialised layer actions, the serialised chords-v2 mapping and the override table, in
                 the text form the harness prints the REAL table in (`TBL n (L<i> (key=outs)*)*`)
  oracle       : the REAL table (KO section) judged against the specification of the theorems of
                 Props/C14v2.lean: row k of layer L holds, as a set, exactly the key codes of the
                 key-producing leaves of the key's own action and of the chords registered for k that
                 are not disabled on L, and the override outputs of those; and the mapping registers a
                 chord under exactly its participating keys.
-/
import KVerif.Drv.Kan
import KVerif.Drv.Trace
import KVerif.Model.KeyOutputsV2
import KVerif.Gen.KeyTables
namespace KVerif.Drv.C14v2
open KVerif.L KVerif.K KVerif.KO KVerif.Drv KVerif.Drv.Cfg

structure KotCase where
  rej : Bool := false
  unsupported : Option String := none
  layers : List (List (Coord × Action)) := []
  chv2 : Option ChV2Cfg := none
  customs : List (List CAct) := []
  real : List Rows := []
  overrides : Override.Overrides := ⟨[]⟩

def kotCase : P KotCase := do
  expect "KOTX"
  let _ ← num
  match (← peek?) with
  | some "REJECT" => return { rej := true }
  | some "UNSUPPORTED" => do let _ ← tok; let why ← tok; return { unsupported := some why }
  | _ => do
    let l ← layoutCfg
    let v2 ← match (← peek?) with
      | some "CHV2" => do pure (some (← chv2Cfg))
      | _ => pure none
    expect "CUS"; let n ← num
    let customs ← rep n (do let m ← num; rep m Kan.cact)
    expect "KO"; let nl ← num
    let ko ← rep nl (do
      let cnt ← num
      rep cnt (do let y ← num; let m ← num; let outs ← rep m num; pure (y, outs)))
    expect "OVR"; let novr ← num
    let ovrRaw ← rep novr (do
      expect "I"; let ni ← num; let i ← rep ni num
      expect "O"; let no ← num; let o ← rep no num
      pure (i, o))
    let ovrs := ovrRaw.filterMap fun (i, o) => match Override.Override.tryNew i o with | .ok x => some x | .error _ => none
    return { layers := l.cfg.layers, chv2 := v2, customs, real := ko, overrides := Override.Overrides.new ovrs }

def insertSorted (x : Nat) : List Nat → List Nat
  | [] => [x]
  | y :: ys => if x < y then x :: y :: ys else if x == y then y :: ys else y :: insertSorted x ys

def sortDedup (l : List Nat) : List Nat := l.foldl (fun acc x => insertSorted x acc) []

/-- `i.try_into()` of `create_key_outputs`: the position is an `OsCode` -/
def validPos (i : Nat) : Bool := KVerif.Gen.KeyTables.osCodeDiscs.contains i

/-- key positions of row 0 the case speaks about: those with a serialised action on some layer, the
keys of the chords-v2 mapping, the keys that have a row in the real table -/
def keyUniverse (c : KotCase) : List Nat :=
  sortDedup ((c.layers.flatMap fun l => (l.filter (·.1.1 == 0)).map (·.1.2)) ++
    (match c.chv2 with | some v => v.mapping.map (·.1) | none => []) ++
    (c.real.flatMap fun l => l.map (·.1)))

/-- row 0 of every layer over the keyUniverse (a position the serialiser left out holds `Trans`) -/
def modelLayers (c : KotCase) : List (List (Nat × Action)) :=
  let u := keyUniverse c
  c.layers.map fun l => u.map fun y => (y, ((l.find? (·.1 == (0, y))).map (·.2)).getD .trans)

def fmtRows (m : Rows) : List String :=
  let keys := sortDedup (m.map (·.1))
  keys.filterMap fun k =>
    let row := m.get k
    if row.isEmpty then none else some s!"{k}={",".intercalate (row.map toString)}"

def fmtTable (t : List Rows) : String :=
  " ".intercalate ([s!"TBL {t.length}"] ++ (List.range t.length).flatMap fun i => s!"L{i}" :: fmtRows (t[i]!))

def modelOut (c : KotCase) : String :=
  if c.rej then "rej" else
  match c.unsupported with
  | some why => s!"unsupported {why}"
  | none =>
    match createKeyOutputs c.overrides c.customs validPos c.chv2 (modelLayers c) with
    | .error .layerIdxAssert => "crash layerIdxAssert"
    | .ok t => fmtTable t

def run (line : String) : String × String :=
  match runP kotCase line with
  | .error e => (s!"bad-case {e}", "-")
  | .ok c => (modelOut c, "-")

/-! ### oracle: the REAL table against the specification -/

/-- key-producing leaves of the action and the output keys of their overrides -/
def sources (c : KotCase) (k : Nat) (a : Action) : List Nat :=
  let p := possibleOutputs c.customs k a
  p ++ p.flatMap (overrideOuts c.overrides)

/-- what row `k` of layer `li` must hold, as a set -/
def required (c : KotCase) (li k : Nat) (a : Action) : List Nat :=
  sources c k a ++ ((chordsFor c.chv2 k).filter fun ch => !ch.disabledLayers.contains li).flatMap fun ch => sources c k ch.action

def sameChord (a b : ChordV2) : Bool := a.keys == b.keys && a.disabledLayers == b.disabledLayers && a.pending == b.pending

/-- the mapping registers a chord under exactly its participating keys -/
def registrationOk (v : ChV2Cfg) : Option String :=
  v.mapping.findSome? fun (k, chs) =>
    chs.findSome? fun ch =>
      if !ch.keys.contains k then some s!"registration: a chord with keys {ch.keys} is registered under key {k}"
      else ch.keys.findSome? fun k' =>
        if ((v.get k').getD []).any (sameChord ch) then none
        else some s!"registration: the chord with keys {ch.keys} is not registered under its key {k'}"

def oracle (c : KotCase) : String :=
  let reg := match c.chv2 with | some v => registrationOk v | none => none
  match reg with
  | some e => s!"fail {e}"
  | none =>
    let layers := modelLayers c
    if c.real.length != layers.length then s!"fail the table has {c.real.length} layers, the configuration {layers.length}" else
    let bad := (List.range layers.length).findSome? fun li =>
      (layers[li]!).findSome? fun (k, a) =>
        let row := (c.real[li]!).get k
        let req := if validPos k then required c li k a else []
        match req.find? (fun x => !row.contains x) with
        | some x => some s!"layer {li} key {k}: {x} is missing from the key's outputs {row}"
        | none =>
          match row.find? (fun x => !req.contains x) with
          | some x => some s!"layer {li} key {k}: the outputs {row} hold {x}, which neither the key's action nor a chord enabled on this layer produces"
          | none => none
    match bad with
    | some e => s!"fail {e}"
    | none => "ok"

def runOracle (line : String) : String × String :=
  let (cs, impl) := Trace.splitOracleLine line
  match runP kotCase cs with
  | .error _ => ("skip", "-")
  | .ok c =>
    if c.rej || c.unsupported.isSome || !impl.startsWith "TBL" then ("skip", "-")
    else (oracle c, "-")

end KVerif.Drv.C14v2
