/- Runs the layout model on a history and prints the trace in the harness's format. -/
import KVerif.Drv.Cfg
namespace KVerif.Drv.Lay
open KVerif.L KVerif.Drv KVerif.Drv.Cfg

def fmtKeys (l : List Nat) : String := joinWith "," (l.map toString)
def fmtCoord (c : Coord) : String := s!"{c.1}.{c.2}"
def commaSep (l : List String) : String := ",".intercalate l

def fmtState : St → String
  | .normalKey kc c f => s!"N{kc}.{c.1}.{c.2}.{f}"
  | .layerModifier v c => s!"L{v}.{c.1}.{c.2}"
  | .custom _ c => s!"C.{c.1}.{c.2}"
  | .fakeKey kc => s!"F{kc}"
  | .repeatingSequence evs c => s!"R{evs.length}.{c.1}.{c.2}"
  | .seqCustomPending _ => "SP"
  | .seqCustomActive _ => "SA"
  | .tombstone => "T"

def fmtWaiting (w : Waiting) : String :=
  let kind := match w.config with
    | .holdTap _ => "H"
    | .tapDance _ _ n => s!"T{n}"
    | .chord _ => "C"
  s!"{w.coord.1}.{w.coord.2}/{w.timeout}/{w.delay}/{w.ticks}/{w.prevQueueLen}/{kind}/{".".intercalate (w.layerStack.map toString)}"

def endCfgNum : OneShotEnd → Nat
  | .firstPress => 0 | .firstPressOrRepress => 1 | .firstRelease => 2 | .firstReleaseOrRepress => 3

/-- same format as `Layout::verif_digest` (hook in keyberon/src/layout.rs) -/
def digest (s : Layout) : String :=
  let w := match s.waiting with | some w => fmtWaiting w | none => "-"
  let tde := match s.tapDanceEager with
    | some t => s!"{t.coord.1}.{t.coord.2}/{t.timeout}/{t.origTimeout}/{t.numTaps}"
    | none => "-"
  let q := commaSep (s.queue.map fun q => match q.ev with
    | .press c => s!"p{c.1}.{c.2}@{q.since}"
    | .release c => s!"r{c.1}.{c.2}@{q.since}")
  let o := s.oneshot
  let b (x : Bool) : Nat := if x then 1 else 0
  let os := s!"{commaSep (o.keys.map fmtCoord)}|{commaSep (o.releasedKeys.map fmtCoord)}|{commaSep (o.otherPressedKeys.map fmtCoord)}|{o.timeout}|{endCfgNum o.endConfig}|{b o.releaseOnNextTick}|{o.pauseInputProcessingDelay}|{o.pauseInputProcessingTicks}|{o.ticksToIgnoreEvents}"
  let as := commaSep (s.activeSequences.map fun q =>
    s!"{q.delay}/{match q.tapped with | some k => toString k | none => "-"}/{q.remaining.length}")
  let hk := commaSep (s.histKeys.map fun (k, t) => s!"{k}@{t}")
  let hi := commaSep (s.histInputs.map fun (c, t) => s!"{c.1}.{c.2}@{t}")
  s!"dl={s.defaultLayer};st=[{commaSep (s.states.map fmtState)}];w={w};ew=[{commaSep (s.extraWaiting.map fmtWaiting)}];tde={tde};q=[{q}];os={os};lpt={s.lptCoord.1}.{s.lptCoord.2}/{s.lptTapHoldTimeout};as=[{as}];aq={s.actionQueue.length};hk=[{hk}];hi=[{hi}]"

def fmtAch (a : ActiveChord) : String :=
  let st := match a.status with
    | .unread => "U" | .unreadReleased => "UR" | .releasable => "R" | .released => "X"
  s!"{a.coordinate}/{st}/{a.delay}/{".".intercalate (a.remaining.map toString)}/{".".intercalate (a.keys.map toString)}"

/-- same format as `ChordsV2::verif_digest_chv2` (hook in keyberon/src/chord.rs) -/
def digestV2 (c : ChV2) : String :=
  let q := commaSep (c.queue.map fun q => match q.ev with
    | .press c => s!"p{c.1}.{c.2}@{q.since}"
    | .release c => s!"r{c.1}.{c.2}@{q.since}")
  s!"q=[{q}];ac=[{commaSep (c.active.map fmtAch)}];ti={c.ticksToIgnore};tu={c.ticksUntilChange};pl={c.prevActiveLayer};pq={c.prevQueueLen};nc={c.nextCoord}"

def digestFull (s : LayoutV2) : String :=
  match s.chv2 with
  | some c => s!"{digest s.lay};v2={digestV2 c}"
  | none => digest s.lay

def crashName : Crash → String
  | .fuelOut => "fuelOut"
  | .transUnresolved => "transUnresolved"
  | .layerStackOverflow => "layerStackOverflow"
  | .indexOOB site => s!"indexOOB({site})"
  | .switchCrash _ => "switchCrash"

structure Run where
  s : LayoutV2
  tick : Nat := 0
  prev : List Nat := []
  out : Array String := #[]

def stepTick (dbg : Bool) (r : Run) : Except Crash Run := do
  let (s, ce) ← r.s.tick
  let t := r.tick + 1
  let keys := s.lay.keycodes
  let cs := match ce with
    | .noEvent => ""
    | .press id => s!" cp{id}"
    | .release id => s!" cr{id}"
  let out := if keys != r.prev || cs != "" then r.out.push s!"@{t} K{fmtKeys keys}{cs}" else r.out
  let out := if dbg then out.push s!"#{t} {digestFull s}" else out
  pure { s, tick := t, prev := keys, out }

def ticks (dbg : Bool) : Nat → Run → Except Crash Run
  | 0, r => .ok r
  | n + 1, r => match stepTick dbg r with
    | .error c => .error c
    | .ok r => ticks dbg n r

def runHist (dbg : Bool) : List HEv → Run → Except (Crash × Run) Run
  | [], r => .ok r
  | e :: rest, r =>
    match e with
    | .press c => match r.s.event (.press c) with
      | .error cr => .error (cr, r)
      | .ok s => runHist dbg rest { r with s }
    | .release c => match r.s.event (.release c) with
      | .error cr => .error (cr, r)
      | .ok s => runHist dbg rest { r with s }
    | .tick n => match ticks dbg n r with
      | .error cr => .error (cr, r)
      | .ok r => runHist dbg rest r

/-- model output for a layout-level case -/
def modelOut (c : Case) : String :=
  if c.unsupported then "unsupported chordsv2" else
  match c.layout with
  | none => "rej"
  | some l =>
    match runHist c.dbg c.hist { s := { lay := l, chv2 := c.chv2.map fun cfg => { cfg } } } with
    | .ok r => " ".intercalate (r.out.push s!"D {digestFull r.s}").toList
    | .error (cr, _) => s!"crash {crashName cr}"

def run (tag : String) (line : String) : String × String :=
  match runP (Cfg.case tag) line with
  | .error e => (s!"bad-case {e}", "-")
  | .ok c => (modelOut c, "-")

end KVerif.Drv.Lay
