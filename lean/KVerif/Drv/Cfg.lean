/- Parser for the serialised configuration (`LAYX` lines written by harness/src/lay.rs). -/
import KVerif.Drv.Tok
import KVerif.Model.Layout
import KVerif.Model.ChordsV2
namespace KVerif.Drv.Cfg
open KVerif.L KVerif.Drv

def seqEv : P SeqEv := do
  let t ← tok
  match t with
  | "sn" => return .noOp
  | "sp" => return .press (← num)
  | "sr" => return .release (← num)
  | "st" => return .tap (← num)
  | "sd" => return .delay (← num)
  | "sc" => return .custom (← num)
  | "sx" => return .complete
  | x => throw s!"bad sequence event {x}"

def htConfig : P HTConfig := do
  let t ← tok
  match t with
  | "d" => return .default
  | "h" => return .holdOnOtherKeyPress
  | "p" => return .permissiveHold
  | "cr" => do let n ← num; return .customRelease (← rep n num)
  | "ce" => do let n ← num; return .customExcept (← rep n num)
  | x => throw s!"bad hold-tap config {x}"

partial def action : P Action := do
  let t ← tok
  match t with
  | "n" => return .noOp
  | "t" => return .trans
  | "k" => return .keyCode (← num)
  | "mk" => do let n ← num; return .multipleKeyCodes (← rep n num)
  | "ma" => do let n ← num; return .multipleActions (← rep n action)
  | "l" => return .layer (← num)
  | "dl" => return .defaultLayer (← num)
  | "sq" => do let n ← num; return .sequence (← rep n seqEv)
  | "rsq" => do let n ← num; return .repeatableSequence (← rep n seqEv)
  | "cs" => return .cancelSequences
  | "rk" => return .releaseState (.keyCode (← num))
  | "rl" => return .releaseState (.layer (← num))
  | "ht" => do
    let timeout ← num; let interval ← num; let cfg ← htConfig
    let hold ← action; let tap ← action; let ta ← action
    return .holdTap timeout hold tap ta cfg interval
  | "cu" => return .custom (← num)
  | "os" => do
    let timeout ← num; let e ← num
    let ec ← match e with
      | 0 => pure OneShotEnd.firstPress | 1 => pure OneShotEnd.firstPressOrRepress
      | 2 => pure OneShotEnd.firstRelease | 3 => pure OneShotEnd.firstReleaseOrRepress
      | _ => throw "bad one-shot end config"
    return .oneShot (← action) timeout ec
  | "osi" => return .oneShotIgnoreEventsTicks (← num)
  | "td" => do
    let timeout ← num; let eager ← num; let n ← num
    return .tapDance (← rep n action) timeout (eager == 1)
  | "ch" => do
    let timeout ← num; let nc ← num
    let coords ← rep nc (do let r ← num; let y ← num; let m ← num; pure ((r, y), m))
    let nch ← num
    let chs ← rep nch (do let m ← num; let a ← action; pure (m, a))
    return .chords coords chs timeout
  | "rp" => return .repeat
  | "fk" => do
    let n ← num; let trig ← rep n num
    let l ← action; let r ← action
    return .fork l r trig
  | "sw" => do
    let n ← num
    let cases ← rep n (do
      let brk ← num; let nops ← num; let ops ← rep nops num; let a ← action
      pure (ops, a, brk == 1))
    return .switch cases
  | "src" => return .src
  | x => throw s!"bad action token {x}"

inductive HEv | press (c : Coord) | release (c : Coord) | tick (n : Nat)
  deriving Repr

def hev : P HEv := do
  let t ← tok
  match t with
  | "p" => do let r ← num; let y ← num; return .press (r, y)
  | "r" => do let r ← num; let y ← num; return .release (r, y)
  | "t" => return .tick (← num)
  | x => throw s!"bad history token {x}"

def hist : P (List HEv) := do
  expect "HIST"
  let n ← num
  rep n hev

structure Case where
  dbg : Bool
  layout : Option Layout     -- none: the real parser rejected the configuration
  unsupported : Bool := false
  chv2 : Option ChV2Cfg := none   -- the `defchordsv2` table, when configured
  hist : List HEv

/-- `CHV2 minIdle nkeys (key nch (nk k… pending rb nd d… action)*)*` -/
def chv2Cfg : P ChV2Cfg := do
  expect "CHV2"
  let minIdle ← num
  let nkeys ← num
  let mapping ← rep nkeys (do
    let k ← num
    let nch ← num
    let chs ← rep nch (do
      let nk ← num; let keys ← rep nk num
      let pending ← num; let rb ← num
      let nd ← num; let dis ← rep nd num
      let a ← action
      pure ({ action := a, keys, pending, disabledLayers := dis,
              release := if rb == 0 then .onFirstRelease else .onLastRelease } : ChordV2))
    pure (k, chs))
  return { mapping, minIdle }

def layoutCfg : P Layout := do
  expect "tv2"; let tv2 ← num
  expect "dfl"; let dfl ← num
  expect "qth"; let qth ← num
  expect "osd"; let osd ← num
  expect "NL"; let nl ← num
  let layers ← rep nl (do
    let cnt ← num
    rep cnt (do let r ← num; let y ← num; let a ← action; pure ((r, y), a)))
  expect "SRC"; let cnt ← num
  let src ← rep cnt (do let y ← num; let a ← action; pure (y, a))
  return { cfg := { layers := layers, srcKeys := src }, transV2 := tv2 == 1,
           delegateToFirstLayer := dfl == 1, quickTapHoldTimeout := qth == 1,
           oneshot := { pauseInputProcessingDelay := osd } }

/-- `<TAG>X dbg (REJECT | UNSUPPORTED why | cfg…) HIST …` -/
def case (tag : String) : P Case := do
  expect (tag ++ "X")
  let dbg ← num
  match (← peek?) with
  | some "REJECT" => do let _ ← tok; return { dbg := dbg == 1, layout := none, hist := ← hist }
  | some "UNSUPPORTED" => do
    let _ ← tok; let _ ← tok
    return { dbg := dbg == 1, layout := none, unsupported := true, hist := ← hist }
  | _ => do
    let l ← layoutCfg
    let v2 ← match (← peek?) with
      | some "CHV2" => do pure (some (← chv2Cfg))
      | _ => pure none
    return { dbg := dbg == 1, layout := some l, chv2 := v2, hist := ← hist }

end KVerif.Drv.Cfg
