/- Sequence mode in kanata-level cases: the `SEQ …` segment of `KANX` lines (harness/src/kanseq.rs)
and the three sequence custom actions. -/
import KVerif.Drv.Lay
import KVerif.Model.KanataSeq
namespace KVerif.Drv.KanSeq
open KVerif.K KVerif.Drv KVerif.Drv.Cfg

def mode : P Seq.Mode := do
  match (← num) with
  | 0 => pure .hiddenSuppressed | 1 => pure .hiddenDelayType | _ => pure .visibleBackspaced

/-- `SEQ <n> (<len> <u16>* <j>)* mc <b> ao <b> mode <m> to <t>`; the pairs are distinct keys of a map,
so the association list represents it whatever the order -/
def seqk : P SeqK := do
  expect "SEQ"; let n ← num
  let ents ← rep n (do let len ← num; let key ← rep len num; let j ← num; pure (key, j))
  expect "mc"; let mc ← num
  expect "ao"; let ao ← num
  expect "mode"; let m ← mode
  expect "to"; let t ← num
  return { trie := ⟨ents⟩, modcancel := mc == 1, alwaysOn := ao == 1, defMode := m, defTimeout := t }

def crashName : Seq.Crash → String
  | .expectPressed => "seq:expectPressed"
  | .timeoutUnderflow => "seq:timeoutUnderflow"
  | .noeraseOverflow => "seq:noeraseOverflow"

end KVerif.Drv.KanSeq
