/-
C09 driver: model output for layout-level chord cases, and the oracle pass that judges the
IMPLEMENTATION's trace against the specification of input chords:

* the chord table is read from the serialised configuration (v1: the `Chords` action on layer 0;
  v2: the `CHV2` table), every chord action must be a marker key used nowhere else;
* "clean" histories (distinct chord keys pressed, then all released) have an exact expectation:
  the sequence of marker down-transitions equals the greedy decomposition of the press order
  (`greedy`: the whole set if it is a defined chord, else the longest defined prefix, then the rest;
  keys that start no defined sub-chord are dropped) — computed here from the table alone, not with
  the model's `decomposeLoop`;
* every history: everything is up at the end, and no later than a bound after the last release;
  plain keys come out in the order they were pressed.
-/
import KVerif.Drv.Trace
namespace KVerif.Drv.C09
open KVerif.L KVerif.Drv KVerif.Drv.Cfg KVerif.Drv.Trace

structure Grp where
  coords : List (Coord × Nat)        -- coordinate ↦ key mask
  chords : List (Nat × Nat)          -- mask ↦ marker key code
  timeout : Nat
  deriving Repr

def layer0 (l : Layout) : List (Coord × Action) := (l.cfg.layers[0]?).getD []

/-- the v1 group of layer 0, if all its actions are marker keys -/
def grpV1 (l : Layout) : Option Grp :=
  (layer0 l).findSome? fun (_, a) => match a with
    | .chords coords chs timeout =>
      let ms := chs.filterMap fun (m, x) => match x with | .keyCode k => some (m, k) | _ => none
      if ms.length == chs.length then
        -- only the coordinates that carry the chord action on layer 0 (first occurrence wins, as in `get_keys`)
        some { coords := coords, chords := ms, timeout }
      else none
    | _ => none

def Grp.mask (g : Grp) (c : Coord) : Option Nat := (g.coords.find? (·.1 == c)).map (·.2)
def Grp.defined (g : Grp) (m : Nat) : Option Nat := (g.chords.find? (·.1 == m)).map (·.2)

def orAll (l : List Nat) : Nat := l.foldl (· ||| ·) 0

/-- the specification's decomposition of a press order (masks) into marker keys -/
partial def greedy (g : Grp) (keys : List Nat) : List Nat :=
  match keys with
  | [] => []
  | _ =>
    let cand := (List.range keys.length).reverse.findSome? fun i =>
      (g.defined (orAll (keys.take (i + 1)))).map fun m => (i + 1, m)
    match cand with
    | some (n, m) => m :: greedy g (keys.drop n)
    | none => greedy g (keys.drop 1)

/-- history with the time (ticks elapsed) of every key event -/
def timed (h : List HEv) : List (Nat × HEv) :=
  let rec go : Nat → List HEv → List (Nat × HEv)
    | _, [] => []
    | t, .tick n :: r => go (t + n) r
    | t, e :: r => (t, e) :: go t r
  go 0 h

def consistent (h : List HEv) : Bool :=
  let rec go : List Coord → List HEv → Bool
    | down, [] => down.isEmpty
    | down, .press c :: r => !down.contains c && go (c :: down) r
    | down, .release c :: r => down.contains c && go (down.erase c) r
    | down, .tick _ :: r => go down r
  go [] h

/-- 0→1 and 1→0 transitions `(tick, key, isDown)` in trace order -/
def transitions (items : List Trace.Item) : List (Nat × Nat × Bool) :=
  let rec go : List Nat → List Trace.Item → List (Nat × Nat × Bool)
    | _, [] => []
    | prev, it :: rest =>
      let ups := (prev.eraseDups.filter fun k => !it.keys.contains k).map fun k => (it.tick, k, false)
      let dns := (it.keys.eraseDups.filter fun k => !prev.contains k).map fun k => (it.tick, k, true)
      ups ++ dns ++ go it.keys rest
  go [] items

partial def keyCodesOf : Action → List Nat
  | .keyCode k => [k]
  | .multipleKeyCodes ks => ks
  | .multipleActions as => as.flatMap keyCodesOf
  | .chords _ cs _ => cs.flatMap fun c => keyCodesOf c.2
  | _ => []

structure Setup where
  g : Grp
  v2 : Bool
  layerKey : Option Coord
  plain0 : List (Coord × Nat)   -- plain keys of layer 0
  plain1 : List (Coord × Nat)   -- plain keys of layer 1
  osd : Nat
  deriving Repr

def plainOf (tbl : List (Coord × Action)) : List (Coord × Nat) :=
  tbl.filterMap fun (c, a) => match a with | .keyCode k => some (c, k) | _ => none

def judge (su : Setup) (hist : List HEv) (items : List Trace.Item) : String :=
  let g := su.g
  let T := g.timeout
  let markers := g.chords.map (·.2)
  let plainCodes := (su.plain0 ++ su.plain1).map (·.2)
  -- attribution needs distinct markers, distinct from every plain key
  if !(markers.eraseDups.length == markers.length && markers.all fun m => !plainCodes.contains m) then "skip" else
  let ev := timed hist
  let nEv := ev.length
  let tail := match hist.getLast? with | some (.tick n) => n | _ => 0
  if !consistent hist || tail < 300 || nEv > 40 || nEv == 0 then "skip" else
  let tr := transitions items
  let presses := ev.filterMap fun (t, e) => match e with | .press c => some (t, c) | _ => none
  let releases := ev.filterMap fun (t, e) => match e with | .release c => some (t, c) | _ => none
  let tLastRel := (releases.map (·.1)).foldl max 0
  let usesLayer := match su.layerKey with | some lk => presses.any (·.2 == lk) | none => false
  let errs : List String := Id.run do
    let mut errs : List String := []
    -- G1: everything up at the end, no later than a bound after the last release
    let finalKeys := match items.getLast? with | some it => it.keys | none => []
    if !finalKeys.isEmpty then errs := errs ++ [s!"keys {finalKeys} still down at the end"]
    let lastChange := (tr.map (·.1)).foldl max 0
    let bound := tLastRel + (nEv + 8) * (su.osd + 2)
    if lastChange > bound then errs := errs ++ [s!"last output change at tick {lastChange}, later than {bound} (last release at {tLastRel})"]
    -- G2: plain keys in press order (histories that never touch the layer key)
    if !usesLayer then
      let pseq := presses.filterMap fun (_, c) => (su.plain0.find? (·.1 == c)).map (·.2)
      let oseq := (tr.filter fun x => x.2.2 && (su.plain0.map (·.2)).contains x.2.1).map (·.2.1)
      if pseq != oseq then errs := errs ++ [s!"plain keys pressed {pseq} but output {oseq}"]
    -- clean histories
    let chordPresses := presses.filter fun (_, c) => (g.mask c).isSome
    let allChord := chordPresses.length == presses.length
    let distinct := (presses.map (·.2)).eraseDups.length == presses.length
    let pressesFirst := match presses.getLast?, releases.head? with
      | some (tp, _), some (tr0, _) => tp ≤ tr0 && (ev.dropWhile fun x => match x.2 with | .press _ => true | _ => false).all
          (fun x => match x.2 with | .release _ => true | _ => false)
      | _, _ => false
    let mdowns := (tr.filter fun x => x.2.2 && markers.contains x.2.1).map (·.2.1)
    if allChord && distinct && pressesFirst && presses.length ≥ 1 then
      let masks := presses.filterMap fun (_, c) => g.mask c
      let t0 := (presses.head?.map (·.1)).getD 0
      let tN := (presses.getLast?.map (·.1)).getD 0
      let D := tN - t0
      if D + 1 ≤ T then
        -- all within the window: exactly the greedy decomposition, each marker once
        let exp := greedy g masks
        if mdowns != exp then errs := errs ++ [s!"pressed masks {masks} within the timeout: expected marker downs {exp}, got {mdowns}"]
      else
        -- two bursts separated by at least the timeout, the whole set a defined chord
        let times := presses.map (·.1)
        let b1 := presses.filter (·.1 == t0)
        let b2 := presses.filter (·.1 == tN)
        if b1.length + b2.length == presses.length && times.eraseDups.length == 2 && (g.defined (orAll masks)).isSome && !su.v2 then
          let exp := greedy g (b1.filterMap fun x => g.mask x.2) ++ greedy g (b2.filterMap fun x => g.mask x.2)
          if mdowns != exp then errs := errs ++ [s!"two bursts {D} ticks apart (timeout {T}): expected marker downs {exp}, got {mdowns}"]
    -- a block of non-chord keys pressed inside the window ends the chord: what was pressed before it is
    -- decided first, then the non-chord keys are delivered in order, then the rest forms a new chord
    let isPlain := fun (c : Coord) => (su.plain0.any (·.1 == c))
    let partA := presses.takeWhile fun (_, c) => (g.mask c).isSome
    let restP := presses.dropWhile fun (_, c) => (g.mask c).isSome
    let partP := restP.takeWhile fun (_, c) => isPlain c
    let partB := restP.dropWhile fun (_, c) => isPlain c
    if !allChord && distinct && pressesFirst && !partA.isEmpty && !partP.isEmpty &&
        partB.all (fun (_, c) => (g.mask c).isSome) && !usesLayer then
      let t0 := (presses.head?.map (·.1)).getD 0
      let tN := (presses.getLast?.map (·.1)).getD 0
      if tN - t0 + 1 ≤ T then
        let exp := greedy g (partA.filterMap fun x => g.mask x.2) ++
          (partP.filterMap fun x => (su.plain0.find? (·.1 == x.2)).map (·.2)) ++
          greedy g (partB.filterMap fun x => g.mask x.2)
        let got := (tr.filter fun x => x.2.2 && (markers.contains x.2.1 || (su.plain0.map (·.2)).contains x.2.1)).map (·.2.1)
        if got != exp then errs := errs ++ [s!"non-chord key inside the chord window: expected downs {exp}, got {got}"]
    -- chord keys typed while the layer key holds the layer on which they are plain
    match su.layerKey, ev.head?, ev.getLast? with
    | some lk, some (_, .press c0), some (_, .release c1) =>
      if c0 == lk && c1 == lk && (presses.filter (·.2 == lk)).length == 1 && !su.v2 then
        let pseq := presses.filterMap fun (_, c) => (su.plain1.find? (·.1 == c)).map (·.2)
        let oseq := (tr.filter fun x => x.2.2 && (su.plain1.map (·.2)).contains x.2.1).map (·.2.1)
        if pseq != oseq then errs := errs ++ [s!"on the plain layer: pressed {pseq} but output {oseq}"]
        if !mdowns.isEmpty then errs := errs ++ [s!"on the plain layer: chord markers {mdowns} went down"]
    | _, _, _ => pure ()
    return errs
  match errs with
  | [] => "ok"
  | e :: _ => s!"fail {e}"

/-! ### chords v2 -/

structure V2Entry where
  keys : List Nat
  marker : Nat
  pending : Nat
  firstRelease : Bool
  disabled : List Nat
  deriving Repr

def v2Entries (c : ChV2Cfg) : Option (List V2Entry) :=
  let all := c.mapping.flatMap (·.2)
  let es := all.filterMap fun ch => match ch.action with
    | .keyCode k => some { keys := ch.keys, marker := k, pending := ch.pending,
                           firstRelease := ch.release == .onFirstRelease, disabled := ch.disabledLayers : V2Entry }
    | _ => none
  if es.length != all.length then none else
  -- one entry per key set
  some (es.foldl (fun acc e => if acc.any (·.keys == e.keys) then acc else acc ++ [e]) [])

def sameSet (a b : List Nat) : Bool := a.all (b.contains ·) && b.all (a.contains ·)

/-- BEGIN t3 (release rule on any history) --
The release rule, on ANY consistent history: the marker of a chord goes up only after a participant
of that chord was released - one of them (first-release), every one of them (all-released) - since
the chord's keys went down. Per marker the down- and up-transitions are paired in order; `t0` is the
earliest among the participants' last presses before the marker went down. Nothing is said when a
participant was never pressed before the marker went down (not attributable). -/
def releaseRuleErrs (es : List V2Entry) (ev : List (Nat × HEv)) (tr : List (Nat × Nat × Bool)) : List String :=
  es.flatMap fun e =>
    let dns := (tr.filter fun x => x.2.2 && x.2.1 == e.marker).map (·.1)
    let ups := (tr.filter fun x => !x.2.2 && x.2.1 == e.marker).map (·.1)
    (dns.zip ups).filterMap fun (d, u) =>
      let lastPress := fun (k : Nat) =>
        (ev.filterMap fun (t, x) => match x with | .press c => if c == (0, k) && t < d then some t else none | _ => none).getLast?
      if e.keys.any (fun k => (lastPress k).isNone) then none else
      let t0 := (e.keys.filterMap lastPress).foldl min u
      let released := fun (k : Nat) =>
        ev.any fun (t, x) => match x with | .release c => c == (0, k) && t0 ≤ t && t < u | _ => false
      let ok := if e.firstRelease then e.keys.any released else e.keys.all released
      if ok then none
      else some s!"marker {e.marker} of chord {e.keys} went up at tick {u} (down at {d}) while {if e.firstRelease then "none" else "not all"} of its keys had been released (keys down since {t0})"
-- END t3 --

def judgeV2 (es : List V2Entry) (l : Layout) (hist : List HEv) (items : List Trace.Item) : String :=
  let markers := es.map (·.marker)
  let plain0 := plainOf (layer0 l)
  let chordKeys := (es.flatMap (·.keys)).eraseDups
  let outsiders := plain0.filter fun (c, _) => !(c.1 == 0 && chordKeys.contains c.2)
  let plainCodes := plain0.map (·.2) ++ (plainOf ((l.cfg.layers[1]?).getD [])).map (·.2)
  if !(markers.eraseDups.length == markers.length && markers.all fun m => !plainCodes.contains m) then "skip" else
  let ev := timed hist
  let nEv := ev.length
  let tail := match hist.getLast? with | some (.tick n) => n | _ => 0
  if !consistent hist || tail < 300 || nEv == 0 then "skip" else
  let tr := transitions items
  -- t3: long histories (more than 40 events) are judged by the release rule alone
  if nEv > 40 then (match releaseRuleErrs es ev tr with | [] => "ok" | e :: _ => s!"fail {e}") else
  let presses := ev.filterMap fun (t, e) => match e with | .press c => some (t, c) | _ => none
  let releases := ev.filterMap fun (t, e) => match e with | .release c => some (t, c) | _ => none
  let tLastRel := (releases.map (·.1)).foldl max 0
  let tFirstRel := (releases.map (·.1)).foldl min tLastRel
  let osd := l.oneshot.pauseInputProcessingDelay
  let layerKey := (layer0 l).findSome? fun (c, a) => match a with | .layer _ => some c | _ => none
  let usesLayer := match layerKey with | some lk => presses.any (·.2 == lk) | none => false
  let errs : List String := Id.run do
    let mut errs : List String := []
    let finalKeys := match items.getLast? with | some it => it.keys | none => []
    if !finalKeys.isEmpty then errs := errs ++ [s!"keys {finalKeys} still down at the end"]
    let lastChange := (tr.map (·.1)).foldl max 0
    -- a pending chord may wait for its own timeout (`pending`) before the presses are given up
    let tmax := es.foldl (fun m e => max m e.pending) 0
    let bound := tLastRel + (nEv + 8) * (osd + 2) + 40 + (nEv + 1) * tmax
    if lastChange > bound then errs := errs ++ [s!"last output change at tick {lastChange}, later than {bound}"]
    -- keys outside every chord come out in press order
    if !usesLayer then
      let pseq := presses.filterMap fun (_, c) => (outsiders.find? (·.1 == c)).map (·.2)
      let oseq := (tr.filter fun x => x.2.2 && (outsiders.map (·.2)).contains x.2.1).map (·.2.1)
      if pseq != oseq then errs := errs ++ [s!"non-chord keys pressed {pseq} but output {oseq}"]
    -- clean histories: distinct chord keys pressed, then all released
    let distinct := (presses.map (·.2)).eraseDups.length == presses.length
    let allChord := presses.all fun (_, c) => c.1 == 0 && chordKeys.contains c.2
    let pressesFirst := match presses.getLast?, releases.head? with
      | some (tp, _), some (tr0, _) => tp ≤ tr0 && (ev.dropWhile fun x => match x.2 with | .press _ => true | _ => false).all
          (fun x => match x.2 with | .release _ => true | _ => false)
      | _, _ => false
    if allChord && distinct && pressesFirst && presses.length ≥ 2 then
      let S := presses.map (·.2.2)
      match es.find? (fun e => sameSet e.keys S) with
      | none => pure ()
      | some e =>
        let t0 := (presses.head?.map (·.1)).getD 0
        let tN := (presses.getLast?.map (·.1)).getD 0
        let D := tN - t0
        let mdowns := (tr.filter fun x => x.2.2 && markers.contains x.2.1).map (·.2.1)
        let ownCodes := plain0.filterMap fun (c, k) => if c.1 == 0 && S.contains c.2 then some k else none
        let ownDowns := (tr.filter fun x => x.2.2 && ownCodes.contains x.2.1).map (·.2.1)
        if D + 1 ≤ e.pending then
          if mdowns != [e.marker] then errs := errs ++ [s!"chord {S} completed within its timeout: expected marker downs {[e.marker]}, got {mdowns}"]
          -- performed ONCE: every key is pressed once in a clean history, so two copies of the marker at the
          -- same time are two activations of one chord
          match items.find? (fun it => Trace.count it.keys e.marker > 1) with
          | some it => errs := errs ++ [s!"a chord action is active twice at tick {it.tick}: keys {it.keys}"]
          | none => pure ()
          if !ownDowns.isEmpty then errs := errs ++ [s!"chord {S} fired but participants' own keys {ownDowns} were output"]
          -- release rule
          match (tr.filter fun x => !x.2.2 && x.2.1 == e.marker).map (·.1) with
          | [up] =>
            let trig := if e.firstRelease then tFirstRel else tLastRel
            if up ≤ trig then errs := errs ++ [s!"marker released at tick {up}, before the release that should cause it (time {trig})"]
            if up > trig + (nEv + 8) * (osd + 2) + 10 then errs := errs ++ [s!"marker released at tick {up}, too long after time {trig}"]
          | ups => if mdowns == [e.marker] then errs := errs ++ [s!"marker up-transitions {ups}"]
        else if D ≥ e.pending + 1 then
          -- (the implementation's window is one tick longer than the configured number: D = timeout is not judged)
          if mdowns.contains e.marker then errs := errs ++ [s!"chord {S} completed {D} ticks after its first key (timeout {e.pending}) but fired"]
    errs := errs ++ releaseRuleErrs es ev tr   -- t3
    return errs
  match errs with
  | [] => "ok"
  | e :: _ => s!"fail {e}"

/-- t3: a chord action on a layer other than the first (the parsed table no longer says which chord key
such a cell names: judged from the configuration text by the runner's source-level oracle) -/
def chordsOnOtherLayers (l : Layout) : Bool :=
  (l.cfg.layers.drop 1).any fun tbl => tbl.any fun (_, a) => match a with | .chords .. => true | _ => false

def setupOf (l : Layout) : Option Setup :=
  if chordsOnOtherLayers l then none else
  match grpV1 l with
  | some g =>
    let lk := (layer0 l).findSome? fun (c, a) => match a with | .layer _ => some c | _ => none
    -- only coordinates whose layer-0 action is the chord action take part
    let cs := g.coords.filter fun (c, _) => (layer0 l).any fun (c', a) => c' == c && (match a with | .chords .. => true | _ => false)
    some { g := { g with coords := cs.eraseDups }, v2 := false, layerKey := lk, plain0 := plainOf (layer0 l),
           plain1 := plainOf ((l.cfg.layers[1]?).getD []), osd := l.oneshot.pauseInputProcessingDelay }
  | none => none

def run (line : String) : String × String :=
  match runP (Cfg.case "LAY") line with
  | .error e => (s!"bad-case {e}", "-")
  | .ok c => (Lay.modelOut c, "-")

/-- `<case> ### <impl trace>` → ok | fail … | skip -/
def runOracle (line : String) : String × String :=
  let (cs, impl) := splitOracleLine line
  match runP (Cfg.case "LAY") cs with
  | .error _ => ("skip", "-")
  | .ok c =>
    match c.layout, Trace.parse impl with
    | some l, some items =>
      match c.chv2 with
      | some v2 =>
        match v2Entries v2 with
        | some es => (judgeV2 es l c.hist items, "-")
        | none => ("skip", "-")
      | none =>
        match setupOf l with
        | some su => (judge su c.hist items, "-")
        | none => ("skip", "-")
    | _, _ => ("skip", "-")

end KVerif.Drv.C09
