/- Kanata-level cases (`KANX …` lines written by harness/src/kan.rs): parser, runner, printer. -/
import KVerif.Drv.Lay
import KVerif.Model.Kanata
import KVerif.Model.KanataV2  -- chv2
import KVerif.Drv.KanSeq   -- [seq]
import KVerif.Drv.KanDyn   -- [dyn]
import KVerif.Model.KanataV2Dyn   -- [dyn]
namespace KVerif.Drv.Kan
open KVerif.L KVerif.K KVerif.Drv KVerif.Drv.Cfg

def fkAction : P FkAction := do
  match (← num) with
  | 0 => pure .press | 1 => pure .release | 2 => pure .tap | _ => pure .toggle

def cact : P CAct := do
  let t ← tok
  match t with
  | "fk" => do let x ← num; let y ← num; return .fakeKey (x, y) (← fkAction)
  | "fkr" => do let x ← num; let y ← num; return .fakeKeyOnRelease (x, y) (← fkAction)
  | "fki" => do let x ← num; let y ← num; let a ← fkAction; return .fakeKeyOnIdle (x, y) a (← num)
  | "fkh" => do let x ← num; let y ← num; return .fakeKeyHold (x, y) (← num)
  | "mb" => return .mouse (← num)
  | "mt" => return .mouseTap (← num)
  | "mw" => return .mwheel (← num) (← num) (← num)
  | "mwn" => return .mwheelNotch (← num)
  | "mm" => return .moveMouse (← num) (← num)
  | "mms" => return .moveMouseSpeed (← num)
  | "rpt" => return .repeat
  | "cmr" => return .cancelMacroOnRelease
  | "cmp" => return .cancelMacroOnNextPress (← num)
  | "sac" => return .sendArbitraryCode (← num)
  | "cw" => do
    let toggle ← num; let timeout ← num
    let n ← num; let a ← rep n num
    let m ← num; let b ← rep m num
    return .capsWord a b timeout (toggle == 1)
  | "um" => do let bits ← num; let n ← num; return .unmodded (← rep n num) bits
  | "us" => do let n ← num; return .unshifted (← rep n num)
  | "rro" => return .reverseReleaseOrder
  | "uc" => return .unicode (← num)
  | "sm" => return .setMouse
  | "oth" => return .other
  | "sl" => do let t ← num; return .seqLeader t (← KanSeq.mode)   -- [seq]
  | "sc" => return .seqCancel                                     -- [seq]
  | "sn" => return .seqNoerase (← num)                            -- [seq]
  | "dmr" => return .dyn (.record (← num))   -- [dyn]
  | "dms" => return .dyn (.stop (← num))     -- [dyn]
  | "dmp" => return .dyn (.play (← num))     -- [dyn]
  | x => throw s!"bad custom action token {x}"

inductive KEv
  | press (c : Coord) | release (c : Coord) | tick (n : Nat)
  | rep (y : Nat) | tap (y : Nat) | fake (a : FkAction) (c : Coord) | gap (n : Nat)
  deriving Repr

def kev : P KEv := do
  let t ← tok
  match t with
  | "p" => do let r ← num; let y ← num; return .press (r, y)
  | "r" => do let r ← num; let y ← num; return .release (r, y)
  | "t" => return .tick (← num)
  | "rp" => return .rep (← num)
  | "tp" => return .tap (← num)
  | "fk" => do let a ← fkAction; let x ← num; let y ← num; return .fake a (x, y)
  | "gap" => return .gap (← num)
  | x => throw s!"bad history token {x}"

structure Case where
  dbg : Bool
  k : Option KState
  unsupported : Option String := none
  chv2 : Option ChV2Cfg := none     -- chv2: the `defchordsv2` table (section `CHV2 …` after the kanata state)
  hist : List KEv
  sched1 : KanDyn.Sched := []   -- [dyn] hash-set order hints of the blocking run
  sched2 : KanDyn.Sched := []   -- [dyn] … of the always-ticking run

def khist : P (List KEv) := do
  expect "HIST"
  let n ← num
  rep n kev

def kstate : P KState := do
  let l ← layoutCfg
  expect "CUS"; let n ← num
  let customs ← rep n (do let m ← num; rep m cact)
  expect "KO"; let nl ← num
  let ko ← rep nl (do
    let cnt ← num
    rep cnt (do let y ← num; let m ← num; let outs ← rep m num; pure (y, outs)))
  expect "OVR"; let novr ← num
  let ovrRaw ← rep novr (do
    expect "I"; let ni ← num; let i ← rep ni num
    expect "O"; let no ← num; let o ← rep no num
    pure (i, o))
  -- `Override::try_new` on every pair (a pair the real parser accepted cannot fail here), then `Overrides::new`
  let ovrs := ovrRaw.filterMap fun (i, o) => match Override.Override.tryNew i o with | .ok x => some x | .error _ => none
  expect "OPT"; expect "roa"; let roa ← num; expect "smd"; let smd ← num; expect "smkt"; let smkt ← num
  expect "NOKEY"; let nokey ← num
  expect "MODS"; let mods ← rep 8 num
  expect "BTNS"; let btns ← rep 5 (do let c ← num; let b ← num; pure (c, b))
  expect "WH"; let wh ← rep 4 (do let c ← num; let d ← num; pure (c, d))
  let seqK ← KanSeq.seqk   -- [seq]
  return { layout := l, customs, keyOutputs := ko, overrides := Override.Overrides.new ovrs, overrideReleaseOnActivation := roa == 1,
           smoothDiagonals := smd == 1, switchMaxKeyTiming := smkt, lastPressedKey := nokey,
           mods := { codes := mods, lsft := mods[0]!, rsft := mods[1]! }, btnCodes := btns, wheelCodes := wh,
           seq := seqK }   -- [seq]

def case (tag : String) : P Case := do
  expect (tag ++ "X")
  let dbg ← num
  match (← peek?) with
  | some "REJECT" => do let _ ← tok; return { dbg := dbg == 1, k := none, hist := ← khist }
  | some "UNSUPPORTED" => do
    let _ ← tok; let why ← tok
    return { dbg := dbg == 1, k := none, unsupported := some why, hist := ← khist }
  | _ => do
    let k ← kstate
    let (k, s1, s2) ← KanDyn.dynSection k   -- [dyn] section ` DYN …` (after the kanata state, before `CHV2`)
    let v2 ← match (← peek?) with   -- chv2
      | some "CHV2" => do pure (some (← chv2Cfg))
      | _ => pure none
    return { dbg := dbg == 1, k := some k, chv2 := v2, hist := ← khist, sched1 := s1, sched2 := s2 }

def fmtOs : Os → String
  | .down k => s!"d{k}"
  | .up k => s!"u{k}"
  | .btnDown b => s!"bd{b}"
  | .btnUp b => s!"bu{b}"
  | .scroll d n => s!"s{d},{n}"
  | .move d => s!"m{d}"
  | .unicode c => s!"U{c}"
  | .code c p => s!"c{c}{if p then "p" else "r"}"

def crashName : K.Crash → String
  | .layout c => s!"layout:{Lay.crashName c}"
  | .override _ => "override"
  | .underflow s => s!"underflow({s})"
  | .customId => "customId"
  | .seq c => KanSeq.crashName c   -- [seq]
  | .dyn _ => "dynmacro-len-minus-one"   -- [dyn]

structure Run where
  k : KState
  chv2 : Option ChV2 := none   -- chv2: chords-v2 state of `k.layout` (Model/KanataV2.lean)
  risk : Bool := false         -- chv2: the one-shot list was full at some point (path not mirrored)
  vt : Nat := 0
  msElapsed : Nat := 0
  out : Array String := #[]
  diag : List String := []     -- model-side diagnosis (not part of the compared output)
  sched : KanDyn.Sched := []   -- [dyn]

/-- move what the model emitted since the last call into the trace, stamped with virtual time -/
def collectTag (tag : String) (r : Run) : Run :=
  if r.k.out.isEmpty then (if tag == "R" then { r with out := r.out.push s!"@{r.vt}R -" } else r)
  else { r with out := r.out.push s!"@{r.vt}{tag} {" ".intercalate (r.k.out.map fmtOs)}", k := { r.k with out := [] } }

def collect (r : Run) : Run := collectTag "" r

-- chv2 begin: the run steps through the `…V2` functions (equal to the originals without chords v2)
def Run.s (r : Run) : KV2 := { k := r.k, chv2 := r.chv2 }
def Run.set (r : Run) (s : KV2) : Run := { r with k := s.k, chv2 := s.chv2, risk := r.risk || s.evictRisk }
def Run.digest (r : Run) : String := Lay.digestFull r.s.lv
def Case.run0 (c : Case) (k : KState) : Run := { k, chv2 := c.chv2.map fun cfg => { cfg } }
-- without chords v2 the run goes through the ORIGINAL functions of Model/Kanata.lean (the ones the
-- C01/C07/C14/C18 theorems are about), with chords v2 through their twins of Model/KanataV2.lean
def stepTick (s : KV2) : Except K.Crash KV2 :=
  match s.chv2 with
  -- [dyn] `tick_ms(1)`: `tick_states`, the replay step, the `extra_ticks` loop
  | none => match tickMs 1 s.k with | .error c => .error c | .ok k => .ok { k }
  | some _ => tickMsV2 1 s
def stepInput (s : KV2) (i : Input) : Except K.Crash KV2 :=
  match s.chv2 with
  | none => match handleInputEvent s.k i with | .error c => .error c | .ok k => .ok { k }
  | some _ => handleInputEventV2 s i
def stepCanBlock (s : KV2) (ms : Nat) : KV2 × Bool :=
  match s.chv2 with
  | none => let (k, b) := canBlockUpdateIdleWaiting s.k ms; ({ k }, b)
  | some _ => canBlockV2 s ms
def stepFake (s : KV2) (a : FkAction) (c : Coord) : Except L.Crash KV2 :=
  match s.chv2 with
  | none => match fakeKeyAction s.k.layout a c with | .error e => .error e | .ok l => .ok { k := { s.k with layout := l } }
  | some _ => fakeKeyActionV2 s a c
def stepIsIdle (s : KV2) : Bool :=
  match s.chv2 with
  | none => isIdle s.k
  | some _ => isIdleV2 s
-- chv2 end

def doTick (dbg : Bool) (r : Run) : Except K.Crash Run :=
  let r := { r with k := KanDyn.withHints r.sched r.vt r.k }   -- [dyn] hints
  match stepTick r.s with
  | .error c => .error c
  | .ok s =>
    let r := collect { r.set s with vt := r.vt + 1 }
    .ok (if dbg then { r with out := r.out.push s!"#{r.vt} {r.digest}" } else r)

def ticksN (dbg : Bool) : Nat → Run → Except K.Crash Run
  | 0, r => .ok r
  | n + 1, r => match doTick dbg r with
    | .error c => .error c
    | .ok r => ticksN dbg n r

def doInput (r : Run) (i : Input) : Except K.Crash Run :=
  let r := { r with k := KanDyn.withHints r.sched r.vt r.k }   -- [dyn] hints
  match stepInput r.s i with
  | .error c => .error c
  | .ok s => .ok (collectTag (match i with | .rep _ => "R" | _ => "") (r.set s))

/-- what one more tick would change although kanata says it may block (empty = quiescent);
ageing counters (history ages) are not differences -/
def nonQuiescentOf (k k' : KState) : List String :=
    let l := k.layout
    let l' := k'.layout
    (if k'.out != k.out then ["os-output"] else []) ++
    (if l'.states != l.states then ["states"] else []) ++
    (if l'.queue.map (·.ev) != l.queue.map (·.ev) then ["queue"] else []) ++
    (if l'.waiting.isSome != l.waiting.isSome then ["waiting"] else []) ++
    (if l'.extraWaiting.length != l.extraWaiting.length || !l.extraWaiting.isEmpty then ["extra_waiting"] else []) ++
    (if l'.oneshot != l.oneshot then ["oneshot"] else []) ++
    (if l'.activeSequences != l.activeSequences then ["active_sequences"] else []) ++
    (if l'.actionQueue.length != l.actionQueue.length then ["action_queue"] else []) ++
    (if l'.lptTapHoldTimeout != l.lptTapHoldTimeout then ["tap_hold_interval"] else []) ++
    (if k'.prevKeys != k.prevKeys then ["prev_keys"] else []) ++
    (if k'.vkeysPendingRelease != k.vkeysPendingRelease then ["vkeys_pending_release"] else []) ++
    (if k'.capsWord != k.capsWord then ["caps_word"] else []) ++
    (if k'.seq.st.active != k.seq.st.active then ["sequence_state"] else []) ++   -- [seq]
    (if k'.scroll != k.scroll || k'.hscroll != k.hscroll || k'.moveV != k.moveV || k'.moveH != k.moveH then ["mouse"] else [])

def nonQuiescent (k : KState) : List String :=
  match tickStates k with
  | .error _ => ["crash"]
  | .ok k' => nonQuiescentOf k k'

/-- chv2: the same over the layout with chords v2 (queue, active chords, cool-down) -/
def nonQuiescentV2 (s : KV2) : List String :=
  match stepTick s with
  | .error _ => ["crash"]
  | .ok s' =>
    nonQuiescentOf s.k s'.k ++
    (match s.chv2, s'.chv2 with
     | some c, some c' =>
       (if c'.queue.map (·.ev) != c.queue.map (·.ev) then ["chv2_queue"] else []) ++
       (if c'.active.length != c.active.length || !c.active.isEmpty then ["chv2_active"] else []) ++
       (if c'.ticksToIgnore != c.ticksToIgnore then ["chv2_cooldown"] else [])
     | _, _ => [])

/-- `n` milliseconds of the processing loop without input -/
def gapN : Nat → Run → Except K.Crash Run
  | 0, r => .ok r
  | n + 1, r =>
    let (s, block) := stepCanBlock r.s r.msElapsed   -- chv2
    let r := r.set s
    if block then
      let nq := nonQuiescentV2 s
      let r := if nq.isEmpty then r else { r with diag := r.diag ++ [s!"blocks at {r.vt} although a tick would change: {",".intercalate nq}"] }
      .ok { r with vt := r.vt + (n + 1) }
    else match doTick false r with
      | .error c => .error c
      | .ok r => gapN n { r with msElapsed := 1 }

/-- the loop that never blocks: it still calls `can_block_update_idle_waiting` every millisecond
(which advances the idle clock) but ticks whatever the answer -/
def gapAlways : Nat → Run → Except K.Crash Run
  | 0, r => .ok r
  | n + 1, r =>
    let (s, _) := stepCanBlock r.s r.msElapsed   -- chv2
    match doTick false (r.set s) with
    | .error c => .error c
    | .ok r => gapAlways n { r with msElapsed := 1 }

def runHist (dbg loopMode alwaysTick : Bool) : List KEv → Run → Except K.Crash Run
  | [], r => .ok r
  | e :: rest, r =>
    let step : Except K.Crash Run :=
      match e with
      | .press c =>
        match doInput r (.press c.2) with
        | .error e => .error e
        | .ok r => if loopMode then (match doTick false r with | .error e => .error e | .ok r => .ok { r with msElapsed := 1 }) else .ok r
      | .release c =>
        match doInput r (.release c.2) with
        | .error e => .error e
        | .ok r => if loopMode then (match doTick false r with | .error e => .error e | .ok r => .ok { r with msElapsed := 1 }) else .ok r
      | .rep y => doInput r (.rep y)
      | .tap y => doInput r (.tap y)
      | .fake a c =>
        match stepFake r.s a c with   -- chv2
        | .error e => .error (.layout e)
        | .ok s => .ok (r.set s)
      | .tick n => ticksN dbg n r
      | .gap n => if loopMode && !alwaysTick then gapN n r else if loopMode then gapAlways n r else ticksN false n r
    match step with
    | .error e => .error e
    | .ok r => runHist dbg loopMode alwaysTick rest r

def isLoop (h : List KEv) : Bool := h.any fun e => match e with | .gap _ => true | _ => false

def finish (r : Run) (withDigest : Bool) : String :=
  if r.risk then "unsupported oneshot-evict-chv2" else   -- chv2
  let out := r.out.push s!"I idle={if stepIsIdle r.s then 1 else 0}"
  let out := if withDigest then out.push s!"D {r.digest}" else out
  let out := if KanDyn.usesDyn r.k then out.push (KanDyn.digest r.k.dyn) else out   -- [dyn]
  " ".intercalate out.toList

def modelOut (c : Case) : String :=
  match c.unsupported with
  | some why => s!"unsupported {why}"
  | none =>
  match c.k with
  | none => "rej"
  | some k =>
    let lm := isLoop c.hist
    match runHist c.dbg lm false c.hist { c.run0 k with sched := c.sched1 } with
    | .error e => s!"crash {crashName e}"
    | .ok r =>
      if r.risk then finish r true else   -- chv2
      if lm then
        match runHist false true true c.hist { c.run0 k with sched := c.sched2 } with
        | .error e => s!"{finish r true} || STEP crash {crashName e}"
        | .ok r2 => s!"{finish r true} || STEP {finish r2 false}"
      else finish r true

def run (tag : String) (line : String) : String × String :=
  match runP (case tag) line with
  | .error e => (s!"bad-case {e}", "-")
  | .ok c => (modelOut c, "-")

end KVerif.Drv.Kan
