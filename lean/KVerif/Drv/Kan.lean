/- Kanata-level cases (`KANX …` lines written by harness/src/kan.rs): parser, runner, printer. -/
import KVerif.Drv.Lay
import KVerif.Model.Kanata
namespace KVerif.Drv.Kan
open KVerif.L KVerif.K KVerif.Drv KVerif.Drv.Cfg

def fkAction : P FkAction := do
  match (← num) with
  | 0 => pure .press | 1 => pure .release | 2 => pure .tap | _ => pure .toggle

def cact : P CAct := do
  let t ← tok
  match t with
  | "fk" => do let x ← num; let y ← num; return .fakeKey (x, y) (← fkAction)
  | "fkr" => do let x ← num; let y ← num; return .fakeKeyOnRelease (x, y) (← fkAction)
  | "fki" => do let x ← num; let y ← num; let a ← fkAction; return .fakeKeyOnIdle (x, y) a (← num)
  | "fkh" => do let x ← num; let y ← num; return .fakeKeyHold (x, y) (← num)
  | "mb" => return .mouse (← num)
  | "mt" => return .mouseTap (← num)
  | "mw" => return .mwheel (← num) (← num) (← num)
  | "mwn" => return .mwheelNotch (← num)
  | "mm" => return .moveMouse (← num) (← num)
  | "mms" => return .moveMouseSpeed (← num)
  | "rpt" => return .repeat
  | "cmr" => return .cancelMacroOnRelease
  | "cmp" => return .cancelMacroOnNextPress (← num)
  | "sac" => return .sendArbitraryCode (← num)
  | "cw" => do
    let toggle ← num; let timeout ← num
    let n ← num; let a ← rep n num
    let m ← num; let b ← rep m num
    return .capsWord a b timeout (toggle == 1)
  | "um" => do let bits ← num; let n ← num; return .unmodded (← rep n num) bits
  | "us" => do let n ← num; return .unshifted (← rep n num)
  | "rro" => return .reverseReleaseOrder
  | "uc" => return .unicode (← num)
  | "sm" => return .setMouse
  | "oth" => return .other
  | x => throw s!"bad custom action token {x}"

inductive KEv
  | press (c : Coord) | release (c : Coord) | tick (n : Nat)
  | rep (y : Nat) | tap (y : Nat) | fake (a : FkAction) (c : Coord) | gap (n : Nat)
  deriving Repr

def kev : P KEv := do
  let t ← tok
  match t with
  | "p" => do let r ← num; let y ← num; return .press (r, y)
  | "r" => do let r ← num; let y ← num; return .release (r, y)
  | "t" => return .tick (← num)
  | "rp" => return .rep (← num)
  | "tp" => return .tap (← num)
  | "fk" => do let a ← fkAction; let x ← num; let y ← num; return .fake a (x, y)
  | "gap" => return .gap (← num)
  | x => throw s!"bad history token {x}"

structure Case where
  dbg : Bool
  k : Option KState
  unsupported : Option String := none
  hist : List KEv

def khist : P (List KEv) := do
  expect "HIST"
  let n ← num
  rep n kev

def kstate : P KState := do
  let l ← layoutCfg
  expect "CUS"; let n ← num
  let customs ← rep n (do let m ← num; rep m cact)
  expect "KO"; let nl ← num
  let ko ← rep nl (do
    let cnt ← num
    rep cnt (do let y ← num; let m ← num; let outs ← rep m num; pure (y, outs)))
  expect "OVR"; let novr ← num
  let ovrRaw ← rep novr (do
    expect "I"; let ni ← num; let i ← rep ni num
    expect "O"; let no ← num; let o ← rep no num
    pure (i, o))
  -- `Override::try_new` on every pair (a pair the real parser accepted cannot fail here), then `Overrides::new`
  let ovrs := ovrRaw.filterMap fun (i, o) => match Override.Override.tryNew i o with | .ok x => some x | .error _ => none
  expect "OPT"; expect "roa"; let roa ← num; expect "smd"; let smd ← num; expect "smkt"; let smkt ← num
  expect "NOKEY"; let nokey ← num
  expect "MODS"; let mods ← rep 8 num
  expect "BTNS"; let btns ← rep 5 (do let c ← num; let b ← num; pure (c, b))
  expect "WH"; let wh ← rep 4 (do let c ← num; let d ← num; pure (c, d))
  return { layout := l, customs, keyOutputs := ko, overrides := Override.Overrides.new ovrs, overrideReleaseOnActivation := roa == 1,
           smoothDiagonals := smd == 1, switchMaxKeyTiming := smkt, lastPressedKey := nokey,
           mods := { codes := mods, lsft := mods[0]!, rsft := mods[1]! }, btnCodes := btns, wheelCodes := wh }

def case (tag : String) : P Case := do
  expect (tag ++ "X")
  let dbg ← num
  match (← peek?) with
  | some "REJECT" => do let _ ← tok; return { dbg := dbg == 1, k := none, hist := ← khist }
  | some "UNSUPPORTED" => do
    let _ ← tok; let why ← tok
    return { dbg := dbg == 1, k := none, unsupported := some why, hist := ← khist }
  | _ => do
    let k ← kstate
    return { dbg := dbg == 1, k := some k, hist := ← khist }

def fmtOs : Os → String
  | .down k => s!"d{k}"
  | .up k => s!"u{k}"
  | .btnDown b => s!"bd{b}"
  | .btnUp b => s!"bu{b}"
  | .scroll d n => s!"s{d},{n}"
  | .move d => s!"m{d}"
  | .unicode c => s!"U{c}"
  | .code c p => s!"c{c}{if p then "p" else "r"}"

def crashName : K.Crash → String
  | .layout c => s!"layout:{Lay.crashName c}"
  | .override _ => "override"
  | .underflow s => s!"underflow({s})"
  | .customId => "customId"

structure Run where
  k : KState
  vt : Nat := 0
  msElapsed : Nat := 0
  out : Array String := #[]
  diag : List String := []     -- model-side diagnosis (not part of the compared output)

/-- move what the model emitted since the last call into the trace, stamped with virtual time -/
def collectTag (tag : String) (r : Run) : Run :=
  if r.k.out.isEmpty then (if tag == "R" then { r with out := r.out.push s!"@{r.vt}R -" } else r)
  else { r with out := r.out.push s!"@{r.vt}{tag} {" ".intercalate (r.k.out.map fmtOs)}", k := { r.k with out := [] } }

def collect (r : Run) : Run := collectTag "" r

def doTick (dbg : Bool) (r : Run) : Except K.Crash Run :=
  match tickStates r.k with
  | .error c => .error c
  | .ok k =>
    let r := collect { r with k, vt := r.vt + 1 }
    .ok (if dbg then { r with out := r.out.push s!"#{r.vt} {Lay.digest r.k.layout}" } else r)

def ticksN (dbg : Bool) : Nat → Run → Except K.Crash Run
  | 0, r => .ok r
  | n + 1, r => match doTick dbg r with
    | .error c => .error c
    | .ok r => ticksN dbg n r

def doInput (r : Run) (i : Input) : Except K.Crash Run :=
  match handleInputEvent r.k i with
  | .error c => .error c
  | .ok k => .ok (collectTag (match i with | .rep _ => "R" | _ => "") { r with k })

/-- what one more tick would change although kanata says it may block (empty = quiescent);
ageing counters (history ages) are not differences -/
def nonQuiescent (k : KState) : List String :=
  match tickStates k with
  | .error _ => ["crash"]
  | .ok k' =>
    let l := k.layout
    let l' := k'.layout
    (if k'.out != k.out then ["os-output"] else []) ++
    (if l'.states != l.states then ["states"] else []) ++
    (if l'.queue.map (·.ev) != l.queue.map (·.ev) then ["queue"] else []) ++
    (if l'.waiting.isSome != l.waiting.isSome then ["waiting"] else []) ++
    (if l'.extraWaiting.length != l.extraWaiting.length || !l.extraWaiting.isEmpty then ["extra_waiting"] else []) ++
    (if l'.oneshot != l.oneshot then ["oneshot"] else []) ++
    (if l'.activeSequences != l.activeSequences then ["active_sequences"] else []) ++
    (if l'.actionQueue.length != l.actionQueue.length then ["action_queue"] else []) ++
    (if l'.lptTapHoldTimeout != l.lptTapHoldTimeout then ["tap_hold_interval"] else []) ++
    (if k'.prevKeys != k.prevKeys then ["prev_keys"] else []) ++
    (if k'.vkeysPendingRelease != k.vkeysPendingRelease then ["vkeys_pending_release"] else []) ++
    (if k'.capsWord != k.capsWord then ["caps_word"] else []) ++
    (if k'.scroll != k.scroll || k'.hscroll != k.hscroll || k'.moveV != k.moveV || k'.moveH != k.moveH then ["mouse"] else [])

/-- `n` milliseconds of the processing loop without input -/
def gapN : Nat → Run → Except K.Crash Run
  | 0, r => .ok r
  | n + 1, r =>
    let (k, block) := canBlockUpdateIdleWaiting r.k r.msElapsed
    let r := { r with k }
    if block then
      let nq := nonQuiescent k
      let r := if nq.isEmpty then r else { r with diag := r.diag ++ [s!"blocks at {r.vt} although a tick would change: {",".intercalate nq}"] }
      .ok { r with vt := r.vt + (n + 1) }
    else match doTick false r with
      | .error c => .error c
      | .ok r => gapN n { r with msElapsed := 1 }

/-- the loop that never blocks: it still calls `can_block_update_idle_waiting` every millisecond
(which advances the idle clock) but ticks whatever the answer -/
def gapAlways : Nat → Run → Except K.Crash Run
  | 0, r => .ok r
  | n + 1, r =>
    let (k, _) := canBlockUpdateIdleWaiting r.k r.msElapsed
    match doTick false { r with k } with
    | .error c => .error c
    | .ok r => gapAlways n { r with msElapsed := 1 }

def runHist (dbg loopMode alwaysTick : Bool) : List KEv → Run → Except K.Crash Run
  | [], r => .ok r
  | e :: rest, r =>
    let step : Except K.Crash Run :=
      match e with
      | .press c =>
        match doInput r (.press c.2) with
        | .error e => .error e
        | .ok r => if loopMode then (match doTick false r with | .error e => .error e | .ok r => .ok { r with msElapsed := 1 }) else .ok r
      | .release c =>
        match doInput r (.release c.2) with
        | .error e => .error e
        | .ok r => if loopMode then (match doTick false r with | .error e => .error e | .ok r => .ok { r with msElapsed := 1 }) else .ok r
      | .rep y => doInput r (.rep y)
      | .tap y => doInput r (.tap y)
      | .fake a c =>
        match fakeKeyAction r.k.layout a c with
        | .error e => .error (.layout e)
        | .ok l => .ok { r with k := { r.k with layout := l } }
      | .tick n => ticksN dbg n r
      | .gap n => if loopMode && !alwaysTick then gapN n r else if loopMode then gapAlways n r else ticksN false n r
    match step with
    | .error e => .error e
    | .ok r => runHist dbg loopMode alwaysTick rest r

def isLoop (h : List KEv) : Bool := h.any fun e => match e with | .gap _ => true | _ => false

def finish (r : Run) (withDigest : Bool) : String :=
  let out := r.out.push s!"I idle={if isIdle r.k then 1 else 0}"
  let out := if withDigest then out.push s!"D {Lay.digest r.k.layout}" else out
  " ".intercalate out.toList

def modelOut (c : Case) : String :=
  match c.unsupported with
  | some why => s!"unsupported {why}"
  | none =>
  match c.k with
  | none => "rej"
  | some k =>
    let lm := isLoop c.hist
    match runHist c.dbg lm false c.hist { k } with
    | .error e => s!"crash {crashName e}"
    | .ok r =>
      if lm then
        match runHist false true true c.hist { k } with
        | .error e => s!"{finish r true} || STEP crash {crashName e}"
        | .ok r2 => s!"{finish r true} || STEP {finish r2 false}"
      else finish r true

def run (tag : String) (line : String) : String × String :=
  match runP (case tag) line with
  | .error e => (s!"bad-case {e}", "-")
  | .ok c => (modelOut c, "-")

end KVerif.Drv.Kan
