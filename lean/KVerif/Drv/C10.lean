import KVerif.Drv.Tok
import KVerif.Model.Switch
namespace KVerif.Drv.C10
open KVerif.Switch KVerif.Drv

partial def item : P BExpr := do
  let t ← tok
  match t with
  | "k" => return .leaf (.key (← num))
  | "kh" => return .leaf (.keyHist (← num) (← num))
  | "tl" => return .leaf (.ticksLt (← num) (← num))
  | "tg" => return .leaf (.ticksGt (← num) (← num))
  | "in" => return .leaf (.input (← num) (← num))
  | "ih" => return .leaf (.inputHist (← num) (← num) (← num))
  | "ly" => return .leaf (.layer (← num))
  | "bl" => return .leaf (.baseLayer (← num))
  | "or" => do let n ← num; return .node .or (← rep n item)
  | "and" => do let n ← num; return .node .and (← rep n item)
  | "not" => do let n ← num; return .node .not (← rep n item)
  | x => throw s!"bad item token {x}"

def case1 : P (List BExpr × BrkFt) := do
  let b ← tok
  let bf ← match b with
    | "brk" => pure BrkFt.brk
    | "ft" => pure BrkFt.ft
    | x => throw s!"bad brk/ft {x}"
  expect "L"
  let n ← num
  let es ← rep n item
  return (es, bf)

def env : P Env := do
  expect "ENV"
  expect "ak"; let n ← num; let ak ← rep n num
  expect "ac"; let n ← num; let ac ← rep n (do let r ← num; let y ← num; pure (r, y))
  expect "hk"; let n ← num; let hk ← rep n (do let k ← num; let t ← num; pure (k, t))
  expect "hc"; let n ← num
  let hc ← rep n (do let r ← num; let y ← num; let t ← num; pure ((r, y), t))
  expect "ly"; let n ← num; let ly ← rep n num
  expect "dl"; let dl ← num
  return { activeKeys := ak, activeCoords := ac, histKeys := hk, histCoords := hc, layers := ly,
           defaultLayer := dl }

def parseCase : P (List (List BExpr × BrkFt) × Env) := do
  expect "C10"
  let n ← num
  let cs ← rep n case1
  let e ← env
  return (cs, e)

mutual
  partial def neOK : BExpr → Bool
    | .leaf _ => true
    | .node _ cs => !cs.isEmpty && cs.all neOK
end

def crashName : Crash → String
  | .unreachableOpcode => "unreachable" | .nextMissing => "nextMissing"
  | .stackFull => "stackFull" | .fuelOut => "fuelOut"

def fmtFire (l : List Nat) : String := "fire " ++ joinWith "," (l.map toString)

/-- returns (model output, spec output) -/
def run (line : String) : String × String :=
  match runP parseCase line with
  | .error e => (s!"bad-case {e}", "-")
  | .ok (cases, env) =>
    -- compile every case in order; the first diagnostic is the parser's answer
    let rec comp : List (List BExpr × BrkFt) → Except Diag (List (List Nat × BrkFt))
      | [] => .ok []
      | (es, bf) :: rest =>
        match compileTop es with
        | .error d => .error d
        | .ok ops => match comp rest with
          | .error d => .error d
          | .ok l => .ok ((ops, bf) :: l)
    match comp cases with
    | .error .tooDeep => ("rej tooDeep", "-")
    | .error .tooLong => ("rej tooLong", "-")
    | .ok compiled =>
      let opsStr := " ".intercalate (compiled.map fun c => joinWith "," (c.1.map toString))
      let fireStr := match firing (fun ops => evalOps ops env) 0 compiled with
        | .error c => s!"crash {crashName c}"
        | .ok l => fmtFire l
      let model := s!"ops {opsStr} | {fireStr}"
      -- the specification applies when every operator has at least one operand
      let spec :=
        if cases.all (fun c => c.1.all neOK) then
          let rec sf : Nat → List (List BExpr × BrkFt) → List Nat
            | _, [] => []
            | i, (es, bf) :: rest =>
              if denTop env es then
                match bf with
                | .brk => [i]
                | .ft => i :: sf (i + 1) rest
              else sf (i + 1) rest
          fmtFire (sf 0 cases)
        else "-"
      (model, spec)

end KVerif.Drv.C10
